(* C15, scanner half: a FRAME calculus for the scanner monad, generic in the input type and its operations.

   [Fr m] : every normal return of [m] leaves the scanner's SKELETON alone: the simple-key stack, the flow level, the
   per-collection implicit-flow-mapping stack ([sc_ifms], the field that replaced the sticky flow_mapping_started flag
   in /repo ad74b3e), the token queue, the counters and stream flags are unchanged; the indent stack is unchanged or
   has lost its non-block entries ([unroll_nb]); simple keys may have become allowed but never disallowed.

   All character-level scanners (white space, directives, tags, anchors, flow / plain / block scalars) are frames:
   whatever they read, they cannot carry anything from one document into the next except through the position.
   The file is self-contained (it does not use Proofs/ScanWP.v, whose [keeps] is the same idea over the buffered input
   with panic-freedom on top). *)
From Coq Require Import List NArith ZArith Bool Lia.
Import ListNotations.
Require Import Parser SBase SPrim SDir SScalar SFetch.

Section Frame.
Context {I : Type}.
Notation st := (sc I).
Notation M := (@M I).

Definition nbrel (a b : Z * list indent_rec) : Prop := b = a \/ b = unroll_nb (snd a) (fst a).

Definition frame (s s' : st) : Prop :=
  sc_sks s' = sc_sks s /\ sc_flow_level s' = sc_flow_level s /\ sc_ifms s' = sc_ifms s
  /\ sc_tokens s' = sc_tokens s /\ sc_tokens_parsed s' = sc_tokens_parsed s
  /\ sc_stream_start s' = sc_stream_start s /\ sc_stream_end s' = sc_stream_end s
  /\ sc_adjacent s' = sc_adjacent s /\ sc_token_available s' = sc_token_available s
  /\ (sc_ska s = true -> sc_ska s' = true)
  /\ nbrel (sc_indent s, sc_indents s) (sc_indent s', sc_indents s').

Lemma frame_refl s : frame s s.
Proof. unfold frame, nbrel. repeat split; auto. Qed.

Lemma unroll_nb_idem l ind : unroll_nb (snd (unroll_nb l ind)) (fst (unroll_nb l ind)) = unroll_nb l ind.
Proof.
  revert ind; induction l as [|i r IH]; intros ind; cbn [unroll_nb]; [reflexivity|].
  destruct (in_needs_block_end i) eqn:E; cbn [fst snd unroll_nb]; [rewrite E; reflexivity|apply IH].
Qed.

Lemma nbrel_trans a b c : nbrel a b -> nbrel b c -> nbrel a c.
Proof.
  unfold nbrel. intros [->| ->] [->| ->]; auto. right. apply unroll_nb_idem.
Qed.

Lemma frame_trans s1 s2 s3 : frame s1 s2 -> frame s2 s3 -> frame s1 s3.
Proof.
  unfold frame.
  intros (A1 & A2 & A3 & A4 & A5 & A6 & A7 & A8 & A9 & A10 & A11) (B1 & B2 & B3 & B4 & B5 & B6 & B7 & B8 & B9 & B10 & B11).
  repeat split; try congruence; [auto | eapply nbrel_trans; eauto].
Qed.

Definition Fr {A} (m : M A) : Prop := forall s a s', m s = Ok (a, s') -> frame s s'.

Lemma Fr_ret {A} (a : A) : Fr (ret a).
Proof. intros s a' s' H. inversion H; subst. apply frame_refl. Qed.
Lemma Fr_fail {A} e mk : Fr (@fail I A e mk).
Proof. intros s a s' H. discriminate. Qed.
Lemma Fr_panic {A} n : Fr (@panic I A n).
Proof. intros s a s' H. discriminate. Qed.
Lemma Fr_oof {A} : Fr (@oof I A).
Proof. intros s a s' H. discriminate. Qed.
Lemma Fr_bind {A B} (m : M A) (f : A -> M B) : Fr m -> (forall a, Fr (f a)) -> Fr (bind m f).
Proof.
  intros Hm Hf s b s'. unfold bind. destruct (m s) as [[a s1]| | |] eqn:E; try discriminate.
  intros H. eapply frame_trans; [eapply Hm; eauto | eapply Hf; eauto].
Qed.
Lemma Fr_get : Fr (@get I).
Proof. intros s a s' H. inversion H; subst. apply frame_refl. Qed.
Lemma Fr_gets {A} (f : st -> A) : Fr (gets f).
Proof. intros s a s' H. inversion H; subst. apply frame_refl. Qed.
Lemma Fr_modify f : (forall s, frame s (f s)) -> Fr (modify f).
Proof. intros Hf s a s' H. inversion H; subst. apply Hf. Qed.

Lemma frame_set_in i (s : st) : frame s (set_in i s).
Proof. unfold frame, nbrel; cbn. repeat split; auto. Qed.
Lemma frame_set_mark m (s : st) : frame s (set_mark m s).
Proof. unfold frame, nbrel; cbn. repeat split; auto. Qed.
Lemma frame_set_lws b (s : st) : frame s (set_lws b s).
Proof. unfold frame, nbrel; cbn. repeat split; auto. Qed.
Lemma frame_allow (s : st) : frame s (set_ska true s).
Proof. unfold frame, nbrel; cbn. repeat split; auto. Qed.

Context (ops : InputOps I).

Lemma Fr_look n : Fr (look ops n).
Proof.
  intros s a s'. unfold look. destruct (lookahead ops n (sc_in s)); try discriminate.
  intros H; inversion H; subst. apply frame_set_in.
Qed.
Lemma Fr_peekn n : Fr (peekn ops n).
Proof.
  intros s a s'. unfold peekn. destruct (peek_nth ops n (sc_in s)); try discriminate.
  intros H; inversion H; subst. apply frame_refl.
Qed.
Lemma Fr_peek : Fr (SPrim.peek ops).
Proof. apply Fr_peekn. Qed.
Lemma Fr_look_ch : Fr (look_ch ops).
Proof. unfold look_ch. apply Fr_bind; [apply Fr_look|intros _; apply Fr_peek]. Qed.
Lemma Fr_in_skip : Fr (in_skip ops).
Proof. apply Fr_modify. intros s. apply frame_set_in. Qed.
Lemma Fr_in_skip_n n : Fr (in_skip_n ops n).
Proof.
  intros s a s'. unfold in_skip_n. destruct (skip_n ops n (sc_in s)); try discriminate.
  intros H; inversion H; subst. apply frame_set_in.
Qed.
Lemma Fr_raw_read : Fr (raw_read ops).
Proof.
  intros s a s'. unfold raw_read. destruct (raw_read_non_breakz ops (sc_in s)) as [[c i]| | |]; try discriminate.
  intros H; inversion H; subst. apply frame_set_in.
Qed.
Lemma Fr_buf_is_empty : Fr (buf_is_empty ops).
Proof. apply Fr_gets. Qed.
Lemma Fr_assert_buflen n site : Fr (assert_buflen ops n site).
Proof.
  intros s a s'. unfold assert_buflen. destruct (Nat.ltb _ n); try discriminate.
  intros H; inversion H; subst. apply frame_refl.
Qed.
Lemma Fr_mark : Fr (@mark I).
Proof. apply Fr_gets. Qed.
Lemma Fr_adv_mark n : Fr (@adv_mark I n).
Proof. apply Fr_modify. intros s. apply frame_set_mark. Qed.
Lemma Fr_flow_level : Fr (@flow_level I).
Proof. apply Fr_gets. Qed.
Lemma Fr_allow_simple_key : Fr (@allow_simple_key I).
Proof. apply Fr_modify. intros s. apply frame_allow. Qed.
Lemma Fr_set_lws b : Fr (modify (@set_lws I b)).
Proof. apply Fr_modify. intros s. apply frame_set_lws. Qed.
Lemma Fr_is_within_block : Fr (@is_within_block I).
Proof. apply Fr_gets. Qed.
Lemma Fr_col : Fr (@col I).
Proof. apply Fr_gets. Qed.
Lemma Fr_col_lt_indent : Fr (@col_lt_indent I).
Proof. apply Fr_gets. Qed.
Lemma Fr_unroll_non_block_indents : Fr (@unroll_non_block_indents I).
Proof.
  apply Fr_modify. intros s. destruct (unroll_nb (sc_indents s) (sc_indent s)) as [ind l] eqn:E.
  unfold frame, nbrel; cbn. repeat split; auto.
Qed.
Lemma Fr_skip_nl : Fr (skip_nl ops).
Proof.
  unfold skip_nl. apply Fr_bind; [apply Fr_in_skip|]. intros _. apply Fr_modify. intros s.
  eapply frame_trans; [apply frame_set_mark|apply frame_set_lws].
Qed.

End Frame.

#[export] Hint Resolve Fr_ret Fr_fail Fr_panic Fr_oof Fr_get Fr_gets Fr_look Fr_peekn Fr_peek Fr_look_ch Fr_in_skip
  Fr_in_skip_n Fr_raw_read Fr_buf_is_empty Fr_assert_buflen Fr_mark Fr_adv_mark Fr_flow_level Fr_allow_simple_key
  Fr_set_lws Fr_is_within_block Fr_col Fr_col_lt_indent Fr_unroll_non_block_indents Fr_skip_nl : fr.

(* structural decomposition of a frame goal *)
Ltac fr1 :=
  lazymatch goal with
  | |- Fr (bind _ _) => apply Fr_bind; [|intro]
  | |- Fr (if ?b then _ else _) => destruct b
  | |- Fr (match ?x with _ => _ end) => destruct x
  | |- Fr _ => first [assumption | solve [auto with fr]]
  end.
Ltac fr := repeat fr1.

Section Frame2.
Context {I : Type} (ops : InputOps I).
Notation M := (@M I).

Lemma Fr_skip_blank : Fr (skip_blank ops).
Proof. unfold skip_blank. fr. Qed.
Lemma Fr_skip_non_blank : Fr (skip_non_blank ops).
Proof. unfold skip_non_blank. fr. Qed.
Lemma Fr_skip_n_non_blank n : Fr (skip_n_non_blank ops n).
Proof. unfold skip_n_non_blank. fr. Qed.
Lemma Fr_next_char_is c : Fr (next_char_is ops c).
Proof. unfold next_char_is. fr. Qed.
Lemma Fr_nth_char_is n c : Fr (nth_char_is ops n c).
Proof. unfold nth_char_is. fr. Qed.
Lemma Fr_next_2_are a b : Fr (next_2_are ops a b).
Proof. unfold next_2_are. fr. Qed.
Lemma Fr_next_3_are a b c : Fr (next_3_are ops a b c).
Proof. unfold next_3_are. fr. Qed.
Hint Resolve Fr_skip_blank Fr_skip_non_blank Fr_skip_n_non_blank Fr_next_char_is Fr_nth_char_is Fr_next_2_are Fr_next_3_are : fr.
Lemma Fr_next_is_document_indicator : Fr (next_is_document_indicator ops).
Proof. unfold next_is_document_indicator. fr. Qed.
Lemma Fr_next_is_document_start : Fr (next_is_document_start ops).
Proof. unfold next_is_document_start. fr. Qed.
Lemma Fr_next_is_document_end : Fr (next_is_document_end ops).
Proof. unfold next_is_document_end. fr. Qed.
Lemma Fr_next_is p : Fr (next_is ops p).
Proof. unfold next_is. fr. Qed.
Lemma Fr_next_can_be_plain_scalar b : Fr (next_can_be_plain_scalar ops b).
Proof. unfold next_can_be_plain_scalar. fr. Qed.
Lemma Fr_skip_linebreak : Fr (skip_linebreak ops).
Proof. unfold skip_linebreak. fr. Qed.
Lemma Fr_skip_break : Fr (skip_break ops).
Proof. unfold skip_break. fr. Qed.
Hint Resolve Fr_next_is_document_indicator Fr_next_is_document_start Fr_next_is_document_end Fr_next_is
  Fr_next_can_be_plain_scalar Fr_skip_linebreak Fr_skip_break : fr.

Lemma Fr_in_skip_ws_to_eol fuel : forall stb tab ws n, Fr (in_skip_ws_to_eol ops fuel stb tab ws n).
Proof.
  induction fuel as [|fuel IH]; intros stb tab ws n; cbn [in_skip_ws_to_eol]; [apply Fr_oof|].
  assert (HC : forall f k, Fr ((fix comment (f : nat) (k : N) : M (N * option (bool * bool)) :=
           match f with
           | O => oof
           | S f => bind (look_ch ops) (fun c => if is_breakz c then in_skip_ws_to_eol ops fuel stb tab ws (k + 1)
                                    else bind (in_skip ops) (fun _ => comment f (k + 1)))
           end) f k)).
  { induction f as [|f IHf]; intros k; [apply Fr_oof|]. fr. }
  fr.
Qed.
Hint Resolve Fr_in_skip_ws_to_eol : fr.

Lemma Fr_in_skip_while fuel p : Fr (in_skip_while ops fuel p).
Proof.
  unfold in_skip_while. generalize 0%N. induction fuel as [|f IH]; intros k; [apply Fr_oof|]. fr.
Qed.
Lemma Fr_in_fetch_while_alpha fuel acc : Fr (in_fetch_while_alpha ops fuel acc).
Proof.
  unfold in_fetch_while_alpha. generalize 0%N. revert acc. induction fuel as [|f IH]; intros acc k; [apply Fr_oof|]. fr.
Qed.
Hint Resolve Fr_in_skip_while Fr_in_fetch_while_alpha : fr.
Lemma Fr_in_skip_while_non_breakz fuel : Fr (in_skip_while_non_breakz ops fuel).
Proof. apply Fr_in_skip_while. Qed.
Lemma Fr_in_skip_while_blank fuel : Fr (in_skip_while_blank ops fuel).
Proof. apply Fr_in_skip_while. Qed.
Hint Resolve Fr_in_skip_while_non_breakz Fr_in_skip_while_blank : fr.

Lemma Fr_skip_ws_to_eol fuel stb : Fr (skip_ws_to_eol ops fuel stb).
Proof. unfold skip_ws_to_eol. fr. Qed.
Hint Resolve Fr_skip_ws_to_eol : fr.

Lemma Fr_skip_to_next_token fuel : Fr (skip_to_next_token ops fuel).
Proof. induction fuel as [|f IH]; cbn [skip_to_next_token]; [apply Fr_oof|]. fr. Qed.

Lemma Fr_skip_yaml_whitespace fuel : Fr (skip_yaml_whitespace ops fuel).
Proof.
  unfold skip_yaml_whitespace. generalize true. generalize fuel at 2. intros f.
  induction f as [|f IH]; intros need; [apply Fr_oof|]. fr.
Qed.
Hint Resolve Fr_skip_to_next_token Fr_skip_yaml_whitespace : fr.

End Frame2.

#[export] Hint Resolve Fr_skip_blank Fr_skip_non_blank Fr_skip_n_non_blank Fr_next_char_is Fr_nth_char_is Fr_next_2_are
  Fr_next_3_are Fr_next_is_document_indicator Fr_next_is_document_start Fr_next_is_document_end Fr_next_is
  Fr_next_can_be_plain_scalar Fr_skip_linebreak Fr_skip_break Fr_in_skip_ws_to_eol Fr_in_skip_while
  Fr_in_fetch_while_alpha Fr_in_skip_while_non_breakz Fr_in_skip_while_blank Fr_skip_ws_to_eol Fr_skip_to_next_token
  Fr_skip_yaml_whitespace : fr.

(* ---------------- directives, tags, anchors (Model/SDir.v) ---------------- *)
Ltac fr_fix :=
  let H := fresh "HF" in
  lazymatch goal with
  | |- Fr (?g _ _ _ _ _ _) => assert (H : forall n x1 x2 x3 x4 x5, Fr (g n x1 x2 x3 x4 x5))
  | |- Fr (?g _ _ _ _ _) => assert (H : forall n x1 x2 x3 x4, Fr (g n x1 x2 x3 x4))
  | |- Fr (?g _ _ _ _) => assert (H : forall n x1 x2 x3, Fr (g n x1 x2 x3))
  | |- Fr (?g _ _ _) => assert (H : forall n x1 x2, Fr (g n x1 x2))
  | |- Fr (?g _ _) => assert (H : forall n x1, Fr (g n x1))
  | |- Fr (?g _) => assert (H : forall n, Fr (g n))
  end;
  [ let n := fresh "n" in let IH := fresh "IH" in intros n; induction n as [|n IH]; intros; [apply Fr_oof|] | apply H ].

Section Frame3.
Context {I : Type} (ops : InputOps I).
Notation M := (@M I).
Variable F : nat.

Lemma Fr_scan_uri_escapes mk : Fr (scan_uri_escapes ops mk).
Proof. unfold scan_uri_escapes. fr. all: fr_fix; fr. Qed.
Hint Resolve Fr_scan_uri_escapes : fr.
Lemma Fr_scan_tag_handle d mk : Fr (scan_tag_handle ops F d mk).
Proof. unfold scan_tag_handle. fr. Qed.
Lemma Fr_uri_loop p mk acc : Fr (uri_loop ops F p mk acc).
Proof. unfold uri_loop. fr_fix. fr. Qed.
Hint Resolve Fr_scan_tag_handle Fr_uri_loop : fr.
Lemma Fr_scan_tag_prefix mk : Fr (scan_tag_prefix ops F mk).
Proof. unfold scan_tag_prefix. fr. Qed.
Lemma Fr_scan_verbatim_tag mk : Fr (scan_verbatim_tag ops F mk).
Proof. unfold scan_verbatim_tag. fr. Qed.
Lemma Fr_scan_tag_shorthand_suffix h mk : Fr (scan_tag_shorthand_suffix ops F h mk).
Proof. unfold scan_tag_shorthand_suffix. fr. Qed.
Hint Resolve Fr_scan_tag_prefix Fr_scan_verbatim_tag Fr_scan_tag_shorthand_suffix : fr.
Lemma Fr_scan_tag : Fr (scan_tag ops F).
Proof. unfold scan_tag. fr. Qed.
Lemma Fr_scan_anchor alias : Fr (scan_anchor ops F alias).
Proof. unfold scan_anchor. fr. fr_fix. fr. Qed.
Lemma Fr_scan_version_directive_number mk : Fr (scan_version_directive_number ops F mk).
Proof. unfold scan_version_directive_number. fr_fix. fr. Qed.
Hint Resolve Fr_scan_version_directive_number : fr.
Lemma Fr_scan_version_directive_value mk : Fr (scan_version_directive_value ops F mk).
Proof. unfold scan_version_directive_value. fr. Qed.
Lemma Fr_scan_tag_directive_value mk : Fr (scan_tag_directive_value ops F mk).
Proof. unfold scan_tag_directive_value. fr. Qed.
Lemma Fr_scan_directive_name : Fr (scan_directive_name ops F).
Proof. unfold scan_directive_name. fr. Qed.
Hint Resolve Fr_scan_version_directive_value Fr_scan_tag_directive_value Fr_scan_directive_name : fr.
Lemma Fr_scan_directive : Fr (scan_directive ops F).
Proof. unfold scan_directive. fr. Qed.

(* ---------------- flow, plain and block scalars (Model/SScalar.v) ---------------- *)
Lemma Fr_read_hex n : forall i acc start, Fr (read_hex ops n i acc start).
Proof. induction n as [|n IH]; intros; cbn [read_hex]; fr. Qed.
Hint Resolve Fr_read_hex : fr.
Lemma Fr_resolve_escape start : Fr (resolve_escape ops start).
Proof. unfold resolve_escape. fr. Qed.
Hint Resolve Fr_resolve_escape : fr.
Lemma Fr_consume_nonws fuel : forall single acc start, Fr (consume_nonws ops fuel single acc start).
Proof. induction fuel as [|f IH]; intros; cbn [consume_nonws]; fr. Qed.
Lemma Fr_flow_blanks fuel : forall lbl lb tb ws, Fr (flow_blanks ops fuel lbl lb tb ws).
Proof. induction fuel as [|f IH]; intros; cbn [flow_blanks]; fr. Qed.
Hint Resolve Fr_consume_nonws Fr_flow_blanks : fr.
Lemma Fr_scan_flow_scalar single : Fr (scan_flow_scalar ops F single).
Proof. unfold scan_flow_scalar. fr. fr_fix. fr. Qed.

Lemma Fr_plain_chunk fuel : forall j acc, Fr (plain_chunk ops fuel j acc).
Proof. induction fuel as [|f IH]; intros; cbn [plain_chunk]; fr. Qed.
Lemma Fr_plain_blanks fuel : forall indent start lb tb ws, Fr (plain_blanks ops F fuel indent start lb tb ws).
Proof. induction fuel as [|f IH]; intros; cbn [plain_blanks]; fr. Qed.
Hint Resolve Fr_plain_chunk Fr_plain_blanks : fr.
Lemma Fr_scan_plain_scalar : Fr (scan_plain_scalar ops F).
Proof. unfold scan_plain_scalar. fr. fr_fix. fr. Qed.

Lemma Fr_scan_block_scalar_content_line acc : Fr (scan_block_scalar_content_line ops F acc).
Proof. unfold scan_block_scalar_content_line. fr. fr_fix. fr. fr_fix. fr. Qed.
Lemma Fr_skip_spaces_to fuel : forall indent cb, Fr (skip_spaces_to ops fuel indent cb).
Proof. induction fuel as [|f IH]; intros; cbn [skip_spaces_to]; fr. Qed.
Hint Resolve Fr_scan_block_scalar_content_line Fr_skip_spaces_to : fr.
Lemma Fr_skip_block_scalar_indent fuel : forall indent breaks, Fr (skip_block_scalar_indent ops F fuel indent breaks).
Proof. induction fuel as [|f IH]; intros; cbn [skip_block_scalar_indent]; fr. fr_fix. fr. Qed.
Lemma Fr_skip_first_line_indent fuel : forall maxi breaks, Fr (skip_first_line_indent ops F fuel maxi breaks).
Proof. induction fuel as [|f IH]; intros; cbn [skip_first_line_indent]; fr. fr_fix. fr. Qed.
Hint Resolve Fr_skip_block_scalar_indent Fr_skip_first_line_indent : fr.
Lemma Fr_scan_block_scalar literal : Fr (scan_block_scalar ops F literal).
Proof. unfold scan_block_scalar. fr. fr_fix. fr. Qed.

End Frame3.

#[export] Hint Resolve Fr_scan_tag Fr_scan_anchor Fr_scan_directive Fr_scan_flow_scalar Fr_scan_plain_scalar
  Fr_scan_block_scalar : fr.

(* all character-level scanners at once *)
Theorem char_scanners_are_frames {I : Type} (ops : InputOps I) (F : nat) :
  Fr (skip_to_next_token ops F) /\ Fr (skip_ws_to_eol ops F SkipYes) /\ Fr (skip_yaml_whitespace ops F)
  /\ Fr (scan_directive ops F) /\ Fr (scan_tag ops F) /\ (forall alias, Fr (scan_anchor ops F alias))
  /\ (forall single, Fr (scan_flow_scalar ops F single)) /\ Fr (scan_plain_scalar ops F)
  /\ (forall literal, Fr (scan_block_scalar ops F literal)).
Proof.
  split; [apply Fr_skip_to_next_token|]. split; [apply Fr_skip_ws_to_eol|]. split; [apply Fr_skip_yaml_whitespace|].
  split; [apply Fr_scan_directive|]. split; [apply Fr_scan_tag|]. split; [intros; apply Fr_scan_anchor|].
  split; [intros; apply Fr_scan_flow_scalar|]. split; [apply Fr_scan_plain_scalar|]. intros; apply Fr_scan_block_scalar.
Qed.
