(* PORT of ScanRelPlain.v to the fuel-transfer calculus of ScanFuelBuf.v (see there): [rwp] is [rwpN N0]; the base case of
   every lockstep loop is closed by the STRING side's [oof]; the loops that are not in lockstep get a fuel hypothesis.
   HERE: [rel_plain_chunk] - the buffered side refreshes every [cap - 1] characters (every 7 for cap = 8) instead of
   every 127; its fuel f2 must satisfy [2 * |remaining text| + (1 if a refresh is pending) < f2]: every iteration but a
   refresh consumes a character that is really there (not blank / break / NUL), and a refresh is followed by a consuming
   or final iteration.  The call site gets it from the calculus' bound ([rwp_bound]) and [2 * N0 + 6 <= F], the new
   premise of [rel_scan_plain_scalar]. *)
(* Joint proof "the scanner over the buffered input computes what the scanner over the string input computes"
   (see SCANREL.md): the PLAIN SCALAR family

     scan_plain_scalar_ok : rel_scan_plain_scalar cap N0              (after the section: [forall cap, 8 <= cap -> ...])

   The word loop of scan_plain_scalar (a local [fix go] of the model) is restated as the top-level Fixpoint
   [plain_go], generic in [ops] (one definition serves both back-ends; [scan_plain_scalar_eq] by reflexivity).

   Everything is in lockstep but [plain_chunk]: it refreshes the lookahead ([look bufmaxlen]) when its chunk counter
   reaches [bufmaxlen - 1], and [bufmaxlen] is 128 on the string side and [cap] on the buffered side.  The chunk lemma
   [rel_plain_chunk] is therefore stated for two independent fuels and two independent chunk counters; the only
   invariant is the one of the buffered side ([cap - j2 <= bl2 s2]: at counter [j2] the buffer still holds at least
   [cap - j2] characters - the panic-freedom invariant of ScanSafePlain.v); a refresh is a step of one side alone
   (the string side's only bumps its lookahead counter, the buffered side's refills the buffer) and does not move the
   relation [SR].  The string side's counter [j1] is unconstrained: its reads never depend on the lookahead. *)
From Coq Require Import List NArith ZArith Bool Arith Lia.
Import ListNotations.
Require Import Parser SBase SPrim SDir SScalar SFetch SBuf InputRefine ScanFuelBuf ScanFuelBufPrim.
Local Open Scope nat_scope.
#[local] Arguments Nat.ltb : simpl never.
#[local] Arguments Nat.leb : simpl never.
#[local] Arguments Nat.eqb : simpl never.
#[local] Arguments Nat.sub : simpl never.

(* ---------------- the main loop of scan_plain_scalar (a local [fix] in the model), restated, generic in ops ---- *)
Section Go.
Context {I : Type} (ops : InputOps I).
Variables (F : nat) (indent : Z) (start : marker).
Local Open Scope N_scope.
Local Open Scope mon_scope.
Fixpoint plain_go (f : nat) (acc : list chr) (lb : bool) (tb : N) (ws : list chr) (endm : marker) {struct f}
    : @M I (list chr * marker) :=
  match f with
  | O => oof
  | S f =>
    look ops 4 ;;;
    s <- get ;;
    di <- (if sc_lws s && (m_col (sc_mark s) =? 0) then next_is_document_indicator ops else ret false) ;;
    c <- peek ops ;;
    if di || (c =? 35) then ret (acc, endm) else
    nc <- peekn ops 1 ;;
    let fl := 0 <? sc_flow_level s in
    if (match acc with [] => true | _ => false end) && fl && (c =? 45) && is_flow nc then fail 76 (sc_mark s) else
    cb <- (if is_blank_or_breakz c then ret false else next_can_be_plain_scalar ops fl) ;;
    r <- (if cb then
            let '(acc, lb, tb, ws) :=
              if sc_lws s then
                (if negb lb then (nls tb acc, false, 0, ws)
                 else if tb =? 0 then (32 :: acc, false, 0, ws)
                 else (nls tb acc, false, 0, ws))
              else (ws ++ acc, lb, tb, []) in
            modify (set_lws false) ;;;
            skip_non_blank ops ;;;
            look ops (bufmaxlen ops) ;;;
            acc <- plain_chunk ops F 0 (c :: acc) ;;
            m <- mark ;; ret (acc, lb, tb, ws, m)
          else ret (acc, lb, tb, ws, endm)) ;;
    let '(acc, lb, tb, ws, endm) := r in
    c <- peek ops ;;
    if negb (is_blank c || is_break c) then ret (acc, endm) else
    look ops 2 ;;;
    r <- plain_blanks ops F F indent start lb tb ws ;;
    let '(lb, tb, ws) := r in
    s <- get ;;
    if (sc_flow_level s =? 0) && (Z.of_N (m_col (sc_mark s)) <? indent)%Z then ret (acc, endm)
    else plain_go f acc lb tb ws endm
  end.

End Go.

Local Open Scope mon_scope.

Lemma scan_plain_scalar_eq {I} (ops : InputOps I) F :
  scan_plain_scalar ops F =
  (unroll_non_block_indents ;;;
   s0 <- get ;;
   let indent := (sc_indent s0 + 1)%Z in
   let start := sc_mark s0 in
   if ((0 <? sc_flow_level s0)%N && (Z.of_N (m_col start) <? indent)%Z)%bool then fail 75%N start else
   r <- plain_go ops F indent start F [] false 0%N [] start ;;
   s <- get ;;
   (if sc_lws s then allow_simple_key else ret tt) ;;;
   match fst r with
   | [] => fail 78%N start
   | _ => ret ({| sp_start := start; sp_end := snd r |}, TScalar Plain (rev (fst r)))
   end).
Proof. reflexivity. Qed.

(* one round of the chunked loop *)
Lemma plain_chunk_S {I} (ops : InputOps I) fuel j acc :
  plain_chunk ops (S fuel) j acc =
  (if Nat.leb (bufmaxlen ops - 1) j then look ops (bufmaxlen ops) ;;; plain_chunk ops fuel 0 acc
   else
     b <- next_is ops is_blank_or_breakz ;; s <- get ;;
     cb <- (if b then ret false else next_can_be_plain_scalar ops (0 <? sc_flow_level s)%N) ;;
     if (b || negb cb)%bool then ret acc
     else c <- peek ops ;; skip_non_blank ops ;;; plain_chunk ops fuel (S j) (c :: acc)).
Proof. reflexivity. Qed.

Section RelPlain.
Variable cap : nat.
Hypothesis cap_ge : 8 <= cap.
Variable N0 : nat.
Local Notation rwp := (rwpN N0).
Notation sops := str_ops.
Notation bops := (buf_ops cap).

(* ---------------- the refresh [look bufmaxlen]: 128 characters asked on the string side, cap on the buffered side;
   each side steps alone ---------------- *)
Lemma rwp_look_bufmax (Q : unit -> st1 -> unit -> st2 -> Prop) s1 s2 :
  SR s1 s2 ->
  (forall t1 t2, SR t1 t2 -> rem1 t1 = rem1 s1 -> erase t1 = erase s1 -> cap <= bl2 t2 -> bl2 s2 <= bl2 t2 -> Q tt t1 tt t2) ->
  rwp (look sops (bufmaxlen sops)) (look bops (bufmaxlen bops)) Q s1 s2.
Proof using cap_ge.
  intros HS HQ. change (bufmaxlen bops) with cap.
  destruct (look_buf_ok cap cap_ge cap s1 s2 HS (le_n _)) as (t2 & EL & HT & BT & BT').
  intros B. unfold rwpN. rewrite EL, look_str_ok. split; [exact B|].
  apply HQ; [apply SR_bump; exact HT|apply rem1_bump|apply erase_bump|exact BT|exact BT'].
Qed.

(* ---------------- plain_chunk: NOT in lockstep ----------------
   two fuels, two chunk counters; invariant of the buffered side only: [cap - j2 <= bl2 s2].
   On exit the same characters have been collected, the states are related and 2 characters are still buffered. *)
Definition chunk_post : list chr -> st1 -> list chr -> st2 -> Prop :=
  fun a1 t1 a2 t2 => a1 = a2 /\ SR t1 t2 /\ 2 <= bl2 t2.

(* The buffered side's fuel: every iteration consumes a character that is really there, but for the refresh, which
   happens at most once every [cap - 1 >= 7] characters and is followed by a consuming (or final) iteration: with
   [n] characters left, [2 * n + (1 if a refresh is pending)] iterations are enough. *)
Lemma rel_plain_chunk : forall f1 f2 j1 j2 acc s1 s2, SR s1 s2 -> cap - j2 <= bl2 s2 ->
  2 * length (rem1 s1) + (if Nat.leb (cap - 1) j2 then 1 else 0) < f2 ->
  rwp (plain_chunk sops f1 j1 acc) (plain_chunk bops f2 j2 acc) chunk_post s1 s2.
Proof using cap_ge.
  induction f1 as [|f1 IH1]; [intros; apply rwp_oof_l|].
  induction f2 as [|f2 IH2]; [intros j1 j2 acc s1 s2 HS HB HF; exfalso; lia|].
  intros j1 j2 acc s1 s2 HS HB HF.
  destruct (Nat.leb (cap - 1) j2) eqn:E2.
  { (* the buffered side refreshes, alone: [look cap] refills the buffer, the relation does not move *)
    rewrite (plain_chunk_S bops). change (bufmaxlen bops) with cap. rewrite E2.
    destruct (look_buf_ok cap cap_ge cap s1 s2 HS (le_n _)) as (t2 & EL & HT & BT & _).
    eapply rwp_step_r; [exact EL|]. apply IH2; [exact HT|lia|].
    replace (Nat.leb (cap - 1) 0) with false by (symmetry; apply Nat.leb_gt; lia). lia. }
  destruct (Nat.leb (bufmaxlen sops - 1) j1) eqn:E1.
  { (* the string side refreshes, alone: only its lookahead counter moves *)
    rewrite (plain_chunk_S sops). rewrite E1.
    eapply rwp_step_l; [apply look_str_ok|rewrite rem1_bump; apply le_n|].
    apply IH1; [apply SR_bump; exact HS|exact HB|rewrite rem1_bump, E2; exact HF]. }
  (* both sides examine and consume the same character *)
  rewrite (plain_chunk_S sops), (plain_chunk_S bops). rewrite E1. change (bufmaxlen bops) with cap. rewrite E2.
  apply Nat.leb_gt in E2.
  apply rwp_bind. apply (rwp_next_is cap cap_ge); [exact HS|lia|]. cbv beta.
  apply rwp_bind. apply rwp_get. cbv beta. sr_sync HS.
  destruct (is_blank_or_breakz (rn1 s1 0)) eqn:Eb.
  - apply rwp_bind. apply rwp_ret. cbn [orb]. apply rwp_ret. split; [reflexivity|]. split; [exact HS|lia].
  - apply rwp_bind. apply (rwp_next_can_be_plain_scalar cap cap_ge); [exact HS|lia|]. cbn [orb].
    destruct (plain_ok_val (0 <? sc_flow_level s1)%N s1); cbn [negb].
    + apply rwp_bind. apply (rwp_peek cap cap_ge); [exact HS|lia|]. cbv beta.
      apply rwp_bind. apply (rwp_skip_non_blank cap cap_ge); [exact HS|lia|]. intros t1 t2 HT RT BT.
      apply IH1; [exact HT|lia|].
      (* the character consumed is not NUL: it is really there *)
      assert (Hpos : 0 < length (rem1 s1)).
      { unfold rn1 in Eb. destruct (rem1 s1); [discriminate Eb|cbn; lia]. }
      assert (Hlen : S (length (rem1 t1)) = length (rem1 s1)) by (rewrite RT; destruct (rem1 s1); cbn in *; lia).
      destruct (Nat.leb (cap - 1) (S j2)); lia.
    + apply rwp_ret. split; [reflexivity|]. split; [exact HS|lia].
Qed.

(* ---------------- plain_blanks: blanks and breaks between the words (lockstep) ---------------- *)
Lemma rel_plain_blanks F : forall fuel indent start lb tb ws s1 s2, SR s1 s2 -> 2 <= bl2 s2 ->
  rwp (plain_blanks sops F fuel indent start lb tb ws) (plain_blanks bops F fuel indent start lb tb ws) (rpost 0) s1 s2.
Proof using cap_ge.
  induction fuel as [|fuel IH]; intros indent start lb tb ws s1 s2 HS HB; cbn [plain_blanks]; [apply rwp_oof_l|].
  apply rwp_bind. apply (rwp_peek cap cap_ge); [exact HS|lia|]. cbv beta.
  assert (Hblank : forall ws',
            rwp (skip_blank sops ;;; look sops 2 ;;; plain_blanks sops F fuel indent start lb tb ws')
                (skip_blank bops ;;; look bops 2 ;;; plain_blanks bops F fuel indent start lb tb ws') (rpost 0) s1 s2).
  { intros ws'. apply rwp_bind. apply (rwp_skip_blank cap cap_ge); [exact HS|lia|]. intros u1 u2 HU _ _.
    apply rwp_bind. apply (rwp_look cap cap_ge); [exact HU|lia|]. intros v1 v2 HV _ _ BV _. apply IH; assumption. }
  destruct (is_blank (rn1 s1 0)) eqn:Eb.
  - apply rwp_bind. apply rwp_get. cbv beta. sr_sync HS.
    destruct (negb (sc_lws s1)); [apply Hblank|].
    destruct ((Z.of_N (m_col (sc_mark s1)) <? indent)%Z && (rn1 s1 0 =? 9)%N); [|apply Hblank].
    (* a tab in the indentation *)
    eapply rwp_bind_rpost; [apply (skip_ws_to_eol_ok cap cap_ge); exact HS|]. intros tw u1 u2 HU BU.
    apply rwp_bind. apply (rwp_next_is cap cap_ge); [exact HU|exact BU|]. cbv beta.
    destruct (is_breakz (rn1 u1 0)); [|apply rwp_fail; reflexivity].
    apply rwp_bind. apply (rwp_look cap cap_ge); [exact HU|lia|]. intros v1 v2 HV _ _ BV _. apply IH; assumption.
  - destruct (is_break (rn1 s1 0)) eqn:Ek; [|apply rwp_ret_rpost; [exact HS|lia]].
    apply rwp_bind. apply rwp_get. cbv beta. sr_sync HS.
    destruct (sc_lws s1).
    + apply rwp_bind. apply (rwp_skip_break cap cap_ge); [exact HS|exact HB|]. intros u1 u2 HU _ _ _.
      apply rwp_bind. apply (rwp_look cap cap_ge); [exact HU|lia|]. intros v1 v2 HV _ _ BV _. apply IH; assumption.
    + apply rwp_bind. apply (rwp_skip_break cap cap_ge); [exact HS|exact HB|]. intros u1 u2 HU _ _ _.
      apply rwp_bind. apply rwp_modify_skel; [rel_skel|reflexivity|reflexivity|]. intros w1 w2 HW _ _.
      apply rwp_bind. apply (rwp_look cap cap_ge); [exact HW|lia|]. intros v1 v2 HV _ _ BV _. apply IH; assumption.
Qed.

(* ---------------- the word loop (lockstep but for the chunk refreshes inside plain_chunk) ---------------- *)
Lemma rel_plain_go F indent start : 2 * N0 + 6 <= F -> forall f acc lb tb ws endm s1 s2, SR s1 s2 ->
  rwp (plain_go sops F indent start f acc lb tb ws endm) (plain_go bops F indent start f acc lb tb ws endm)
      (rpost 0) s1 s2.
Proof using cap_ge.
  intros HF. induction f as [|f IH]; intros acc lb tb ws endm s1 s2 HS; cbn [plain_go]; [apply rwp_oof_l|].
  apply rwp_bind. apply (rwp_look cap cap_ge); [exact HS|lia|]. intros u1 u2 HU _ _ BU _.
  apply rwp_bind. apply rwp_get. cbv beta. sr_sync HU.
  apply rwp_bind.
  match goal with |- rwp _ _ ?Q _ _ => assert (HQ : forall di, Q di u1 di u2) end.
  2:{ destruct (sc_lws u1 && (m_col (sc_mark u1) =? 0)%N);
      [apply (rwp_next_is_document_indicator cap cap_ge); [exact HU|lia|apply HQ] | apply rwp_ret; exact (HQ false)]. }
  intros di. cbv beta.
  apply rwp_bind. apply (rwp_peek cap cap_ge); [exact HU|lia|]. cbv beta.
  destruct (di || (rn1 u1 0 =? 35)%N); [apply rwp_ret_rpost; [exact HU|lia]|].
  apply rwp_bind. apply (rwp_peekn cap cap_ge); [exact HU|lia|]. cbv beta zeta.
  match goal with |- rwp (if ?b then _ else _) _ _ _ _ => destruct b end; [apply rwp_fail; reflexivity|].
  apply rwp_bind.
  match goal with |- rwp _ _ ?Q _ _ => assert (HQ : forall cb, Q cb u1 cb u2) end.
  2:{ destruct (is_blank_or_breakz (rn1 u1 0));
      [apply rwp_ret; exact (HQ false) | apply (rwp_next_can_be_plain_scalar cap cap_ge); [exact HU|lia|apply HQ]]. }
  intros cb. cbv beta.
  apply rwp_bind.
  (* what happens after the word has been consumed: one buffered character is enough *)
  match goal with |- rwp _ _ ?Q _ _ => assert (HQ : forall r v1 v2, SR v1 v2 -> 1 <= bl2 v2 -> Q r v1 r v2) end.
  { intros [[[[acc' lb'] tb'] ws'] endm'] v1 v2 HV BV. cbv beta iota.
    apply rwp_bind. apply (rwp_peek cap cap_ge); [exact HV|exact BV|]. cbv beta.
    destruct (negb (is_blank (rn1 v1 0) || is_break (rn1 v1 0))); [apply rwp_ret_rpost; [exact HV|lia]|].
    apply rwp_bind. apply (rwp_look cap cap_ge); [exact HV|lia|]. intros w1 w2 HW _ _ BW _.
    eapply rwp_bind_rpost; [apply rel_plain_blanks; [exact HW|exact BW]|]. intros [[lb2 tb2] ws2] x1 x2 HX _.
    cbv beta iota.
    apply rwp_bind. apply rwp_get. cbv beta. sr_sync HX.
    match goal with |- rwp (if ?b then _ else _) _ _ _ _ => destruct b end; [apply rwp_ret_rpost; [exact HX|lia]|].
    apply IH. exact HX. }
  destruct cb; [|apply rwp_ret; refine (HQ (acc, lb, tb, ws, endm) u1 u2 HU _); lia].
  match goal with |- rwp _ _ ?Q' _ _ =>
    assert (HW : forall a1 l1 t1 w1,
      rwp (modify (set_lws false) ;;; skip_non_blank sops ;;; look sops (bufmaxlen sops) ;;;
           acc0 <- plain_chunk sops F 0 (rn1 u1 0 :: a1) ;; m <- mark ;; ret (acc0, l1, t1, w1, m))
          (modify (set_lws false) ;;; skip_non_blank bops ;;; look bops (bufmaxlen bops) ;;;
           acc0 <- plain_chunk bops F 0 (rn1 u1 0 :: a1) ;; m <- mark ;; ret (acc0, l1, t1, w1, m)) Q' u1 u2) end.
  { intros a1 l1 t1 w1.
    apply rwp_bind. apply rwp_modify_skel; [rel_skel|reflexivity|reflexivity|]. intros v1 v2 HV _ BV.
    apply rwp_bind. apply (rwp_skip_non_blank cap cap_ge); [exact HV|lia|]. intros x1 x2 HX _ _.
    apply rwp_bind. apply rwp_look_bufmax; [exact HX|]. intros y1 y2 HY _ _ BY _.
    apply rwp_bind. apply rwp_bound. intros BY1. eapply rwp_mono; [apply rel_plain_chunk; [exact HY|lia|]|].
    { replace (Nat.leb (cap - 1) 0) with false by (symmetry; apply Nat.leb_gt; lia). lia. }
    intros acc1 z1 acc2 z2 (<- & HZ & BZ).
    apply rwp_bind. apply rwp_mark; [exact HZ|]. apply rwp_ret.
    refine (HQ (acc1, l1, t1, w1, sc_mark z1) z1 z2 HZ _). lia. }
  destruct (sc_lws u1); [destruct (negb lb); [|destruct (tb =? 0)%N]|]; exact (HW _ _ _ _).
Qed.

(* ---------------- the contract ---------------- *)
Theorem scan_plain_scalar_ok : rel_scan_plain_scalar cap N0.
Proof using cap_ge.
  unfold rel_scan_plain_scalar. intros F s1 s2 HF HS.
  rewrite (scan_plain_scalar_eq sops), (scan_plain_scalar_eq bops).
  apply rwp_bind. apply rwp_unroll_non_block_indents; [exact HS|]. intros u1 u2 HU _ _.
  apply rwp_bind. apply rwp_get. cbv beta zeta. sr_sync HU.
  match goal with |- rwp (if ?b then _ else _) _ _ _ _ => destruct b end; [apply rwp_fail; reflexivity|].
  eapply rwp_bind_rpost; [apply rel_plain_go; [exact HF|exact HU]|]. intros r v1 v2 HV _.
  apply rwp_bind. apply rwp_get. cbv beta. sr_sync HV.
  apply rwp_bind.
  match goal with |- rwp _ _ ?Q _ _ => assert (HQ : forall w1 w2, SR w1 w2 -> Q tt w1 tt w2) end.
  { intros w1 w2 HW. destruct (fst r); [apply rwp_fail; reflexivity|apply rwp_ret_rpost; [exact HW|lia]]. }
  destruct (sc_lws v1).
  - apply rwp_allow_simple_key; [exact HV|]. intros w1 w2 HW _ _. apply HQ. exact HW.
  - apply rwp_ret. apply HQ. exact HV.
Qed.

End RelPlain.

Print Assumptions scan_plain_scalar_ok.
