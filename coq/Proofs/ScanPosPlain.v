(* Joint proof "every position the scanner reports is a true position" (see SCANPOS.md): the PLAIN SCALAR family
   (scan_plain_scalar, its chunked word loop plain_chunk and its blank/break loop plain_blanks).
   Every character the word loops consume with skip_non_blank has just been seen NOT to be a blank, break or NUL;
   every skip_blank follows is_blank c, every skip_break follows is_break c; the span of the token is
   start .. endm where both are marks captured while the position invariant held. *)
From Coq Require Import List NArith ZArith Bool Arith Lia.
Import ListNotations.
Require Import Parser SBase SPrim SDir SScalar SFetch Positions ScanPos ScanPosPrim.
Local Open Scope nat_scope.

Arguments Nat.ltb : simpl never.
Arguments Nat.leb : simpl never.
Arguments Nat.eqb : simpl never.
Arguments Nat.sub : simpl never.

(* ---------------- pure look-ups: the state is untouched, any answer must be handled ---------------- *)
Lemma swp_next_is E p (Q : bool -> sst -> Prop) s : Q (p (rnth s 0)) s -> swp E (next_is str_ops p) Q s.
Proof. intros H. unfold next_is. apply swp_bind. apply swp_peek. apply swp_ret. exact H. Qed.

Lemma swp_next_can_be_plain_scalar E fl (Q : bool -> sst -> Prop) s :
  (forall b, Q b s) -> swp E (next_can_be_plain_scalar str_ops fl) Q s.
Proof.
  intros H. unfold next_can_be_plain_scalar. apply swp_bind. apply swp_peekn. apply swp_bind. apply swp_peek.
  repeat match goal with |- swp _ (if ?b then _ else _) _ _ => destruct b end; apply swp_ret; apply H.
Qed.

Lemma swp_next_3_are E a b c (Q : bool -> sst -> Prop) s : (forall x, Q x s) -> swp E (next_3_are str_ops a b c) Q s.
Proof.
  intros H. unfold next_3_are. apply swp_bind. apply swp_assert_buflen. apply swp_bind. apply swp_peek.
  apply swp_bind. apply swp_peekn. apply swp_bind. apply swp_peekn. apply swp_ret. apply H.
Qed.

Lemma swp_next_is_document_indicator E (Q : bool -> sst -> Prop) s :
  (forall b, Q b s) -> swp E (next_is_document_indicator str_ops) Q s.
Proof.
  intros H. unfold next_is_document_indicator. apply swp_bind. apply swp_assert_buflen. apply swp_bind. apply swp_peekn.
  match goal with |- swp _ (if ?b then _ else _) _ _ => destruct b end; [|apply swp_ret; apply H].
  apply swp_bind. apply swp_next_3_are. intros d. destruct d; [apply swp_ret; apply H|apply swp_next_3_are; exact H].
Qed.

Lemma bobz_false c : is_blank_or_breakz c = false -> is_breakz c = false.
Proof. unfold is_blank_or_breakz. intros H. apply orb_false_iff in H. tauto. Qed.

Section PosPlain.
Variable orig : list chr.
Hypothesis no_nul : Forall (fun c => c <> 0%N) orig.
Notation pwp := (swp (true_mark orig)).
Notation MarkAt := (MarkAt orig).
Notation MarkOK := (MarkOK orig).
Notation upost := (upost orig).
Notation ppost := (ppost orig).

(* flag updates do not disturb the invariant *)
Lemma markat_set_lws b pre (s : sst) : MarkAt pre s -> MarkAt pre (set_lws b s).
Proof using no_nul. intros HM. apply (markat_ext orig no_nul pre s); [exact HM|reflexivity|reflexivity]. Qed.
Lemma pkeeps_set_lws b (s : sst) : pkeeps s (set_lws b s).
Proof. repeat split. Qed.

(* ---------------- plain_chunk: the rest of a word ----------------
   a character is consumed only after [next_is is_blank_or_breakz] answered false: it is real and not a break *)
Lemma pos_plain_chunk : forall fuel j acc s,
  MarkOK s -> pwp (plain_chunk str_ops fuel j acc) (upost s) s.
Proof using no_nul.
  induction fuel as [|fuel IH]; intros j acc s [pre HM]; cbn [plain_chunk]; [exact I|].
  match goal with |- swp _ (if ?b then _ else _) _ _ => destruct b end.
  - apply swp_bind. apply (pwp_look orig no_nul _ pre); [exact HM|]. intros s1 M1 R1 I1.
    apply (upost_trans orig no_nul _ s s1); [pk|]. apply IH. exists pre; exact M1.
  - apply swp_bind. apply swp_next_is. apply swp_bind. apply swp_get. cbv beta.
    destruct (is_blank_or_breakz (rnth s 0)) eqn:Eb.
    + apply swp_bind. apply swp_ret. cbn [orb]. apply swp_ret. split; [exists pre; exact HM|pk].
    + apply swp_bind. apply swp_next_can_be_plain_scalar. intros cb. cbn [orb]. destruct cb; cbn [negb].
      * apply swp_bind. apply swp_peek. apply swp_bind.
        apply (pwp_skip_plain_z orig no_nul (skip_non_blank str_ops) pre);
          [right; reflexivity|exact HM|apply bobz_false; exact Eb|].
        intros s1 M1 R1 K1. apply (upost_trans orig no_nul _ s s1); [pk|]. apply IH. eexists; exact M1.
      * apply swp_ret. split; [exists pre; exact HM|pk].
Qed.

(* ---------------- plain_blanks: blanks and breaks between the words ---------------- *)
Lemma pos_plain_blanks F : forall fuel indent start lb tb ws s,
  MarkOK s -> true_mark orig start ->
  pwp (plain_blanks str_ops F fuel indent start lb tb ws) (upost s) s.
Proof using no_nul.
  induction fuel as [|fuel IH]; intros indent start lb tb ws s [pre HM] Hst; cbn [plain_blanks]; [exact I|].
  apply swp_bind. apply swp_peek.
  (* a blank (space or tab) consumed with skip_blank *)
  assert (Hblank : is_blank (rnth s 0) = true -> forall ws',
            pwp (bind (skip_blank str_ops) (fun _ => bind (look str_ops 2) (fun _ =>
                   plain_blanks str_ops F fuel indent start lb tb ws'))) (upost s) s).
  { intros Eb ws'. apply swp_bind.
    apply (pwp_skip_plain_z orig no_nul (skip_blank str_ops) pre);
      [left; reflexivity|exact HM|apply blank_not_breakz; exact Eb|].
    intros s1 M1 R1 K1. apply swp_bind. apply (pwp_look orig no_nul 2 _ _ s1 M1). intros s2 M2 R2 I2.
    apply (upost_trans orig no_nul _ s s2); [pk|]. apply IH; [eexists; exact M2|exact Hst]. }
  destruct (is_blank (rnth s 0)) eqn:Eb.
  - apply swp_bind. apply swp_get.
    destruct (negb (sc_lws s)); [apply Hblank; reflexivity|].
    match goal with |- swp _ (if ?b then _ else _) _ _ => destruct b end; [|apply Hblank; reflexivity].
    (* a tab in the indentation: the rest of the line must be blank / a comment *)
    apply swp_bind. eapply swp_mono; [apply (pos_skip_ws_to_eol orig no_nul); exists pre; exact HM|].
    intros tw s1 [[pre1 M1] K1].
    apply swp_bind. apply swp_next_is.
    destruct (is_breakz (rnth s1 0)); [|apply swp_fail; exact Hst].
    apply swp_bind. apply (pwp_look orig no_nul 2 pre1); [exact M1|]. intros s2 M2 R2 I2.
    apply (upost_trans orig no_nul _ s s2); [pk|]. apply IH; [eexists; exact M2|exact Hst].
  - destruct (is_break (rnth s 0)) eqn:Ek; [|apply swp_ret; split; [exists pre; exact HM|pk]].
    apply swp_bind. apply swp_get.
    destruct (sc_lws s).
    + apply swp_bind. apply (pwp_skip_break orig pre); [exact HM|exact Ek|].
      intros s1 b rest Rb Ub Hb M1 R1 K1.
      apply swp_bind. apply (pwp_look orig no_nul 2 (pre ++ b)); [exact M1|]. intros s2 M2 R2 I2.
      apply (upost_trans orig no_nul _ s s2); [pk|]. apply IH; [eexists; exact M2|exact Hst].
    + apply swp_bind. apply (pwp_skip_break orig pre); [exact HM|exact Ek|].
      intros s1 b rest Rb Ub Hb M1 R1 K1.
      apply swp_bind. apply swp_modify.
      pose proof (markat_set_lws true _ _ M1) as M1'. pose proof (pkeeps_set_lws true s1) as K1'.
      apply swp_bind. apply (pwp_look orig no_nul 2 (pre ++ b)); [exact M1'|]. intros s2 M2 R2 I2.
      apply (upost_trans orig no_nul _ s s2); [pk|]. apply IH; [eexists; exact M2|exact Hst].
Qed.

(* ---------------- the main loop of scan_plain_scalar (a local [fix] in the model), restated ---------------- *)
Local Open Scope N_scope.
Local Open Scope mon_scope.
Section Go.
Variables (F : nat) (indent : Z) (start : marker).
Fixpoint plain_go (f : nat) (acc : list chr) (lb : bool) (tb : N) (ws : list chr) (endm : marker) {struct f}
    : SM (list chr * marker) :=
  match f with
  | O => oof
  | S f =>
    look str_ops 4 ;;;
    s <- get ;;
    di <- (if sc_lws s && (m_col (sc_mark s) =? 0) then next_is_document_indicator str_ops else ret false) ;;
    c <- SPrim.peek str_ops ;;
    if di || (c =? 35) then ret (acc, endm) else
    nc <- peekn str_ops 1 ;;
    let fl := 0 <? sc_flow_level s in
    if (match acc with [] => true | _ => false end) && fl && (c =? 45) && is_flow nc then fail 76 (sc_mark s) else
    cb <- (if is_blank_or_breakz c then ret false else next_can_be_plain_scalar str_ops fl) ;;
    r <- (if cb then
            let '(acc, lb, tb, ws) :=
              if sc_lws s then
                (if negb lb then (nls tb acc, false, 0, ws)
                 else if tb =? 0 then (32 :: acc, false, 0, ws)
                 else (nls tb acc, false, 0, ws))
              else (ws ++ acc, lb, tb, []) in
            modify (set_lws false) ;;;
            skip_non_blank str_ops ;;;
            look str_ops (bufmaxlen str_ops) ;;;
            acc <- plain_chunk str_ops F 0 (c :: acc) ;;
            m <- mark ;; ret (acc, lb, tb, ws, m)
          else ret (acc, lb, tb, ws, endm)) ;;
    let '(acc, lb, tb, ws, endm) := r in
    c <- SPrim.peek str_ops ;;
    if negb (is_blank c || is_break c) then ret (acc, endm) else
    look str_ops 2 ;;;
    r <- plain_blanks str_ops F F indent start lb tb ws ;;
    let '(lb, tb, ws) := r in
    s <- get ;;
    if (sc_flow_level s =? 0) && (Z.of_N (m_col (sc_mark s)) <? indent)%Z then ret (acc, endm)
    else plain_go f acc lb tb ws endm
  end.
End Go.

Lemma scan_plain_scalar_eq F :
  scan_plain_scalar str_ops F =
  (unroll_non_block_indents ;;;
   s0 <- get ;;
   let indent := (sc_indent s0 + 1)%Z in
   let start := sc_mark s0 in
   if (0 <? sc_flow_level s0) && (Z.of_N (m_col start) <? indent)%Z then fail 75 start else
   r <- plain_go F indent start F [] false 0 [] start ;;
   s <- get ;;
   (if sc_lws s then allow_simple_key else ret tt) ;;;
   match fst r with
   | [] => fail 78 start
   | _ => ret ({| sp_start := start; sp_end := snd r |}, TScalar Plain (rev (fst r)))
   end).
Proof. reflexivity. Qed.
Close Scope mon_scope.
Close Scope N_scope.

(* the loop keeps the position invariant, and the end marker it returns is a mark captured under the invariant *)
Lemma pos_plain_go F indent start : true_mark orig start -> forall f acc lb tb ws endm s,
  MarkOK s -> true_mark orig endm ->
  pwp (plain_go F indent start f acc lb tb ws endm)
      (fun r s' => MarkOK s' /\ true_mark orig (snd r) /\ pkeeps s s') s.
Proof using no_nul.
  intros Hst. induction f as [|f IH]; intros acc lb tb ws endm s [pre HM] Hem; cbn [plain_go]; [exact I|].
  apply swp_bind. apply (pwp_look orig no_nul 4 pre); [exact HM|]. intros s1 M1 R1 I1.
  apply swp_bind. apply swp_get. apply swp_bind.
  match goal with |- swp _ _ ?Q _ => assert (HQ : forall di, Q di s1) end.
  2:{ destruct (sc_lws s1 && (m_col (sc_mark s1) =? 0)%N); [apply swp_next_is_document_indicator; exact HQ|apply swp_ret; exact (HQ false)]. }
  intros di. cbv beta.
  apply swp_bind. apply swp_peek.
  match goal with |- swp _ (if ?b then _ else _) _ _ => destruct b end.
  { apply swp_ret. split; [exists pre; exact M1|split; [exact Hem|pk]]. }
  apply swp_bind. apply swp_peekn. cbv zeta.
  match goal with |- swp _ (if ?b then _ else _) _ _ => destruct b end.
  { (* error 76 at the current mark *) apply swp_fail. apply markok_true. exists pre; exact M1. }
  apply swp_bind.
  (* the first character of a word is consumed only if it is not a blank, a break or NUL *)
  match goal with |- swp _ _ ?Q _ =>
    assert (HQ : forall cb, (cb = true -> is_breakz (rnth s1 0) = false) -> Q cb s1) end.
  2:{ destruct (is_blank_or_breakz (rnth s1 0)) eqn:Eb.
      - apply swp_ret. refine (HQ false _). discriminate.
      - apply swp_next_can_be_plain_scalar. intros cb. refine (HQ cb _). intros _. apply bobz_false. exact Eb. }
  intros cb Hcb. cbv beta.
  apply swp_bind.
  (* after the word *)
  match goal with |- swp _ _ ?Q _ =>
    assert (HK : forall r s2, MarkOK s2 -> true_mark orig (snd r) -> pkeeps s s2 -> Q r s2) end.
  { intros [[[[acc' lb'] tb'] ws'] endm'] s2 [pre2 M2] Hem2 K2. cbv beta iota. cbn [snd] in Hem2.
    apply swp_bind. apply swp_peek.
    match goal with |- swp _ (if ?b then _ else _) _ _ => destruct b end.
    { apply swp_ret. split; [exists pre2; exact M2|split; [exact Hem2|exact K2]]. }
    apply swp_bind. apply (pwp_look orig no_nul 2 pre2); [exact M2|]. intros s3 M3 R3 I3.
    apply swp_bind. eapply swp_mono; [apply pos_plain_blanks; [exists pre2; exact M3|exact Hst]|].
    intros [[lb2 tb2] ws2] s4 [M4 K4]. cbv beta iota.
    apply swp_bind. apply swp_get.
    match goal with |- swp _ (if ?b then _ else _) _ _ => destruct b end.
    { apply swp_ret. split; [exact M4|split; [exact Hem2|pk]]. }
    eapply swp_mono; [apply IH; [exact M4|exact Hem2]|]. intros r s' (M' & T' & K').
    split; [exact M'|split; [exact T'|pk]]. }
  destruct cb; [|apply swp_ret; refine (HK (acc, lb, tb, ws, endm) s1 _ _ _); [exists pre; exact M1|exact Hem|pk]].
  destruct (if sc_lws s1 then _ else _) as [[[a1 l1] t1] w1]. cbv beta iota.
  apply swp_bind. apply swp_modify.
  pose proof (markat_set_lws false _ _ M1) as Mx. pose proof (pkeeps_set_lws false s1) as Kx.
  apply swp_bind.
  apply (pwp_skip_plain_z orig no_nul (skip_non_blank str_ops) pre); [right; reflexivity|exact Mx|exact (Hcb eq_refl)|].
  intros s2 M2 R2 K2.
  apply swp_bind. apply (pwp_look orig no_nul _ _ _ s2 M2). intros s3 M3 R3 I3.
  apply swp_bind. eapply swp_mono; [apply pos_plain_chunk; eexists; exact M3|]. intros acc2 s4 [M4 K4].
  apply swp_bind. unfold mark. apply swp_gets. apply swp_ret.
  refine (HK (acc2, l1, t1, w1, sc_mark s4) s4 _ _ _); [exact M4|apply markok_true; exact M4|pk].
Qed.

(* ---------------- the contract ---------------- *)
Theorem pos_scan_plain_scalar : forall F s, MarkOK s -> pwp (scan_plain_scalar str_ops F) (ppost s) s.
Proof using no_nul.
  intros F s [pre HM]. rewrite scan_plain_scalar_eq.
  apply swp_bind. unfold unroll_non_block_indents. apply swp_modify.
  (* unrolling the non-block indents touches the indent stack only *)
  match goal with |- swp _ _ _ ?S1 => set (s1 := S1) end.
  assert (M1 : MarkAt pre s1).
  { subst s1. destruct (unroll_nb (sc_indents s) (sc_indent s)) as [ind l].
    apply (markat_ext orig no_nul pre s); [exact HM|reflexivity|reflexivity]. }
  assert (K1 : pkeeps s s1).
  { subst s1. destruct (unroll_nb (sc_indents s) (sc_indent s)) as [ind l]. repeat split. }
  clearbody s1.
  apply swp_bind. apply swp_get. cbv zeta.
  assert (Hst : true_mark orig (sc_mark s1)) by (apply markok_true; exists pre; exact M1).
  match goal with |- swp _ (if ?b then _ else _) _ _ => destruct b end; [apply swp_fail; exact Hst|].
  apply swp_bind. eapply swp_mono; [apply pos_plain_go; [exact Hst|exists pre; exact M1|exact Hst]|].
  intros r s2 ([pre2 M2] & T2 & K2). cbv beta.
  apply swp_bind. apply swp_get. apply swp_bind.
  destruct (sc_lws s2).
  - apply (pwp_allow_simple_key orig no_nul pre2); [exact M2|]. intros s3 M3 R3 K3.
    destruct (fst r); [apply swp_fail; exact Hst|]. apply swp_ret.
    split; [exists pre2; exact M3|split; [split; [exact Hst|exact T2]|pk]].
  - apply swp_ret.
    destruct (fst r); [apply swp_fail; exact Hst|]. apply swp_ret.
    split; [exists pre2; exact M2|split; [split; [exact Hst|exact T2]|pk]].
Qed.

End PosPlain.

Print Assumptions pos_scan_plain_scalar.
