(* String input: directives, tags and anchors (Model/SDir.v) never panic and keep the skeleton.
   The modelled u32-overflow panic of the %YAML version number (site 120) is unreachable: at most
   VERSION_DIGITS_MAX = 9 digits are accumulated, so the value stays below 10^9 < 2^32. *)
From Coq Require Import List NArith ZArith Bool Arith Lia.
Import ListNotations.
Require Import Parser SBase SPrim SDir SScalar SFetch ScanSafeStrWP ScanSafeStrPrim.
Local Open Scope nat_scope.

Local Notation st := (sc strin).
Local Notation M := (@SBase.M strin).

(* the generated constant (Gen/Consts.v, from scanner.rs) *)
Lemma VERSION_DIGITS_MAX_9 : VERSION_DIGITS_MAX = 9%N.
Proof. reflexivity. Qed.
Lemma pow_10_9 : (10 ^ 9 = 1000000000)%N.
Proof. reflexivity. Qed.
Lemma is_digit_val c : is_digit c = true -> (c - 48 <= 9)%N.
Proof.
  unfold is_digit. intros H. apply andb_prop in H. destruct H as [H1 H2].
  apply N.leb_le in H1. apply N.leb_le in H2. lia.
Qed.

Lemma safe_scan_uri_escapes mk k : safe k (scan_uri_escapes sops mk).
Proof.
  cbv beta delta [scan_uri_escapes].
  match goal with |- safe _ (?L 5 0%N 0%N 0%N true) => assert (HL : forall f w l c b k, safe k (L f w l c b)) end.
  { induction f as [|f IH]; intros w l c b k'; lazy beta iota; [apply safe_oof|]. sgo. }
  apply HL.
Qed.
#[export] Hint Resolve safe_scan_uri_escapes : safedb.

Lemma safe_scan_tag_handle F directive mk k : safe k (scan_tag_handle sops F directive mk).
Proof. unfold scan_tag_handle. sgo. Qed.

Lemma safe_uri_loop F p mk acc k : safe k (uri_loop sops F p mk acc).
Proof.
  unfold uri_loop.
  match goal with |- safe _ (?L F acc 0%N) => assert (HL : forall f a n k, safe k (L f a n)) end.
  { induction f as [|f IH]; intros a n k'; lazy beta iota; [apply safe_oof|]. sgo. }
  apply HL.
Qed.
#[export] Hint Resolve safe_scan_tag_handle safe_uri_loop : safedb.

Lemma safe_scan_tag_prefix F mk k : safe k (scan_tag_prefix sops F mk).
Proof. unfold scan_tag_prefix. sgo. Qed.
Lemma safe_scan_verbatim_tag F mk k : safe k (scan_verbatim_tag sops F mk).
Proof. unfold scan_verbatim_tag. sgo. Qed.
Lemma safe_scan_tag_shorthand_suffix F head mk k : safe k (scan_tag_shorthand_suffix sops F head mk).
Proof. unfold scan_tag_shorthand_suffix. sgo. Qed.
#[export] Hint Resolve safe_scan_tag_prefix safe_scan_verbatim_tag safe_scan_tag_shorthand_suffix : safedb.

Theorem safe_scan_tag F k : safe k (scan_tag sops F).
Proof. unfold scan_tag. sgo. Qed.

Theorem safe_scan_anchor F alias k : safe k (scan_anchor sops F alias).
Proof.
  unfold scan_anchor. sstep; [sgo|]. sstep; [sgo|]. sstep; [|sgo].
  match goal with |- safe _ (?L F []) => assert (HL : forall f a k, safe k (L f a)) end.
  { induction f as [|f IH]; intros a' k'; lazy beta iota; [apply safe_oof|]. sgo. }
  apply HL.
Qed.

(* site 120 *)
Lemma safe_scan_version_directive_number F mk k : safe k (scan_version_directive_number sops F mk).
Proof.
  unfold scan_version_directive_number.
  match goal with |- safe _ (?L F 0%N 0%N) =>
    assert (HL : forall f val len k, (val < 10 ^ len)%N -> safe k (L f val len)) end.
  { induction f as [|f IH]; intros val len k' Hv; lazy beta iota; [apply safe_oof|].
    apply safe_bind; [sgo|intros a]. destruct (is_digit a) eqn:Ed; [|sgo].
    destruct (VERSION_DIGITS_MAX <? len + 1)%N eqn:El; [sgo|].
    apply N.ltb_ge in El. rewrite VERSION_DIGITS_MAX_9 in El.
    assert (Hv' : (val * 10 + (a - 48) < 10 ^ (len + 1))%N).
    { rewrite N.add_1_r, N.pow_succ_r'. pose proof (is_digit_val a Ed) as Hd. lia. }
    cbv zeta. sstep.
    - destruct (4294967295 <? val * 10 + (a - 48))%N eqn:Eo; [|sgo].
      apply safe_panic_absurd. apply N.ltb_lt in Eo.
      pose proof (N.pow_le_mono_r 10 (len + 1) 9 ltac:(lia) El) as Hp. rewrite pow_10_9 in Hp. lia.
    - sstep; [sgo|]. apply IH. exact Hv'. }
  apply HL. reflexivity.
Qed.
#[export] Hint Resolve safe_scan_version_directive_number : safedb.

Lemma safe_scan_version_directive_value F mk k : safe k (scan_version_directive_value sops F mk).
Proof. unfold scan_version_directive_value. sgo. Qed.
Lemma safe_scan_tag_directive_value F mk k : safe k (scan_tag_directive_value sops F mk).
Proof. unfold scan_tag_directive_value. sgo. Qed.
Lemma safe_scan_directive_name F k : safe k (scan_directive_name sops F).
Proof. unfold scan_directive_name. sgo. Qed.
#[export] Hint Resolve safe_scan_version_directive_value safe_scan_tag_directive_value safe_scan_directive_name : safedb.

Theorem safe_scan_directive F k : safe k (scan_directive sops F).
Proof. unfold scan_directive. sgo. Qed.

Print Assumptions safe_scan_tag.
Print Assumptions safe_scan_anchor.
Print Assumptions safe_scan_directive.
