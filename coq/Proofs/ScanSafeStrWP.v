(* The scanner never panics on the STRING input ([str_ops], Model/SBase.v): framework.

   On the string side the input operations are total ([lookahead] only raises the lookahead counter [si_look],
   [peek_nth] reads [nth n chars 0], [skip1]/[skip_n] drop characters, [raw_read_non_breakz] never pushes back), so
   the buffer-length bookkeeping of the buffered proof (ScanWP.v) disappears.  What remains:
     * [assert_buflen n site] (sites 103-107, the [debug_assert!(buflen >= n)] of the Input default methods): on the
       string side [buflen] is the lookahead counter [lk s := si_look (sc_in s)], which [look n] raises to >= n and
       which nothing lowers.  We carry a lower bound [k <= lk s] syntactically through the judgment [safe k m];
     * [skip_break] (site 110, [debug_assert!(is_break(c))]): the judgments [safeH P k m] (the next character
       satisfies [P]) and [safeQ k m P] ([m] establishes [P] of the next character);
     * the skeleton panics (111-118), handled with the skeleton invariant exactly as in ScanSafeFetch.v
       (ScanSafeStrFetch.v); site 120 (u32 version accumulation) and 121 ([bufmaxlen < 2]) are local facts.

   [wps] is the weakest-precondition calculus of ScanWP.v restated over [sc strin]; [keeps], [SInv], ... are the
   definitions of ScanWP.v restated over [sc strin] (ScanWP.v fixes the input type to [bufin] inside a section). *)
From Coq Require Import List NArith ZArith Bool Arith Lia.
Import ListNotations.
Require Import Parser SBase SPrim SDir SScalar SFetch.
Local Open Scope nat_scope.
Arguments Nat.ltb : simpl never.
Arguments Nat.leb : simpl never.
Arguments Nat.eqb : simpl never.
Arguments Nat.sub : simpl never.
Arguments Nat.max : simpl never.

Local Notation st := (sc strin).
Local Notation M := (@SBase.M strin).

Definition sops : InputOps strin := str_ops.
(* the lookahead counter (what [buflen] reports), the remaining characters, the next character *)
Definition lk (s : st) : nat := si_look (sc_in s).
Definition chars (s : st) : list chr := si_chars (sc_in s).
Definition c0 (s : st) : chr := nth 0 (chars s) 0%N.

(* never Panic; an error or exhausted fuel ends the run and is not a panic *)
Definition wps {A} (m : M A) (Q : A -> st -> Prop) (s : st) : Prop :=
  match m s with
  | Ok (a, s') => Q a s'
  | Err _ _ => True
  | OutOfFuel => True
  | Panic _ => False
  end.

Lemma ws_ret {A} (a : A) (Q : A -> st -> Prop) s : Q a s -> wps (ret a) Q s.
Proof. auto. Qed.
Lemma ws_bind {A B} (m : M A) (f : A -> M B) (Q : B -> st -> Prop) s :
  wps m (fun a s' => wps (f a) Q s') s -> wps (bind m f) Q s.
Proof. unfold wps, bind. destruct (m s) as [[a s']| | |]; auto. Qed.
Lemma ws_mono {A} (m : M A) (Q Q' : A -> st -> Prop) s :
  wps m Q s -> (forall a s', Q a s' -> Q' a s') -> wps m Q' s.
Proof. unfold wps. destruct (m s) as [[a s']| | |]; auto. Qed.
Lemma ws_fail {A} site mk (Q : A -> st -> Prop) s : wps (@fail strin A site mk) Q s.
Proof. exact I. Qed.
Lemma ws_oof {A} (Q : A -> st -> Prop) s : wps (@oof strin A) Q s.
Proof. exact I. Qed.
Lemma ws_get (Q : st -> st -> Prop) s : Q s s -> wps get Q s.
Proof. auto. Qed.
Lemma ws_gets {A} (f : st -> A) (Q : A -> st -> Prop) s : Q (f s) s -> wps (gets f) Q s.
Proof. auto. Qed.
Lemma ws_put s0 (Q : unit -> st -> Prop) s : Q tt s0 -> wps (put s0) Q s.
Proof. auto. Qed.
Lemma ws_modify f (Q : unit -> st -> Prop) s : Q tt (f s) -> wps (modify f) Q s.
Proof. auto. Qed.
(* a panic site is only acceptable where it is unreachable *)
Lemma ws_panic_absurd {A} site (Q : A -> st -> Prop) s : False -> wps (@panic strin A site) Q s.
Proof. tauto. Qed.

(* ---------------- input primitives: total on the string side ---------------- *)
(* all fields other than the input are untouched by an input operation *)
Definition same_but_input (s s' : st) : Prop := s' = set_in (sc_in s') s.

Lemma ws_look n (Q : unit -> st -> Prop) s :
  (forall s', same_but_input s s' -> n <= lk s' -> lk s <= lk s' -> chars s' = chars s -> Q tt s') ->
  wps (look sops n) Q s.
Proof.
  intros HQ. unfold wps, look, sops. cbn [lookahead str_ops].
  apply HQ; unfold same_but_input, lk, chars; cbn; [reflexivity | lia | lia | reflexivity].
Qed.
Lemma ws_peekn_val n (Q : chr -> st -> Prop) s : Q (nth n (chars s) 0%N) s -> wps (peekn sops n) Q s.
Proof. intros HQ. exact HQ. Qed.
Lemma ws_peekn n (Q : chr -> st -> Prop) s : (forall c, Q c s) -> wps (peekn sops n) Q s.
Proof. intros HQ. apply ws_peekn_val, HQ. Qed.
Lemma ws_peek_val (Q : chr -> st -> Prop) s : Q (c0 s) s -> wps (SPrim.peek sops) Q s.
Proof. intros HQ. exact HQ. Qed.
Lemma ws_peek (Q : chr -> st -> Prop) s : (forall c, Q c s) -> wps (SPrim.peek sops) Q s.
Proof. intros HQ. apply ws_peek_val, HQ. Qed.
Lemma ws_look_ch (Q : chr -> st -> Prop) s :
  (forall c s', same_but_input s s' -> 1 <= lk s' -> lk s <= lk s' -> chars s' = chars s -> Q c s') ->
  wps (look_ch sops) Q s.
Proof.
  intros HQ. unfold look_ch. apply ws_bind. apply ws_look. intros s' Hs H1 H2 H3.
  apply ws_peek. intros c. apply HQ; assumption.
Qed.
Lemma ws_in_skip (Q : unit -> st -> Prop) s :
  (forall s', same_but_input s s' -> lk s' = lk s -> chars s' = tl (chars s) -> Q tt s') -> wps (in_skip sops) Q s.
Proof.
  intros HQ. unfold wps, in_skip, modify, sops. cbn [skip1 str_ops].
  apply HQ; unfold same_but_input, lk, chars; cbn; reflexivity.
Qed.
Lemma ws_in_skip_n n (Q : unit -> st -> Prop) s :
  (forall s', same_but_input s s' -> lk s' = lk s -> chars s' = skipn n (chars s) -> Q tt s') ->
  wps (in_skip_n sops n) Q s.
Proof.
  intros HQ. unfold wps, in_skip_n, sops. cbn [skip_n str_ops].
  apply HQ; unfold same_but_input, lk, chars; cbn; reflexivity.
Qed.
(* raw_read_non_breakz stops in front of a break or at the end of the input (where [peek] reads NUL) *)
Lemma ws_raw_read (Q : option chr -> st -> Prop) s :
  (forall c s', same_but_input s s' -> lk s' = lk s -> (c = None -> is_breakz (c0 s') = true) -> Q c s') ->
  wps (raw_read sops) Q s.
Proof.
  intros HQ. unfold wps, raw_read, sops. cbn [raw_read_non_breakz str_ops].
  destruct (si_chars (sc_in s)) as [|c r] eqn:EC.
  - apply HQ; unfold same_but_input, lk, c0, chars; cbn; [destruct s; reflexivity|reflexivity|].
    intros _. rewrite EC. reflexivity.
  - destruct (is_breakz c) eqn:EB.
    + apply HQ; unfold same_but_input, lk, c0, chars; cbn; [destruct s; reflexivity|reflexivity|].
      intros _. rewrite EC. exact EB.
    + apply HQ; unfold same_but_input, lk; cbn; [reflexivity|reflexivity|discriminate].
Qed.
Lemma ws_buf_is_empty (Q : bool -> st -> Prop) s : Q (Nat.eqb (lk s) 0) s -> wps (buf_is_empty sops) Q s.
Proof. intros H. exact H. Qed.
(* the only input-side panic of the string back-end: the lookahead counter is below the asserted length *)
Lemma ws_assert_buflen n site (Q : unit -> st -> Prop) s : n <= lk s -> Q tt s -> wps (assert_buflen sops n site) Q s.
Proof.
  intros Hn HQ. unfold wps, assert_buflen, sops. cbn [buflen str_ops]. unfold lk in Hn.
  destruct (Nat.ltb _ n) eqn:E; [apply Nat.ltb_lt in E; lia|exact HQ].
Qed.

(* ---------------- the skeleton: what the character-level scanners must leave alone ---------------- *)
Definition keeps (s s' : st) : Prop :=
  sc_sks s' = sc_sks s /\ sc_flow_level s' = sc_flow_level s /\ sc_tokens s' = sc_tokens s
  /\ sc_tokens_parsed s' = sc_tokens_parsed s /\ sc_stream_start s' = sc_stream_start s
  /\ sc_stream_end s' = sc_stream_end s /\ sc_ifms s' = sc_ifms s
  /\ ((sc_indent s' = sc_indent s /\ sc_indents s' = sc_indents s)
      \/ (sc_indent s', sc_indents s') = unroll_nb (sc_indents s) (sc_indent s)).

Lemma keeps_refl s : keeps s s.
Proof. unfold keeps. repeat split; auto. Qed.

Lemma unroll_nb_idem l ind : unroll_nb (snd (unroll_nb l ind)) (fst (unroll_nb l ind)) = unroll_nb l ind.
Proof.
  revert ind; induction l as [|i r IH]; intros ind; cbn [unroll_nb]; [reflexivity|].
  destruct (in_needs_block_end i) eqn:E; cbn [fst snd unroll_nb]; [rewrite E; reflexivity|apply IH].
Qed.

Lemma keeps_trans s1 s2 s3 : keeps s1 s2 -> keeps s2 s3 -> keeps s1 s3.
Proof.
  unfold keeps. intros (A1 & A2 & A3 & A4 & A5 & A6 & A7 & A9) (B1 & B2 & B3 & B4 & B5 & B6 & B7 & B9).
  repeat split; try congruence.
  destruct A9 as [[Ai Al]|Au], B9 as [[Bi Bl]|Bu].
  - left; split; congruence.
  - right. rewrite Bu, Ai, Al. reflexivity.
  - right. rewrite Bi, Bl. exact Au.
  - right. rewrite Bu.
    assert (Hi : sc_indent s2 = fst (unroll_nb (sc_indents s1) (sc_indent s1))) by (rewrite <- Au; reflexivity).
    assert (Hl : sc_indents s2 = snd (unroll_nb (sc_indents s1) (sc_indent s1))) by (rewrite <- Au; reflexivity).
    rewrite Hi, Hl. apply unroll_nb_idem.
Qed.

Lemma keeps_input s s' : same_but_input s s' -> keeps s s'.
Proof. unfold same_but_input. intros ->. unfold keeps. cbn. repeat split; auto. Qed.

(* ---------------- the skeleton invariant (as in ScanWP.v) ---------------- *)
Fixpoint sorted_from (top : Z) (l : list indent_rec) : Prop :=
  match l with
  | [] => top = (-1)%Z
  | i :: r => (in_indent i < top)%Z /\ sorted_from (in_indent i) r
  end.
Definition sk_in_range (s : st) (k : simple_key) : Prop :=
  sk_possible k = true ->
  (sc_tokens_parsed s <= sk_token_number k)%N
  /\ (sk_token_number k <= sc_tokens_parsed s + N.of_nat (length (sc_tokens s)))%N.

Definition SInv (s : st) : Prop :=
  (if sc_stream_start s then N.of_nat (length (sc_sks s)) = (sc_flow_level s + 1)%N
   else sc_sks s = [] /\ sc_flow_level s = 0%N)
  /\ sorted_from (sc_indent s) (sc_indents s)
  /\ Forall (sk_in_range s) (sc_sks s).

Lemma sorted_from_ge l : forall top, sorted_from top l -> (-1 <= top)%Z.
Proof. induction l as [|i r IH]; intros top H; cbn in H; [lia|]. destruct H as [H1 H2]. specialize (IH _ H2). lia. Qed.

Lemma sorted_unroll_nb l : forall ind, sorted_from ind l ->
  sorted_from (fst (unroll_nb l ind)) (snd (unroll_nb l ind)).
Proof.
  induction l as [|i r IH]; intros ind H; cbn [unroll_nb]; [exact H|].
  destruct (in_needs_block_end i); cbn [fst snd]; [exact H|]. destruct H as [_ H]. apply IH. exact H.
Qed.

Lemma sinv_keeps s s' : keeps s s' -> SInv s -> SInv s'.
Proof.
  intros (A1 & A2 & A3 & A4 & A5 & A6 & A7 & A9) (I1 & I2 & I3). unfold SInv.
  rewrite A1, A2, A5. split; [exact I1|]. split.
  - destruct A9 as [[-> ->]|Au]; [exact I2|].
    pose proof (sorted_unroll_nb _ _ I2) as H. rewrite <- Au in H. exact H.
  - eapply Forall_impl; [|exact I3]. intros k Hk. unfold sk_in_range in *. rewrite A3, A4. exact Hk.
Qed.

(* ---------------- K: skeleton kept and lookahead counter not lowered ---------------- *)
Definition K (s s' : st) : Prop := keeps s s' /\ lk s <= lk s'.
Lemma K_refl s : K s s.
Proof. split; [apply keeps_refl|lia]. Qed.
Lemma K_trans s1 s2 s3 : K s1 s2 -> K s2 s3 -> K s1 s3.
Proof. intros [A1 A2] [B1 B2]. split; [eapply keeps_trans; eauto|lia]. Qed.
Lemma K_input s s' : same_but_input s s' -> lk s <= lk s' -> K s s'.
Proof. intros H L. split; [apply keeps_input, H|exact L]. Qed.

Ltac Ktriv := intros; split; [unfold keeps; cbn; repeat split; auto | unfold lk; cbn; lia].

(* mark primitives *)
Lemma ws_adv_mark n (Q : unit -> st -> Prop) s :
  (forall s', keeps s s' -> lk s' = lk s -> chars s' = chars s -> Q tt s') -> wps (adv_mark n) Q s.
Proof. intros HQ. unfold adv_mark. apply ws_modify. apply HQ; [unfold keeps; cbn; repeat split; auto|reflexivity|reflexivity]. Qed.
Lemma ws_mark (Q : marker -> st -> Prop) s : Q (sc_mark s) s -> wps mark Q s.
Proof. auto. Qed.
Lemma ws_skip_blank (Q : unit -> st -> Prop) s :
  (forall s', keeps s s' -> lk s' = lk s -> chars s' = tl (chars s) -> Q tt s') -> wps (skip_blank sops) Q s.
Proof.
  intros HQ. unfold skip_blank. apply ws_bind. apply ws_in_skip. intros s1 H1 L1 C1.
  apply ws_adv_mark. intros s2 K2 L2 C2. apply HQ; [|congruence|congruence].
  eapply keeps_trans; [apply keeps_input; exact H1|exact K2].
Qed.
Lemma ws_skip_non_blank (Q : unit -> st -> Prop) s :
  (forall s', keeps s s' -> lk s' = lk s -> Q tt s') -> wps (skip_non_blank sops) Q s.
Proof.
  intros HQ. unfold skip_non_blank. apply ws_bind. apply ws_in_skip. intros s1 H1 L1 _.
  apply ws_bind. apply ws_adv_mark. intros s2 K2 L2 _. apply ws_modify. apply HQ.
  - eapply keeps_trans; [apply keeps_input; exact H1|]. eapply keeps_trans; [exact K2|].
    unfold keeps; cbn; repeat split; auto.
  - unfold lk in *; cbn; congruence.
Qed.
Lemma ws_skip_n_non_blank n (Q : unit -> st -> Prop) s :
  (forall s', keeps s s' -> lk s' = lk s -> Q tt s') -> wps (skip_n_non_blank sops n) Q s.
Proof.
  intros HQ. unfold skip_n_non_blank. apply ws_bind. apply ws_in_skip_n. intros s1 H1 L1 _.
  apply ws_bind. apply ws_adv_mark. intros s2 K2 L2 _. apply ws_modify. apply HQ.
  - eapply keeps_trans; [apply keeps_input; exact H1|]. eapply keeps_trans; [exact K2|].
    unfold keeps; cbn; repeat split; auto.
  - unfold lk in *; cbn; congruence.
Qed.
Lemma ws_skip_nl (Q : unit -> st -> Prop) s :
  (forall s', keeps s s' -> lk s' = lk s -> Q tt s') -> wps (skip_nl sops) Q s.
Proof.
  intros HQ. unfold skip_nl. apply ws_bind. apply ws_in_skip. intros s1 H1 L1 _.
  apply ws_modify. apply HQ.
  - eapply keeps_trans; [apply keeps_input; exact H1|]. unfold keeps; cbn; repeat split; auto.
  - unfold lk in *; cbn; congruence.
Qed.

(* Input default methods used by the skeleton *)
Lemma ws_next_is p (Q : bool -> st -> Prop) s : (forall r, Q r s) -> wps (next_is sops p) Q s.
Proof. intros HQ. unfold next_is. apply ws_bind. apply ws_peek. intros x. apply ws_ret, HQ. Qed.
Lemma ws_next_3_are a b c (Q : bool -> st -> Prop) s : 3 <= lk s -> (forall r, Q r s) -> wps (next_3_are sops a b c) Q s.
Proof.
  intros H HQ. unfold next_3_are. apply ws_bind. apply ws_assert_buflen; [exact H|].
  apply ws_bind. apply ws_peek. intros x. apply ws_bind. apply ws_peekn. intros y.
  apply ws_bind. apply ws_peekn. intros z. apply ws_ret, HQ.
Qed.
Lemma ws_next_is_document_start (Q : bool -> st -> Prop) s : 4 <= lk s -> (forall r, Q r s) -> wps (next_is_document_start sops) Q s.
Proof.
  intros H HQ. unfold next_is_document_start. apply ws_bind. apply ws_assert_buflen; [exact H|].
  apply ws_bind. apply ws_next_3_are; [lia|]. intros d. destruct d; [|apply ws_ret, HQ].
  apply ws_bind. apply ws_peekn. intros c3. apply ws_ret, HQ.
Qed.
Lemma ws_next_is_document_end (Q : bool -> st -> Prop) s : 4 <= lk s -> (forall r, Q r s) -> wps (next_is_document_end sops) Q s.
Proof.
  intros H HQ. unfold next_is_document_end. apply ws_bind. apply ws_assert_buflen; [exact H|].
  apply ws_bind. apply ws_next_3_are; [lia|]. intros d. destruct d; [|apply ws_ret, HQ].
  apply ws_bind. apply ws_peekn. intros c3. apply ws_ret, HQ.
Qed.

(* ================= the judgment [safe k m] =================
   from any state whose lookahead counter is at least [k], [m] does not panic, leaves the skeleton alone and does
   not lower the lookahead counter.  It is closed under the monad structure, so character-level functions are
   handled by structural recursion on their code. *)
Definition safe (k : nat) {A} (m : M A) : Prop := forall s, k <= lk s -> wps m (fun _ s' => K s s') s.

Lemma safe_weaken k k' {A} (m : M A) : k' <= k -> safe k' m -> safe k m.
Proof. intros H Hm s Hk. apply Hm. lia. Qed.
Lemma safe_ret k {A} (a : A) : safe k (ret a).
Proof. intros s _. apply ws_ret, K_refl. Qed.
Lemma safe_fail k {A} site mk : safe k (@fail strin A site mk).
Proof. intros s _. exact I. Qed.
Lemma safe_oof k {A} : safe k (@oof strin A).
Proof. intros s _. exact I. Qed.
Lemma safe_panic_absurd k {A} site : False -> safe k (@panic strin A site).
Proof. tauto. Qed.
Lemma safe_get k : safe k (@get strin).
Proof. intros s _. apply ws_get, K_refl. Qed.
Lemma safe_gets k {A} (f : st -> A) : safe k (gets f).
Proof. intros s _. apply ws_gets, K_refl. Qed.
Lemma safe_modify k f : (forall s, K s (f s)) -> safe k (modify f).
Proof. intros H s _. apply ws_modify, H. Qed.
Lemma safe_bind k {A B} (m : M A) (f : A -> M B) : safe k m -> (forall a, safe k (f a)) -> safe k (bind m f).
Proof.
  intros Hm Hf s Hk. apply ws_bind. eapply ws_mono; [apply Hm, Hk|]. intros a s1 K1. cbv beta.
  eapply ws_mono; [apply (Hf a s1); destruct K1; lia|]. intros b s2 K2. cbv beta. exact (K_trans _ _ _ K1 K2).
Qed.
Lemma safe_look k n : safe k (look sops n).
Proof. intros s _. apply ws_look. intros s' H _ L _. apply K_input; assumption. Qed.
(* [look n] raises the lower bound for what follows *)
Lemma safe_look_bind k n {B} (f : unit -> M B) : (forall u, safe (Nat.max k n) (f u)) -> safe k (bind (look sops n) f).
Proof.
  intros Hf s Hk. apply ws_bind. apply ws_look. intros s1 H1 L1 L2 _.
  eapply ws_mono; [apply (Hf tt s1); lia|]. intros b s2 K2. cbv beta.
  eapply K_trans; [apply K_input; eassumption|exact K2].
Qed.
Lemma safe_peekn k n : safe k (peekn sops n).
Proof. intros s _. apply ws_peekn. intros c. apply K_refl. Qed.
Lemma safe_peek k : safe k (SPrim.peek sops).
Proof. apply safe_peekn. Qed.
Lemma safe_look_ch k : safe k (look_ch sops).
Proof. unfold look_ch. apply safe_bind; [apply safe_look|intros _; apply safe_peek]. Qed.
Lemma safe_in_skip k : safe k (in_skip sops).
Proof. intros s _. apply ws_in_skip. intros s' H L _. apply K_input; [exact H|lia]. Qed.
Lemma safe_in_skip_n k n : safe k (in_skip_n sops n).
Proof. intros s _. apply ws_in_skip_n. intros s' H L _. apply K_input; [exact H|lia]. Qed.
Lemma safe_raw_read k : safe k (raw_read sops).
Proof. intros s _. apply ws_raw_read. intros c s' H L _. apply K_input; [exact H|lia]. Qed.
Lemma safe_buf_is_empty k : safe k (buf_is_empty sops).
Proof. apply safe_gets. Qed.
Lemma safe_assert_buflen k n site : n <= k -> safe k (assert_buflen sops n site).
Proof. intros H s Hk. apply ws_assert_buflen; [lia|apply K_refl]. Qed.
Lemma safe_mark k : safe k (@mark strin).
Proof. apply safe_gets. Qed.
Lemma safe_adv_mark k n : safe k (@adv_mark strin n).
Proof. intros s _. apply ws_adv_mark. intros s' H L _. split; [exact H|lia]. Qed.
Lemma safe_skip_blank k : safe k (skip_blank sops).
Proof. intros s _. apply ws_skip_blank. intros s' H L _. split; [exact H|lia]. Qed.
Lemma safe_skip_non_blank k : safe k (skip_non_blank sops).
Proof. intros s _. apply ws_skip_non_blank. intros s' H L. split; [exact H|lia]. Qed.
Lemma safe_skip_n_non_blank k n : safe k (skip_n_non_blank sops n).
Proof. intros s _. apply ws_skip_n_non_blank. intros s' H L. split; [exact H|lia]. Qed.
Lemma safe_skip_nl k : safe k (skip_nl sops).
Proof. intros s _. apply ws_skip_nl. intros s' H L. split; [exact H|lia]. Qed.
Lemma safe_allow k : safe k (@allow_simple_key strin).
Proof. apply safe_modify. Ktriv. Qed.
Lemma safe_disallow k : safe k (@disallow_simple_key strin).
Proof. apply safe_modify. Ktriv. Qed.
Lemma safe_set_lws k b : safe k (modify (@set_lws strin b)).
Proof. apply safe_modify. Ktriv. Qed.
Lemma safe_flow_level k : safe k (@flow_level strin).
Proof. apply safe_gets. Qed.
Lemma safe_in_flow k : safe k (@in_flow strin).
Proof. unfold in_flow. apply safe_bind; [apply safe_flow_level|intros; apply safe_ret]. Qed.
Lemma safe_is_within_block k : safe k (@is_within_block strin).
Proof. apply safe_gets. Qed.
Lemma safe_col_lt_indent k : safe k (@col_lt_indent strin).
Proof. apply safe_gets. Qed.
Lemma safe_col k : safe k (@col strin).
Proof. apply safe_gets. Qed.
Lemma safe_unroll_non_block_indents k : safe k (@unroll_non_block_indents strin).
Proof.
  apply safe_modify. intros s. split; [|destruct (unroll_nb _ _); unfold lk; cbn; lia].
  unfold keeps. destruct (unroll_nb (sc_indents s) (sc_indent s)) as [ind l] eqn:E. cbn.
  repeat split; auto.
Qed.

(* Input default methods *)
Lemma safe_next_char_is k c : safe k (next_char_is sops c).
Proof. unfold next_char_is. apply safe_bind; [apply safe_peek|intros; apply safe_ret]. Qed.
Lemma safe_nth_char_is k n c : safe k (nth_char_is sops n c).
Proof. unfold nth_char_is. apply safe_bind; [apply safe_peekn|intros; apply safe_ret]. Qed.
Lemma safe_next_is k p : safe k (next_is sops p).
Proof. unfold next_is. apply safe_bind; [apply safe_peek|intros; apply safe_ret]. Qed.
Lemma safe_next_2_are k a b : 2 <= k -> safe k (next_2_are sops a b).
Proof.
  intros H. unfold next_2_are. apply safe_bind; [apply safe_assert_buflen, H|intros _].
  apply safe_bind; [apply safe_peek|intros x]. apply safe_bind; [apply safe_peekn|intros y]. apply safe_ret.
Qed.
Lemma safe_next_3_are k a b c : 3 <= k -> safe k (next_3_are sops a b c).
Proof.
  intros H. unfold next_3_are. apply safe_bind; [apply safe_assert_buflen, H|intros _].
  apply safe_bind; [apply safe_peek|intros x]. apply safe_bind; [apply safe_peekn|intros y].
  apply safe_bind; [apply safe_peekn|intros z]. apply safe_ret.
Qed.
Lemma safe_next_is_document_indicator k : 4 <= k -> safe k (next_is_document_indicator sops).
Proof.
  intros H. unfold next_is_document_indicator. apply safe_bind; [apply safe_assert_buflen, H|intros _].
  apply safe_bind; [apply safe_peekn|intros c3]. destruct (is_blank_or_breakz c3); [|apply safe_ret].
  apply safe_bind; [apply safe_next_3_are; lia|intros d]. destruct d; [apply safe_ret|apply safe_next_3_are; lia].
Qed.
Lemma safe_next_can_be_plain_scalar k fl : safe k (next_can_be_plain_scalar sops fl).
Proof.
  unfold next_can_be_plain_scalar. apply safe_bind; [apply safe_peekn|intros nc].
  apply safe_bind; [apply safe_peek|intros c].
  destruct ((c =? 58)%N && (is_blank_or_breakz nc || fl && is_flow nc)); [apply safe_ret|].
  destruct (fl && is_flow c); apply safe_ret.
Qed.
Lemma safe_skip_linebreak k : 2 <= k -> safe k (skip_linebreak sops).
Proof.
  intros H. unfold skip_linebreak. apply safe_bind; [apply safe_next_2_are, H|intros crlf]. destruct crlf.
  - apply safe_bind; [apply safe_skip_blank|intros _; apply safe_skip_nl].
  - apply safe_bind; [apply safe_peek|intros c]. destruct (is_break c); [apply safe_skip_nl|apply safe_ret].
Qed.

(* ================= [safeH P k m]: additionally the next character satisfies [P] ================= *)
Definition safeH (P : chr -> Prop) (k : nat) {A} (m : M A) : Prop :=
  forall s, P (c0 s) -> k <= lk s -> wps m (fun _ s' => K s s') s.
(* [m] is safe and the next character satisfies [P] afterwards *)
Definition safeQ (k : nat) {A} (m : M A) (P : chr -> Prop) : Prop :=
  forall s, k <= lk s -> wps m (fun _ s' => K s s' /\ P (c0 s')) s.

Lemma safeH_weak (P : chr -> Prop) k {A} (m : M A) : safe k m -> safeH P k m.
Proof. intros H s _ Hk. apply H, Hk. Qed.
Lemma safe_peek_bind_val k {B} (f : chr -> M B) : (forall c, safeH (eq c) k (f c)) -> safe k (bind (SPrim.peek sops) f).
Proof. intros H s Hk. apply ws_bind, ws_peek_val. apply (H (c0 s) s eq_refl Hk). Qed.
Lemma safeH_peek_bind (P : chr -> Prop) k {B} (f : chr -> M B) :
  (forall c, P c -> safeH (eq c) k (f c)) -> safeH P k (bind (SPrim.peek sops) f).
Proof. intros H s HP Hk. apply ws_bind, ws_peek_val. apply (H (c0 s) HP s eq_refl Hk). Qed.
Lemma safe_next_is_bind_val k p {B} (f : bool -> M B) :
  (forall c, safeH (eq c) k (f (p c))) -> safe k (bind (next_is sops p) f).
Proof.
  intros H s Hk. apply ws_bind. unfold next_is. apply ws_bind, ws_peek_val. apply ws_ret.
  apply (H (c0 s) s eq_refl Hk).
Qed.
Lemma safeH_next_is_bind (P : chr -> Prop) k p {B} (f : bool -> M B) :
  (forall c, P c -> safeH (eq c) k (f (p c))) -> safeH P k (bind (next_is sops p) f).
Proof.
  intros H s HP Hk. apply ws_bind. unfold next_is. apply ws_bind, ws_peek_val. apply ws_ret.
  apply (H (c0 s) HP s eq_refl Hk).
Qed.
Lemma safeH_look_bind (P : chr -> Prop) k n {B} (f : unit -> M B) :
  (forall u, safeH P (Nat.max k n) (f u)) -> safeH P k (bind (look sops n) f).
Proof.
  intros Hf s HP Hk. apply ws_bind. apply ws_look. intros s1 H1 L1 L2 C1.
  eapply ws_mono; [apply (Hf tt s1); [unfold c0 in *; rewrite C1; exact HP|lia]|]. intros b s2 K2. cbv beta.
  eapply K_trans; [apply K_input; eassumption|exact K2].
Qed.
Lemma safeH_get_bind (P : chr -> Prop) k {B} (f : st -> M B) : (forall s, safeH P k (f s)) -> safeH P k (bind get f).
Proof. intros Hf s HP Hk. apply ws_bind, ws_get. apply Hf; assumption. Qed.
Lemma safeH_bind (P : chr -> Prop) k {A B} (m : M A) (f : A -> M B) : safeH P k m -> (forall a, safe k (f a)) -> safeH P k (bind m f).
Proof.
  intros Hm Hf s HP Hk. apply ws_bind. eapply ws_mono; [apply Hm; assumption|]. intros a s1 K1. cbv beta.
  eapply ws_mono; [apply (Hf a s1); destruct K1; lia|]. intros b s2 K2. cbv beta. exact (K_trans _ _ _ K1 K2).
Qed.
Lemma safeH_if (P : chr -> Prop) k {A} (b : bool) (m1 m2 : M A) : safeH P k m1 -> safeH P k m2 -> safeH P k (if b then m1 else m2).
Proof. destruct b; auto. Qed.
(* site 110: skip_break is only called in front of a break *)
Lemma safeH_skip_break (P : chr -> Prop) k : (forall c, P c -> is_break c = true) -> safeH P k (skip_break sops).
Proof.
  intros HB s HP Hk. unfold skip_break.
  apply ws_bind, ws_peek_val. apply ws_bind, ws_peekn. intros nc.
  rewrite (HB _ HP). apply ws_bind, ws_ret.
  destruct ((c0 s =? 13)%N && (nc =? 10)%N).
  - apply ws_bind. eapply ws_mono; [apply (safe_skip_blank k s Hk)|]. intros u1 s1 K1. cbv beta in K1 |- *.
    eapply ws_mono; [apply (safe_skip_nl k s1); destruct K1; lia|]. intros u2 s2 K2. cbv beta in K2 |- *. exact (K_trans _ _ _ K1 K2).
  - apply ws_bind, ws_ret. apply (safe_skip_nl k s Hk).
Qed.
Lemma safeQ_bind k {A B} (m : M A) (f : A -> M B) (P : chr -> Prop) : safeQ k m P -> (forall a, safeH P k (f a)) -> safe k (bind m f).
Proof.
  intros Hm Hf s Hk. apply ws_bind. eapply ws_mono; [apply Hm, Hk|]. intros a s1 [K1 P1]. cbv beta.
  eapply ws_mono; [apply (Hf a s1); [exact P1|destruct K1; lia]|]. intros b s2 K2. cbv beta. exact (K_trans _ _ _ K1 K2).
Qed.
(* back from a judgment to a wps goal *)
Lemma safe_run k {A} (m : M A) s0 s : safe k m -> K s0 s -> k <= lk s -> wps m (fun _ s' => K s0 s') s.
Proof. intros H K0 Hk. eapply ws_mono; [apply H, Hk|]. intros a s' K1. eapply K_trans; eauto. Qed.

(* ---------------- automation ---------------- *)
Create HintDb safedb.
#[export] Hint Resolve safe_ret safe_fail safe_oof safe_get safe_gets safe_look safe_peekn safe_peek safe_look_ch
  safe_in_skip safe_in_skip_n safe_raw_read safe_buf_is_empty safe_mark safe_adv_mark safe_skip_blank
  safe_skip_non_blank safe_skip_n_non_blank safe_skip_nl safe_allow safe_disallow safe_set_lws safe_flow_level
  safe_in_flow safe_is_within_block safe_col_lt_indent safe_col safe_unroll_non_block_indents
  safe_next_char_is safe_nth_char_is safe_next_is safe_next_can_be_plain_scalar : safedb.
#[export] Hint Extern 2 (safe _ (next_2_are sops _ _)) => apply safe_next_2_are; lia : safedb.
#[export] Hint Extern 2 (safe _ (next_3_are sops _ _ _)) => apply safe_next_3_are; lia : safedb.
#[export] Hint Extern 2 (safe _ (next_is_document_indicator sops)) => apply safe_next_is_document_indicator; lia : safedb.
#[export] Hint Extern 2 (safe _ (skip_linebreak sops)) => apply safe_skip_linebreak; lia : safedb.
#[export] Hint Extern 2 (safe _ (assert_buflen sops _ _)) => apply safe_assert_buflen; lia : safedb.

(* one structural step on a [safe] goal *)
Ltac sstep :=
  cbv beta zeta;
  lazymatch goal with
  | |- safe _ (bind (look sops _) _) => apply safe_look_bind; intros ?
  | |- safe _ (bind _ _) => apply safe_bind; [|intros ?]
  | |- safe _ (if ?b then _ else _) => destruct b
  | |- safe _ (match ?x with _ => _ end) => destruct x
  | |- safe _ _ => solve [eauto 2 with safedb]
  end.
Ltac sgo := repeat sstep.

(* one step on a [safeH] goal: keep the knowledge about the next character as long as it may be needed *)
Ltac hstep :=
  cbv beta zeta;
  lazymatch goal with
  | |- safeH _ _ (bind (look sops _) _) => apply safeH_look_bind; intros ?
  | |- safeH _ _ (bind get _) => apply safeH_get_bind; intros ?
  | |- safeH _ _ (bind (skip_break sops) _) =>
      apply safeH_bind; [apply safeH_skip_break; intros ? <-; assumption|intros ?]
  | |- safeH _ _ (skip_break sops) => apply safeH_skip_break; intros ? <-; assumption
  | |- safeH _ _ (bind (if _ then _ else _) _) => apply safeH_bind; [|intros ?]
  | |- safeH _ _ (if ?b then _ else _) => destruct b eqn:?
  | |- safeH _ _ _ => apply safeH_weak
  end.
Ltac hgo := repeat hstep; sgo.
