(* C15 prefix stability of the scanner (see ScanPrefix.v): the family of DIRECTIVES and TAGS (Model/SDir.v) under the
   state relation [SH d] of ScanPrefix.v.

     scan_tag_ok       : forall d, shf_scan_tag d
     scan_directive_ok : forall d, shf_scan_directive d

   Port of ScanShiftDir.v.  Side 1 reads a text that ends, side 2 the same text followed by the marker line.  The
   scanners of this family never consume a line break except the final [skip_linebreak] of scan_directive, so side 1
   never stands at the end of its text inside them: the invariant [rm s1 <> []] is carried through every helper
   (precondition where a class that is not blind is tested - is_uri_char, is_tag_char, is_blank_or_breakz, '.' - and
   postcondition [bpost_n]), and removes [b1] by [SH_b1_in].  TWO fuels everywhere. *)
From Coq Require Import List NArith ZArith Bool Arith Lia.
Import ListNotations.
Require Import Parser SBase SPrim SDir SScalar SFetch ScanPrefix ScanPrefixPrim.
Local Open Scope nat_scope.

(* both sides branch on the same (syntactically equal) test *)
Ltac bif :=
  cbv beta;
  match goal with |- swp _ (if ?b then _ else _) (if ?b then _ else _) _ _ _ => destruct b end.

Lemma alpha_nbz c : is_alpha c = true -> nbz c.
Proof. intros E. nbz_by E. Qed.
Lemma digit_nbz c : is_digit c = true -> nbz c.
Proof. intros E. nbz_by E. Qed.
Lemma hex_nbz c : is_hex c = true -> nbz c.
Proof. intros E. nbz_by E. Qed.
Lemma uri_char_nbz c : is_uri_char c = true -> nbz c.
Proof. intros E. nbz_by E. Qed.
Lemma tag_char_nbz c : is_tag_char c = true -> nbz c.
Proof. intros E. nbz_by E. Qed.
Lemma eq_nbz c k : c = k -> is_breakz k = false -> nbz c.
Proof. intros -> E. exact E. Qed.

Section BrkDir.
Variable d : list chr.
Local Notation bwp := (swp d).

(* [bpost_n VR]: values related, states related, side 1 not at the end of its text *)
Definition bpost_n {A1 A2} (VR : A1 -> A2 -> Prop) : A1 -> bst -> A2 -> bst -> Prop :=
  fun a1 t1 a2 t2 => VR a1 a2 /\ SH d t1 t2 /\ rm t1 <> [].

Lemma bwp_call_n {A B1 B2} (m1 m2 : BM A) (f1 : A -> BM B1) (f2 : A -> BM B2) (Q : B1 -> bst -> B2 -> bst -> Prop) s1 s2 :
  bwp m1 m2 (bpost_n eq) s1 s2 ->
  (forall a t1 t2, SH d t1 t2 -> rm t1 <> [] -> bwp (f1 a) (f2 a) Q t1 t2) ->
  bwp (bind m1 f1) (bind m2 f2) Q s1 s2.
Proof.
  intros H HK. apply bwp_bind. eapply bwp_mono; [exact H|]. intros a1 t1 a2 t2 (<- & HB & HN). apply HK; assumption.
Qed.
Lemma bwp_ret_n {A1 A2} (VR : A1 -> A2 -> Prop) a1 a2 s1 s2 :
  VR a1 a2 -> SH d s1 s2 -> rm s1 <> [] -> bwp (ret a1) (ret a2) (bpost_n VR) s1 s2.
Proof. intros V H HN. apply bwp_ret. split; [exact V|split; [exact H|exact HN]]. Qed.

(* ---------------- scan_uri_escapes ---------------- *)
(* the test of one round: '%' followed by two hex digits *)
Definition esc_ok (s : bst) : bool := ((rn s 0 =? 37)%N && is_hex (rn s 1) && is_hex (rn s 2)).

Lemma esc_brk s1 s2 : SH d s1 s2 ->
  esc_ok s2 = esc_ok s1 /\
  (esc_ok s1 = true -> noLF 3 (rm s1) /\ rn s2 1 = rn s1 1 /\ rn s2 2 = rn s1 2).
Proof.
  intros H. unfold esc_ok.
  rewrite (SH_rn0 H), (SH_rn1' H), (SH_rn2' H), (b1_eqb _ 37%N) by reflexivity. rewrite !b1_is_hex.
  split; [reflexivity|].
  intros E. apply andb_true_iff in E. destruct E as [E Eh2]. apply andb_true_iff in E. destruct E as [E0 Eh1].
  assert (N0 : nbz (rn s1 0)) by (apply (lit_eq_nbz _ 37%N); [reflexivity|exact E0]).
  assert (N1 : nbz (rn s1 1)) by (apply hex_nbz; exact Eh1).
  assert (N2 : nbz (rn s1 2)) by (apply hex_nbz; exact Eh2).
  split; [apply noLF_S; [apply noLF_S; [apply noLF_1; exact N0|exact N1]|exact N2]|].
  rewrite !b1_nbz by assumption. split; reflexivity.
Qed.

Lemma bwp_scan_uri_escapes mk1 mk2 s1 s2 : SH d s1 s2 -> MS d mk1 mk2 ->
  bwp (scan_uri_escapes sops mk1) (scan_uri_escapes sops mk2) (bpost_n eq) s1 s2.
Proof.
  intros H HM. cbv beta delta [scan_uri_escapes].
  match goal with |- swp _ (?g1 5 0%N 0%N 0%N true) (?g2 5 0%N 0%N 0%N true) _ _ _ =>
    cut (forall f1 f2 w ln cd fs u1 u2, SH d u1 u2 -> bwp (g1 f1 w ln cd fs) (g2 f2 w ln cd fs) (bpost_n eq) u1 u2);
    [intros HL; apply HL; exact H|] end.
  clear s1 s2 H. induction f1 as [|f1 IH]; intros f2 w ln cd fs s1 s2 H; [exact I|].
  destruct f2 as [|f2]; [apply bwp_oof_r|].
  cbv beta iota zeta.
  apply bwp_bind. apply (bwp_look d); [exact H|]. intros u1 u2 HU _ _ _ _ _.
  apply bwp_bind. apply bwp_peekn_raw. cbv beta.
  apply bwp_bind. apply bwp_peekn_raw. cbv beta.
  apply bwp_bind. apply bwp_peekn_raw. cbv beta.
  destruct (esc_brk u1 u2 HU) as [EC EA]. unfold esc_ok in EC, EA. rewrite EC.
  destruct ((rn u1 0 =? 37)%N && is_hex (rn u1 1) && is_hex (rn u1 2)) eqn:Ee; cbn [negb];
    [|apply bwp_fail; exact HM].
  destruct (EA eq_refl) as (L3 & E1 & E2). rewrite E1, E2.
  apply bwp_bind.
  match goal with |- swp _ _ _ ?QQ _ _ => assert (HC : forall r, QQ r u1 r u2) end.
  { intros [w' cd']. cbv beta iota zeta.
    apply bwp_bind. apply (bwp_skip_n_non_blank d); [exact HU|exact L3|lia|]. intros v1 v2 HV RV.
    assert (NEV : rm v1 <> []).
    { rewrite RV. apply (skipn_nonempty_of_noLF d u1 u2); [exact HU|exact L3|lia]. }
    bif.
    - bif; [apply bwp_ret_n; [reflexivity|exact HV|exact NEV]|apply bwp_fail; exact HM].
    - apply IH; exact HV. }
  destruct fs; repeat bif; try (apply bwp_fail; exact HM);
    match goal with |- swp _ (ret ?x) (ret ?x) _ _ _ => apply bwp_ret; exact (HC x) end.
Qed.

(* ---------------- tags ---------------- *)
Lemma bwp_scan_tag_handle F1 F2 dflag mk1 mk2 s1 s2 : SH d s1 s2 -> MS d mk1 mk2 ->
  bwp (scan_tag_handle sops F1 dflag mk1) (scan_tag_handle sops F2 dflag mk2) (bpost_n eq) s1 s2.
Proof.
  intros H HM. unfold scan_tag_handle.
  apply bwp_bind. apply (bwp_look_ch d); [exact H|]. intros u1 u2 HU _ _ _ _. b1_norm.
  destruct (N.eqb_spec (rn u1 0) 33) as [E33|N33]; cbn [negb]; [|apply bwp_fail; exact HM].
  assert (N0 : nbz (rn u1 0)) by (apply (eq_nbz _ _ E33); reflexivity).
  apply bwp_bind. apply (bwp_skip_non_blank d); [exact HU|exact N0|]. intros v1 v2 HV RV.
  assert (NEV : rm v1 <> []) by (exact (SH_ne_tl d _ _ _ HU N0 RV)).
  apply bwp_bind. apply (bwp_in_fetch_while_alpha d); [exact HV|]. intros r w1 w2 HW _ _ _ NW.
  assert (NEW : rm w1 <> []) by (exact (NW NEV)).
  apply bwp_bind. apply (bwp_adv_mark d); [exact HW|intros E; contradiction|]. intros x1 x2 HX RX.
  assert (NEX : rm x1 <> []) by (exact (SH_ne_eq _ _ NEW RX)).
  apply bwp_bind. apply (bwp_peek d); [exact HX|]. b1_norm.
  destruct (N.eqb_spec (rn x1 0) 33) as [E|N].
  - assert (Nx : nbz (rn x1 0)) by (apply (eq_nbz _ _ E); reflexivity).
    apply bwp_bind. apply (bwp_skip_non_blank d); [exact HX|exact Nx|]. intros y1 y2 HY RY.
    apply bwp_ret_n; [reflexivity|exact HY|exact (SH_ne_tl d _ _ _ HX Nx RY)].
  - bif; [apply bwp_fail; exact HM|apply bwp_ret_n; [reflexivity|exact HX|exact NEX]].
Qed.

(* the generic uri loop; [p] is is_uri_char or is_tag_char: not blind, false on breaks and NUL *)
Lemma bwp_uri_loop F1 F2 p mk1 mk2 acc s1 s2 : SH d s1 s2 -> MS d mk1 mk2 -> (forall c, p c = true -> nbz c) ->
  rm s1 <> [] ->
  bwp (uri_loop sops F1 p mk1 acc) (uri_loop sops F2 p mk2 acc) (bpost_n eq) s1 s2.
Proof.
  intros H HM Hp NE. unfold uri_loop.
  match goal with |- swp _ (?g1 F1 acc 0%N) (?g2 F2 acc 0%N) _ _ _ =>
    cut (forall f1 f2 a n u1 u2, SH d u1 u2 -> rm u1 <> [] -> bwp (g1 f1 a n) (g2 f2 a n) (bpost_n eq) u1 u2);
    [intros HL; apply HL; [exact H|exact NE]|] end.
  clear s1 s2 H NE. induction f1 as [|f1 IH]; intros f2 a n s1 s2 H NE; [exact I|].
  destruct f2 as [|f2]; [apply bwp_oof_r|].
  cbv beta iota zeta.
  apply bwp_bind. apply (bwp_look_ch d); [exact H|]. intros u1 u2 HU RU _ _ _.
  assert (NEU : rm u1 <> []) by (exact (SH_ne_eq _ _ NE RU)).
  rewrite (SH_b1_in d _ _ HU NEU).
  destruct (p (rn u1 0)) eqn:Ep; [|apply bwp_ret_n; [reflexivity|exact HU|exact NEU]].
  assert (N0 : nbz (rn u1 0)) by (apply Hp; exact Ep).
  bif.
  - eapply bwp_call_n; [apply bwp_scan_uri_escapes; [exact HU|exact HM]|]. intros e v1 v2 HV NEV.
    apply IH; [exact HV|exact NEV].
  - apply bwp_bind. apply (bwp_skip_non_blank d); [exact HU|exact N0|]. intros v1 v2 HV RV.
    apply IH; [exact HV|exact (SH_ne_tl d _ _ _ HU N0 RV)].
Qed.

Lemma bwp_scan_tag_prefix F1 F2 mk1 mk2 s1 s2 : SH d s1 s2 -> MS d mk1 mk2 -> rm s1 <> [] ->
  bwp (scan_tag_prefix sops F1 mk1) (scan_tag_prefix sops F2 mk2) (bpost_n eq) s1 s2.
Proof.
  intros H HM NE. unfold scan_tag_prefix.
  apply bwp_bind. apply (bwp_look_ch d); [exact H|]. intros u1 u2 HU RU _ _ _.
  assert (NEU : rm u1 <> []) by (exact (SH_ne_eq _ _ NE RU)).
  rewrite (SH_b1_in d _ _ HU NEU).
  apply bwp_bind.
  match goal with |- swp _ _ _ ?QQ _ _ =>
    assert (HC : forall acc t1 t2, SH d t1 t2 -> rm t1 <> [] -> QQ acc t1 acc t2) end.
  { intros acc t1 t2 HT NET. cbv beta.
    eapply bwp_call_n; [apply bwp_uri_loop; [exact HT|exact HM|exact uri_char_nbz|exact NET]|].
    intros r v1 v2 HV NEV. apply bwp_ret_n; [reflexivity|exact HV|exact NEV]. }
  destruct (N.eqb_spec (rn u1 0) 33) as [E|N].
  - assert (N0 : nbz (rn u1 0)) by (apply (eq_nbz _ _ E); reflexivity).
    apply bwp_bind. apply (bwp_skip_non_blank d); [exact HU|exact N0|]. intros v1 v2 HV RV.
    apply bwp_ret. apply HC; [exact HV|exact (SH_ne_tl d _ _ _ HU N0 RV)].
  - destruct (is_tag_char (rn u1 0)) eqn:Et; cbn [negb]; [|apply bwp_fail; exact HM].
    assert (N0 : nbz (rn u1 0)) by (apply tag_char_nbz; exact Et).
    bif.
    + eapply bwp_call_n; [apply bwp_scan_uri_escapes; [exact HU|exact HM]|]. intros e v1 v2 HV NEV.
      apply bwp_ret. apply HC; [exact HV|exact NEV].
    + apply bwp_bind. apply (bwp_skip_non_blank d); [exact HU|exact N0|]. intros v1 v2 HV RV.
      apply bwp_ret. apply HC; [exact HV|exact (SH_ne_tl d _ _ _ HU N0 RV)].
Qed.

(* scan_verbatim_tag skips "!<" at once: neither may be a break *)
Lemma bwp_scan_verbatim_tag F1 F2 mk1 mk2 s1 s2 : SH d s1 s2 -> MS d mk1 mk2 -> noLF 2 (rm s1) ->
  bwp (scan_verbatim_tag sops F1 mk1) (scan_verbatim_tag sops F2 mk2) (bpost_n eq) s1 s2.
Proof.
  intros H HM L2. unfold scan_verbatim_tag.
  assert (N0 : nbz (rn s1 0)) by (apply (L2 0); lia).
  apply bwp_bind. apply (bwp_skip_non_blank d); [exact H|exact N0|]. intros u1 u2 HU RU.
  assert (N1 : nbz (rn u1 0)) by (rewrite (rn_tl u1 s1 0 RU); apply (L2 1); lia).
  apply bwp_bind. apply (bwp_skip_non_blank d); [exact HU|exact N1|]. intros v1 v2 HV RV.
  assert (NEV : rm v1 <> []) by (exact (SH_ne_tl d _ _ _ HU N1 RV)).
  eapply bwp_call_n; [apply bwp_uri_loop; [exact HV|exact HM|exact uri_char_nbz|exact NEV]|].
  intros r w1 w2 HW NEW.
  apply bwp_bind. apply (bwp_peek d); [exact HW|]. b1_norm.
  destruct (N.eqb_spec (rn w1 0) 62) as [E|N]; cbn [negb]; [|apply bwp_fail; exact HM].
  assert (Nw : nbz (rn w1 0)) by (apply (eq_nbz _ _ E); reflexivity).
  apply bwp_bind. apply (bwp_skip_non_blank d); [exact HW|exact Nw|]. intros x1 x2 HX RX.
  apply bwp_ret_n; [reflexivity|exact HX|exact (SH_ne_tl d _ _ _ HW Nw RX)].
Qed.

Lemma bwp_scan_tag_shorthand_suffix F1 F2 head mk1 mk2 s1 s2 : SH d s1 s2 -> MS d mk1 mk2 -> rm s1 <> [] ->
  bwp (scan_tag_shorthand_suffix sops F1 head mk1) (scan_tag_shorthand_suffix sops F2 head mk2) (bpost_n eq) s1 s2.
Proof.
  intros H HM NE. unfold scan_tag_shorthand_suffix. cbv beta zeta.
  eapply bwp_call_n; [apply bwp_uri_loop; [exact H|exact HM|exact tag_char_nbz|exact NE]|].
  intros r u1 u2 HU NEU.
  bif; [apply bwp_fail; exact HM|apply bwp_ret_n; [reflexivity|exact HU|exact NEU]].
Qed.

Theorem scan_tag_ok : shf_scan_tag d.
Proof.
  unfold shf_scan_tag. intros F1 F2 s1 s2 H N0. unfold scan_tag.
  apply bwp_bind. apply (bwp_mark d); [exact H|]. intros HM0.
  apply bwp_bind. apply (bwp_look d); [exact H|]. intros u1 u2 HU RU _ _ _ _.
  assert (N0u : nbz (rn u1 0)) by (rewrite (rn_eq u1 s1 0 RU); exact N0).
  apply bwp_bind. apply (bwp_nth_char_is d); [exact HU|apply noLF_1; exact N0u|reflexivity|].
  apply bwp_bind.
  match goal with |- swp _ _ _ ?QQ _ _ =>
    assert (HC : forall hs t1 t2, SH d t1 t2 -> rm t1 <> [] -> QQ hs t1 hs t2) end.
  { intros hs t1 t2 HT NET. cbv beta.
    apply bwp_bind. apply (bwp_look_ch d); [exact HT|]. intros v1 v2 HV RV _ _ _.
    assert (NEV : rm v1 <> []) by (exact (SH_ne_eq _ _ NET RV)).
    rewrite (SH_b1_in d _ _ HV NEV).
    apply bwp_bind. apply (bwp_flow_level d); [exact HV|]. cbv beta.
    bif; [|apply bwp_fail; exact HM0].
    apply bwp_bind. apply (bwp_mark d); [exact HV|]. intros HM1.
    apply bwp_ret_bpost; [|exact HV]. apply TS_mk. apply SPS_mk; assumption. }
  destruct (N.eqb_spec (rn u1 1) 60) as [E60|N60].
  - assert (N1u : nbz (rn u1 1)) by (apply (eq_nbz _ _ E60); reflexivity).
    eapply bwp_call_n;
      [apply bwp_scan_verbatim_tag; [exact HU|exact HM0|apply noLF_S; [apply noLF_1; exact N0u|exact N1u]]|].
    intros sfx t1 t2 HT NET. apply bwp_ret. apply HC; [exact HT|exact NET].
  - eapply bwp_call_n; [apply bwp_scan_tag_handle; [exact HU|exact HM0]|]. intros h t1 t2 HT NET.
    bif.
    + eapply bwp_call_n; [apply bwp_scan_tag_shorthand_suffix; [exact HT|exact HM0|exact NET]|].
      intros sfx v1 v2 HV NEV. apply bwp_ret. apply HC; [exact HV|exact NEV].
    + eapply bwp_call_n; [apply bwp_scan_tag_shorthand_suffix; [exact HT|exact HM0|exact NET]|].
      intros sfx v1 v2 HV NEV. destruct sfx; apply bwp_ret; (apply HC; [exact HV|exact NEV]).
Qed.

(* ---------------- directives ---------------- *)
(* the modelled u32-overflow panic (site 120) is the same panic on both sides *)
Lemma bwp_version_number F1 F2 mk1 mk2 s1 s2 : SH d s1 s2 -> MS d mk1 mk2 -> rm s1 <> [] ->
  bwp (scan_version_directive_number sops F1 mk1) (scan_version_directive_number sops F2 mk2) (bpost_n eq) s1 s2.
Proof.
  intros H HM NE. unfold scan_version_directive_number.
  match goal with |- swp _ (?g1 F1 0%N 0%N) (?g2 F2 0%N 0%N) _ _ _ =>
    cut (forall f1 f2 val len u1 u2, SH d u1 u2 -> rm u1 <> [] ->
           bwp (g1 f1 val len) (g2 f2 val len) (bpost_n eq) u1 u2);
    [intros HL; apply HL; [exact H|exact NE]|] end.
  clear s1 s2 H NE. induction f1 as [|f1 IH]; intros f2 val len s1 s2 H NE; [exact I|].
  destruct f2 as [|f2]; [apply bwp_oof_r|].
  cbv beta iota zeta.
  apply bwp_bind. apply (bwp_look_ch d); [exact H|]. intros u1 u2 HU RU _ _ _.
  assert (NEU : rm u1 <> []) by (exact (SH_ne_eq _ _ NE RU)).
  rewrite (SH_b1_in d _ _ HU NEU).
  destruct (is_digit (rn u1 0)) eqn:Ed.
  - assert (N0 : nbz (rn u1 0)) by (apply digit_nbz; exact Ed).
    bif; [apply bwp_fail; exact HM|].
    apply bwp_bind. bif; [apply bwp_panic_l|]. apply bwp_ret. cbv beta.
    apply bwp_bind. apply (bwp_skip_non_blank d); [exact HU|exact N0|]. intros v1 v2 HV RV.
    apply IH; [exact HV|exact (SH_ne_tl d _ _ _ HU N0 RV)].
  - bif; [apply bwp_fail; exact HM|apply bwp_ret_n; [reflexivity|exact HU|exact NEU]].
Qed.

Lemma bwp_version_value F1 F2 mk1 mk2 s1 s2 : SH d s1 s2 -> MS d mk1 mk2 -> rm s1 <> [] ->
  bwp (scan_version_directive_value sops F1 mk1) (scan_version_directive_value sops F2 mk2) (bpost_n (TS d)) s1 s2.
Proof.
  intros H HM NE. unfold scan_version_directive_value.
  apply bwp_bind. apply (bwp_in_skip_while_blank d); [exact H|]. intros n u1 u2 HU _ _ _ NU.
  assert (NEU : rm u1 <> []) by (exact (NU NE)).
  apply bwp_bind. apply (bwp_adv_mark d); [exact HU|intros E; contradiction|]. intros v1 v2 HV RV.
  assert (NEV : rm v1 <> []) by (exact (SH_ne_eq _ _ NEU RV)).
  eapply bwp_call_n; [apply bwp_version_number; [exact HV|exact HM|exact NEV]|]. intros major w1 w2 HW NEW.
  apply bwp_bind. apply (bwp_peek d); [exact HW|]. rewrite (SH_b1_in d _ _ HW NEW).
  destruct (N.eqb_spec (rn w1 0) 46) as [E|N]; cbn [negb]; [|apply bwp_fail; exact HM].
  assert (Nw : nbz (rn w1 0)) by (apply (eq_nbz _ _ E); reflexivity).
  apply bwp_bind. apply (bwp_skip_non_blank d); [exact HW|exact Nw|]. intros x1 x2 HX RX.
  eapply bwp_call_n; [apply bwp_version_number; [exact HX|exact HM|exact (SH_ne_tl d _ _ _ HW Nw RX)]|].
  intros minor y1 y2 HY NEY.
  apply bwp_bind. apply (bwp_mark d); [exact HY|]. intros HM1.
  apply bwp_ret_n; [|exact HY|exact NEY]. apply TS_mk. apply SPS_mk; assumption.
Qed.

Lemma bwp_tag_directive_value F1 F2 mk1 mk2 s1 s2 : SH d s1 s2 -> MS d mk1 mk2 -> rm s1 <> [] ->
  bwp (scan_tag_directive_value sops F1 mk1) (scan_tag_directive_value sops F2 mk2) (bpost_n (TS d)) s1 s2.
Proof.
  intros H HM NE. unfold scan_tag_directive_value.
  apply bwp_bind. apply (bwp_in_skip_while_blank d); [exact H|]. intros n u1 u2 HU _ _ _ NU.
  assert (NEU : rm u1 <> []) by (exact (NU NE)).
  apply bwp_bind. apply (bwp_adv_mark d); [exact HU|intros E; contradiction|]. intros v1 v2 HV _.
  eapply bwp_call_n; [apply bwp_scan_tag_handle; [exact HV|exact HM]|]. intros h w1 w2 HW NEW.
  apply bwp_bind. apply (bwp_in_skip_while_blank d); [exact HW|]. intros n' x1 x2 HX _ _ _ NX.
  assert (NEX : rm x1 <> []) by (exact (NX NEW)).
  apply bwp_bind. apply (bwp_adv_mark d); [exact HX|intros E; contradiction|]. intros y1 y2 HY RY.
  assert (NEY : rm y1 <> []) by (exact (SH_ne_eq _ _ NEX RY)).
  eapply bwp_call_n; [apply bwp_scan_tag_prefix; [exact HY|exact HM|exact NEY]|]. intros p z1 z2 HZ NEZ.
  apply bwp_bind. apply (bwp_look d); [exact HZ|]. intros a1 a2 HA RA _ _ _ _.
  assert (NEA : rm a1 <> []) by (exact (SH_ne_eq _ _ NEZ RA)).
  apply bwp_bind. apply (bwp_peek d); [exact HA|]. rewrite (SH_b1_in d _ _ HA NEA).
  bif; [|apply bwp_fail; exact HM].
  apply bwp_bind. apply (bwp_mark d); [exact HA|]. intros HM1.
  apply bwp_ret_n; [|exact HA|exact NEA]. apply TS_mk. apply SPS_mk; assumption.
Qed.

Lemma bwp_directive_name F1 F2 s1 s2 : SH d s1 s2 -> rm s1 <> [] ->
  bwp (scan_directive_name sops F1) (scan_directive_name sops F2) (bpost_n eq) s1 s2.
Proof.
  intros H NE. unfold scan_directive_name.
  apply bwp_bind. apply (bwp_mark d); [exact H|]. intros HM0.
  apply bwp_bind. apply (bwp_in_fetch_while_alpha d); [exact H|]. intros r u1 u2 HU _ _ _ NU.
  assert (NEU : rm u1 <> []) by (exact (NU NE)).
  apply bwp_bind. apply (bwp_adv_mark d); [exact HU|intros E; contradiction|]. intros v1 v2 HV RV.
  assert (NEV : rm v1 <> []) by (exact (SH_ne_eq _ _ NEU RV)).
  destruct (fst r) as [|x l]; [apply bwp_fail; exact HM0|].
  apply bwp_bind. apply (bwp_peek d); [exact HV|]. rewrite (SH_b1_in d _ _ HV NEV).
  bif; [apply bwp_ret_n; [reflexivity|exact HV|exact NEV]|apply bwp_fail; exact HM0].
Qed.

Theorem scan_directive_ok : shf_scan_directive d.
Proof.
  unfold shf_scan_directive. intros F1 F2 s1 s2 H N0. unfold scan_directive.
  apply bwp_bind. apply (bwp_mark d); [exact H|]. intros HM0.
  apply bwp_bind. apply (bwp_skip_non_blank d); [exact H|exact N0|]. intros u1 u2 HU RU.
  assert (NEU : rm u1 <> []) by (exact (SH_ne_tl d _ _ _ H N0 RU)).
  eapply bwp_call_n; [apply bwp_directive_name; [exact HU|exact NEU]|]. intros name v1 v2 HV NEV.
  apply bwp_bind.
  match goal with |- swp _ _ _ ?QQ _ _ =>
    assert (HC : forall tk1 tk2 t1 t2, TS d tk1 tk2 -> SH d t1 t2 -> rm t1 <> [] -> QQ tk1 t1 tk2 t2) end.
  { intros tk1 tk2 t1 t2 HTR HT NET. cbv beta.
    apply bwp_bind. eapply bwp_mono; [apply (skip_ws_to_eol_ok d); exact HT|].
    intros tw w1 tw2 w2 (<- & HW & HNE). specialize (HNE NET).
    apply bwp_bind. apply (bwp_next_is_in d); [exact HW|exact HNE|].
    bif; [|apply bwp_fail; exact HM0].
    (* the line break that ends the directive: the same characters on both sides *)
    apply bwp_bind. apply (bwp_look d); [exact HW|]. intros x1 x2 HX _ _ _ _ _.
    apply bwp_bind. apply (bwp_skip_linebreak d); [exact HX|]. intros y1 y2 HY _.
    apply bwp_ret_bpost; [exact HTR|exact HY]. }
  bif.
  - eapply bwp_mono; [apply bwp_version_value; [exact HV|exact HM0|exact NEV]|].
    intros tk1 t1 tk2 t2 (HTR & HT & NET). apply HC; assumption.
  - bif.
    + eapply bwp_mono; [apply bwp_tag_directive_value; [exact HV|exact HM0|exact NEV]|].
      intros tk1 t1 tk2 t2 (HTR & HT & NET). apply HC; assumption.
    + apply bwp_bind. apply (bwp_in_skip_while_non_breakz d); [exact HV|exact NEV|]. intros n t1 t2 HT _ _ _ NET.
      apply bwp_bind. apply (bwp_adv_mark d); [exact HT|intros E; contradiction|]. intros w1 w2 HW RW.
      apply bwp_bind. apply (bwp_mark d); [exact HW|]. intros HM1.
      apply bwp_ret. apply HC; [|exact HW|exact (SH_ne_eq _ _ NET RW)]. apply TS_mk. apply SPS_mk; assumption.
Qed.

End BrkDir.

Print Assumptions scan_tag_ok.
Print Assumptions scan_directive_ok.
Check scan_tag_ok.
Check scan_directive_ok.
