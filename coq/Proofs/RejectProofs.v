(* C06 — rejection lemmas: which ill-formed token streams / character sequences the model turns into an error.
   Parser layer: statements over ARBITRARY remaining token streams, phrased with [toks_ahead] (the one-token cache
   followed by the tokens the scanner will still deliver).  Scanner layer: over [str_ops]. *)
From Coq Require Import List NArith ZArith Bool Lia.
Import ListNotations.
Require Import Parser SBase SPrim SDir SScalar SFetch Pipe Grammar C02base C02rest C02tail C02run DocReset.

Arguments N.add : simpl never.
Arguments N.sub : simpl never.
Arguments N.mul : simpl never.
Arguments N.eqb : simpl never.
Arguments N.ltb : simpl never.
Arguments N.leb : simpl never.

(* ------------------------------------------------------------------------------------------------ *)
(* the remaining token stream of a parser                                                            *)
(* ------------------------------------------------------------------------------------------------ *)
Definition toks_ahead (p : parser) : list token :=
  match p_token p with Some t => t :: p_toks p | None => p_toks p end.

Lemma peek_norm p t r : toks_ahead p = t :: r -> Parser.peek p = Parser.Ok (t, set_tok p r (Some t)).
Proof.
  unfold toks_ahead, Parser.peek. destruct p as [tk c stk st an ai tg kt]. cbn.
  destruct c as [t'|]; intros H.
  - inversion H; subst. reflexivity.
  - rewrite H. reflexivity.
Qed.

Lemma toks_ahead_init toks keep : toks_ahead (init_parser toks keep) = toks.
Proof. reflexivity. Qed.

Ltac pk H := rewrite (peek_norm _ _ _ H); cbn.

(* the parser-level verdict of a run that starts in [p] *)
Definition run_end (fuel : nat) (p : parser) (se : scan_end) (acc : list (event * span)) : pend :=
  snd (parse_all fuel p se acc).

Lemma run_err1 fuel p se acc s m :
  p_state p <> SEnd -> state_machine p = Parser.Err (PErr s m) -> run_end (S fuel) p se acc = PParseErr s m.
Proof.
  intros HE H. unfold run_end. rewrite parse_all_S. unfold step_result. rewrite H.
  destruct (p_state p); try reflexivity. congruence.
Qed.

Lemma run_ok1 fuel p se acc ev p' :
  p_state p <> SEnd -> state_machine p = Parser.Ok (ev, p') ->
  run_end (S fuel) p se acc = run_end fuel p' se (ev :: acc).
Proof.
  intros HE H. unfold run_end. rewrite parse_all_S. unfold step_result. rewrite H.
  destruct (p_state p); try reflexivity. congruence.
Qed.

(* ------------------------------------------------------------------------------------------------ *)
(* R2 — a closing bracket of the other kind                                                          *)
(* ------------------------------------------------------------------------------------------------ *)
Lemma flow_seq_entry_mapping_end p sp r :
  p_state p = SFlowSequenceEntry -> toks_ahead p = (sp, TFlowMappingEnd) :: r ->
  state_machine p = Parser.Err (PErr 7 (sp_start sp)).
Proof. intros HS HT. unfold state_machine. rewrite HS. unfold flow_sequence_entry. pk HT. reflexivity. Qed.

Lemma flow_seq_first_entry_mapping_end p t0 sp r :
  p_state p = SFlowSequenceFirstEntry -> toks_ahead p = t0 :: (sp, TFlowMappingEnd) :: r ->
  state_machine p = Parser.Err (PErr 11 (sp_start sp)).
Proof. intros HS HT. unfold state_machine. rewrite HS. unfold flow_sequence_entry. pk HT. reflexivity. Qed.

Lemma flow_map_key_sequence_end p sp r :
  p_state p = SFlowMappingKey -> toks_ahead p = (sp, TFlowSequenceEnd) :: r ->
  state_machine p = Parser.Err (PErr 6 (sp_start sp)).
Proof. intros HS HT. unfold state_machine. rewrite HS. unfold flow_mapping_key. pk HT. reflexivity. Qed.

Lemma flow_map_first_key_sequence_end p t0 sp r :
  p_state p = SFlowMappingFirstKey -> toks_ahead p = t0 :: (sp, TFlowSequenceEnd) :: r ->
  state_machine p = Parser.Err (PErr 11 (sp_start sp)).
Proof. intros HS HT. unfold state_machine. rewrite HS. unfold flow_mapping_key. pk HT. reflexivity. Qed.

(* ------------------------------------------------------------------------------------------------ *)
(* R1 + R2 — a flow collection that is still open when the stream (or the document, or the enclosing   *)
(* block) ends, or that meets a closer of the other kind: the run ends in a parse error at that token  *)
(* ------------------------------------------------------------------------------------------------ *)
Arguments run_end : simpl never.

(* tokens that can neither continue nor close a flow collection *)
Definition flow_stopper (tk : tok) : bool :=
  match tk with
  | TStreamStart | TStreamEnd | TVersionDirective _ _ | TTagDirective _ _ | TDocumentStart | TDocumentEnd
  | TBlockSequenceStart | TBlockMappingStart | TBlockEnd | TBlockEntry => true
  | _ => false
  end.

(* which kind of flow collection a state is inside of (true: sequence, false: mapping); the two First* states still have
   the opening bracket in front of them and are treated separately *)
Definition flow_family (st : pstate) : option bool :=
  match st with
  | SFlowSequenceEntry | SFlowSequenceEntryMappingKey | SFlowSequenceEntryMappingValue | SFlowSequenceEntryMappingEnd _ => Some true
  | SFlowMappingKey | SFlowMappingValue | SFlowMappingEmptyValue => Some false
  | _ => None
  end.

Definition bad_in_flow (seq : bool) (tk : tok) : bool :=
  flow_stopper tk || (if seq then match tk with TFlowMappingEnd => true | _ => false end
                      else match tk with TFlowSequenceEnd => true | _ => false end).

Definition flow_err_site (s : N) : Prop := s = 6%N \/ s = 7%N \/ s = 11%N.

Ltac unf_flow :=
  try unfold flow_sequence_entry; try unfold flow_mapping_key; try unfold flow_mapping_value;
  try unfold flow_sequence_entry_mapping_key; try unfold flow_sequence_entry_mapping_value;
  try unfold flow_sequence_entry_mapping_end.

Ltac pkq HT := match goal with |- context [Parser.peek ?q] => rewrite (peek_norm q _ _ HT); cbn end.
Ltac run_go HT :=
  first [ (eapply run_err1; [cbn; discriminate | cbn; try pkq HT; reflexivity])
        | (erewrite run_ok1; [ | cbn; discriminate | cbn; try pkq HT; reflexivity]); run_go HT ].

Theorem open_flow_rejected p k sp tk r :
  flow_family (p_state p) = Some k -> toks_ahead p = (sp, tk) :: r -> bad_in_flow k tk = true ->
  forall fuel se acc, exists s, flow_err_site s /\ run_end (3 + fuel) p se acc = PParseErr s (sp_start sp).
Proof.
  intros HF HT HB fuel se acc. cbn [Nat.add].
  destruct (p_state p) eqn:HS; cbn in HF; try discriminate; inversion HF; subst k;
    destruct tk; cbn in HB; try discriminate.
  all: eexists; split;
    [ | first [ (eapply run_err1; [congruence | unfold state_machine; rewrite HS; unf_flow; pk HT; reflexivity])
              | (erewrite run_ok1; [ | congruence | unfold state_machine; rewrite HS; unf_flow; try pk HT; reflexivity]); run_go HT ] ].
  all: unfold flow_err_site; auto.
Qed.

(* the same right behind the opening bracket (the First* states still have the opener [t0] in front of them) *)
Theorem open_flow_first_rejected p (seq : bool) t0 sp tk r :
  p_state p = (if seq then SFlowSequenceFirstEntry else SFlowMappingFirstKey) ->
  toks_ahead p = t0 :: (sp, tk) :: r -> bad_in_flow seq tk = true ->
  state_machine p = Parser.Err (PErr 11 (sp_start sp)).
Proof.
  intros HS HT HB. unfold state_machine. rewrite HS.
  destruct seq; destruct tk; cbn in HB; try discriminate; unf_flow; pk HT; reflexivity.
Qed.

(* ------------------------------------------------------------------------------------------------ *)
(* R3 — a second root node / a directive without document end marker                                  *)
(* ------------------------------------------------------------------------------------------------ *)
Definition is_directive_tok (tk : tok) : bool :=
  match tk with TVersionDirective _ _ | TTagDirective _ _ => true | _ => false end.

(* tokens that can only belong to further content of the same document *)
Definition content_tok (tk : tok) : bool :=
  match tk with
  | TDocumentEnd | TDocumentStart | TStreamEnd | TVersionDirective _ _ | TTagDirective _ _ => false
  | _ => true
  end.

Theorem second_root_rejected p sp tk r :
  p_state p = SDocumentEnd -> toks_ahead p = (sp, tk) :: r -> content_tok tk = true ->
  exists sp' p', state_machine p = Parser.Ok ((EDocumentEnd, sp'), p')
                 /\ state_machine p' = Parser.Err (PErr 3 (sp_start sp)).
Proof.
  intros HS HT HC. unfold state_machine at 1. rewrite HS. unfold document_end. pk HT.
  destruct tk; cbn in HC; try discriminate; cbn;
    destruct (p_keep_tags p); cbn; (do 2 eexists; split; [reflexivity|]); cbn; reflexivity.
Qed.

Theorem second_root_run_rejected p sp tk r fuel se acc :
  p_state p = SDocumentEnd -> toks_ahead p = (sp, tk) :: r -> content_tok tk = true ->
  run_end (2 + fuel) p se acc = PParseErr 3 (sp_start sp).
Proof.
  intros HS HT HC. destruct (second_root_rejected p sp tk r HS HT HC) as (sp' & p' & H1 & H2).
  cbn [Nat.add]. erewrite run_ok1; [ | congruence | exact H1 ].
  apply run_err1; [ | exact H2 ].
  intros HE. unfold state_machine in H2. rewrite HE in H2. discriminate.
Qed.

Theorem directive_without_document_end_rejected p sp tk r :
  p_state p = SDocumentEnd -> toks_ahead p = (sp, tk) :: r -> is_directive_tok tk = true ->
  state_machine p = Parser.Err (PErr 4 (sp_start sp)).
Proof.
  intros HS HT HC. unfold state_machine. rewrite HS. unfold document_end. pk HT.
  destruct tk; cbn in HC; try discriminate; cbn; destruct (p_keep_tags p); reflexivity.
Qed.

(* ------------------------------------------------------------------------------------------------ *)
(* R4 — alias without anchor                                                                          *)
(* ------------------------------------------------------------------------------------------------ *)
Theorem alias_without_anchor_rejected p sp n r b i :
  toks_ahead p = (sp, TAlias n) :: r -> assoc n (p_anchors p) = None -> p_states p <> [] ->
  parse_node p b i = Parser.Err (PErr 10 (sp_start sp)).
Proof.
  intros HT HA HN. unfold parse_node. pk HT. unfold pop_state. cbn.
  destruct (p_states p) as [|s stk]; [congruence|]. cbn. rewrite HA. reflexivity.
Qed.

(* at the root of a document, implicit or explicit *)
Theorem root_alias_without_anchor_rejected p sp n r :
  (p_state p = SBlockNode \/ p_state p = SDocumentContent) ->
  toks_ahead p = (sp, TAlias n) :: r -> assoc n (p_anchors p) = None -> p_states p <> [] ->
  state_machine p = Parser.Err (PErr 10 (sp_start sp)).
Proof.
  intros HS HT HA HN. unfold state_machine.
  destruct HS as [HS|HS]; rewrite HS.
  - eapply alias_without_anchor_rejected; eassumption.
  - unfold document_content. rewrite (peek_norm _ _ _ HT). cbn beta iota.
    eapply alias_without_anchor_rejected; cbn; [reflexivity | assumption | assumption].
Qed.

Lemma assoc_nil {B} n : @assoc B n [] = None.
Proof. reflexivity. Qed.

(* An alias right at the start of the next document refers to nothing, whatever was anchored before:
   [document_end] empties the table (DocReset), "--- *n" and "*n" (after "...") both fail with site 10. *)
Theorem alias_to_previous_document_rejected p ev p' :
  document_end p = Parser.Ok (ev, p') ->
  (forall sp0 sp n r, toks_ahead p' = (sp0, TDocumentStart) :: (sp, TAlias n) :: r ->
     exists ev2 p2, state_machine p' = Parser.Ok (ev2, p2) /\ state_machine p2 = Parser.Err (PErr 10 (sp_start sp)))
  /\ (forall sp n r, p_state p' = SImplicitDocumentStart -> toks_ahead p' = (sp, TAlias n) :: r ->
     exists ev2 p2, state_machine p' = Parser.Ok (ev2, p2) /\ state_machine p2 = Parser.Err (PErr 10 (sp_start sp))).
Proof.
  intros HD. destruct (document_end_resets _ _ _ HD) as [(HA & _) HS].
  split.
  - intros sp0 sp n r HT.
    assert (G : forall impl, exists ev2 p2, document_start p' impl = Parser.Ok (ev2, p2)
                                       /\ state_machine p2 = Parser.Err (PErr 10 (sp_start sp))).
    { intros impl. unfold document_start. cbn [skip_document_ends]. pk HT.
      unfold explicit_document_start. cbn. do 2 eexists. split; [reflexivity|].
      cbn. rewrite HA. reflexivity. }
    unfold state_machine at 1. destruct HS as [HS|HS]; rewrite HS; apply G.
  - intros sp n r HS' HT. unfold state_machine at 1. rewrite HS'.
    unfold document_start. cbn [skip_document_ends]. pk HT.
    do 2 eexists. split; [reflexivity|]. cbn. rewrite HA. reflexivity.
Qed.

(* ------------------------------------------------------------------------------------------------ *)
(* R5 — named tag handle that was never declared                                                      *)
(* ------------------------------------------------------------------------------------------------ *)
Theorem undeclared_handle_rejected p m h s :
  is_named_handle h = true -> h <> [bang; bang] -> assoc h (p_tags p) = None ->
  resolve_tag p m h s = Parser.Err (PErr 20 m).
Proof.
  intros HN HB HA. unfold resolve_tag.
  assert (E : str_eqb h [bang; bang] = false).
  { unfold str_eqb. destruct (list_eq_dec N.eq_dec h [bang; bang]); [contradiction|reflexivity]. }
  rewrite E. destruct h as [|a h']; [discriminate|]. cbn [andb]. rewrite HA, HN. reflexivity.
Qed.

Theorem node_with_undeclared_handle_rejected p sp h s r b i :
  toks_ahead p = (sp, TTag h s) :: r ->
  is_named_handle h = true -> h <> [bang; bang] -> assoc h (p_tags p) = None ->
  parse_node p b i = Parser.Err (PErr 20 (sp_start sp)).
Proof.
  intros HT HN HB HA. unfold parse_node. pk HT.
  rewrite undeclared_handle_rejected; [reflexivity | assumption | assumption | cbn; assumption].
Qed.

Theorem anchored_node_with_undeclared_handle_rejected p sp0 a sp h s r b i :
  toks_ahead p = (sp0, TAnchor a) :: (sp, TTag h s) :: r ->
  is_named_handle h = true -> h <> [bang; bang] -> assoc h (p_tags p) = None ->
  parse_node p b i = Parser.Err (PErr 20 (sp_start sp0)).
Proof.
  intros HT HN HB HA. unfold parse_node. pk HT.
  rewrite undeclared_handle_rejected; [reflexivity | assumption | assumption | cbn; assumption].
Qed.

(* ------------------------------------------------------------------------------------------------ *)
(* R6 — repeated %YAML directive                                                                       *)
(* ------------------------------------------------------------------------------------------------ *)
Theorem version_after_version_rejected fuel p sp a b r tags :
  toks_ahead p = (sp, TVersionDirective a b) :: r ->
  process_directives (S fuel) p true tags = Parser.Err (PErr 2 (sp_start sp)).
Proof. intros HT. cbn [process_directives]. pk HT. reflexivity. Qed.

Theorem repeated_version_directive_rejected fuel p sp1 a b sp2 c d r tags :
  toks_ahead p = (sp1, TVersionDirective a b) :: (sp2, TVersionDirective c d) :: r ->
  process_directives (S (S fuel)) p false tags = Parser.Err (PErr 2 (sp_start sp2)).
Proof. intros HT. cbn [process_directives]. pk HT. reflexivity. Qed.

(* ... also with %TAG directives between the two (or the error is the duplicate-handle one, site 21) *)
Lemma skip_ahead p t r : toks_ahead p = t :: r -> toks_ahead (skip (set_tok p r (Some t))) = r.
Proof. reflexivity. Qed.

Theorem version_seen_then_version_rejected ds : forall fuel p tags sp a b r,
  Forall (fun t => match snd t with TTagDirective _ _ => True | _ => False end) ds ->
  toks_ahead p = ds ++ (sp, TVersionDirective a b) :: r -> (length ds < fuel)%nat ->
  match process_directives fuel p true tags with
  | Parser.Err (PErr s m) => (s = 2%N /\ m = sp_start sp) \/ s = 21%N
  | _ => False
  end.
Proof.
  induction ds as [|[spd d] ds IH]; intros fuel p tags sp a b r HF HT HL.
  - destruct fuel as [|fuel]; [cbn in HL; lia|]. cbn [app] in HT.
    rewrite (version_after_version_rejected fuel p sp a b r tags HT). left; split; reflexivity.
  - destruct fuel as [|fuel]; [cbn in HL; lia|]. cbn [app] in HT.
    inversion HF as [|x l Hd HF']; subst. cbn [snd] in Hd. destruct d; try contradiction.
    cbn [process_directives]. rewrite (peek_norm _ _ _ HT). cbn beta iota.
    destruct (negb (is_empty_str h) && has_key h tags); [right; reflexivity|].
    eapply IH; [exact HF' | reflexivity | cbn in HL; lia].
Qed.

Lemma toks_ahead_length p : (length (toks_ahead p) < S (S (length (p_toks p))))%nat.
Proof. unfold toks_ahead. destruct (p_token p); cbn; lia. Qed.

(* at the state-machine level: a stream/document start that meets "%YAML .. %YAML .." *)
Theorem document_with_two_versions_rejected p sp1 a b sp2 c d r :
  (p_state p = SImplicitDocumentStart \/ p_state p = SDocumentStart) ->
  toks_ahead p = (sp1, TVersionDirective a b) :: (sp2, TVersionDirective c d) :: r ->
  state_machine p = Parser.Err (PErr 2 (sp_start sp2)).
Proof.
  intros HS HT. unfold state_machine.
  assert (G : forall impl, document_start p impl = Parser.Err (PErr 2 (sp_start sp2))).
  { intros impl. unfold document_start. cbn [skip_document_ends]. pk HT.
    unfold explicit_document_start. cbn. reflexivity. }
  destruct HS as [HS|HS]; rewrite HS; apply G.
Qed.

(* ------------------------------------------------------------------------------------------------ *)
(* R7 — directives that are not followed by '---'                                                     *)
(* ------------------------------------------------------------------------------------------------ *)
Lemma process_directives_run ds : forall fuel p vs tags t r,
  Forall (fun t => is_directive_tok (snd t) = true) ds -> is_directive_tok (snd t) = false ->
  toks_ahead p = ds ++ t :: r -> (length ds < fuel)%nat ->
  match process_directives fuel p vs tags with
  | Parser.Ok q => toks_ahead q = t :: r
  | Parser.Err (PErr s _) => s = 2%N \/ s = 21%N
  | _ => False
  end.
Proof.
  induction ds as [|[spd d] ds IH]; intros fuel p vs tags t r HF Ht HT HL.
  - destruct fuel as [|fuel]; [cbn in HL; lia|]. cbn [app] in HT.
    cbn [process_directives]. rewrite (peek_norm _ _ _ HT). destruct t as [sp tk]. cbn [snd] in Ht.
    destruct tk; cbn in Ht; try discriminate; reflexivity.
  - destruct fuel as [|fuel]; [cbn in HL; lia|]. cbn [app] in HT.
    inversion HF as [|x l Hd HF']; subst. cbn [snd] in Hd.
    cbn [process_directives]. rewrite (peek_norm _ _ _ HT).
    destruct d; cbn in Hd; try discriminate; cbn beta iota.
    + destruct vs; [left; reflexivity|]. eapply IH; [exact HF' | exact Ht | reflexivity | cbn in HL; lia].
    + destruct (negb (is_empty_str h) && has_key h tags); [right; reflexivity|].
      eapply IH; [exact HF' | exact Ht | reflexivity | cbn in HL; lia].
Qed.

Theorem directives_without_document_start_rejected p ds sp tk r :
  Forall (fun t => is_directive_tok (snd t) = true) ds ->
  is_directive_tok tk = false -> tk <> TDocumentStart ->
  toks_ahead p = ds ++ (sp, tk) :: r ->
  match explicit_document_start p with
  | Parser.Err (PErr s m) => (s = 3%N /\ m = sp_start sp)   (* did not find expected <document start> *)
                             \/ s = 2%N \/ s = 21%N         (* or a directive of the run is itself in error *)
  | _ => False
  end.
Proof.
  intros HF Hd Hn HT. unfold explicit_document_start.
  assert (HL : (length ds < S (S (length (p_toks p))))%nat).
  { pose proof (toks_ahead_length p) as H. rewrite HT, app_length in H. cbn in H. lia. }
  pose proof (process_directives_run ds _ p false [] (sp, tk) r HF Hd HT HL) as HP.
  destruct (process_directives _ p false []) as [q|e|n]; [| |contradiction].
  - rewrite (peek_norm _ _ _ HP). destruct tk; try (left; split; reflexivity). congruence.
  - destruct e as [|s m]; [contradiction|]. right. exact HP.
Qed.

(* in particular: directives and then the end of the stream *)
Corollary directives_at_end_of_stream_rejected p ds sp r :
  Forall (fun t => is_directive_tok (snd t) = true) ds ->
  toks_ahead p = ds ++ (sp, TStreamEnd) :: r ->
  match explicit_document_start p with
  | Parser.Err (PErr s m) => (s = 3%N /\ m = sp_start sp) \/ s = 2%N \/ s = 21%N
  | _ => False
  end.
Proof. intros HF HT. apply (directives_without_document_start_rejected p ds sp TStreamEnd r); auto. discriminate. Qed.

(* and the state machine does call [explicit_document_start] when a document starts with a directive *)
Theorem document_start_with_directive p sp tk r impl :
  is_directive_tok tk = true -> toks_ahead p = (sp, tk) :: r ->
  exists q, toks_ahead q = (sp, tk) :: r /\ document_start p impl = explicit_document_start q.
Proof.
  intros Hd HT. unfold document_start. cbn [skip_document_ends]. pk HT.
  destruct tk; cbn in Hd; try discriminate; eexists; (split; [|reflexivity]); reflexivity.
Qed.

(* ------------------------------------------------------------------------------------------------ *)
(* The clean global statement "an accepted token stream has balanced, properly matched flow brackets" *)
(* is FALSE for the faithful model (and for the code): [flow_sequence_entry_mapping_key] consumes a      *)
(* FlowSequenceEnd that directly follows '?' (parser.rs: self.skip() in flow_sequence_entry_mapping_key), *)
(* so the text "[ ? ] ]" -- one '[' and two ']' -- is accepted.                                         *)
(* ------------------------------------------------------------------------------------------------ *)
Fixpoint flow_balanced (l : list token) (stk : list bool) : bool :=
  match l with
  | [] => false                                   (* no StreamEnd at all *)
  | (_, t) :: r =>
      match t with
      | TStreamEnd => match stk with [] => true | _ => false end
      | TFlowSequenceStart => flow_balanced r (true :: stk)
      | TFlowMappingStart => flow_balanced r (false :: stk)
      | TFlowSequenceEnd => match stk with true :: s => flow_balanced r s | _ => false end
      | TFlowMappingEnd => match stk with false :: s => flow_balanced r s | _ => false end
      | _ => flow_balanced r stk
      end
  end.

Definition accepted_implies_balanced : Prop :=
  forall toks keep se fuel, snd (parse_all fuel (init_parser toks keep) se []) = PDone -> flow_balanced toks [] = true.

Definition sp0 : span := span_empty {| m_index := 0; m_line := 0; m_col := 0 |}.
Definition stray_closer_tokens : list token :=   (* the tokens of "[ ? ] ]" *)
  [(sp0, TStreamStart); (sp0, TFlowSequenceStart); (sp0, TKey); (sp0, TFlowSequenceEnd); (sp0, TFlowSequenceEnd); (sp0, TStreamEnd)].

Theorem accepted_implies_balanced_refuted : ~ accepted_implies_balanced.
Proof.
  intros H. specialize (H stray_closer_tokens false SEnded 20%nat).
  assert (E : snd (parse_all 20 (init_parser stray_closer_tokens false) SEnded []) = PDone) by (vm_compute; reflexivity).
  specialize (H E). vm_compute in H. discriminate.
Qed.

(* ================================================================================================ *)
(* Scanner layer, over the character-level StrInput instance [str_ops]                               *)
(* ================================================================================================ *)
Open Scope N_scope.

(* ---- S1: escapes in double-quoted scalars.  [resolve_escape] is entered with the backslash at offset 0
        and the escape character at offset 1 of the remaining input ---- *)
Notation chars_of s := (si_chars (sc_in s)).

Lemma assocc_none e l : ~ In e (map fst l) -> assocc e l = None.
Proof.
  induction l as [|[a b] l IH]; intros H; [reflexivity|]. cbn [assocc].
  destruct (N.eqb_spec a e) as [->|Hne]; [exfalso; apply H; left; reflexivity|].
  apply IH. intros Hin. apply H. right. exact Hin.
Qed.

Lemma code_length_other e : ~ In e (map fst code_length_table) -> code_length e = 0%nat.
Proof.
  unfold code_length. induction code_length_table as [|[a b] l IH]; intros H; [reflexivity|]. cbn [assocn].
  destruct (N.eqb_spec a e) as [->|Hne]; [exfalso; apply H; left; reflexivity|].
  apply IH. intros Hin. apply H. right. exact Hin.
Qed.

(* every code point that is neither a single-character escape of the generated table nor x/u/U: "unknown escape character" *)
Theorem unknown_escape_rejected start (s : sc strin) :
  let e := nth 1 (chars_of s) 0 in
  ~ In e (map fst escape_table) -> ~ In e (map fst code_length_table) ->
  resolve_escape str_ops start s = Err 31 start.
Proof.
  intros e H1 H2. unfold resolve_escape, bind, peekn. cbn [peek_nth str_ops]. unfold chr in *.
  fold e. rewrite (assocc_none _ _ H1), (code_length_other _ H2). reflexivity.
Qed.

Lemma nth_skipn {A} k : forall (l : list A) j d, nth j (skipn k l) d = nth (k + j) l d.
Proof.
  induction k as [|k IH]; intros l j d; [reflexivity|].
  destruct l as [|x l]; [destruct j; reflexivity|]. cbn [skipn Nat.add nth]. apply IH.
Qed.

Lemma read_hex_bad n : forall i acc start (s : sc strin),
  (exists j, (j < n)%nat /\ is_hex (nth (i + j) (chars_of s) 0) = false) ->
  read_hex str_ops n i acc start s = Err 30 start.
Proof.
  induction n as [|n IH]; intros i acc start s [j [Hj Hh]]; [lia|].
  cbn [read_hex]. unfold bind, peekn. cbn [peek_nth str_ops]. unfold chr in *.
  match goal with |- context [if ?b then _ else _] => destruct b eqn:E end; [|reflexivity].
  apply IH. destruct j as [|j]; [rewrite Nat.add_0_r in Hh; congruence|].
  exists j. split; [lia|]. replace (S i + j)%nat with (i + S j)%nat by lia. exact Hh.
Qed.

Definition hex_number (ds : list chr) : N := fold_left (fun a c => a * 16 + as_hex c) ds 0.

Lemma skipn_cons_nth {A} i : forall (l : list A) c rest d, skipn i l = c :: rest -> nth i l d = c /\ skipn (S i) l = rest.
Proof.
  induction i as [|i IH]; intros l c rest d H.
  - cbn in H. subst l. split; reflexivity.
  - destruct l as [|x l]; [discriminate|]. cbn [skipn] in H. destruct (IH l c rest d H) as [HA HB].
    split; [exact HA|]. exact HB.
Qed.

Lemma read_hex_ok n : forall i acc start (s : sc strin),
  (n <= length (skipn i (chars_of s)))%nat -> forallb is_hex (firstn n (skipn i (chars_of s))) = true ->
  read_hex str_ops n i acc start s
  = Ok (fold_left (fun a c => a * 16 + as_hex c) (firstn n (skipn i (chars_of s))) acc, s).
Proof.
  induction n as [|n IH]; intros i acc start s HL HH; [reflexivity|].
  destruct (skipn i (chars_of s)) as [|c rest] eqn:E; [cbn in HL; lia|].
  destruct (skipn_cons_nth i _ _ _ 0 E) as [Hn Hs].
  cbn [firstn forallb] in HH. apply andb_prop in HH. destruct HH as [Hc Hr].
  cbn [read_hex]. unfold bind, peekn. cbn [peek_nth str_ops]. unfold chr in *. rewrite Hn, Hc.
  rewrite IH; rewrite Hs; [reflexivity | cbn in HL; lia | exact Hr].
Qed.

(* state after [skip_n_non_blank 2 ;;; look n]: only the first two characters are gone *)
Lemma after_escape_prefix (s : sc strin) n :
  exists s', (bind (skip_n_non_blank str_ops 2) (fun _ => look str_ops n)) s = Ok (tt, s')
             /\ chars_of s' = skipn 2 (chars_of s).
Proof. eexists. split; reflexivity. Qed.

Lemma code_length_in e n : In (e, n) code_length_table -> NoDup (map fst code_length_table) -> code_length e = n.
Proof.
  unfold code_length. induction code_length_table as [|[a b] l IH]; intros H ND; [contradiction|].
  cbn [assocn]. inversion ND as [|x l' Hx ND']; subst. destruct H as [H|H].
  - inversion H; subst. rewrite N.eqb_refl. reflexivity.
  - destruct (N.eqb_spec a e) as [->|Hne]; [exfalso; apply Hx; change e with (fst (e, n)); apply in_map; exact H|].
    apply IH; assumption.
Qed.

Lemma code_length_table_nodup : NoDup (map fst code_length_table).
Proof. repeat constructor; cbn; intuition discriminate. Qed.

Lemma code_length_table_disjoint e n : In (e, n) code_length_table -> assocc e escape_table = None /\ n <> 0%nat.
Proof. cbn. intros [H|[H|[H|[]]]]; inversion H; subst; split; (reflexivity || discriminate). Qed.

(* \x, \u, \U followed by fewer hex digits than required (a non-hex character or the end of input among them) *)
Theorem hex_escape_bad_digit_rejected start (s : sc strin) n :
  In (nth 1 (chars_of s) 0, n) code_length_table ->
  (exists j, (j < n)%nat /\ is_hex (nth (2 + j) (chars_of s) 0) = false) ->
  resolve_escape str_ops start s = Err 30 start.
Proof.
  intros Hin [j [Hj Hh]].
  destruct (code_length_table_disjoint _ _ Hin) as [Ha Hn].
  pose proof (code_length_in _ _ Hin code_length_table_nodup) as Hc.
  unfold resolve_escape. unfold bind at 1. unfold peekn at 1. cbn [peek_nth str_ops]. unfold chr in *.
  rewrite Ha, Hc. destruct (Nat.eqb_spec n 0); [contradiction|].
  destruct (after_escape_prefix s n) as (s' & Hs' & Hch).
  change (bind (skip_n_non_blank str_ops 2) (fun _ => bind (look str_ops n) ?k) s)
    with (bind (bind (skip_n_non_blank str_ops 2) (fun _ => look str_ops n)) k s) at 1.
  unfold bind at 1. rewrite Hs'. unfold bind at 1.
  rewrite read_hex_bad; [reflexivity|]. exists j. split; [exact Hj|]. rewrite Hch, nth_skipn. exact Hh.
Qed.

(* \x, \u, \U with all required hex digits whose value is not a Unicode scalar value (a surrogate, or above 10FFFF) *)
Theorem hex_escape_non_scalar_rejected start (s : sc strin) n :
  In (nth 1 (chars_of s) 0, n) code_length_table ->
  let ds := firstn n (skipn 2 (chars_of s)) in
  length ds = n -> forallb is_hex ds = true -> is_scalar_value (hex_number ds) = false ->
  resolve_escape str_ops start s = Err 32 start.
Proof.
  intros Hin ds HL HH HV.
  destruct (code_length_table_disjoint _ _ Hin) as [Ha Hn].
  pose proof (code_length_in _ _ Hin code_length_table_nodup) as Hc.
  unfold resolve_escape. unfold bind at 1. unfold peekn at 1. cbn [peek_nth str_ops]. unfold chr in *.
  rewrite Ha, Hc. destruct (Nat.eqb_spec n 0); [contradiction|].
  destruct (after_escape_prefix s n) as (s' & Hs' & Hch).
  change (bind (skip_n_non_blank str_ops 2) (fun _ => bind (look str_ops n) ?k) s)
    with (bind (bind (skip_n_non_blank str_ops 2) (fun _ => look str_ops n)) k s) at 1.
  unfold bind at 1. rewrite Hs'. unfold bind at 1.
  rewrite read_hex_ok.
  - cbn [skipn]. rewrite Hch. match goal with |- context [if ?b then _ else _] => replace b with false by (symmetry; exact HV) end. reflexivity.
  - cbn [skipn]. rewrite Hch. subst ds. rewrite firstn_length in HL. unfold chr in *. lia.
  - cbn [skipn]. rewrite Hch. exact HH.
Qed.

(* the three classes together: what [resolve_escape] accepts is exactly a table escape or a well-formed hex escape of a
   scalar value -- stated as: it never returns Ok in any of the three ill-formed situations *)

(* ---- S2: simple keys go stale (scanner.rs stale_simple_keys).  The model's guarantee, precisely:
        a candidate key is STALE when it is possible, the scanner is in block context (flow level 0), and either it began
        on an earlier line or more than SIMPLE_KEY_MAX characters ago.  If a stale candidate is REQUIRED (it sits at the
        indentation of the enclosing block mapping) the scan fails (site 44: "simple key expected ':'"); otherwise every
        stale candidate is invalidated and all others are left alone.  (In flow context the model, like the code,
        never invalidates: C06's 1024 limit is enforced in block context only.) ---- *)
Definition stale_key (s : sc strin) (k : simple_key) : bool :=
  sk_possible k && (sc_flow_level s =? 0)
  && ((m_line (sk_mark k) <? m_line (sc_mark s)) || (m_index (sk_mark k) + SIMPLE_KEY_MAX <? m_index (sc_mark s))).

Theorem stale_required_key_rejected (s : sc strin) :
  (exists k, In k (sc_sks s) /\ stale_key s k = true /\ sk_required k = true) ->
  stale_simple_keys s = Err 44 (sc_mark s).
Proof.
  intros [k [Hin [Hs Hr]]]. unfold stale_simple_keys, bind, get.
  assert (E : existsb (fun k => stale_key s k && sk_required k) (sc_sks s) = true).
  { apply existsb_exists. exists k. split; [exact Hin|]. rewrite Hs, Hr. reflexivity. }
  unfold stale_key in E. rewrite E. reflexivity.
Qed.

Theorem stale_keys_invalidated (s : sc strin) :
  (forall k, In k (sc_sks s) -> stale_key s k = true -> sk_required k = false) ->
  exists s', stale_simple_keys s = Ok (tt, s')
    /\ sc_mark s' = sc_mark s /\ sc_tokens s' = sc_tokens s /\ sc_flow_level s' = sc_flow_level s
    /\ length (sc_sks s') = length (sc_sks s)
    /\ forall i k, nth_error (sc_sks s) i = Some k ->
         exists k', nth_error (sc_sks s') i = Some k'
           /\ (stale_key s k = true -> sk_possible k' = false)
           /\ (stale_key s k = false -> k' = k).
Proof.
  intros H. unfold stale_simple_keys, bind, get.
  assert (E : existsb (fun k => stale_key s k && sk_required k) (sc_sks s) = false).
  { apply not_true_is_false. intros HE. apply existsb_exists in HE. destruct HE as [k [Hin Hk]].
    apply andb_prop in Hk. destruct Hk as [Hs Hr]. rewrite (H k Hin Hs) in Hr. discriminate. }
  unfold stale_key in E. rewrite E. eexists. split; [reflexivity|]. cbn.
  repeat split; try reflexivity.
  - apply map_length.
  - intros i k Hi. rewrite nth_error_map, Hi. cbn. eexists. split; [reflexivity|].
    fold (stale_key s k). destruct (stale_key s k); split; intros; try discriminate; reflexivity.
Qed.

(* the concrete limit: a possible key that started more than 1024 characters before the current position is stale *)
Theorem key_longer_than_limit_is_stale (s : sc strin) k :
  sk_possible k = true -> sc_flow_level s = 0 -> m_index (sk_mark k) + 1024 < m_index (sc_mark s) ->
  stale_key s k = true.
Proof.
  intros Hp Hf Hl. unfold stale_key. rewrite Hp, Hf. cbn [andb]. change SIMPLE_KEY_MAX with 1024.
  apply N.ltb_lt in Hl. rewrite Hl. apply orb_true_r.
Qed.

Theorem key_on_earlier_line_is_stale (s : sc strin) k :
  sk_possible k = true -> sc_flow_level s = 0 -> m_line (sk_mark k) < m_line (sc_mark s) ->
  stale_key s k = true.
Proof.
  intros Hp Hf Hl. unfold stale_key. rewrite Hp, Hf. cbn [andb].
  apply N.ltb_lt in Hl. rewrite Hl. reflexivity.
Qed.

(* ---- S3: flow nesting limit ---- *)
Theorem flow_level_limit_rejected (s : sc strin) :
  sc_flow_level s = FLOW_LEVEL_MAX -> increase_flow_level s = Err 45 (sc_mark s).
Proof. intros H. unfold increase_flow_level, bind, get. rewrite H, N.eqb_refl. reflexivity. Qed.

Theorem flow_level_below_limit_increases (s : sc strin) :
  sc_flow_level s <> FLOW_LEVEL_MAX ->
  exists s', increase_flow_level s = Ok (tt, s') /\ sc_flow_level s' = sc_flow_level s + 1.
Proof.
  intros H. unfold increase_flow_level, bind, get. apply N.eqb_neq in H. rewrite H.
  eexists. split; reflexivity.
Qed.

(* what invalidation leads to: when the ':' of "key: value" is reached in block context and the candidate key is no
   longer possible (e.g. invalidated by [stale_simple_keys] because it is longer than 1024 characters or spans lines),
   and no new key may start here (simple_key_allowed = false, as after any scalar on the same line), the scan fails
   with site 99 ("mapping values are not allowed in this context") *)
Theorem value_after_invalidated_key_rejected F (s : sc strin) k r :
  sc_sks s = k :: r -> sk_possible k = false -> sc_flow_level s = 0 -> sc_ifms s = [] -> sc_ska s = false ->
  nth 0 (tl (chars_of s)) 0 <> 9 ->
  fetch_value str_ops F s = Err 99 (sc_mark s).
Proof.
  intros Hk Hp Hf Hi Ha Hc. unfold fetch_value.
  unfold bind at 1. unfold get at 1. rewrite Hk. unfold bind at 1. unfold ret at 1.
  rewrite Hi. cbn [andb]. unfold bind at 1. unfold ret at 1.
  unfold bind at 1. unfold skip_non_blank, in_skip, adv_mark, modify, bind at 1. cbn.
  apply N.eqb_neq in Hc. unfold chr in *. rewrite Hc. cbn. rewrite Hp. cbn. rewrite Hf, Ha. reflexivity.
Qed.

(* ================================================================================================ *)
(* The full property as a closed statement: a (small) renderer of well-formed one-line flow documents  *)
(* composed with damage operators.  Stated, not proved -- and refuted, see Properties/C06.v.           *)
(* ================================================================================================ *)
Inductive wf_flow :=
| WWord (w : list N)                      (* plain scalar of lower-case letters *)
| WQuoted (w : list N)                    (* 'letters' *)
| WEmptyKey                               (* "? " : explicit key with empty key and value; a sequence entry only *)
| WSeq (l : list wf_flow)
| WMap (l : list (list N * wf_flow)).

Definition lower_word (w : list N) : Prop := w <> [] /\ Forall (fun c => 97 <= c /\ c <= 122) w.

Inductive wf_ok : bool -> wf_flow -> Prop :=     (* the flag: directly inside a flow sequence *)
| OkWord b w : lower_word w -> wf_ok b (WWord w)
| OkQuoted b w : lower_word w -> wf_ok b (WQuoted w)
| OkEmptyKey : wf_ok true WEmptyKey
| OkSeq b l : Forall (wf_ok true) l -> wf_ok b (WSeq l)
| OkMap b l : Forall (fun kv => lower_word (fst kv) /\ wf_ok false (snd kv)) l -> wf_ok b (WMap l).

Fixpoint join_with (sep : list N) (l : list (list N)) : list N :=
  match l with
  | [] => []
  | [x] => x
  | x :: r => x ++ sep ++ join_with sep r
  end.

Fixpoint render_flow (f : wf_flow) : list N :=
  match f with
  | WWord w => w
  | WQuoted w => [39] ++ w ++ [39]
  | WEmptyKey => [63; 32]
  | WSeq l => [91] ++ join_with [44; 32] (map render_flow l) ++ [93]
  | WMap l => [123] ++ join_with [44; 32] (map (fun kv => fst kv ++ [58; 32] ++ render_flow (snd kv)) l) ++ [125]
  end.

Definition is_collection (f : wf_flow) : bool := match f with WSeq _ | WMap _ => true | _ => false end.
Definition not_plain (f : wf_flow) : bool := match f with WWord _ | WEmptyKey => false | _ => true end.
Definition other_closer (c : N) : N := if c =? 93 then 125 else 93.

(* damaged texts, each ill-formed by construction: the root node is a complete one-line flow node at column 0 *)
Inductive damaged : list N -> Prop :=
| DStrayCloser f c : wf_ok false f -> is_collection f = true -> (c = 93 \/ c = 125) ->
    damaged (render_flow f ++ [32; c; 10])                                   (* "[a, b] ]"          *)
| DDropCloser f : wf_ok false f -> is_collection f = true ->
    damaged (removelast (render_flow f) ++ [10])                             (* "[a, b"             *)
| DSwapCloser f : wf_ok false f -> is_collection f = true ->
    damaged (removelast (render_flow f) ++ [other_closer (last (render_flow f) 0); 10])   (* "[a, b}" *)
| DSecondRoot f g : wf_ok false f -> wf_ok false g -> not_plain f = true ->
    damaged (render_flow f ++ [10] ++ render_flow g ++ [10]).                (* "[a]" NL "b"       *)

Definition C06_full_flow_fragment : Prop := forall s, damaged s -> snd (run_str s) <> PDone.

Lemma C06_full_flow_fragment_refuted : ~ C06_full_flow_fragment.
Proof.
  intros H.
  assert (D : damaged (render_flow (WSeq [WEmptyKey]) ++ [32; 93; 10])).
  { apply DStrayCloser; [ | reflexivity | left; reflexivity ].
    apply OkSeq. repeat constructor. }
  apply (H _ D). vm_compute. reflexivity.
Qed.
