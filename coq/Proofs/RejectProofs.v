(* C06 — rejection lemmas: which ill-formed token streams / character sequences the model turns into an error.
   Parser layer: statements over ARBITRARY remaining token streams, phrased with [toks_ahead] (the one-token cache
   followed by the tokens the scanner will still deliver).  Scanner layer: over [str_ops]. *)
From Coq Require Import List NArith ZArith Bool Lia.
Import ListNotations.
Require Import Parser SBase SPrim SDir SScalar SFetch Pipe Grammar C02base C02rest C02tail C02run DocReset.

Arguments N.add : simpl never.
Arguments N.sub : simpl never.
Arguments N.mul : simpl never.
Arguments N.eqb : simpl never.
Arguments N.ltb : simpl never.
Arguments N.leb : simpl never.

(* ------------------------------------------------------------------------------------------------ *)
(* the remaining token stream of a parser                                                            *)
(* ------------------------------------------------------------------------------------------------ *)
Definition toks_ahead (p : parser) : list token :=
  match p_token p with Some t => t :: p_toks p | None => p_toks p end.

Lemma peek_norm p t r : toks_ahead p = t :: r -> Parser.peek p = Parser.Ok (t, set_tok p r (Some t)).
Proof.
  unfold toks_ahead, Parser.peek. destruct p as [tk c stk st an ai tg kt]. cbn.
  destruct c as [t'|]; intros H.
  - inversion H; subst. reflexivity.
  - rewrite H. reflexivity.
Qed.

Lemma toks_ahead_init toks keep : toks_ahead (init_parser toks keep) = toks.
Proof. reflexivity. Qed.

Ltac pk H := rewrite (peek_norm _ _ _ H); cbn.

(* the parser-level verdict of a run that starts in [p] *)
Definition run_end (fuel : nat) (p : parser) (se : scan_end) (acc : list (event * span)) : pend :=
  snd (parse_all fuel p se acc).

Lemma run_err1 fuel p se acc s m :
  p_state p <> SEnd -> state_machine p = Parser.Err (PErr s m) -> run_end (S fuel) p se acc = PParseErr s m.
Proof.
  intros HE H. unfold run_end. rewrite parse_all_S. unfold step_result. rewrite H.
  destruct (p_state p); try reflexivity. congruence.
Qed.

Lemma run_ok1 fuel p se acc ev p' :
  p_state p <> SEnd -> state_machine p = Parser.Ok (ev, p') ->
  run_end (S fuel) p se acc = run_end fuel p' se (ev :: acc).
Proof.
  intros HE H. unfold run_end. rewrite parse_all_S. unfold step_result. rewrite H.
  destruct (p_state p); try reflexivity. congruence.
Qed.

(* ------------------------------------------------------------------------------------------------ *)
(* R2 — a closing bracket of the other kind                                                          *)
(* ------------------------------------------------------------------------------------------------ *)
Lemma flow_seq_entry_mapping_end p sp r :
  p_state p = SFlowSequenceEntry -> toks_ahead p = (sp, TFlowMappingEnd) :: r ->
  state_machine p = Parser.Err (PErr 7 (sp_start sp)).
Proof. intros HS HT. unfold state_machine. rewrite HS. unfold flow_sequence_entry. pk HT. reflexivity. Qed.

Lemma flow_seq_first_entry_mapping_end p t0 sp r :
  p_state p = SFlowSequenceFirstEntry -> toks_ahead p = t0 :: (sp, TFlowMappingEnd) :: r ->
  state_machine p = Parser.Err (PErr 11 (sp_start sp)).
Proof. intros HS HT. unfold state_machine. rewrite HS. unfold flow_sequence_entry. pk HT. reflexivity. Qed.

Lemma flow_map_key_sequence_end p sp r :
  p_state p = SFlowMappingKey -> toks_ahead p = (sp, TFlowSequenceEnd) :: r ->
  state_machine p = Parser.Err (PErr 6 (sp_start sp)).
Proof. intros HS HT. unfold state_machine. rewrite HS. unfold flow_mapping_key. pk HT. reflexivity. Qed.

Lemma flow_map_first_key_sequence_end p t0 sp r :
  p_state p = SFlowMappingFirstKey -> toks_ahead p = t0 :: (sp, TFlowSequenceEnd) :: r ->
  state_machine p = Parser.Err (PErr 11 (sp_start sp)).
Proof. intros HS HT. unfold state_machine. rewrite HS. unfold flow_mapping_key. pk HT. reflexivity. Qed.

(* ------------------------------------------------------------------------------------------------ *)
(* R1 + R2 — a flow collection that is still open when the stream (or the document, or the enclosing   *)
(* block) ends, or that meets a closer of the other kind: the run ends in a parse error at that token  *)
(* ------------------------------------------------------------------------------------------------ *)
Arguments run_end : simpl never.

(* tokens that can neither continue nor close a flow collection *)
Definition flow_stopper (tk : tok) : bool :=
  match tk with
  | TStreamStart | TStreamEnd | TVersionDirective _ _ | TTagDirective _ _ | TDocumentStart | TDocumentEnd
  | TBlockSequenceStart | TBlockMappingStart | TBlockEnd | TBlockEntry => true
  | _ => false
  end.

(* which kind of flow collection a state is inside of (true: sequence, false: mapping); the two First* states still have
   the opening bracket in front of them and are treated separately *)
Definition flow_family (st : pstate) : option bool :=
  match st with
  | SFlowSequenceEntry | SFlowSequenceEntryMappingKey | SFlowSequenceEntryMappingValue | SFlowSequenceEntryMappingEnd _ => Some true
  | SFlowMappingKey | SFlowMappingValue | SFlowMappingEmptyValue => Some false
  | _ => None
  end.

Definition bad_in_flow (seq : bool) (tk : tok) : bool :=
  flow_stopper tk || (if seq then match tk with TFlowMappingEnd => true | _ => false end
                      else match tk with TFlowSequenceEnd => true | _ => false end).

Definition flow_err_site (s : N) : Prop := s = 6%N \/ s = 7%N \/ s = 11%N.

Ltac unf_flow :=
  try unfold flow_sequence_entry; try unfold flow_mapping_key; try unfold flow_mapping_value;
  try unfold flow_sequence_entry_mapping_key; try unfold flow_sequence_entry_mapping_value;
  try unfold flow_sequence_entry_mapping_end.

Ltac pkq HT := match goal with |- context [Parser.peek ?q] => rewrite (peek_norm q _ _ HT); cbn end.
Ltac run_go HT :=
  first [ (eapply run_err1; [cbn; discriminate | cbn; try pkq HT; reflexivity])
        | (erewrite run_ok1; [ | cbn; discriminate | cbn; try pkq HT; reflexivity]); run_go HT ].

Theorem open_flow_rejected p k sp tk r :
  flow_family (p_state p) = Some k -> toks_ahead p = (sp, tk) :: r -> bad_in_flow k tk = true ->
  forall fuel se acc, exists s, flow_err_site s /\ run_end (3 + fuel) p se acc = PParseErr s (sp_start sp).
Proof.
  intros HF HT HB fuel se acc. cbn [Nat.add].
  destruct (p_state p) eqn:HS; cbn in HF; try discriminate; inversion HF; subst k;
    destruct tk; cbn in HB; try discriminate.
  all: eexists; split;
    [ | first [ (eapply run_err1; [congruence | unfold state_machine; rewrite HS; unf_flow; pk HT; reflexivity])
              | (erewrite run_ok1; [ | congruence | unfold state_machine; rewrite HS; unf_flow; try pk HT; reflexivity]); run_go HT ] ].
  all: unfold flow_err_site; auto.
Qed.
