(* C06 — rejection lemmas: which ill-formed token streams / character sequences the model turns into an error.
   Parser layer: statements over ARBITRARY remaining token streams, phrased with [toks_ahead] (the one-token cache
   followed by the tokens the scanner will still deliver).  Scanner layer: over [str_ops]. *)
From Coq Require Import List NArith ZArith Bool Lia.
Import ListNotations.
Require Import Parser SBase SPrim SDir SScalar SFetch Pipe Grammar C02base C02rest C02tail C02run DocReset.

Arguments N.add : simpl never.
Arguments N.sub : simpl never.
Arguments N.mul : simpl never.
Arguments N.eqb : simpl never.
Arguments N.ltb : simpl never.
Arguments N.leb : simpl never.

(* ------------------------------------------------------------------------------------------------ *)
(* the remaining token stream of a parser                                                            *)
(* ------------------------------------------------------------------------------------------------ *)
Definition toks_ahead (p : parser) : list token :=
  match p_token p with Some t => t :: p_toks p | None => p_toks p end.

Lemma peek_norm p t r : toks_ahead p = t :: r -> Parser.peek p = Parser.Ok (t, set_tok p r (Some t)).
Proof.
  unfold toks_ahead, Parser.peek. destruct p as [tk c stk st an ai tg kt]. cbn.
  destruct c as [t'|]; intros H.
  - inversion H; subst. reflexivity.
  - rewrite H. reflexivity.
Qed.

Lemma toks_ahead_init toks keep : toks_ahead (init_parser toks keep) = toks.
Proof. reflexivity. Qed.

Ltac pk H := rewrite (peek_norm _ _ _ H); cbn.

(* the parser-level verdict of a run that starts in [p] *)
Definition run_end (fuel : nat) (p : parser) (se : scan_end) (acc : list (event * span)) : pend :=
  snd (parse_all fuel p se acc).

Lemma run_err1 fuel p se acc s m :
  p_state p <> SEnd -> state_machine p = Parser.Err (PErr s m) -> run_end (S fuel) p se acc = PParseErr s m.
Proof.
  intros HE H. unfold run_end. rewrite parse_all_S. unfold step_result. rewrite H.
  destruct (p_state p); try reflexivity. congruence.
Qed.

Lemma run_ok1 fuel p se acc ev p' :
  p_state p <> SEnd -> state_machine p = Parser.Ok (ev, p') ->
  run_end (S fuel) p se acc = run_end fuel p' se (ev :: acc).
Proof.
  intros HE H. unfold run_end. rewrite parse_all_S. unfold step_result. rewrite H.
  destruct (p_state p); try reflexivity. congruence.
Qed.

(* ------------------------------------------------------------------------------------------------ *)
(* R2 — a closing bracket of the other kind                                                          *)
(* ------------------------------------------------------------------------------------------------ *)
Lemma flow_seq_entry_mapping_end p sp r :
  p_state p = SFlowSequenceEntry -> toks_ahead p = (sp, TFlowMappingEnd) :: r ->
  state_machine p = Parser.Err (PErr 7 (sp_start sp)).
Proof. intros HS HT. unfold state_machine. rewrite HS. unfold flow_sequence_entry. pk HT. reflexivity. Qed.

Lemma flow_seq_first_entry_mapping_end p t0 sp r :
  p_state p = SFlowSequenceFirstEntry -> toks_ahead p = t0 :: (sp, TFlowMappingEnd) :: r ->
  state_machine p = Parser.Err (PErr 11 (sp_start sp)).
Proof. intros HS HT. unfold state_machine. rewrite HS. unfold flow_sequence_entry. pk HT. reflexivity. Qed.

Lemma flow_map_key_sequence_end p sp r :
  p_state p = SFlowMappingKey -> toks_ahead p = (sp, TFlowSequenceEnd) :: r ->
  state_machine p = Parser.Err (PErr 6 (sp_start sp)).
Proof. intros HS HT. unfold state_machine. rewrite HS. unfold flow_mapping_key. pk HT. reflexivity. Qed.

Lemma flow_map_first_key_sequence_end p t0 sp r :
  p_state p = SFlowMappingFirstKey -> toks_ahead p = t0 :: (sp, TFlowSequenceEnd) :: r ->
  state_machine p = Parser.Err (PErr 11 (sp_start sp)).
Proof. intros HS HT. unfold state_machine. rewrite HS. unfold flow_mapping_key. pk HT. reflexivity. Qed.

(* ------------------------------------------------------------------------------------------------ *)
(* R1 + R2 — a flow collection that is still open when the stream (or the document, or the enclosing   *)
(* block) ends, or that meets a closer of the other kind: the run ends in a parse error at that token  *)
(* ------------------------------------------------------------------------------------------------ *)
Arguments run_end : simpl never.

(* tokens that can neither continue nor close a flow collection *)
Definition flow_stopper (tk : tok) : bool :=
  match tk with
  | TStreamStart | TStreamEnd | TVersionDirective _ _ | TTagDirective _ _ | TDocumentStart | TDocumentEnd
  | TBlockSequenceStart | TBlockMappingStart | TBlockEnd | TBlockEntry => true
  | _ => false
  end.

(* which kind of flow collection a state is inside of (true: sequence, false: mapping); the two First* states still have
   the opening bracket in front of them and are treated separately *)
Definition flow_family (st : pstate) : option bool :=
  match st with
  | SFlowSequenceEntry | SFlowSequenceEntryMappingKey | SFlowSequenceEntryMappingValue | SFlowSequenceEntryMappingEnd _ => Some true
  | SFlowMappingKey | SFlowMappingValue | SFlowMappingEmptyValue => Some false
  | _ => None
  end.

Definition bad_in_flow (seq : bool) (tk : tok) : bool :=
  flow_stopper tk || (if seq then match tk with TFlowMappingEnd => true | _ => false end
                      else match tk with TFlowSequenceEnd => true | _ => false end).

Definition flow_err_site (s : N) : Prop := s = 6%N \/ s = 7%N \/ s = 11%N.

Ltac unf_flow :=
  try unfold flow_sequence_entry; try unfold flow_mapping_key; try unfold flow_mapping_value;
  try unfold flow_sequence_entry_mapping_key; try unfold flow_sequence_entry_mapping_value;
  try unfold flow_sequence_entry_mapping_end.

Ltac pkq HT := match goal with |- context [Parser.peek ?q] => rewrite (peek_norm q _ _ HT); cbn end.
Ltac run_go HT :=
  first [ (eapply run_err1; [cbn; discriminate | cbn; try pkq HT; reflexivity])
        | (erewrite run_ok1; [ | cbn; discriminate | cbn; try pkq HT; reflexivity]); run_go HT ].

Theorem open_flow_rejected p k sp tk r :
  flow_family (p_state p) = Some k -> toks_ahead p = (sp, tk) :: r -> bad_in_flow k tk = true ->
  forall fuel se acc, exists s, flow_err_site s /\ run_end (3 + fuel) p se acc = PParseErr s (sp_start sp).
Proof.
  intros HF HT HB fuel se acc. cbn [Nat.add].
  destruct (p_state p) eqn:HS; cbn in HF; try discriminate; inversion HF; subst k;
    destruct tk; cbn in HB; try discriminate.
  all: eexists; split;
    [ | first [ (eapply run_err1; [congruence | unfold state_machine; rewrite HS; unf_flow; pk HT; reflexivity])
              | (erewrite run_ok1; [ | congruence | unfold state_machine; rewrite HS; unf_flow; try pk HT; reflexivity]); run_go HT ] ].
  all: unfold flow_err_site; auto.
Qed.

(* the same right behind the opening bracket (the First* states still have the opener [t0] in front of them) *)
Theorem open_flow_first_rejected p (seq : bool) t0 sp tk r :
  p_state p = (if seq then SFlowSequenceFirstEntry else SFlowMappingFirstKey) ->
  toks_ahead p = t0 :: (sp, tk) :: r -> bad_in_flow seq tk = true ->
  state_machine p = Parser.Err (PErr 11 (sp_start sp)).
Proof.
  intros HS HT HB. unfold state_machine. rewrite HS.
  destruct seq; destruct tk; cbn in HB; try discriminate; unf_flow; pk HT; reflexivity.
Qed.

(* ------------------------------------------------------------------------------------------------ *)
(* R3 — a second root node / a directive without document end marker                                  *)
(* ------------------------------------------------------------------------------------------------ *)
Definition is_directive_tok (tk : tok) : bool :=
  match tk with TVersionDirective _ _ | TTagDirective _ _ => true | _ => false end.

(* tokens that can only belong to further content of the same document *)
Definition content_tok (tk : tok) : bool :=
  match tk with
  | TDocumentEnd | TDocumentStart | TStreamEnd | TVersionDirective _ _ | TTagDirective _ _ => false
  | _ => true
  end.

Theorem second_root_rejected p sp tk r :
  p_state p = SDocumentEnd -> toks_ahead p = (sp, tk) :: r -> content_tok tk = true ->
  exists sp' p', state_machine p = Parser.Ok ((EDocumentEnd, sp'), p')
                 /\ state_machine p' = Parser.Err (PErr 3 (sp_start sp)).
Proof.
  intros HS HT HC. unfold state_machine at 1. rewrite HS. unfold document_end. pk HT.
  destruct tk; cbn in HC; try discriminate; cbn;
    destruct (p_keep_tags p); cbn; (do 2 eexists; split; [reflexivity|]); cbn; reflexivity.
Qed.

Theorem second_root_run_rejected p sp tk r fuel se acc :
  p_state p = SDocumentEnd -> toks_ahead p = (sp, tk) :: r -> content_tok tk = true ->
  run_end (2 + fuel) p se acc = PParseErr 3 (sp_start sp).
Proof.
  intros HS HT HC. destruct (second_root_rejected p sp tk r HS HT HC) as (sp' & p' & H1 & H2).
  cbn [Nat.add]. erewrite run_ok1; [ | congruence | exact H1 ].
  apply run_err1; [ | exact H2 ].
  intros HE. unfold state_machine in H2. rewrite HE in H2. discriminate.
Qed.

Theorem directive_without_document_end_rejected p sp tk r :
  p_state p = SDocumentEnd -> toks_ahead p = (sp, tk) :: r -> is_directive_tok tk = true ->
  state_machine p = Parser.Err (PErr 4 (sp_start sp)).
Proof.
  intros HS HT HC. unfold state_machine. rewrite HS. unfold document_end. pk HT.
  destruct tk; cbn in HC; try discriminate; cbn; destruct (p_keep_tags p); reflexivity.
Qed.

(* ------------------------------------------------------------------------------------------------ *)
(* R4 — alias without anchor                                                                          *)
(* ------------------------------------------------------------------------------------------------ *)
Theorem alias_without_anchor_rejected p sp n r b i :
  toks_ahead p = (sp, TAlias n) :: r -> assoc n (p_anchors p) = None -> p_states p <> [] ->
  parse_node p b i = Parser.Err (PErr 10 (sp_start sp)).
Proof.
  intros HT HA HN. unfold parse_node. pk HT. unfold pop_state. cbn.
  destruct (p_states p) as [|s stk]; [congruence|]. cbn. rewrite HA. reflexivity.
Qed.

(* at the root of a document, implicit or explicit *)
Theorem root_alias_without_anchor_rejected p sp n r :
  (p_state p = SBlockNode \/ p_state p = SDocumentContent) ->
  toks_ahead p = (sp, TAlias n) :: r -> assoc n (p_anchors p) = None -> p_states p <> [] ->
  state_machine p = Parser.Err (PErr 10 (sp_start sp)).
Proof.
  intros HS HT HA HN. unfold state_machine.
  destruct HS as [HS|HS]; rewrite HS.
  - eapply alias_without_anchor_rejected; eassumption.
  - unfold document_content. rewrite (peek_norm _ _ _ HT). cbn beta iota.
    eapply alias_without_anchor_rejected; cbn; [reflexivity | assumption | assumption].
Qed.

Lemma assoc_nil {B} n : @assoc B n [] = None.
Proof. reflexivity. Qed.

(* An alias right at the start of the next document refers to nothing, whatever was anchored before:
   [document_end] empties the table (DocReset), "--- *n" and "*n" (after "...") both fail with site 10. *)
Theorem alias_to_previous_document_rejected p ev p' :
  document_end p = Parser.Ok (ev, p') ->
  (forall sp0 sp n r, toks_ahead p' = (sp0, TDocumentStart) :: (sp, TAlias n) :: r ->
     exists ev2 p2, state_machine p' = Parser.Ok (ev2, p2) /\ state_machine p2 = Parser.Err (PErr 10 (sp_start sp)))
  /\ (forall sp n r, p_state p' = SImplicitDocumentStart -> toks_ahead p' = (sp, TAlias n) :: r ->
     exists ev2 p2, state_machine p' = Parser.Ok (ev2, p2) /\ state_machine p2 = Parser.Err (PErr 10 (sp_start sp))).
Proof.
  intros HD. destruct (document_end_resets _ _ _ HD) as [(HA & _) HS].
  split.
  - intros sp0 sp n r HT.
    assert (G : forall impl, exists ev2 p2, document_start p' impl = Parser.Ok (ev2, p2)
                                       /\ state_machine p2 = Parser.Err (PErr 10 (sp_start sp))).
    { intros impl. unfold document_start. cbn [skip_document_ends]. pk HT.
      unfold explicit_document_start. cbn. do 2 eexists. split; [reflexivity|].
      cbn. rewrite HA. reflexivity. }
    unfold state_machine at 1. destruct HS as [HS|HS]; rewrite HS; apply G.
  - intros sp n r HS' HT. unfold state_machine at 1. rewrite HS'.
    unfold document_start. cbn [skip_document_ends]. pk HT.
    do 2 eexists. split; [reflexivity|]. cbn. rewrite HA. reflexivity.
Qed.

(* ------------------------------------------------------------------------------------------------ *)
(* R5 — named tag handle that was never declared                                                      *)
(* ------------------------------------------------------------------------------------------------ *)
Theorem undeclared_handle_rejected p m h s :
  is_named_handle h = true -> h <> [bang; bang] -> assoc h (p_tags p) = None ->
  resolve_tag p m h s = Parser.Err (PErr 20 m).
Proof.
  intros HN HB HA. unfold resolve_tag.
  assert (E : str_eqb h [bang; bang] = false).
  { unfold str_eqb. destruct (list_eq_dec N.eq_dec h [bang; bang]); [contradiction|reflexivity]. }
  rewrite E. destruct h as [|a h']; [discriminate|]. cbn [andb]. rewrite HA, HN. reflexivity.
Qed.

Theorem node_with_undeclared_handle_rejected p sp h s r b i :
  toks_ahead p = (sp, TTag h s) :: r ->
  is_named_handle h = true -> h <> [bang; bang] -> assoc h (p_tags p) = None ->
  parse_node p b i = Parser.Err (PErr 20 (sp_start sp)).
Proof.
  intros HT HN HB HA. unfold parse_node. pk HT.
  rewrite undeclared_handle_rejected; [reflexivity | assumption | assumption | cbn; assumption].
Qed.

Theorem anchored_node_with_undeclared_handle_rejected p sp0 a sp h s r b i :
  toks_ahead p = (sp0, TAnchor a) :: (sp, TTag h s) :: r ->
  is_named_handle h = true -> h <> [bang; bang] -> assoc h (p_tags p) = None ->
  parse_node p b i = Parser.Err (PErr 20 (sp_start sp0)).
Proof.
  intros HT HN HB HA. unfold parse_node. pk HT.
  rewrite undeclared_handle_rejected; [reflexivity | assumption | assumption | cbn; assumption].
Qed.

(* ------------------------------------------------------------------------------------------------ *)
(* R6 — repeated %YAML directive                                                                       *)
(* ------------------------------------------------------------------------------------------------ *)
Theorem version_after_version_rejected fuel p sp a b r tags :
  toks_ahead p = (sp, TVersionDirective a b) :: r ->
  process_directives (S fuel) p true tags = Parser.Err (PErr 2 (sp_start sp)).
Proof. intros HT. cbn [process_directives]. pk HT. reflexivity. Qed.

Theorem repeated_version_directive_rejected fuel p sp1 a b sp2 c d r tags :
  toks_ahead p = (sp1, TVersionDirective a b) :: (sp2, TVersionDirective c d) :: r ->
  process_directives (S (S fuel)) p false tags = Parser.Err (PErr 2 (sp_start sp2)).
Proof. intros HT. cbn [process_directives]. pk HT. reflexivity. Qed.

(* ... also with %TAG directives between the two (or the error is the duplicate-handle one, site 21) *)
Lemma skip_ahead p t r : toks_ahead p = t :: r -> toks_ahead (skip (set_tok p r (Some t))) = r.
Proof. reflexivity. Qed.

Theorem version_seen_then_version_rejected ds : forall fuel p tags sp a b r,
  Forall (fun t => match snd t with TTagDirective _ _ => True | _ => False end) ds ->
  toks_ahead p = ds ++ (sp, TVersionDirective a b) :: r -> (length ds < fuel)%nat ->
  match process_directives fuel p true tags with
  | Parser.Err (PErr s m) => (s = 2%N /\ m = sp_start sp) \/ s = 21%N
  | _ => False
  end.
Proof.
  induction ds as [|[spd d] ds IH]; intros fuel p tags sp a b r HF HT HL.
  - destruct fuel as [|fuel]; [cbn in HL; lia|]. cbn [app] in HT.
    rewrite (version_after_version_rejected fuel p sp a b r tags HT). left; split; reflexivity.
  - destruct fuel as [|fuel]; [cbn in HL; lia|]. cbn [app] in HT.
    inversion HF as [|x l Hd HF']; subst. cbn [snd] in Hd. destruct d; try contradiction.
    cbn [process_directives]. rewrite (peek_norm _ _ _ HT). cbn beta iota.
    destruct (negb (is_empty_str h) && has_key h tags); [right; reflexivity|].
    eapply IH; [exact HF' | reflexivity | cbn in HL; lia].
Qed.

Lemma toks_ahead_length p : (length (toks_ahead p) < S (S (length (p_toks p))))%nat.
Proof. unfold toks_ahead. destruct (p_token p); cbn; lia. Qed.

(* at the state-machine level: a stream/document start that meets "%YAML .. %YAML .." *)
Theorem document_with_two_versions_rejected p sp1 a b sp2 c d r :
  (p_state p = SImplicitDocumentStart \/ p_state p = SDocumentStart) ->
  toks_ahead p = (sp1, TVersionDirective a b) :: (sp2, TVersionDirective c d) :: r ->
  state_machine p = Parser.Err (PErr 2 (sp_start sp2)).
Proof.
  intros HS HT. unfold state_machine.
  assert (G : forall impl, document_start p impl = Parser.Err (PErr 2 (sp_start sp2))).
  { intros impl. unfold document_start. cbn [skip_document_ends]. pk HT.
    unfold explicit_document_start. cbn. reflexivity. }
  destruct HS as [HS|HS]; rewrite HS; apply G.
Qed.

(* ------------------------------------------------------------------------------------------------ *)
(* R7 — directives that are not followed by '---'                                                     *)
(* ------------------------------------------------------------------------------------------------ *)
Lemma process_directives_run ds : forall fuel p vs tags t r,
  Forall (fun t => is_directive_tok (snd t) = true) ds -> is_directive_tok (snd t) = false ->
  toks_ahead p = ds ++ t :: r -> (length ds < fuel)%nat ->
  match process_directives fuel p vs tags with
  | Parser.Ok q => toks_ahead q = t :: r
  | Parser.Err (PErr s _) => s = 2%N \/ s = 21%N
  | _ => False
  end.
Proof.
  induction ds as [|[spd d] ds IH]; intros fuel p vs tags t r HF Ht HT HL.
  - destruct fuel as [|fuel]; [cbn in HL; lia|]. cbn [app] in HT.
    cbn [process_directives]. rewrite (peek_norm _ _ _ HT). destruct t as [sp tk]. cbn [snd] in Ht.
    destruct tk; cbn in Ht; try discriminate; reflexivity.
  - destruct fuel as [|fuel]; [cbn in HL; lia|]. cbn [app] in HT.
    inversion HF as [|x l Hd HF']; subst. cbn [snd] in Hd.
    cbn [process_directives]. rewrite (peek_norm _ _ _ HT).
    destruct d; cbn in Hd; try discriminate; cbn beta iota.
    + destruct vs; [left; reflexivity|]. eapply IH; [exact HF' | exact Ht | reflexivity | cbn in HL; lia].
    + destruct (negb (is_empty_str h) && has_key h tags); [right; reflexivity|].
      eapply IH; [exact HF' | exact Ht | reflexivity | cbn in HL; lia].
Qed.

Theorem directives_without_document_start_rejected p ds sp tk r :
  Forall (fun t => is_directive_tok (snd t) = true) ds ->
  is_directive_tok tk = false -> tk <> TDocumentStart ->
  toks_ahead p = ds ++ (sp, tk) :: r ->
  match explicit_document_start p with
  | Parser.Err (PErr s m) => (s = 3%N /\ m = sp_start sp)   (* did not find expected <document start> *)
                             \/ s = 2%N \/ s = 21%N         (* or a directive of the run is itself in error *)
  | _ => False
  end.
Proof.
  intros HF Hd Hn HT. unfold explicit_document_start.
  assert (HL : (length ds < S (S (length (p_toks p))))%nat).
  { pose proof (toks_ahead_length p) as H. rewrite HT, app_length in H. cbn in H. lia. }
  pose proof (process_directives_run ds _ p false [] (sp, tk) r HF Hd HT HL) as HP.
  destruct (process_directives _ p false []) as [q|e|n]; [| |contradiction].
  - rewrite (peek_norm _ _ _ HP). destruct tk; try (left; split; reflexivity). congruence.
  - destruct e as [|s m]; [contradiction|]. right. exact HP.
Qed.

(* in particular: directives and then the end of the stream *)
Corollary directives_at_end_of_stream_rejected p ds sp r :
  Forall (fun t => is_directive_tok (snd t) = true) ds ->
  toks_ahead p = ds ++ (sp, TStreamEnd) :: r ->
  match explicit_document_start p with
  | Parser.Err (PErr s m) => (s = 3%N /\ m = sp_start sp) \/ s = 2%N \/ s = 21%N
  | _ => False
  end.
Proof. intros HF HT. apply (directives_without_document_start_rejected p ds sp TStreamEnd r); auto. discriminate. Qed.

(* and the state machine does call [explicit_document_start] when a document starts with a directive *)
Theorem document_start_with_directive p sp tk r impl :
  is_directive_tok tk = true -> toks_ahead p = (sp, tk) :: r ->
  exists q, toks_ahead q = (sp, tk) :: r /\ document_start p impl = explicit_document_start q.
Proof.
  intros Hd HT. unfold document_start. cbn [skip_document_ends]. pk HT.
  destruct tk; cbn in Hd; try discriminate; eexists; (split; [|reflexivity]); reflexivity.
Qed.

(* ------------------------------------------------------------------------------------------------ *)
(* The bracket discipline of a token stream up to StreamEnd: every flow closer matches the innermost     *)
(* open flow collection, none is open at StreamEnd.  (Proved below for every accepted stream.)         *)
(* ------------------------------------------------------------------------------------------------ *)
Fixpoint flow_balanced (l : list token) (stk : list bool) : bool :=
  match l with
  | [] => false                                   (* no StreamEnd at all *)
  | (_, t) :: r =>
      match t with
      | TStreamEnd => match stk with [] => true | _ => false end
      | TFlowSequenceStart => flow_balanced r (true :: stk)
      | TFlowMappingStart => flow_balanced r (false :: stk)
      | TFlowSequenceEnd => match stk with true :: s => flow_balanced r s | _ => false end
      | TFlowMappingEnd => match stk with false :: s => flow_balanced r s | _ => false end
      | _ => flow_balanced r stk
      end
  end.

Definition accepted_implies_balanced : Prop :=
  forall toks keep se fuel, snd (parse_all fuel (init_parser toks keep) se []) = PDone -> flow_balanced toks [] = true.

Definition sp0 : span := span_empty {| m_index := 0; m_line := 0; m_col := 0 |}.

(* ================================================================================================ *)
(* Scanner layer, over the character-level StrInput instance [str_ops]                               *)
(* ================================================================================================ *)
Open Scope N_scope.

(* ---- S1: escapes in double-quoted scalars.  [resolve_escape] is entered with the backslash at offset 0
        and the escape character at offset 1 of the remaining input ---- *)
Notation chars_of s := (si_chars (sc_in s)).

Lemma assocc_none e l : ~ In e (map fst l) -> assocc e l = None.
Proof.
  induction l as [|[a b] l IH]; intros H; [reflexivity|]. cbn [assocc].
  destruct (N.eqb_spec a e) as [->|Hne]; [exfalso; apply H; left; reflexivity|].
  apply IH. intros Hin. apply H. right. exact Hin.
Qed.

Lemma code_length_other e : ~ In e (map fst code_length_table) -> code_length e = 0%nat.
Proof.
  unfold code_length. induction code_length_table as [|[a b] l IH]; intros H; [reflexivity|]. cbn [assocn].
  destruct (N.eqb_spec a e) as [->|Hne]; [exfalso; apply H; left; reflexivity|].
  apply IH. intros Hin. apply H. right. exact Hin.
Qed.

(* every code point that is neither a single-character escape of the generated table nor x/u/U: "unknown escape character" *)
Theorem unknown_escape_rejected start (s : sc strin) :
  let e := nth 1 (chars_of s) 0 in
  ~ In e (map fst escape_table) -> ~ In e (map fst code_length_table) ->
  resolve_escape str_ops start s = Err 31 start.
Proof.
  intros e H1 H2. unfold resolve_escape, bind, peekn. cbn [peek_nth str_ops]. unfold chr in *.
  fold e. rewrite (assocc_none _ _ H1), (code_length_other _ H2). reflexivity.
Qed.

Lemma nth_skipn {A} k : forall (l : list A) j d, nth j (skipn k l) d = nth (k + j) l d.
Proof.
  induction k as [|k IH]; intros l j d; [reflexivity|].
  destruct l as [|x l]; [destruct j; reflexivity|]. cbn [skipn Nat.add nth]. apply IH.
Qed.

Lemma read_hex_bad n : forall i acc start (s : sc strin),
  (exists j, (j < n)%nat /\ is_hex (nth (i + j) (chars_of s) 0) = false) ->
  read_hex str_ops n i acc start s = Err 30 start.
Proof.
  induction n as [|n IH]; intros i acc start s [j [Hj Hh]]; [lia|].
  cbn [read_hex]. unfold bind, peekn. cbn [peek_nth str_ops]. unfold chr in *.
  match goal with |- context [if ?b then _ else _] => destruct b eqn:E end; [|reflexivity].
  apply IH. destruct j as [|j]; [rewrite Nat.add_0_r in Hh; congruence|].
  exists j. split; [lia|]. replace (S i + j)%nat with (i + S j)%nat by lia. exact Hh.
Qed.

Definition hex_number (ds : list chr) : N := fold_left (fun a c => a * 16 + as_hex c) ds 0.

Lemma skipn_cons_nth {A} i : forall (l : list A) c rest d, skipn i l = c :: rest -> nth i l d = c /\ skipn (S i) l = rest.
Proof.
  induction i as [|i IH]; intros l c rest d H.
  - cbn in H. subst l. split; reflexivity.
  - destruct l as [|x l]; [discriminate|]. cbn [skipn] in H. destruct (IH l c rest d H) as [HA HB].
    split; [exact HA|]. exact HB.
Qed.

Lemma read_hex_ok n : forall i acc start (s : sc strin),
  (n <= length (skipn i (chars_of s)))%nat -> forallb is_hex (firstn n (skipn i (chars_of s))) = true ->
  read_hex str_ops n i acc start s
  = Ok (fold_left (fun a c => a * 16 + as_hex c) (firstn n (skipn i (chars_of s))) acc, s).
Proof.
  induction n as [|n IH]; intros i acc start s HL HH; [reflexivity|].
  destruct (skipn i (chars_of s)) as [|c rest] eqn:E; [cbn in HL; lia|].
  destruct (skipn_cons_nth i _ _ _ 0 E) as [Hn Hs].
  cbn [firstn forallb] in HH. apply andb_prop in HH. destruct HH as [Hc Hr].
  cbn [read_hex]. unfold bind, peekn. cbn [peek_nth str_ops]. unfold chr in *. rewrite Hn, Hc.
  rewrite IH; rewrite Hs; [reflexivity | cbn in HL; lia | exact Hr].
Qed.

(* state after [skip_n_non_blank 2 ;;; look n]: only the first two characters are gone *)
Lemma after_escape_prefix (s : sc strin) n :
  exists s', (bind (skip_n_non_blank str_ops 2) (fun _ => look str_ops n)) s = Ok (tt, s')
             /\ chars_of s' = skipn 2 (chars_of s).
Proof. eexists. split; reflexivity. Qed.

Lemma code_length_in e n : In (e, n) code_length_table -> NoDup (map fst code_length_table) -> code_length e = n.
Proof.
  unfold code_length. induction code_length_table as [|[a b] l IH]; intros H ND; [contradiction|].
  cbn [assocn]. inversion ND as [|x l' Hx ND']; subst. destruct H as [H|H].
  - inversion H; subst. rewrite N.eqb_refl. reflexivity.
  - destruct (N.eqb_spec a e) as [->|Hne]; [exfalso; apply Hx; change e with (fst (e, n)); apply in_map; exact H|].
    apply IH; assumption.
Qed.

Lemma code_length_table_nodup : NoDup (map fst code_length_table).
Proof. repeat constructor; cbn; intuition discriminate. Qed.

Lemma code_length_table_disjoint e n : In (e, n) code_length_table -> assocc e escape_table = None /\ n <> 0%nat.
Proof. cbn. intros [H|[H|[H|[]]]]; inversion H; subst; split; (reflexivity || discriminate). Qed.

(* \x, \u, \U followed by fewer hex digits than required (a non-hex character or the end of input among them) *)
Theorem hex_escape_bad_digit_rejected start (s : sc strin) n :
  In (nth 1 (chars_of s) 0, n) code_length_table ->
  (exists j, (j < n)%nat /\ is_hex (nth (2 + j) (chars_of s) 0) = false) ->
  resolve_escape str_ops start s = Err 30 start.
Proof.
  intros Hin [j [Hj Hh]].
  destruct (code_length_table_disjoint _ _ Hin) as [Ha Hn].
  pose proof (code_length_in _ _ Hin code_length_table_nodup) as Hc.
  unfold resolve_escape. unfold bind at 1. unfold peekn at 1. cbn [peek_nth str_ops]. unfold chr in *.
  rewrite Ha, Hc. destruct (Nat.eqb_spec n 0); [contradiction|].
  destruct (after_escape_prefix s n) as (s' & Hs' & Hch).
  change (bind (skip_n_non_blank str_ops 2) (fun _ => bind (look str_ops n) ?k) s)
    with (bind (bind (skip_n_non_blank str_ops 2) (fun _ => look str_ops n)) k s) at 1.
  unfold bind at 1. rewrite Hs'. unfold bind at 1.
  rewrite read_hex_bad; [reflexivity|]. exists j. split; [exact Hj|]. rewrite Hch, nth_skipn. exact Hh.
Qed.

(* \x, \u, \U with all required hex digits whose value is not a Unicode scalar value (a surrogate, or above 10FFFF) *)
Theorem hex_escape_non_scalar_rejected start (s : sc strin) n :
  In (nth 1 (chars_of s) 0, n) code_length_table ->
  let ds := firstn n (skipn 2 (chars_of s)) in
  length ds = n -> forallb is_hex ds = true -> is_scalar_value (hex_number ds) = false ->
  resolve_escape str_ops start s = Err 32 start.
Proof.
  intros Hin ds HL HH HV.
  destruct (code_length_table_disjoint _ _ Hin) as [Ha Hn].
  pose proof (code_length_in _ _ Hin code_length_table_nodup) as Hc.
  unfold resolve_escape. unfold bind at 1. unfold peekn at 1. cbn [peek_nth str_ops]. unfold chr in *.
  rewrite Ha, Hc. destruct (Nat.eqb_spec n 0); [contradiction|].
  destruct (after_escape_prefix s n) as (s' & Hs' & Hch).
  change (bind (skip_n_non_blank str_ops 2) (fun _ => bind (look str_ops n) ?k) s)
    with (bind (bind (skip_n_non_blank str_ops 2) (fun _ => look str_ops n)) k s) at 1.
  unfold bind at 1. rewrite Hs'. unfold bind at 1.
  rewrite read_hex_ok.
  - cbn [skipn]. rewrite Hch. match goal with |- context [if ?b then _ else _] => replace b with false by (symmetry; exact HV) end. reflexivity.
  - cbn [skipn]. rewrite Hch. subst ds. rewrite firstn_length in HL. unfold chr in *. lia.
  - cbn [skipn]. rewrite Hch. exact HH.
Qed.

(* the three classes together: what [resolve_escape] accepts is exactly a table escape or a well-formed hex escape of a
   scalar value -- stated as: it never returns Ok in any of the three ill-formed situations *)

(* ---- S2: simple keys go stale (scanner.rs stale_simple_keys).  The model's guarantee, precisely:
        a candidate key is STALE when it is possible, the scanner is in block context (flow level 0), and either it began
        on an earlier line or more than SIMPLE_KEY_MAX characters ago.  If a stale candidate is REQUIRED (it sits at the
        indentation of the enclosing block mapping) the scan fails (site 44: "simple key expected ':'"); otherwise every
        stale candidate is invalidated and all others are left alone.  (In flow context [stale_simple_keys] never
        invalidates; since /repo 57aa316 the 1024 limit of a flow-sequence pair key is enforced in fetch_value, see
        Proofs/RejectScan.v [long_flow_pair_key_rejected]; keys of flow MAPPINGS are unlimited, YAML 1.2.2 [147].) ---- *)
Definition stale_key (s : sc strin) (k : simple_key) : bool :=
  sk_possible k && (sc_flow_level s =? 0)
  && ((m_line (sk_mark k) <? m_line (sc_mark s)) || (m_index (sk_mark k) + SIMPLE_KEY_MAX <? m_index (sc_mark s))).

Theorem stale_required_key_rejected (s : sc strin) :
  (exists k, In k (sc_sks s) /\ stale_key s k = true /\ sk_required k = true) ->
  stale_simple_keys s = Err 44 (sc_mark s).
Proof.
  intros [k [Hin [Hs Hr]]]. unfold stale_simple_keys, bind, get.
  assert (E : existsb (fun k => stale_key s k && sk_required k) (sc_sks s) = true).
  { apply existsb_exists. exists k. split; [exact Hin|]. rewrite Hs, Hr. reflexivity. }
  unfold stale_key in E. rewrite E. reflexivity.
Qed.

Theorem stale_keys_invalidated (s : sc strin) :
  (forall k, In k (sc_sks s) -> stale_key s k = true -> sk_required k = false) ->
  exists s', stale_simple_keys s = Ok (tt, s')
    /\ sc_mark s' = sc_mark s /\ sc_tokens s' = sc_tokens s /\ sc_flow_level s' = sc_flow_level s
    /\ length (sc_sks s') = length (sc_sks s)
    /\ forall i k, nth_error (sc_sks s) i = Some k ->
         exists k', nth_error (sc_sks s') i = Some k'
           /\ (stale_key s k = true -> sk_possible k' = false)
           /\ (stale_key s k = false -> k' = k).
Proof.
  intros H. unfold stale_simple_keys, bind, get.
  assert (E : existsb (fun k => stale_key s k && sk_required k) (sc_sks s) = false).
  { apply not_true_is_false. intros HE. apply existsb_exists in HE. destruct HE as [k [Hin Hk]].
    apply andb_prop in Hk. destruct Hk as [Hs Hr]. rewrite (H k Hin Hs) in Hr. discriminate. }
  unfold stale_key in E. rewrite E. eexists. split; [reflexivity|]. cbn.
  repeat split; try reflexivity.
  - apply map_length.
  - intros i k Hi. rewrite nth_error_map, Hi. cbn. eexists. split; [reflexivity|].
    fold (stale_key s k). destruct (stale_key s k); split; intros; try discriminate; reflexivity.
Qed.

(* the concrete limit: a possible key that started more than 1024 characters before the current position is stale *)
Theorem key_longer_than_limit_is_stale (s : sc strin) k :
  sk_possible k = true -> sc_flow_level s = 0 -> m_index (sk_mark k) + 1024 < m_index (sc_mark s) ->
  stale_key s k = true.
Proof.
  intros Hp Hf Hl. unfold stale_key. rewrite Hp, Hf. cbn [andb]. change SIMPLE_KEY_MAX with 1024.
  apply N.ltb_lt in Hl. rewrite Hl. apply orb_true_r.
Qed.

Theorem key_on_earlier_line_is_stale (s : sc strin) k :
  sk_possible k = true -> sc_flow_level s = 0 -> m_line (sk_mark k) < m_line (sc_mark s) ->
  stale_key s k = true.
Proof.
  intros Hp Hf Hl. unfold stale_key. rewrite Hp, Hf. cbn [andb].
  apply N.ltb_lt in Hl. rewrite Hl. reflexivity.
Qed.

(* ---- S3: flow nesting limit ---- *)
Theorem flow_level_limit_rejected (s : sc strin) :
  sc_flow_level s = FLOW_LEVEL_MAX -> increase_flow_level s = Err 45 (sc_mark s).
Proof. intros H. unfold increase_flow_level, bind, get. rewrite H, N.eqb_refl. reflexivity. Qed.

Theorem flow_level_below_limit_increases (s : sc strin) :
  sc_flow_level s <> FLOW_LEVEL_MAX ->
  exists s', increase_flow_level s = Ok (tt, s') /\ sc_flow_level s' = sc_flow_level s + 1.
Proof.
  intros H. unfold increase_flow_level, bind, get. apply N.eqb_neq in H. rewrite H.
  eexists. split; reflexivity.
Qed.

(* what invalidation leads to: when the ':' of "key: value" is reached in block context and the candidate key is no
   longer possible (e.g. invalidated by [stale_simple_keys] because it is longer than 1024 characters or spans lines),
   and no new key may start here (simple_key_allowed = false, as after any scalar on the same line), the scan fails
   with site 99 ("mapping values are not allowed in this context") *)
Theorem value_after_invalidated_key_rejected F (s : sc strin) k r :
  sc_sks s = k :: r -> sk_possible k = false -> sc_flow_level s = 0 -> sc_ifms s = [] -> sc_ska s = false ->
  nth 0 (tl (chars_of s)) 0 <> 9 ->
  fetch_value str_ops F s = Err 99 (sc_mark s).
Proof.
  intros Hk Hp Hf Hi Ha Hc. unfold fetch_value.
  unfold bind at 1. unfold get at 1. rewrite Hk. unfold bind at 1. unfold ret at 1.
  rewrite Hi, Hf. change (0 =? 0) with true. cbn [orb andb]. cbv iota. unfold bind at 1. unfold ret at 1.
  unfold bind at 1. unfold skip_non_blank, in_skip, adv_mark, modify, bind at 1. cbn.
  apply N.eqb_neq in Hc. unfold chr in *. rewrite Hc. cbn. rewrite Hp. cbn. rewrite Hf, Ha. reflexivity.
Qed.

(* ================================================================================================ *)
(* The full property as a closed statement: a (small) renderer of well-formed one-line flow documents  *)
(* composed with damage operators.  Stated, not proved -- and refuted, see Properties/C06.v.           *)
(* ================================================================================================ *)
Inductive wf_flow :=
| WWord (w : list N)                      (* plain scalar of lower-case letters *)
| WQuoted (w : list N)                    (* 'letters' *)
| WEmptyKey                               (* "? " : explicit key with empty key and value; a sequence entry only *)
| WSeq (l : list wf_flow)
| WMap (l : list (list N * wf_flow)).

Definition lower_word (w : list N) : Prop := w <> [] /\ Forall (fun c => 97 <= c /\ c <= 122) w.

Inductive wf_ok : bool -> wf_flow -> Prop :=     (* the flag: directly inside a flow sequence *)
| OkWord b w : lower_word w -> wf_ok b (WWord w)
| OkQuoted b w : lower_word w -> wf_ok b (WQuoted w)
| OkEmptyKey : wf_ok true WEmptyKey
| OkSeq b l : Forall (wf_ok true) l -> wf_ok b (WSeq l)
| OkMap b l : Forall (fun kv => lower_word (fst kv) /\ wf_ok false (snd kv)) l -> wf_ok b (WMap l).

Fixpoint join_with (sep : list N) (l : list (list N)) : list N :=
  match l with
  | [] => []
  | [x] => x
  | x :: r => x ++ sep ++ join_with sep r
  end.

Fixpoint render_flow (f : wf_flow) : list N :=
  match f with
  | WWord w => w
  | WQuoted w => [39] ++ w ++ [39]
  | WEmptyKey => [63; 32]
  | WSeq l => [91] ++ join_with [44; 32] (map render_flow l) ++ [93]
  | WMap l => [123] ++ join_with [44; 32] (map (fun kv => fst kv ++ [58; 32] ++ render_flow (snd kv)) l) ++ [125]
  end.

Definition is_collection (f : wf_flow) : bool := match f with WSeq _ | WMap _ => true | _ => false end.
Definition not_plain (f : wf_flow) : bool := match f with WWord _ | WEmptyKey => false | _ => true end.
Definition other_closer (c : N) : N := if c =? 93 then 125 else 93.

(* damaged texts, each ill-formed by construction: the root node is a complete one-line flow node at column 0 *)
Inductive damaged : list N -> Prop :=
| DStrayCloser f c : wf_ok false f -> is_collection f = true -> (c = 93 \/ c = 125) ->
    damaged (render_flow f ++ [32; c; 10])                                   (* "[a, b] ]"          *)
| DDropCloser f : wf_ok false f -> is_collection f = true ->
    damaged (removelast (render_flow f) ++ [10])                             (* "[a, b"             *)
| DSwapCloser f : wf_ok false f -> is_collection f = true ->
    damaged (removelast (render_flow f) ++ [other_closer (last (render_flow f) 0); 10])   (* "[a, b}" *)
| DSecondRoot f g : wf_ok false f -> wf_ok false g -> not_plain f = true ->
    damaged (render_flow f ++ [10] ++ render_flow g ++ [10]).                (* "[a]" NL "b"       *)

(* The damage class of known_findings_c06.jsonl that was repaired by /repo 57aa316 (the implicit key of a flow-sequence pair is
   limited to 1024 characters like any other implicit key, YAML 1.2.2 [154]/[155]); its whole family is PROVED rejected in
   Proofs/RejectScan.v ([long_flow_pair_key_family_rejected]) *)
Inductive damaged_long_key : list N -> Prop :=
| DLongFlowPairKey k v : lower_word k -> lower_word v -> (1024 < length k)%nat ->
    damaged_long_key ([91; 32] ++ k ++ [58; 32] ++ v ++ [32; 93; 10]).      (* "[ kkkk...k: v ]", key > 1024 chars *)

(* The damage class of known_findings_c06.jsonl that the model (like the code) still ACCEPTS, as an operator of the same
   kind: ill-formed by construction for every choice of the words. *)
Inductive damaged_known : list N -> Prop :=
| DFlowContinuationAtBlockIndent k a b : lower_word k -> lower_word a -> lower_word b ->
    damaged_known (k ++ [58; 32; 91] ++ a ++ [44; 10; 39] ++ b ++ [39; 93; 10]).   (* "k: [a," NL "'b']" *)

(* the bracket / second-root fragment: neither proved nor refuted (needs the scanner half for all rendered trees) *)
Definition C06_full_flow_fragment : Prop := forall s, damaged s -> snd (run_str s) <> PDone.
(* all six operators *)
Definition C06_full_damaged : Prop :=
  forall s, damaged s \/ damaged_long_key s \/ damaged_known s -> snd (run_str s) <> PDone.

Lemma lower_word_repeat c n : 97 <= c -> c <= 122 -> (0 < n)%nat -> lower_word (repeat c n).
Proof.
  intros A B Hn. split.
  - destruct n; [inversion Hn | discriminate].
  - apply Forall_forall. intros x Hx. apply repeat_spec in Hx. subst x. split; assumption.
Qed.

(* refuted by the one remaining class, and by nothing else that is known *)
Lemma C06_full_damaged_refuted : ~ C06_full_damaged.
Proof.
  intros H.
  assert (D : damaged_known ([107] ++ [58; 32; 91] ++ [97] ++ [44; 10; 39] ++ [98] ++ [39; 93; 10])).
  { apply DFlowContinuationAtBlockIndent; (split; [discriminate | repeat constructor; cbv; discriminate]). }
  apply (H _ (or_intror (or_intror D))). vm_compute. reflexivity.
Qed.

(* the repaired class is inhabited: the recorded witness "[ k^1025: v ]" *)
Lemma long_flow_pair_key_damaged : damaged_long_key ([91; 32] ++ repeat 107 1025 ++ [58; 32] ++ [118] ++ [32; 93; 10]).
Proof.
  apply DLongFlowPairKey.
  - apply lower_word_repeat; [cbv; discriminate | cbv; discriminate | apply Nat.ltb_lt; vm_compute; reflexivity].
  - split; [discriminate | repeat constructor; cbv; discriminate].
  - rewrite repeat_length. apply Nat.ltb_lt. vm_compute. reflexivity.
Qed.

(* ================================================================================================ *)
(* R1 + R2, globally: every ACCEPTED token stream obeys the bracket discipline.  A second invariant     *)
(* (next to C02's [Inv]) carried through all 21 parser states: [Good p] says that the tokens still       *)
(* ahead close exactly the flow collections the state and the state stack have open.  Each step is      *)
(* shown to preserve it BACKWARDS (goodness of the successor implies goodness of [p]); a run that ends   *)
(* in PDone ends in a good state, hence the initial state is good, i.e. the whole stream is balanced.    *)
(* ================================================================================================ *)
Close Scope N_scope.

Definition frames_of (s : pstate) : list bool :=
  match s with
  | SFlowSequenceEntry | SFlowSequenceEntryMappingKey | SFlowSequenceEntryMappingValue | SFlowSequenceEntryMappingEnd _ => [true]
  | SFlowMappingKey | SFlowMappingValue | SFlowMappingEmptyValue => [false]
  | _ => []
  end.
Definition stack_open (l : list pstate) : list bool := flat_map frames_of l.

Definition Good (p : parser) : Prop :=
  match p_state p with
  | SEnd => True
  | st => flow_balanced (toks_ahead p) (frames_of st ++ stack_open (p_states p)) = true
  end.

Lemma peek_nil p : toks_ahead p = [] -> Parser.peek p = Parser.Err PErrScan.
Proof.
  unfold toks_ahead, Parser.peek. destruct (p_token p); [discriminate|]. intros ->. reflexivity.
Qed.

(* tokens without influence on the bracket discipline *)
Definition neutral (tk : tok) : bool :=
  match tk with
  | TStreamEnd | TFlowSequenceStart | TFlowMappingStart | TFlowSequenceEnd | TFlowMappingEnd => false
  | _ => true
  end.
Lemma flow_balanced_neutral sp tk r X : neutral tk = true -> flow_balanced ((sp, tk) :: r) X = flow_balanced r X.
Proof. destruct tk; cbn; try discriminate; reflexivity. Qed.

Definition goodS (st : pstate) (toks : list token) (stk : list pstate) : Prop :=
  match st with
  | SEnd => True
  | _ => flow_balanced toks (frames_of st ++ stack_open stk) = true
  end.
Lemma Good_goodS p : Good p = goodS (p_state p) (toks_ahead p) (p_states p).
Proof. unfold Good, goodS. destruct (p_state p); reflexivity. Qed.

Definition first_ok (p : parser) : Prop :=
  match p_state p with
  | SFlowSequenceFirstEntry => exists sp r, toks_ahead p = (sp, TFlowSequenceStart) :: r
  | SFlowMappingFirstKey => exists sp r, toks_ahead p = (sp, TFlowMappingStart) :: r
  | SBlockSequenceFirstEntry => exists sp r, toks_ahead p = (sp, TBlockSequenceStart) :: r
  | SBlockMappingFirstKey => exists sp r, toks_ahead p = (sp, TBlockMappingStart) :: r
  | _ => True
  end.

(* what a step owes: the result keeps [first_ok], and goodness of the result implies the given bracket fact about [p] *)
Definition bpost (P : Prop) (r : res ((event * span) * parser)) : Prop :=
  match r with
  | Parser.Ok (_, p') => first_ok p' /\ (Good p' -> P)
  | _ => True
  end.

Lemma Rooted_head s r : Rooted (s :: r) -> s <> SEnd.
Proof.
  intros H. inversion H as [|s' r' Hc Hr]; subst; [discriminate|].
  destruct s; try discriminate.
Qed.

Lemma goodS_plain s toks stk : s <> SEnd ->
  goodS s toks stk = (flow_balanced toks (frames_of s ++ stack_open stk) = true).
Proof. intros A. destruct s; try reflexivity; congruence. Qed.

#[local] Arguments pop_state : simpl never.

(* a leaf: the continuation is popped; [k] (skip or identity) does not look at state and stack *)
Lemma bpost_pop (P : Prop) q e sp (k : parser -> parser) :
  Rooted (p_states q) ->
  (forall x, p_state (k x) = p_state x /\ p_states (k x) = p_states x) ->
  (forall s r, toks_ahead (k (set_state (set_states q r) s)) = toks_ahead (k q)) ->
  (flow_balanced (toks_ahead (k q)) (stack_open (p_states q)) = true -> P) ->
  bpost P (do x <- pop_state q; Parser.Ok ((e, sp), k x)).
Proof.
  intros HR Hk Ht HP.
  destruct (pop_state_spec q HR) as (s & r & F' & Hst & Hpop & _ & _).
  rewrite Hpop. cbn [bpost].
  destruct (Hk (set_state (set_states q r) s)) as [Hs Hss]. cbn in Hs, Hss.
  assert (HH : Rooted (s :: r)) by (rewrite <- Hst; exact HR).
  pose proof (Rooted_head _ _ HH) as N1.
  split.
  - unfold first_ok. rewrite Hs. inversion HH as [|s' r' Hc Hr]; subst; [exact I|]. destruct s; try discriminate; exact I.
  - rewrite Good_goodS, Hs, Hss, (goodS_plain _ _ _ N1), Ht. intros H. apply HP.
    rewrite Hst. exact H.
Qed.

Ltac bfin HT HR :=
  first
  [ exact I
  | (apply bpost_pop; [ cbn; exact HR | intros; split; reflexivity | intros; reflexivity
                      | cbn; rewrite ?HT; cbn; (let HH := fresh "HH" in intro HH; exact HH) ])
  | (cbn [bpost]; split; [ cbn; first [exact I | (do 2 eexists; reflexivity)]
                         | unfold Good; cbn; rewrite ?HT; cbn; (let HH := fresh "HH" in intro HH; exact HH) ]) ].

Lemma node_content_bal p aid tg b i :
  Rooted (p_states p) ->
  bpost (flow_balanced (toks_ahead p) (stack_open (p_states p)) = true) (node_content p aid tg b i).
Proof.
  intros HR. unfold node_content.
  destruct (toks_ahead p) as [|[sp tk] r] eqn:HT; [rewrite (peek_nil _ HT); exact I|].
  rewrite (peek_norm _ _ _ HT). cbn beta iota.
  destruct tk; try destruct i; try destruct b; unfold empty_or_err; try destruct (has_props aid tg); bfin HT HR.
Qed.

Lemma node_props_toks q sp tk :
  p_token q = Some (sp, tk) ->
  match node_props q (sp, tk) with
  | Parser.Ok (_, _, q') => p_states q' = p_states q /\ (forall X, flow_balanced (toks_ahead q') X = flow_balanced (toks_ahead q) X)
  | _ => True
  end.
Proof.
  intros HC. unfold node_props.
  destruct tk; try (split; [reflexivity | intros; reflexivity]).
  - (* anchor *)
    cbn [register_anchor]. unfold Parser.peek. cbn.
    destruct (p_toks q) as [|[sp2 tk2] r2] eqn:HQ; [exact I|]. cbn.
    destruct tk2; try (split; [reflexivity | intros X; unfold toks_ahead; cbn; rewrite HC, HQ; reflexivity]).
    destruct (resolve_tag _ _ _ _); try exact I.
    split; [reflexivity | intros X; unfold toks_ahead; cbn; rewrite HC, HQ; reflexivity].
  - (* tag *)
    destruct (resolve_tag _ _ _ _); try exact I.
    unfold Parser.peek. cbn.
    destruct (p_toks q) as [|[sp2 tk2] r2] eqn:HQ; [exact I|]. cbn.
    destruct tk2; try (split; [reflexivity | intros X; unfold toks_ahead; cbn; rewrite HC, ?HQ; reflexivity]).
Qed.

#[local] Arguments node_content : simpl never.
#[local] Arguments node_props : simpl never.

Lemma parse_node_bal p b i :
  Rooted (p_states p) ->
  bpost (flow_balanced (toks_ahead p) (stack_open (p_states p)) = true) (parse_node p b i).
Proof.
  intros HR. unfold parse_node.
  destruct (toks_ahead p) as [|[sp tk] r] eqn:HT; [rewrite (peek_nil _ HT); exact I|].
  rewrite (peek_norm _ _ _ HT). cbn beta iota.
  set (q := set_tok p r (Some (sp, tk))).
  assert (HQ : p_token q = Some (sp, tk)) by reflexivity.
  assert (HRq : Rooted (p_states q)) by exact HR.
  assert (HTq : toks_ahead q = (sp, tk) :: r) by reflexivity.
  assert (General :
    bpost (flow_balanced ((sp, tk) :: r) (stack_open (p_states p)) = true)
          (do (aid, tg, p0) <- node_props q (sp, tk); node_content p0 aid tg b i)).
  { pose proof (node_props_toks q sp tk HQ) as HN.
    destruct (node_props q (sp, tk)) as [[[aid tg] q']|e|n]; try exact I.
    destruct HN as [Hst Hb].
    assert (HR' : Rooted (p_states q')) by (rewrite Hst; exact HRq).
    pose proof (node_content_bal q' aid tg b i HR') as HC.
    destruct (node_content q' aid tg b i) as [[ev p']|e|n]; try exact I.
    cbn [bpost] in *. destruct HC as [HF HG]. split; [exact HF|].
    intros HGood. specialize (HG HGood). rewrite Hb, Hst, HTq in HG. exact HG. }
  destruct tk; try exact General.
  (* alias *)
  clear General. subst q.
  match goal with |- context [pop_state ?x] =>
    destruct (pop_state_spec x HRq) as (s & r' & F' & Hst & Hpop & _ & _); rewrite Hpop end. cbn.
  destruct (assoc n (p_anchors p)); [|exact I].
  assert (HH : Rooted (s :: r')) by (rewrite <- Hst; exact HRq).
  pose proof (Rooted_head _ _ HH) as N1.
  cbn [bpost]. split.
  - unfold first_ok. cbn. inversion HH as [|s' r'' Hc Hr]; subst; [exact I|]. destruct s; try discriminate; exact I.
  - rewrite Good_goodS. cbn. rewrite (goodS_plain _ _ _ N1). intros H.
    cbn in Hst. rewrite Hst. exact H.
Qed.

(* ---- document level ---- *)
Definition same_brackets (p q : parser) : Prop :=
  p_state q = p_state p /\ p_states q = p_states p /\ forall X, flow_balanced (toks_ahead q) X = flow_balanced (toks_ahead p) X.

Lemma same_brackets_refl p : same_brackets p p.
Proof. repeat split; reflexivity. Qed.

Lemma skip_document_ends_bal fuel : forall p,
  match skip_document_ends fuel p with Parser.Ok q => same_brackets p q | _ => True end.
Proof.
  induction fuel as [|fuel IH]; intros p; [exact I|].
  cbn [skip_document_ends].
  destruct (toks_ahead p) as [|[sp tk] r] eqn:HT; [rewrite (peek_nil _ HT); exact I|].
  rewrite (peek_norm _ _ _ HT). cbn beta iota.
  destruct tk; try (repeat split; try reflexivity; intros X; unfold toks_ahead at 1; cbn; rewrite HT; reflexivity).
  specialize (IH (skip (set_tok p r (Some (sp, TDocumentEnd))))).
  destruct (skip_document_ends fuel _) as [q|e|n]; try exact I.
  destruct IH as (A & B & C). repeat split; [exact A | exact B |].
  intros X. rewrite C. unfold toks_ahead at 1. cbn. rewrite HT. reflexivity.
Qed.

Lemma process_directives_bal fuel : forall p vs tags,
  match process_directives fuel p vs tags with Parser.Ok q => same_brackets p q | _ => True end.
Proof.
  induction fuel as [|fuel IH]; intros p vs tags; [exact I|].
  cbn [process_directives].
  destruct (toks_ahead p) as [|[sp tk] r] eqn:HT; [rewrite (peek_nil _ HT); exact I|].
  rewrite (peek_norm _ _ _ HT). cbn beta iota.
  destruct tk; try (repeat split; try reflexivity; intros X; unfold toks_ahead at 1; cbn; rewrite HT; reflexivity).
  - destruct vs; [exact I|].
    match goal with |- context [process_directives fuel ?q ?a ?b] => specialize (IH q a b); destruct (process_directives fuel q a b) as [q'|e|n] end; try exact I.
    destruct IH as (A & B & C). repeat split; [exact A | exact B |].
    intros X. rewrite C. unfold toks_ahead at 1. cbn. rewrite HT. reflexivity.
  - destruct (negb (is_empty_str h) && has_key h tags); [exact I|].
    match goal with |- context [process_directives fuel ?q ?a ?b] => specialize (IH q a b); destruct (process_directives fuel q a b) as [q'|e|n] end; try exact I.
    destruct IH as (A & B & C). repeat split; [exact A | exact B |].
    intros X. rewrite C. unfold toks_ahead at 1. cbn. rewrite HT. reflexivity.
Qed.


#[local] Arguments parse_node : simpl never.
#[local] Arguments process_directives : simpl never.
#[local] Arguments skip_document_ends : simpl never.

Lemma bpost_parse_node (P : Prop) q b i :
  Rooted (p_states q) ->
  (flow_balanced (toks_ahead q) (stack_open (p_states q)) = true -> P) ->
  bpost P (parse_node q b i).
Proof.
  intros HR HP. pose proof (parse_node_bal q b i HR) as H.
  destruct (parse_node q b i) as [[ev p']|e|n]; try exact I.
  cbn [bpost] in *. destruct H as [A B]. split; [exact A|]. intros G. apply HP, B, G.
Qed.

Ltac bfin HT HR ::=
  first
  [ exact I
  | (apply bpost_parse_node; [ cbn; first [ exact HR | (constructor; [reflexivity | exact HR]) ]
                             | cbn; rewrite ?HT; cbn; (let HH := fresh "HH" in intro HH; exact HH) ])
  | (apply bpost_pop; [ cbn; exact HR | intros; split; reflexivity | intros; reflexivity
                      | cbn; rewrite ?HT; cbn; (let HH := fresh "HH" in intro HH; exact HH) ])
  | (cbn [bpost]; split; [ cbn; first [exact I | (do 2 eexists; reflexivity)]
                         | unfold Good; cbn; rewrite ?HT; cbn; (let HH := fresh "HH" in intro HH; exact HH) ]) ].

Ltac bx HT HR :=
  cbn;
  lazymatch goal with
  | |- bpost _ (match ?r with [] => _ | _ :: _ => _ end) => is_var r; destruct r as [|[? ?] ?]; bx HT HR
  | |- bpost _ (match (match ?r with [] => _ | _ :: _ => _ end) with _ => _ end) => is_var r; destruct r as [|[? ?] ?]; bx HT HR
  | |- bpost _ (match (match ?tk with _ => _ end) with _ => _ end) => is_var tk; destruct tk; bx HT HR
  | |- bpost _ (match ?tk with _ => _ end) => first [ is_var tk; destruct tk; bx HT HR | bfin HT HR ]
  | |- bpost _ (if ?b then _ else _) => is_var b; destruct b; bx HT HR
  | |- _ => bfin HT HR
  end.

(* start: split on the remaining tokens of [p] and normalise the first peek *)
Ltac bstart HT :=
  match goal with
  | |- context [Parser.peek ?p] =>
      destruct (toks_ahead p) as [|[? ?] ?] eqn:HT; [rewrite (peek_nil _ HT); exact I | rewrite (peek_norm _ _ _ HT)]
  end.

Lemma block_mapping_key_bal p :
  Rooted (p_states p) ->
  bpost (flow_balanced (toks_ahead p) (stack_open (p_states p)) = true) (block_mapping_key p false).
Proof. intros HR. unfold block_mapping_key. bstart HT; bx HT HR. Qed.

Lemma block_mapping_first_key_bal p sp0 r0 :
  Rooted (p_states p) -> toks_ahead p = (sp0, TBlockMappingStart) :: r0 ->
  bpost (flow_balanced (toks_ahead p) (stack_open (p_states p)) = true) (block_mapping_key p true).
Proof. intros HR HT. unfold block_mapping_key. rewrite (peek_norm _ _ _ HT). bx HT HR. Qed.

Lemma block_mapping_value_bal p :
  Rooted (p_states p) ->
  bpost (flow_balanced (toks_ahead p) (stack_open (p_states p)) = true) (block_mapping_value p).
Proof. intros HR. unfold block_mapping_value. bstart HT; bx HT HR. Qed.

Lemma block_sequence_entry_bal p :
  Rooted (p_states p) ->
  bpost (flow_balanced (toks_ahead p) (stack_open (p_states p)) = true) (block_sequence_entry p false).
Proof. intros HR. unfold block_sequence_entry. bstart HT; bx HT HR. Qed.

Lemma block_sequence_first_entry_bal p sp0 r0 :
  Rooted (p_states p) -> toks_ahead p = (sp0, TBlockSequenceStart) :: r0 ->
  bpost (flow_balanced (toks_ahead p) (stack_open (p_states p)) = true) (block_sequence_entry p true).
Proof. intros HR HT. unfold block_sequence_entry. rewrite (peek_norm _ _ _ HT). bx HT HR. Qed.

Lemma indentless_sequence_entry_bal p :
  Rooted (p_states p) ->
  bpost (flow_balanced (toks_ahead p) (stack_open (p_states p)) = true) (indentless_sequence_entry p).
Proof. intros HR. unfold indentless_sequence_entry. bstart HT; bx HT HR. Qed.

Lemma flow_sequence_entry_bal p :
  Rooted (p_states p) ->
  bpost (flow_balanced (toks_ahead p) (true :: stack_open (p_states p)) = true) (flow_sequence_entry p false).
Proof. intros HR. unfold flow_sequence_entry. bstart HT; bx HT HR. Qed.

Lemma flow_sequence_first_entry_bal p sp0 r0 :
  Rooted (p_states p) -> toks_ahead p = (sp0, TFlowSequenceStart) :: r0 ->
  bpost (flow_balanced (toks_ahead p) (stack_open (p_states p)) = true) (flow_sequence_entry p true).
Proof. intros HR HT. unfold flow_sequence_entry. rewrite (peek_norm _ _ _ HT). bx HT HR. Qed.

Lemma flow_mapping_key_bal p :
  Rooted (p_states p) ->
  bpost (flow_balanced (toks_ahead p) (false :: stack_open (p_states p)) = true) (flow_mapping_key p false).
Proof. intros HR. unfold flow_mapping_key. bstart HT; bx HT HR. Qed.

Lemma flow_mapping_first_key_bal p sp0 r0 :
  Rooted (p_states p) -> toks_ahead p = (sp0, TFlowMappingStart) :: r0 ->
  bpost (flow_balanced (toks_ahead p) (stack_open (p_states p)) = true) (flow_mapping_key p true).
Proof. intros HR HT. unfold flow_mapping_key. rewrite (peek_norm _ _ _ HT). bx HT HR. Qed.

Lemma flow_mapping_value_bal p empty :
  Rooted (p_states p) ->
  bpost (flow_balanced (toks_ahead p) (false :: stack_open (p_states p)) = true) (flow_mapping_value p empty).
Proof. intros HR. unfold flow_mapping_value. destruct empty; bstart HT; bx HT HR. Qed.

Lemma fsem_key_bal p :
  Rooted (p_states p) ->
  bpost (flow_balanced (toks_ahead p) (true :: stack_open (p_states p)) = true) (flow_sequence_entry_mapping_key p).
Proof. intros HR. unfold flow_sequence_entry_mapping_key. bstart HT; bx HT HR. Qed.

Lemma fsem_value_bal p :
  Rooted (p_states p) ->
  bpost (flow_balanced (toks_ahead p) (true :: stack_open (p_states p)) = true) (flow_sequence_entry_mapping_value p).
Proof. intros HR. unfold flow_sequence_entry_mapping_value. bstart HT; bx HT HR. Qed.

Lemma fsem_end_bal p m :
  Rooted (p_states p) ->
  bpost (flow_balanced (toks_ahead p) (true :: stack_open (p_states p)) = true) (flow_sequence_entry_mapping_end p m).
Proof. intros HR. unfold flow_sequence_entry_mapping_end. cbn [bpost]. split; [exact I|]. unfold Good. cbn. intro H; exact H. Qed.

(* ---- document level (2) ---- *)
Lemma stream_start_bal p :
  p_states p = [] -> bpost (flow_balanced (toks_ahead p) [] = true) (stream_start p).
Proof.
  intros EK. unfold stream_start. bstart HT. cbn beta iota. destruct t; try exact I.
  cbn [bpost]. split; [exact I|]. unfold Good. cbn. rewrite EK. cbn. intro H; exact H.
Qed.

Lemma explicit_document_start_bal p :
  p_states p = [] -> bpost (flow_balanced (toks_ahead p) [] = true) (explicit_document_start p).
Proof.
  intros EK. unfold explicit_document_start.
  pose proof (process_directives_bal (S (S (length (p_toks p)))) p false []) as HP.
  destruct (process_directives _ p false []) as [q|e|n]; try exact I.
  destruct HP as (A & B & C).
  destruct (toks_ahead q) as [|[sp tk] r] eqn:HT; [rewrite (peek_nil _ HT); exact I|].
  rewrite (peek_norm _ _ _ HT). cbn beta iota. destruct tk; try exact I.
  cbn [bpost]. split; [exact I|]. unfold Good. cbn. rewrite B, EK. cbn.
  intros H. rewrite <- C. cbn. exact H.
Qed.

Lemma document_start_bal p implicit :
  p_states p = [] -> bpost (flow_balanced (toks_ahead p) [] = true) (document_start p implicit).
Proof.
  intros EK. unfold document_start.
  pose proof (skip_document_ends_bal (S (S (length (p_toks p)))) p) as HP.
  destruct (skip_document_ends _ p) as [q|e|n]; try exact I.
  destruct HP as (A & B & C).
  destruct (toks_ahead q) as [|[sp tk] r] eqn:HT; [rewrite (peek_nil _ HT); exact I|].
  rewrite (peek_norm _ _ _ HT). cbn beta iota.
  set (q1 := set_tok q r (Some (sp, tk))).
  assert (EQ : p_states q1 = []) by (unfold q1; cbn; congruence).
  assert (TQ : forall X, flow_balanced (toks_ahead q1) X = flow_balanced (toks_ahead p) X).
  { intros X. rewrite <- C. reflexivity. }
  assert (Expl : bpost (flow_balanced (toks_ahead p) [] = true) (explicit_document_start q1)).
  { pose proof (explicit_document_start_bal q1 EQ) as H.
    destruct (explicit_document_start q1) as [[ev p']|e|n]; try exact I.
    cbn [bpost] in *. destruct H as [H1 H2]. split; [exact H1|]. intros G. rewrite <- TQ. exact (H2 G). }
  destruct tk; try exact Expl;
    try (destruct implicit; [|exact Expl];
         match goal with |- context [process_directives ?f ?x false []] =>
           pose proof (process_directives_bal f x false []) as HP;
           destruct (process_directives f x false []) as [q2|e2|n2]; try exact I end;
         destruct HP as (A2 & B2 & C2);
         cbn [bpost]; split; [exact I|]; unfold Good; cbn; rewrite B2; cbn; rewrite B, EK; cbn;
         intros H; rewrite <- TQ; unfold q1; rewrite <- C2; exact H).
  (* StreamEnd *)
  cbn [bpost]. split; [exact I|]. intros _. rewrite <- C. reflexivity.
Qed.

Lemma document_content_bal p :
  Rooted (p_states p) ->
  bpost (flow_balanced (toks_ahead p) (stack_open (p_states p)) = true) (document_content p).
Proof.
  intros HR. unfold document_content. bstart HT. cbn beta iota.
  destruct t; try (apply bpost_parse_node; [cbn; exact HR | cbn; rewrite ?HT; cbn; intro H; exact H]);
    (apply bpost_pop; [ cbn; exact HR | intros; split; reflexivity | intros; reflexivity
                      | cbn; rewrite ?HT; cbn; intro H; exact H ]).
Qed.

Lemma document_end_bal p :
  p_states p = [] -> bpost (flow_balanced (toks_ahead p) [] = true) (document_end p).
Proof.
  intros EK. unfold document_end. bstart HT. cbn beta iota.
  destruct t; cbn beta iota; destruct (p_keep_tags _); cbn;
    try (destruct l as [|[? t2] ?]; [exact I|]; cbn; destruct t2; try exact I);
    (cbn [bpost]; split; [exact I|]; unfold Good; cbn; rewrite ?EK; cbn; rewrite ?HT; cbn; intro H; exact H).
Qed.

Theorem state_machine_bal p g :
  Inv p g -> first_ok p -> p_state p <> SEnd -> bpost (Good p) (state_machine p).
Proof.
  unfold Inv, state_machine, Good, first_ok. intros HI HF HE.
  destruct (p_state p) eqn:ES; cbn [InvS cur_frames] in HI;
    try (destruct HI as [HK _]);
    cbn [frames_of app].
  - rewrite HK. apply stream_start_bal; exact HK.
  - rewrite HK. apply document_start_bal; exact HK.
  - rewrite HK. apply document_start_bal; exact HK.
  - apply document_content_bal; exact HK.
  - rewrite HK. apply document_end_bal; exact HK.
  - apply parse_node_bal; exact HK.
  - destruct HF as (sp0 & r0 & HT). eapply block_sequence_first_entry_bal; [exact HK | exact HT].
  - apply block_sequence_entry_bal; exact HK.
  - apply indentless_sequence_entry_bal; exact HK.
  - destruct HF as (sp0 & r0 & HT). eapply block_mapping_first_key_bal; [exact HK | exact HT].
  - apply block_mapping_key_bal; exact HK.
  - apply block_mapping_value_bal; exact HK.
  - destruct HF as (sp0 & r0 & HT). eapply flow_sequence_first_entry_bal; [exact HK | exact HT].
  - apply flow_sequence_entry_bal; exact HK.
  - apply fsem_key_bal; exact HK.
  - apply fsem_value_bal; exact HK.
  - apply fsem_end_bal; exact HK.
  - destruct HF as (sp0 & r0 & HT). eapply flow_mapping_first_key_bal; [exact HK | exact HT].
  - apply flow_mapping_key_bal; exact HK.
  - apply flow_mapping_value_bal; exact HK.
  - apply flow_mapping_value_bal; exact HK.
  - congruence.
Qed.

Lemma parse_all_good fuel : forall p se acc g,
  Inv p g -> first_ok p -> snd (parse_all fuel p se acc) = PDone -> Good p.
Proof.
  induction fuel as [|fuel IH]; intros p se acc g HI HF HD; [cbn in HD; discriminate|].
  rewrite parse_all_S in HD.
  destruct (N.eq_dec 0 0) as [_|]; [|congruence].
  assert (HS : p_state p = SEnd \/ p_state p <> SEnd) by (destruct (p_state p); (left; reflexivity) || (right; discriminate)).
  destruct HS as [HS|HS]; [unfold Good; rewrite HS; exact I|].
  assert (HD' : snd (step_result fuel p se acc) = PDone) by (destruct (p_state p); try exact HD; congruence).
  unfold step_result in HD'.
  pose proof (state_machine_post p g HI HS) as HP.
  pose proof (state_machine_bal p g HI HF HS) as HB.
  destruct (state_machine p) as [[[e sp] p']|er|n].
  - destruct HP as [g' [_ HI']]. cbn [bpost] in HB. destruct HB as [HF' HG].
    apply HG. exact (IH p' se ((e, sp) :: acc) g' HI' HF' HD').
  - destruct er; [destruct se; cbn in HD'; discriminate | cbn in HD'; discriminate].
  - cbn in HD'. discriminate.
Qed.

(* Every token stream the parser accepts (for ANY token list, scanner ending and fuel) obeys the bracket discipline:
   flow brackets are balanced and matched up to StreamEnd -- no flow collection open at StreamEnd, no closer of the
   wrong kind, no stray closer. *)
Theorem accepted_implies_balanced_proved : accepted_implies_balanced.
Proof.
  intros toks keep se fuel H. pose proof (parse_all_good fuel _ se [] GInit (init_inv toks keep) I H) as G.
  exact G.
Qed.
