(* Theory of LinkedHashMap::insert as a list operation (existing equal key: value replaced, entry moved to the
   back, old key object kept), over an arbitrary key/value type with a boolean EQUIVALENCE.
   F l  = inserting the entries of l one by one into the empty map (what the loader and `collect()` do);
   G l  = "drop every entry whose key occurs again later" — the same map up to the choice of key object.
   Main results:  F l ~ G l;  F is a congruence;  lookups see the LAST value;  keys of F l are pairwise distinct;
   F l = l on lists without duplicate keys;  and the re-collection lemma used for deferred resolution:
       F (map f (insert k v l)) ~ insert (f k) (f v) (F (map f l))      for every equality-preserving f. *)
From Coq Require Import List Bool.
Import ListNotations.
Require Import LinkedMap.

Section Insert.
  Variable T : Type.
  Variable eqb : T -> T -> bool.
  Hypothesis eqb_refl : forall a, eqb a a = true.
  Hypothesis eqb_sym : forall a b, eqb a b = eqb b a.
  Hypothesis eqb_trans : forall a b c, eqb a b = true -> eqb b c = true -> eqb a c = true.

  Local Notation entry := (T * T)%type.
  Local Notation g_remove := (lm_remove eqb).
  Local Notation g_insert := (lm_insert eqb).
  Local Notation ins := (lm_ins eqb).
  Local Notation F := (lm_collect eqb).
  Local Notation mem := (lm_mem eqb).
  Local Notation G := (lm_dedup eqb).
  Local Notation nodupb := (lm_nodupb eqb).
  Local Notation assoc := (lm_get eqb).
  (* folding onto an accumulator, as the loader does while a mapping is open *)
  Definition Facc (acc l : list entry) : list entry := fold_left (fun acc p => ins p acc) l acc.

  Definition peq (p q : entry) : Prop := eqb (fst p) (fst q) = true /\ eqb (snd p) (snd q) = true.
  Definition leq (l l' : list entry) : Prop := Forall2 peq l l'.

  (* ---- the equivalence ---- *)
  Lemma eqb_cong_l a b c : eqb a b = true -> eqb a c = eqb b c.
  Proof.
    intros H. destruct (eqb b c) eqn:E.
    - apply (eqb_trans a b c); assumption.
    - destruct (eqb a c) eqn:E2; [|reflexivity].
      rewrite <- E. symmetry. apply (eqb_trans b a c); [rewrite eqb_sym; exact H|exact E2].
  Qed.
  Lemma eqb_cong_r a b c : eqb a b = true -> eqb c a = eqb c b.
  Proof. intros H. rewrite (eqb_sym c a), (eqb_sym c b). apply eqb_cong_l; exact H. Qed.

  Lemma peq_refl p : peq p p.
  Proof. split; apply eqb_refl. Qed.
  Lemma leq_refl l : leq l l.
  Proof. induction l; constructor; [apply peq_refl|assumption]. Qed.
  Lemma leq_sym l l' : leq l l' -> leq l' l.
  Proof. induction 1 as [|p q l l' [A B] _ IH]; constructor; [split; rewrite eqb_sym; assumption|exact IH]. Qed.
  Lemma leq_trans a b c : leq a b -> leq b c -> leq a c.
  Proof.
    intros H; revert c; induction H as [|p q l l' [A B] _ IH]; intros c Hc; inversion Hc as [|q' r' l2 l3 [C D] Hr]; subst.
    - constructor.
    - constructor; [split; eapply eqb_trans; eassumption|apply IH; exact Hr].
  Qed.
  Lemma leq_app a a' b b' : leq a a' -> leq b b' -> leq (a ++ b) (a' ++ b').
  Proof. intros H1 H2. apply Forall2_app; assumption. Qed.

  (* ---- insert, as a recursion on the list ---- *)
  Lemma ins_nil k v : g_insert k v [] = [(k, v)].
  Proof. reflexivity. Qed.
  Lemma ins_cons k v p m :
    g_insert k v (p :: m) = if eqb k (fst p) then m ++ [(fst p, v)] else p :: g_insert k v m.
  Proof.
    unfold lm_insert. destruct p as [k' v']. cbn [lm_remove fst].
    destruct (eqb k k'); [reflexivity|].
    destruct (g_remove k m) as [[k0|] r]; reflexivity.
  Qed.

  Lemma mem_app k a b : mem k (a ++ b) = mem k a || mem k b.
  Proof. apply existsb_app. Qed.
  Lemma mem_congr k k' l l' : eqb k k' = true -> leq l l' -> mem k l = mem k' l'.
  Proof.
    intros Hk H. induction H as [|p q l l' [A B] _ IH]; [reflexivity|].
    cbn [lm_mem existsb]. fold (mem k l) (mem k' l'). rewrite IH.
    rewrite (eqb_cong_l k k' (fst p) Hk), (eqb_cong_r _ _ k' A). reflexivity.
  Qed.

  Lemma ins_notin k v m : mem k m = false -> g_insert k v m = m ++ [(k, v)].
  Proof.
    induction m as [|p m IH]; intros H; [reflexivity|].
    cbn [lm_mem existsb] in H. apply orb_false_iff in H. destruct H as [H1 H2].
    rewrite ins_cons, H1. cbn [app]. f_equal. apply IH. exact H2.
  Qed.

  Lemma mem_ins x k v m : mem x (g_insert k v m) = mem x m || eqb x k.
  Proof.
    induction m as [|p m IH]; [cbn; rewrite orb_false_r; reflexivity|].
    rewrite ins_cons. destruct (eqb k (fst p)) eqn:E.
    - rewrite mem_app. cbn [lm_mem existsb fst]. fold (mem x m).
      rewrite (eqb_cong_r k (fst p) x E). destruct (eqb x (fst p)), (mem x m); reflexivity.
    - cbn [lm_mem existsb]. fold (mem x (g_insert k v m)) (mem x m). rewrite IH.
      destruct (eqb x (fst p)), (mem x m); reflexivity.
  Qed.

  Lemma ins_congr k k' v v' l l' :
    eqb k k' = true -> eqb v v' = true -> leq l l' -> leq (g_insert k v l) (g_insert k' v' l').
  Proof.
    intros Hk Hv H. induction H as [|p q l l' [A B] Hl IH].
    - constructor; [split; assumption|constructor].
    - rewrite !ins_cons.
      assert (E : eqb k (fst p) = eqb k' (fst q)).
      { rewrite (eqb_cong_l k k' (fst p) Hk). apply eqb_cong_r. exact A. }
      rewrite E. destruct (eqb k' (fst q)).
      + apply leq_app; [exact Hl|]. constructor; [split; assumption|constructor].
      + constructor; [split; assumption|exact IH].
  Qed.

  (* ---- G ---- *)
  Lemma G_congr l l' : leq l l' -> leq (G l) (G l').
  Proof.
    induction 1 as [|p q l l' [A B] Hl IH]; [constructor|].
    cbn [lm_dedup]. rewrite (mem_congr (fst p) (fst q) l l' A Hl).
    destruct (mem (fst q) l'); [exact IH|]. constructor; [split; assumption|exact IH].
  Qed.

  Lemma G_snoc_notin k v r : mem k r = false -> G (r ++ [(k, v)]) = G r ++ [(k, v)].
  Proof.
    induction r as [|p r IH]; intros H; [reflexivity|].
    cbn [lm_mem existsb] in H. apply orb_false_iff in H. destruct H as [H1 H2].
    cbn [app lm_dedup]. rewrite mem_app. cbn [lm_mem existsb fst]. fold (mem (fst p) r).
    rewrite (eqb_sym (fst p) k), H1, ?orb_false_r. rewrite (IH H2).
    destruct (mem (fst p) r); reflexivity.
  Qed.

  Lemma mem_G x l : mem x (G l) = mem x l.
  Proof.
    induction l as [|p r IH]; [reflexivity|].
    cbn [lm_dedup]. destruct (mem (fst p) r) eqn:E.
    - rewrite IH. cbn [lm_mem existsb]. fold (mem x r).
      destruct (eqb x (fst p)) eqn:E2; [|reflexivity].
      cbn [orb]. rewrite <- E. apply mem_congr; [exact E2|apply leq_refl].
    - cbn [lm_mem existsb]. fold (mem x (G r)) (mem x r). rewrite IH. reflexivity.
  Qed.

  Lemma ins_G k v l : leq (g_insert k v (G l)) (G (l ++ [(k, v)])).
  Proof.
    induction l as [|p r IH]; [cbn; constructor; [apply peq_refl|constructor]|].
    cbn [app lm_dedup]. rewrite mem_app. cbn [lm_mem existsb fst]. fold (mem (fst p) r). rewrite orb_false_r.
    destruct (mem (fst p) r) eqn:Em; cbn [orb]; [exact IH|].
    rewrite ins_cons. rewrite (eqb_sym k (fst p)). destruct (eqb (fst p) k) eqn:Ek.
    - assert (Hn : mem k r = false).
      { rewrite <- Em. apply mem_congr; [rewrite eqb_sym; exact Ek|apply leq_refl]. }
      rewrite (G_snoc_notin k v r Hn). apply leq_app; [apply leq_refl|].
      constructor; [split; [exact Ek|apply eqb_refl]|constructor].
    - constructor; [apply peq_refl|exact IH].
  Qed.

  (* ---- F ---- *)
  Lemma F_snoc l p : F (l ++ [p]) = ins p (F l).
  Proof. unfold lm_collect. rewrite fold_left_app. reflexivity. Qed.
  Lemma Facc_F acc l : Facc (F acc) l = F (acc ++ l).
  Proof. unfold Facc, lm_collect. rewrite fold_left_app. reflexivity. Qed.

  Theorem F_G l : leq (F l) (G l).
  Proof.
    induction l as [|p l IH] using rev_ind; [constructor|].
    rewrite F_snoc. unfold lm_ins. destruct p as [k v]. cbn [fst snd].
    eapply leq_trans; [apply ins_congr; [apply eqb_refl|apply eqb_refl|exact IH]|apply ins_G].
  Qed.

  Theorem F_congr l l' : leq l l' -> leq (F l) (F l').
  Proof.
    intros H. eapply leq_trans; [apply F_G|]. eapply leq_trans; [apply G_congr; exact H|].
    apply leq_sym, F_G.
  Qed.

  (* ---- keys of a map are pairwise distinct, and the LAST value of a key wins ---- *)
  Lemma nodupb_snoc k v m : nodupb m = true -> mem k m = false -> nodupb (m ++ [(k, v)]) = true.
  Proof.
    induction m as [|p m IH]; intros Hn Hm; [reflexivity|].
    cbn [lm_nodupb] in Hn. apply andb_true_iff in Hn. destruct Hn as [H1 H2].
    cbn [lm_mem existsb] in Hm. apply orb_false_iff in Hm. destruct Hm as [H3 H4].
    cbn [app lm_nodupb]. rewrite mem_app. cbn [lm_mem existsb fst]. fold (mem (fst p) m).
    rewrite (eqb_sym (fst p) k), H3. apply negb_true_iff in H1. rewrite H1. cbn [orb negb andb].
    apply IH; assumption.
  Qed.

  Lemma nodupb_ins k v m : nodupb m = true -> nodupb (g_insert k v m) = true.
  Proof.
    induction m as [|p m IH]; intros Hn; [reflexivity|].
    cbn [lm_nodupb] in Hn. apply andb_true_iff in Hn. destruct Hn as [H1 H2]. apply negb_true_iff in H1.
    rewrite ins_cons. destruct (eqb k (fst p)) eqn:E.
    - apply nodupb_snoc; assumption.
    - cbn [lm_nodupb]. rewrite mem_ins, H1, (eqb_sym (fst p) k), E. cbn [orb negb andb]. apply IH; exact H2.
  Qed.

  Theorem nodupb_F l : nodupb (F l) = true.
  Proof. induction l as [|p l IH] using rev_ind; [reflexivity|]. rewrite F_snoc. apply nodupb_ins; exact IH. Qed.

  Lemma assoc_notin x m : mem x m = false -> assoc x m = None.
  Proof.
    induction m as [|p m IH]; intros H; [reflexivity|].
    cbn [lm_mem existsb] in H. apply orb_false_iff in H. destruct H as [H1 H2].
    cbn [lm_get]. rewrite H1. apply IH; exact H2.
  Qed.
  Lemma assoc_app x a b : assoc x (a ++ b) = match assoc x a with Some v => Some v | None => assoc x b end.
  Proof. induction a as [|p a IH]; [reflexivity|]. cbn [app lm_get]. destruct (eqb x (fst p)); [reflexivity|exact IH]. Qed.

  Lemma assoc_ins x k v m : nodupb m = true ->
    assoc x (g_insert k v m) = if eqb x k then Some v else assoc x m.
  Proof.
    induction m as [|p m IH]; intros Hn; [cbn; destruct (eqb x k); reflexivity|].
    cbn [lm_nodupb] in Hn. apply andb_true_iff in Hn. destruct Hn as [H1 H2]. apply negb_true_iff in H1.
    rewrite ins_cons. destruct (eqb k (fst p)) eqn:E.
    - rewrite assoc_app. cbn [lm_get fst snd]. rewrite <- (eqb_cong_r k (fst p) x E).
      destruct (eqb x k) eqn:E2.
      + assert (Hx : mem x m = false).
        { rewrite <- H1. apply mem_congr; [|apply leq_refl]. eapply eqb_trans; eassumption. }
        rewrite (assoc_notin x m Hx). reflexivity.
      + destruct (assoc x m); reflexivity.
    - cbn [lm_get]. destruct (eqb x (fst p)) eqn:E3.
      + assert (E4 : eqb x k = false).
        { destruct (eqb x k) eqn:E5; [|reflexivity]. rewrite <- E. symmetry.
          apply (eqb_trans k x (fst p)); [rewrite eqb_sym; exact E5|exact E3]. }
        rewrite E4. reflexivity.
      + apply IH; exact H2.
  Qed.

  (* the value found under a key is the one of its LAST occurrence in the source list *)
  Theorem assoc_F x l : assoc x (F l) = assoc x (rev l).
  Proof.
    induction l as [|p l IH] using rev_ind; [reflexivity|].
    rewrite F_snoc, rev_app_distr. cbn [rev app lm_get]. unfold lm_ins.
    rewrite assoc_ins by apply nodupb_F. destruct (eqb x (fst p)); [reflexivity|exact IH].
  Qed.

  (* nothing is dropped or invented: the keys of the map are the keys of the source *)
  Theorem mem_F x l : mem x (F l) = mem x l.
  Proof.
    induction l as [|p l IH] using rev_ind; [reflexivity|].
    rewrite F_snoc. unfold lm_ins. rewrite mem_ins, IH, mem_app. cbn [lm_mem existsb]. rewrite orb_false_r. reflexivity.
  Qed.

  (* ---- a list without duplicate keys is its own map ---- *)
  Lemma nodupb_app_inv l p : nodupb (l ++ [p]) = true -> nodupb l = true /\ mem (fst p) l = false.
  Proof.
    induction l as [|q l IH]; intros H; [split; reflexivity|].
    cbn [app lm_nodupb] in H. apply andb_true_iff in H. destruct H as [H1 H2]. apply negb_true_iff in H1.
    rewrite mem_app in H1. apply orb_false_iff in H1. destruct H1 as [H3 H4].
    cbn [lm_mem existsb] in H4. rewrite orb_false_r in H4.
    destruct (IH H2) as [H5 H6]. split.
    - cbn [lm_nodupb]. rewrite H3, H5. reflexivity.
    - cbn [lm_mem existsb]. fold (mem (fst p) l). rewrite (eqb_sym (fst p) (fst q)), H4, H6. reflexivity.
  Qed.

  Theorem F_nodup_id l : nodupb l = true -> F l = l.
  Proof.
    induction l as [|p l IH] using rev_ind; intros H; [reflexivity|].
    apply nodupb_app_inv in H. destruct H as [H1 H2].
    rewrite F_snoc, (IH H1). unfold lm_ins. destruct p as [k v]. apply ins_notin. exact H2.
  Qed.

  (* ---- entries of a map come from the source: any predicate on keys and values is preserved ---- *)
  Section AllP.
    Variable P : T -> Prop.
    Definition allP (l : list entry) : Prop := Forall (fun p => P (fst p) /\ P (snd p)) l.
    Lemma allP_ins k v m : allP m -> P k -> P v -> allP (g_insert k v m).
    Proof.
      intros Hm Hk Hv. induction Hm as [|p m [A B] Hm IH]; [constructor; [split; assumption|constructor]|].
      rewrite ins_cons. destruct (eqb k (fst p)).
      - apply Forall_app. split; [exact Hm|]. constructor; [split; assumption|constructor].
      - constructor; [split; assumption|exact IH].
    Qed.
    Lemma allP_F l : allP l -> allP (F l).
    Proof.
      induction l as [|p l IH] using rev_ind; intros H; [constructor|].
      apply Forall_app in H. destruct H as [H1 H2]. inversion H2 as [|? ? [A B] _]; subst.
      rewrite F_snoc. unfold lm_ins. apply allP_ins; [apply IH; exact H1|exact A|exact B].
    Qed.
  End AllP.

  (* ---- re-collecting a map through an equality-preserving function ---- *)
  Section Recollect.
    Variable f : T -> T.
    Hypothesis f_congr : forall a b, eqb a b = true -> eqb (f a) (f b) = true.
    Definition fp (p : entry) : entry := (f (fst p), f (snd p)).

    Lemma map_fp_congr l l' : leq l l' -> leq (map fp l) (map fp l').
    Proof. induction 1 as [|p q l l' [A B] _ IH]; constructor; [split; apply f_congr; assumption|exact IH]. Qed.

    Lemma mem_map_ins x k v m : mem x (map fp (g_insert k v m)) = mem x (map fp m) || eqb x (f k).
    Proof.
      induction m as [|p m IH]; [cbn; rewrite orb_false_r; reflexivity|].
      rewrite ins_cons. destruct (eqb k (fst p)) eqn:E.
      - rewrite map_app, mem_app. cbn [map lm_mem existsb fp fst]. fold (mem x (map fp m)).
        rewrite (eqb_cong_r (f k) (f (fst p)) x (f_congr _ _ E)).
        destruct (eqb x (f (fst p))), (mem x (map fp m)); reflexivity.
      - cbn [map lm_mem existsb]. fold (mem x (map fp (g_insert k v m))) (mem x (map fp m)). rewrite IH.
        destruct (eqb x (fst (fp p))), (mem x (map fp m)); reflexivity.
    Qed.

    Lemma G_map_ins k v l : leq (G (map fp (g_insert k v l))) (G (map fp (l ++ [(k, v)]))).
    Proof.
      induction l as [|p m IH]; [apply leq_refl|].
      rewrite ins_cons. destruct (eqb k (fst p)) eqn:E.
      - cbn [app map lm_dedup].
        assert (Hm : mem (fst (fp p)) (map fp (m ++ [(k, v)])) = true).
        { rewrite map_app, mem_app. cbn [map lm_mem existsb fp fst].
          rewrite (eqb_sym (f (fst p)) (f k)), (f_congr _ _ E). rewrite orb_true_r. reflexivity. }
        rewrite Hm. apply G_congr. rewrite !map_app. apply leq_app; [apply leq_refl|].
        constructor; [|constructor]. split; cbn [fp fst snd]; [|apply eqb_refl].
        apply f_congr. rewrite eqb_sym. exact E.
      - cbn [app map lm_dedup]. rewrite mem_map_ins. rewrite map_app in IH. cbn [map] in IH.
        rewrite (map_app fp m [(k, v)]), mem_app. cbn [map lm_mem existsb fp fst]. rewrite orb_false_r.
        destruct (mem (f (fst p)) (map fp m) || eqb (f (fst p)) (f k)); [exact IH|].
        constructor; [apply peq_refl|exact IH].
    Qed.

    (* resolving the keys and values of a map after an insertion = inserting the resolved entry into the
       resolved map, whatever keys resolution identifies *)
    Theorem recollect_insert k v l :
      leq (F (map fp (g_insert k v l))) (g_insert (f k) (f v) (F (map fp l))).
    Proof.
      eapply leq_trans; [apply F_G|].
      eapply leq_trans; [apply G_map_ins|].
      rewrite map_app. cbn [map fp fst snd].
      eapply leq_trans; [apply leq_sym, ins_G|].
      apply ins_congr; [apply eqb_refl|apply eqb_refl|apply leq_sym, F_G].
    Qed.

    (* the statement in its "whole map" form: collecting the resolved entries of a collected map is
       collecting the resolved entries of the source *)
    Theorem recollect_F l : leq (F (map fp (F l))) (F (map fp l)).
    Proof.
      induction l as [|p l IH] using rev_ind; [constructor|].
      rewrite F_snoc, map_app. cbn [map]. rewrite F_snoc. unfold lm_ins at 1. destruct p as [k v]. cbn [fst snd map fp].
      eapply leq_trans; [apply recollect_insert|].
      unfold lm_ins. cbn [fst snd]. apply ins_congr; [apply eqb_refl|apply eqb_refl|exact IH].
    Qed.
  End Recollect.
End Insert.
