(* C15, parser half, ingredient (C) of Proofs/DocIndep.v: a larger anchor id counter only renumbers.
   [state_machine_shift]: for every parser state p (any tokens, any state stack) with a non-zero anchor id counter, the
   state machine run on p with the counter raised by d and every recorded anchor id raised by d does exactly what it
   does on p, with every anchor id and alias id of the event raised by d. *)
From Coq Require Import List NArith Bool Lia.
Import ListNotations.
Require Import Parser C02base DocReset.
Local Open Scope N_scope.

(* ================================================================================================ *)
(* (C) renumbering                                                                                    *)
(* ================================================================================================ *)
Definition shift_anchors (d : N) (l : list (str * N)) : list (str * N) := map (fun kv => (fst kv, snd kv + d)) l.
Definition shiftp (d : N) (p : parser) : parser := set_anchors p (shift_anchors d (p_anchors p)) (p_anchor_id p + d).
Definition sh (d aid : N) : N := if aid =? 0 then 0 else aid + d.
Definition shift_ev (d : N) (e : event) : event :=
  match e with
  | EAlias id => EAlias (id + d)
  | EScalar v st aid tg => EScalar v st (sh d aid) tg
  | ESequenceStart aid tg => ESequenceStart (sh d aid) tg
  | EMappingStart aid tg => EMappingStart (sh d aid) tg
  | e => e
  end.
Definition shift_evsp (d : N) (e : event * span) : event * span := (shift_ev d (fst e), snd e).
Definition shift_res (d : N) (r : res ((event * span) * parser)) : res ((event * span) * parser) :=
  match r with
  | Ok ((e, sp), q) => Ok ((shift_ev d e, sp), shiftp d q)
  | Err e => Err e
  | Panic n => Panic n
  end.

Lemma assoc_shift d k l : assoc k (shift_anchors d l) = option_map (fun v => v + d) (assoc k l).
Proof. induction l as [|[k' v] r IH]; cbn; [reflexivity|]. destruct (str_eqb k k'); [reflexivity|exact IH]. Qed.
Lemma assoc_set_shift d k v l : assoc_set k (v + d) (shift_anchors d l) = shift_anchors d (assoc_set k v l).
Proof.
  induction l as [|[k' v'] r IH]; cbn; [reflexivity|]. destruct (str_eqb k k'); cbn; [reflexivity|].
  f_equal. exact IH.
Qed.

Lemma peek_shift d p :
  peek (shiftp d p) = match peek p with Ok (t, q) => Ok (t, shiftp d q) | Err e => Err e | Panic n => Panic n end.
Proof. unfold peek. cbn. destruct (p_token p); [reflexivity|]. destruct (p_toks p); reflexivity. Qed.
Lemma pop_state_shift d p :
  pop_state (shiftp d p) = match pop_state p with Ok q => Ok (shiftp d q) | Err e => Err e | Panic n => Panic n end.
Proof. unfold pop_state. cbn. destruct (p_states p); reflexivity. Qed.
Lemma skip_shift d p : skip (shiftp d p) = shiftp d (skip p).
Proof. reflexivity. Qed.
Lemma set_state_shift d p s : set_state (shiftp d p) s = shiftp d (set_state p s).
Proof. reflexivity. Qed.
Lemma push_state_shift d p s : push_state (shiftp d p) s = shiftp d (push_state p s).
Proof. reflexivity. Qed.
Lemma set_tags_shift d p t : set_tags (shiftp d p) t = shiftp d (set_tags p t).
Proof. reflexivity. Qed.
Lemma resolve_tag_shift d p m h s : resolve_tag (shiftp d p) m h s = resolve_tag p m h s.
Proof. reflexivity. Qed.

Lemma peek_aid p t q : peek p = Ok (t, q) -> p_anchor_id q = p_anchor_id p.
Proof. intros H. apply peek_other_fields in H. tauto. Qed.

Lemma peek_cached p t : p_token p = Some t -> peek p = Ok (t, p).
Proof. unfold peek. intros ->. reflexivity. Qed.
Lemma peek_tok p t q : peek p = Ok (t, q) -> p_token q = Some t.
Proof. intros H. apply peek_measure in H. tauto. Qed.

Lemma register_anchor_shift d p name :
  register_anchor (shiftp d p) name = (fst (register_anchor p name) + d, shiftp d (snd (register_anchor p name))).
Proof.
  unfold register_anchor, shiftp, set_anchors. cbn. f_equal. f_equal; [apply assoc_set_shift|lia].
Qed.

Ltac shn := rewrite ?skip_shift, ?set_state_shift, ?push_state_shift, ?set_tags_shift, ?resolve_tag_shift.
(* destruct the next peek / pop of the ORIGINAL parser, after moving the shift outwards *)
Ltac shpeek :=
  shn; rewrite peek_shift;
  match goal with
  | Hc : p_token ?x = Some ?t |- context [match peek ?x with _ => _ end] =>
      rewrite (peek_cached x t Hc); cbv beta iota
  | |- context [match peek ?x with _ => _ end] =>
      let E := fresh "E" in let Hc := fresh "Hc" in let sp := fresh "sp" in let tk := fresh "tk" in let q := fresh "q" in
      destruct (peek x) as [[[sp tk] q]| |] eqn:E;
      [pose proof (peek_tok _ _ _ E) as Hc; apply peek_aid in E; cbv beta iota;
       try match goal with |- context [match tk with _ => _ end] => destruct tk; cbv beta iota end
      |reflexivity|reflexivity]
  end.
Ltac shpop :=
  shn; rewrite pop_state_shift;
  match goal with
  | |- context [match pop_state ?q with _ => _ end] => destruct (pop_state q); [|reflexivity|reflexivity]
  end; cbv beta iota.

Lemma sh_pos d aid : aid <> 0 -> sh d aid = aid + d.
Proof. intros H. unfold sh. destruct (N.eqb_spec aid 0); [contradiction|reflexivity]. Qed.

Lemma has_props_sh d aid tg : has_props (sh d aid) tg = has_props aid tg.
Proof.
  unfold has_props, sh. destruct tg; [reflexivity|]. cbn. destruct (N.eqb_spec aid 0) as [->|H]; [reflexivity|].
  destruct (N.ltb_spec 0 (aid + d)), (N.ltb_spec 0 aid); try reflexivity; lia.
Qed.

Definition shift_props (d : N) (r : res (N * option tag * parser)) : res (N * option tag * parser) :=
  match r with
  | Ok (aid, tg, q) => Ok (sh d aid, tg, shiftp d q)
  | Err e => Err e
  | Panic n => Panic n
  end.

Lemma node_props_shift d p t : p_anchor_id p <> 0 -> node_props (shiftp d p) t = shift_props d (node_props p t).
Proof.
  intros Ha. unfold node_props. destruct t as [sp tk]. destruct tk; try reflexivity.
  - (* anchor *)
    shn. rewrite register_anchor_shift. unfold register_anchor. cbv beta iota zeta. cbn [fst snd].
    shpeek; cbn [shift_props]; try (rewrite sh_pos by exact Ha; reflexivity).
    shn. destruct (resolve_tag _ _ _ _); cbn [shift_props]; try reflexivity. rewrite sh_pos by exact Ha. reflexivity.
  - (* tag *)
    shn. destruct (resolve_tag _ _ _ _); try reflexivity. cbv beta iota.
    shpeek; cbn [shift_props]; try reflexivity.
    shn. rewrite register_anchor_shift. unfold register_anchor. cbv beta iota zeta. cbn [fst snd shift_props].
    rewrite sh_pos by (cbn in *; congruence). reflexivity.
Qed.

Lemma empty_or_err_shift d p aid tg sp :
  empty_or_err (shiftp d p) (sh d aid) tg sp = shift_res d (empty_or_err p aid tg sp).
Proof.
  unfold empty_or_err. rewrite has_props_sh. destruct (has_props aid tg); [|reflexivity].
  shpop. reflexivity.
Qed.

Lemma node_content_shift d p aid tg b i :
  node_content (shiftp d p) (sh d aid) tg b i = shift_res d (node_content p aid tg b i).
Proof.
  unfold node_content. shpeek; try apply empty_or_err_shift; try reflexivity.
  - destruct b; [reflexivity|apply empty_or_err_shift].
  - destruct b; [reflexivity|apply empty_or_err_shift].
  - destruct i; [reflexivity|apply empty_or_err_shift].
  - shpop. reflexivity.
Qed.

Lemma parse_node_shift d p b i : p_anchor_id p <> 0 -> parse_node (shiftp d p) b i = shift_res d (parse_node p b i).
Proof.
  intros Ha. unfold parse_node. shpeek;
    try (rewrite node_props_shift by congruence;
         match goal with |- context [node_props ?q ?t] => destruct (node_props q t) as [[[aid tg] q']| |] end;
         cbn [shift_props]; cbv beta iota; [apply node_content_shift|reflexivity|reflexivity]).
  (* alias *)
  shpop. shn. cbn [p_anchors shiftp set_anchors skip set_tok]. rewrite assoc_shift.
  match goal with |- context [assoc ?n ?l] => destruct (assoc n l) end; reflexivity.
Qed.

(* every state function commutes with the shift *)
Ltac aid_tac := cbn [p_anchor_id skip set_tok set_state push_state set_states set_tags] in *; congruence.
Ltac shnode := shn; apply parse_node_shift; aid_tac.
Ltac shauto1 :=
  lazymatch goal with
  | |- parse_node _ _ _ = shift_res _ (parse_node _ _ _) => shnode
  | |- Ok _ = shift_res _ (Ok _) => reflexivity
  | |- Err _ = shift_res _ (Err _) => reflexivity
  | |- Panic _ = shift_res _ (Panic _) => reflexivity
  | |- (match pop_state _ with _ => _ end) = _ => shpop
  | |- _ = _ => shpeek
  end.
Ltac shauto := repeat shauto1.

Section Shift.
Variable d : N.

Lemma stream_start_shift p : stream_start (shiftp d p) = shift_res d (stream_start p).
Proof. unfold stream_start. shauto. Qed.

Lemma process_directives_shift fuel : forall p vs tags,
  process_directives fuel (shiftp d p) vs tags =
  match process_directives fuel p vs tags with Ok q => Ok (shiftp d q) | Err e => Err e | Panic n => Panic n end.
Proof.
  induction fuel as [|fuel IH]; intros p vs tags; cbn [process_directives]; [reflexivity|].
  shpeek; try reflexivity.
  - destruct vs; [reflexivity|]. shn. apply IH.
  - destruct (_ && _); [reflexivity|]. shn. apply IH.
Qed.

Lemma skip_document_ends_shift fuel : forall p,
  skip_document_ends fuel (shiftp d p) =
  match skip_document_ends fuel p with Ok q => Ok (shiftp d q) | Err e => Err e | Panic n => Panic n end.
Proof.
  induction fuel as [|fuel IH]; intros p; cbn [skip_document_ends]; [reflexivity|].
  shpeek; try reflexivity. shn. apply IH.
Qed.

Lemma explicit_document_start_shift p : explicit_document_start (shiftp d p) = shift_res d (explicit_document_start p).
Proof.
  unfold explicit_document_start. cbn [p_toks shiftp set_anchors]. rewrite process_directives_shift.
  destruct (process_directives _ p false []); try reflexivity. cbv beta iota. shauto.
Qed.

Lemma document_start_shift p implicit : document_start (shiftp d p) implicit = shift_res d (document_start p implicit).
Proof.
  unfold document_start. cbn [p_toks shiftp set_anchors]. rewrite skip_document_ends_shift.
  destruct (skip_document_ends _ p); try reflexivity. cbv beta iota.
  shpeek; try apply explicit_document_start_shift; try reflexivity;
    (destruct implicit; [|apply explicit_document_start_shift]);
    cbn [p_toks shiftp set_anchors]; rewrite process_directives_shift;
    match goal with |- context [process_directives ?f ?q ?a ?b] => destruct (process_directives f q a b) end; reflexivity.
Qed.

Lemma document_content_shift p : p_anchor_id p <> 0 -> document_content (shiftp d p) = shift_res d (document_content p).
Proof.
  intros Ha. unfold document_content. shpeek; try (shpop; reflexivity); apply parse_node_shift; congruence.
Qed.

Definition doc_end_tail (ee : bool) (sp : span) (q : parser) : res ((event * span) * parser) :=
  let q := set_anchors (if p_keep_tags q then q else set_tags q []) [] (p_anchor_id q) in
  if ee then Ok ((EDocumentEnd, sp), set_state q SImplicitDocumentStart)
  else
    do (t, q) <- peek q;
    match t with
    | (sp2, TVersionDirective _ _) | (sp2, TTagDirective _ _) => Err (PErr 4 (sp_start sp2))
    | _ => Ok ((EDocumentEnd, sp), set_state q SDocumentStart)
    end.

Lemma document_end_eq p :
  document_end p = do (t, q) <- peek p;
                   match t with
                   | (sp, TDocumentEnd) => doc_end_tail true sp (skip q)
                   | (sp, _) => doc_end_tail false sp q
                   end.
Proof.
  unfold document_end, doc_end_tail. destruct (peek p) as [[[sp tk] q]| |]; try reflexivity.
  destruct tk; cbn [p_keep_tags p_anchor_id skip set_tok]; destruct (p_keep_tags q); reflexivity.
Qed.

Lemma doc_end_tail_shift ee sp q : doc_end_tail ee sp (shiftp d q) = shift_res d (doc_end_tail ee sp q).
Proof.
  unfold doc_end_tail. cbn [p_keep_tags p_anchor_id shiftp set_anchors].
  destruct (p_keep_tags q); (destruct ee; [reflexivity|]).
  - change (set_anchors (shiftp d q) [] (p_anchor_id q + d)) with (shiftp d (set_anchors q [] (p_anchor_id q))).
    shpeek; reflexivity.
  - change (set_anchors (set_tags (shiftp d q) []) [] (p_anchor_id q + d))
      with (shiftp d (set_anchors (set_tags q []) [] (p_anchor_id q))).
    shpeek; reflexivity.
Qed.

Lemma document_end_shift p : document_end (shiftp d p) = shift_res d (document_end p).
Proof.
  rewrite !document_end_eq. shpeek; try apply doc_end_tail_shift. shn. apply doc_end_tail_shift.
Qed.

Lemma block_mapping_key_shift p first : p_anchor_id p <> 0 ->
  block_mapping_key (shiftp d p) first = shift_res d (block_mapping_key p first).
Proof. intros Ha. unfold block_mapping_key. destruct first; cbv beta iota; shauto. Qed.
Lemma block_mapping_value_shift p : p_anchor_id p <> 0 ->
  block_mapping_value (shiftp d p) = shift_res d (block_mapping_value p).
Proof. intros Ha. unfold block_mapping_value. shauto. Qed.
Lemma flow_mapping_key_shift p first : p_anchor_id p <> 0 ->
  flow_mapping_key (shiftp d p) first = shift_res d (flow_mapping_key p first).
Proof. intros Ha. unfold flow_mapping_key. destruct first; cbv beta iota; shauto. Qed.
Lemma flow_mapping_value_shift p empty : p_anchor_id p <> 0 ->
  flow_mapping_value (shiftp d p) empty = shift_res d (flow_mapping_value p empty).
Proof. intros Ha. unfold flow_mapping_value. destruct empty; cbv beta iota; shauto. Qed.
Lemma flow_sequence_entry_shift p first : p_anchor_id p <> 0 ->
  flow_sequence_entry (shiftp d p) first = shift_res d (flow_sequence_entry p first).
Proof. intros Ha. unfold flow_sequence_entry. destruct first; cbv beta iota; shauto. Qed.
Lemma indentless_sequence_entry_shift p : p_anchor_id p <> 0 ->
  indentless_sequence_entry (shiftp d p) = shift_res d (indentless_sequence_entry p).
Proof. intros Ha. unfold indentless_sequence_entry. shauto. Qed.
Lemma block_sequence_entry_shift p first : p_anchor_id p <> 0 ->
  block_sequence_entry (shiftp d p) first = shift_res d (block_sequence_entry p first).
Proof. intros Ha. unfold block_sequence_entry. destruct first; cbv beta iota; shauto. Qed.
Lemma fsem_key_shift p : p_anchor_id p <> 0 ->
  flow_sequence_entry_mapping_key (shiftp d p) = shift_res d (flow_sequence_entry_mapping_key p).
Proof. intros Ha. unfold flow_sequence_entry_mapping_key. shauto. Qed.
Lemma fsem_value_shift p : p_anchor_id p <> 0 ->
  flow_sequence_entry_mapping_value (shiftp d p) = shift_res d (flow_sequence_entry_mapping_value p).
Proof. intros Ha. unfold flow_sequence_entry_mapping_value. shauto. Qed.

Theorem state_machine_shift p : p_anchor_id p <> 0 -> state_machine (shiftp d p) = shift_res d (state_machine p).
Proof.
  intros Ha. unfold state_machine. cbn [p_state shiftp set_anchors].
  destruct (p_state p);
    first [ apply stream_start_shift | apply document_start_shift | apply document_content_shift; exact Ha
          | apply document_end_shift | apply parse_node_shift; exact Ha
          | apply block_mapping_key_shift; exact Ha | apply block_mapping_value_shift; exact Ha
          | apply block_sequence_entry_shift; exact Ha | apply flow_sequence_entry_shift; exact Ha
          | apply flow_mapping_key_shift; exact Ha | apply flow_mapping_value_shift; exact Ha
          | apply indentless_sequence_entry_shift; exact Ha | apply fsem_key_shift; exact Ha
          | apply fsem_value_shift; exact Ha | reflexivity ].
Qed.

End Shift.
