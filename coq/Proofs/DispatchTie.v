(* The scanner's dispatcher is the one of the SOURCE.
   Gen/Dispatch.v is regenerated on every run from the `match c { ... }` of Scanner::fetch_next_token
   (parser/src/scanner.rs): patterns, guards and actions of the arms, in source order, as the decision function
   [dispatch c nc fl adj].  This file ties the hand-written model to it:
     - [fetch_next_token_shape]: the model's fetch_next_token IS (convertibly: the proof is reflexivity, so it breaks
       when the model is edited) its prologue followed by [dispatch_tail], the if-chain of Model/SFetch.v;
     - [tbl_dispatch]: for every pair of characters, every flow level and every state, [dispatch_tail] runs exactly the
       fetch function the generated [dispatch] names.
   The proof of [tbl_dispatch] does not follow the order of the arms: it splits on which of the listed characters [c]
   is (or none of them) and on the guard atoms, and compares the outcomes, so a harmless re-ordering of disjoint arms
   in the source keeps it valid, while a changed pattern, guard or action breaks it. *)
From Coq Require Import List NArith ZArith Bool Lia.
Import ListNotations.
Require Import Parser SBase SPrim SDir SScalar SFetch CharTraits Dispatch.
Open Scope N_scope.
Open Scope mon_scope.

Section Tie.
Context {I : Type} (ops : InputOps I) (F : nat).
Notation M := (@M I).

Definition run_dact (a : dact) (s : sc I) : M unit :=
  match a with
  | DFlowStart b => fetch_flow_collection_start ops F b
  | DFlowEnd b => fetch_flow_collection_end ops F b
  | DFlowEntry => fetch_flow_entry ops F
  | DBlockEntry => fetch_block_entry ops F
  | DKey => fetch_key ops F
  | DValue => fetch_value ops F
  | DFlowValue => fetch_flow_value ops F
  | DAnchor b => fetch_anchor ops F b
  | DTag => fetch_tag ops F
  | DBlockScalar b => fetch_block_scalar ops F b
  | DFlowScalar b => fetch_flow_scalar ops F b
  | DPlain => fetch_plain_scalar ops F
  | DUnexpected => fail 103 (sc_mark s)
  end.

(* the if-chain of Model/SFetch.v fetch_next_token, verbatim *)
Definition dispatch_tail (c nc : N) (s : sc I) : M unit :=
  let fl := 0 <? sc_flow_level s in
  let bz := is_blank_or_breakz nc in
  if c =? 91 then fetch_flow_collection_start ops F true
  else if c =? 123 then fetch_flow_collection_start ops F false
  else if c =? 93 then fetch_flow_collection_end ops F true
  else if c =? 125 then fetch_flow_collection_end ops F false
  else if c =? 44 then fetch_flow_entry ops F
  else if (c =? 45) && bz then fetch_block_entry ops F
  else if (c =? 63) && bz then fetch_key ops F
  else if (c =? 58) && bz then fetch_value ops F
  else if (c =? 58) && fl && (is_flow nc || (m_index (sc_mark s) =? sc_adjacent s)) then fetch_flow_value ops F
  else if c =? 42 then fetch_anchor ops F true
  else if c =? 38 then fetch_anchor ops F false
  else if c =? 33 then fetch_tag ops F
  else if (c =? 124) && negb fl then fetch_block_scalar ops F true
  else if (c =? 62) && negb fl then fetch_block_scalar ops F false
  else if c =? 39 then fetch_flow_scalar ops F true
  else if c =? 34 then fetch_flow_scalar ops F false
  else if (c =? 45) && negb bz then fetch_plain_scalar ops F
  else if ((c =? 58) || (c =? 63)) && negb bz && negb fl then fetch_plain_scalar ops F
  else if (c =? 37) || (c =? 64) || (c =? 96) then fail 103 (sc_mark s)
  else fetch_plain_scalar ops F.

(* the model's fetch_next_token is its prologue followed by [dispatch_tail] — by conversion *)
Lemma fetch_next_token_shape :
  fetch_next_token ops F =
  (look ops 1 ;;;
   s <- get ;;
   if negb (sc_stream_start s) then fetch_stream_start else
   skip_to_next_token ops F ;;;
   stale_simple_keys ;;;
   m <- mark ;;
   unroll_indent (Z.of_N (m_col m)) ;;;
   look ops 4 ;;;
   z <- next_is ops is_z ;;
   if z then fetch_stream_end else
   s <- get ;;
   c0 <- peek ops ;;
   dstart <- (if m_col (sc_mark s) =? 0 then if c0 =? 37 then ret false else next_is_document_start ops else ret false) ;;
   dend <- (if (m_col (sc_mark s) =? 0) && negb (c0 =? 37) && negb dstart then next_is_document_end ops else ret false) ;;
   if (m_col (sc_mark s) =? 0) && (c0 =? 37) then fetch_directive ops F
   else if dstart then fetch_document_indicator ops TDocumentStart
   else if dend then
     fetch_document_indicator ops TDocumentEnd ;;;
     skip_ws_to_eol ops F SkipYes ;;;
     b <- next_is ops is_breakz ;;
     if b then ret tt else m <- mark ;; fail 101 m
   else
   if (Z.of_N (m_col (sc_mark s)) <? sc_indent s)%Z then fail 102 (sc_mark s) else
   c <- peek ops ;; nc <- peekn ops 1 ;;
   dispatch_tail c nc s).
Proof. reflexivity. Qed.

Ltac split_char c k :=
  let E := fresh "E" in
  destruct (N.eqb_spec c k) as [E|E]; [subst c|].

(* THE TIE: the model's chain runs the fetch function the source's match names *)
Theorem tbl_dispatch (c nc : N) (s : sc I) :
  dispatch_tail c nc s =
  run_dact (dispatch c nc (0 <? sc_flow_level s) (m_index (sc_mark s) =? sc_adjacent s)) s.
Proof.
  unfold dispatch_tail, dispatch.
  set (fl := 0 <? sc_flow_level s). set (adj := m_index (sc_mark s) =? sc_adjacent s).
  set (bz := is_blank_or_breakz nc). set (fw := is_flow nc).
  split_char c 91; [reflexivity|]. split_char c 123; [reflexivity|].
  split_char c 93; [reflexivity|]. split_char c 125; [reflexivity|].
  split_char c 44; [reflexivity|].
  split_char c 45; [destruct bz; reflexivity|].
  split_char c 63; [destruct bz, fl; reflexivity|].
  split_char c 58; [destruct bz, fl, fw, adj; reflexivity|].
  split_char c 42; [reflexivity|]. split_char c 38; [reflexivity|]. split_char c 33; [reflexivity|].
  split_char c 124; [destruct fl; reflexivity|].
  split_char c 62; [destruct fl; reflexivity|].
  split_char c 39; [reflexivity|]. split_char c 34; [reflexivity|].
  split_char c 37; [reflexivity|]. split_char c 64; [reflexivity|]. split_char c 96; [reflexivity|].
  (* none of the listed characters *)
  repeat match goal with
         | H : ?x <> ?k |- _ => apply N.eqb_neq in H; rewrite ?H; clear H
         end.
  cbn [andb orb negb]. reflexivity.
Qed.

(* what the dispatcher does with an ordinary character: every character that no arm lists starts a plain scalar *)
Corollary dispatch_default (c nc : N) (fl adj : bool) :
  ~ In c [91; 123; 93; 125; 44; 45; 63; 58; 42; 38; 33; 124; 62; 39; 34; 37; 64; 96] ->
  dispatch c nc fl adj = DPlain.
Proof.
  intros H. unfold dispatch.
  repeat match goal with
         | |- context [c =? ?k] =>
             let E := fresh "E" in
             destruct (N.eqb_spec c k) as [E|E];
             [exfalso; apply H; subst c; cbn; tauto|]
         end.
  reflexivity.
Qed.

(* the three indicators that are neither a token nor the start of a scalar *)
Corollary dispatch_reserved (nc : N) (fl adj : bool) :
  dispatch 37 nc fl adj = DUnexpected /\ dispatch 64 nc fl adj = DUnexpected /\ dispatch 96 nc fl adj = DUnexpected.
Proof. repeat split. Qed.
End Tie.
