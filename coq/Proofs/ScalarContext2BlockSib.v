(* C05 in document context, a FOLLOWER behind the block scalar: the scalar is the value of the first pair of a two-pair
   top-level mapping / the first entry of a two-entry top-level sequence; the sibling's value is a one-line plain scalar.
   See the header of Proofs/ScalarContext2Pos.v for the method (position invariant of Proofs/ScanPos.v: behind the scalar the
   scanner stands at column 0 of a later line; the key saved for the scalar is stale; the stack fetches like [at_tok]). *)
From Coq Require Import List NArith ZArith Bool Arith Lia.
Import ListNotations.
Require Import Parser SBase SPrim SDir SScalar SFetch Pipe Drivers TokenGrammar FlowText BlockText ScanFlowProofs ScanBlockProofs ScanFrame TokenGrammarProofs TokenStreamProofs BlockScalar BlockScalarProofs BlockScalarCase FlowFold FlowScalarProofs PlainScalarProofs ScalarContext ScalarContextBlock ScalarContextQuoted ScalarContextFlow ScalarContext2Plain ScalarContext2PlainDoc Positions ScanPos ScanPosPrim ScanPosBlock ScalarContext2Pos.
Open Scope N_scope.
Open Scope mon_scope.

#[local] Arguments N.eqb : simpl nomatch.
#[local] Arguments Nat.max : simpl nomatch.
#[local] Arguments Nat.leb : simpl nomatch.
#[local] Arguments Nat.ltb : simpl nomatch.
#[local] Arguments Nat.sub : simpl nomatch.
#[local] Arguments N.add : simpl never.
#[local] Arguments N.sub : simpl never.
#[local] Arguments N.mul : simpl never.
#[local] Arguments N.ltb : simpl nomatch.
#[local] Arguments N.leb : simpl nomatch.
#[local] Arguments Z.of_N : simpl never.
#[local] Arguments Z.ltb : simpl never.
#[local] Arguments Z.leb : simpl never.
#[local] Arguments Z.eqb : simpl never.
#[local] Arguments Z.add : simpl never.
#[local] Arguments bind {I A B} m f s /.
#[local] Arguments ret {I A} a s /.
#[local] Arguments get {I} s /.
#[local] Arguments put {I} s _ /.
#[local] Arguments modify {I} f s /.
#[local] Arguments gets {I A} f s /.
#[local] Arguments fail {I A} site m _ /.
#[local] Arguments upd {I} s i m t /.
#[local] Arguments set_in {I} i s /.
#[local] Arguments set_mark {I} m s /.
#[local] Arguments set_tokens {I} t s /.
#[local] Arguments set_flags {I} s ss se adj ska ta lws /.
#[local] Arguments set_ska {I} b s /.
#[local] Arguments set_lws {I} b s /.
#[local] Arguments set_adj {I} n s /.
#[local] Arguments set_ta {I} b s /.
#[local] Arguments set_ss {I} b s /.
#[local] Arguments set_se {I} b s /.
#[local] Arguments set_struct {I} s sks ind inds fl tp ifms /.
#[local] Arguments set_sks {I} l s /.
#[local] Arguments set_indent {I} z l s /.
#[local] Arguments set_fl {I} n s /.
#[local] Arguments set_tp {I} n s /.
#[local] Arguments set_ifms {I} l s /.
#[local] Arguments skip_to_next_token : simpl never.
#[local] Arguments stale_simple_keys : simpl never.
#[local] Arguments plain_chunk : simpl never.
#[local] Arguments plain_blanks : simpl never.
#[local] Arguments scan_plain_scalar : simpl never.
#[local] Arguments scan_block_scalar : simpl never.
#[local] Arguments scan_flow_scalar : simpl never.
#[local] Arguments fetch_stream_start : simpl never.
#[local] Arguments fetch_stream_end : simpl never.
#[local] Arguments fetch_directive : simpl never.
#[local] Arguments fetch_document_indicator : simpl never.
#[local] Arguments fetch_flow_collection_start : simpl never.
#[local] Arguments fetch_flow_collection_end : simpl never.
#[local] Arguments fetch_flow_entry : simpl never.
#[local] Arguments fetch_block_entry : simpl never.
#[local] Arguments fetch_key : simpl never.
#[local] Arguments fetch_value : simpl never.
#[local] Arguments fetch_flow_value : simpl never.
#[local] Arguments fetch_anchor : simpl never.
#[local] Arguments fetch_tag : simpl never.
#[local] Arguments fetch_block_scalar : simpl never.
#[local] Arguments fetch_flow_scalar : simpl never.
#[local] Arguments fetch_plain_scalar : simpl never.
#[local] Arguments fetch_next_token : simpl never.
#[local] Arguments fetch_more_tokens : simpl never.
#[local] Arguments next_token : simpl never.
#[local] Arguments scan_all : simpl never.
#[local] Arguments fnt_rest : simpl never.
#[local] Arguments skip_ws_to_eol : simpl never.
#[local] Arguments insert_token : simpl never.
#[local] Arguments need_comp : simpl never.
#[local] Arguments unroll_indent : simpl never.
#[local] Arguments roll_indent : simpl never.
#[local] Arguments roll_one_col_indent : simpl never.
#[local] Arguments unroll_non_block_indents : simpl never.
#[local] Arguments save_simple_key : simpl never.
#[local] Arguments popk : simpl never.
#[local] Arguments ntb : simpl never.

#[local] Arguments case_block : simpl never.
#[local] Arguments case_rest : simpl never.
#[local] Arguments case_value : simpl never.
#[local] Arguments saved : simpl never.
#[local] Arguments p_text : simpl never.
#[local] Arguments plain_text : simpl never.

(* ---------- the text of a case with a follower ---------- *)
Lemma with_breaks_app brk a c : with_breaks brk (a ++ c) = with_breaks brk a ++ with_breaks brk c.
Proof. unfold with_breaks. apply flat_map_app. Qed.
Lemma with_breaks_lf brk : with_breaks brk [LF] = brk_src brk.
Proof. unfold with_breaks, brk_src, LF. cbn [flat_map]. change (10 =? 10) with true. cbv iota. apply app_nil_r. Qed.
Lemma with_breaks_cons brk x r : (x =? 10) = false -> with_breaks brk (x :: r) = x :: with_breaks brk r.
Proof. intros H. unfold with_breaks. cbn [flat_map]. rewrite H. reflexivity. Qed.
Lemma with_breaks_0 t : with_breaks 0 t = t.
Proof.
  unfold with_breaks. induction t as [|c t IH]; [reflexivity|]. cbn [flat_map]. rewrite IH.
  change (0 =? 1) with false. change (0 =? 2) with false. cbv iota. destruct (N.eqb_spec c 10) as [-> |_]; reflexivity.
Qed.

(* the sibling line is written the same in every break style *)
Definition keeps_breaks (brk : N) (t : list N) : bool := (brk =? 0) || forallb (fun c => negb (c =? 10)) t.
Lemma keeps_breaks_id brk t : keeps_breaks brk t = true -> with_breaks brk t = t.
Proof.
  unfold keeps_breaks. intros H. apply orb_prop in H as [H|H]; [apply N.eqb_eq in H; subst brk; apply with_breaks_0|apply with_breaks_nolf, H].
Qed.

Lemma case_block_rest b x r : bc_eof b = EofRest (x :: r) -> (x =? 10) = false -> (x =? 32) = false ->
  keeps_breaks (bc_brk b) (x :: r) = true ->
  exists Hd, case_block b = Hd ++ brk_src (bc_brk b) ++ x :: r /\ case_rest b = x :: r.
Proof.
  intros He H10 H32 Hk. unfold case_block, case_rest, render_block. rewrite He.
  eexists (with_breaks (bc_brk b) (header _ _ _ _ ++ bc_hc b ++ flat_map _ (case_lines b))). split.
  - rewrite !with_breaks_app. change (LF :: x :: r) with ([LF] ++ x :: r). rewrite with_breaks_app, with_breaks_lf, (keeps_breaks_id _ _ Hk).
    rewrite <- !app_assoc. reflexivity.
  - rewrite (keeps_breaks_id _ _ Hk). cbn [strip_spaces]. rewrite H32. reflexivity.
Qed.

Lemma forallb_nonul t : forallb (fun c => negb (c =? 0)) t = true -> Forall (fun c => c <> 0) t.
Proof.
  intros H. apply Forall_forall. intros c Hc. rewrite forallb_forall in H. specialize (H c Hc). apply negb_true_iff, N.eqb_neq in H. exact H.
Qed.

(* ---------- fetch_block_scalar with the position behind the scalar ---------- *)
Lemma fetch_block_case_pos F b l mk q adj ska k ind inds tp lws inds1 orig pre0 P :
  case_ok b = true -> leading_tab_b b = false ->
  unroll_nb inds ind = (parent_z (bc_parent b), inds1) -> (case_fuel b < F)%nat ->
  ((ind =? Z.of_N (m_col mk))%Z = true -> inds <> []) ->
  Forall (fun c => c <> 0) orig -> orig = pre0 ++ case_block b -> m_index mk = N.of_nat (length pre0) ->
  (m_line mk, m_col mk) = pos_go orig (length pre0) 1 0 ->
  orig = P ++ brk_src (bc_brk b) ++ case_rest b -> (hd 0 (case_rest b) =? 10) = false -> (length pre0 <= length P)%nat ->
  exists l' mk' sp lws' ind' inds',
    fetch_block_scalar str_ops F (bc_literal b) (mkb (case_block b) l mk q adj ska k ind inds tp false lws)
    = Ok (tt, mkb (case_rest b) l' mk' (q ++ [(sp, TScalar (bstyle b) (case_value b))]) adj true (saved ska k ind inds tp q mk) ind' inds' tp false lws')
    /\ nbrel (ind, inds) (ind', inds') /\ m_col mk' = 0 /\ m_line mk < m_line mk'.
Proof.
  intros Hok Htab Hun HF Hreq Hnn Eo Hidx Hpos EP Hhd Hlen.
  unfold fetch_block_scalar. cbn [bind].
  rewrite (save_key_b (case_block b) l mk q adj ska k ind inds tp false lws Hreq). unfold allow_simple_key. unfold mkb at 1. cbn.
  set (S1 := {| sc_in := {| si_chars := case_block b; si_look := l |}; sc_mark := mk; sc_tokens := q; sc_stream_start := true;
                sc_stream_end := false; sc_adjacent := adj; sc_ska := true; sc_sks := [saved ska k ind inds tp q mk];
                sc_indent := ind; sc_indents := inds; sc_flow_level := 0; sc_tokens_parsed := tp; sc_token_available := false;
                sc_lws := lws; sc_ifms := [] |}).
  destruct (block_scalar_case b S1 F inds1 Hok Htab eq_refl Hun HF) as (sp & s' & E & Hrest).
  pose proof (Fr_scan_block_scalar str_ops F (bc_literal b) S1 _ s' E) as Hfr.
  assert (HM1 : MarkAt orig pre0 S1) by (repeat split; [exact Eo | exact Hidx | exact Hpos]).
  assert (Hbz : is_breakz (rnth S1 0) = false).
  { unfold rnth, rem, S1. cbn [sc_in si_chars]. destruct (case_block_head b) as (cs & ->). cbn [nth]. destruct (bc_literal b); reflexivity. }
  pose proof (pos_scan_block_scalar orig Hnn F (bc_literal b) S1 (ex_intro _ pre0 HM1) Hbz) as Hp.
  unfold swp in Hp. rewrite E in Hp. destruct Hp as (HM' & _).
  destruct (mark_behind_break orig pre0 S1 s' P (bc_brk b) (case_rest b) HM1 HM' Hrest EP Hhd Hlen) as [Hc Hl].
  rewrite E. cbn.
  destruct s' as [[chars look] mk' toks ss se adj' ska' sks' ind' inds' fl tp' ta' lws' ifms'].
  unfold frame in Hfr. cbn in Hfr, Hrest, Hc, Hl.
  destruct Hfr as (A1 & A2 & A3 & A4 & A5 & A6 & A7 & A8 & A9 & A10 & A11). subst. rewrite (A10 eq_refl).
  exists look, mk', sp, lws', ind', inds'. split; [|split; [exact A11|split; [exact Hc|exact Hl]]].
  unfold push_tok, mkb, bstyle. cbn. reflexivity.
Qed.

(* ---------- behind the scalar: the token is handed out, the sibling line is scanned from an at_tok state ---------- *)
Lemma sibling_tail F (s' : sc strin) l2 i2 ln2 t adj K ind2 inds2 tp lws2 x r T :
  (3 <= F)%nat -> canon s' ->
  fetch_next_token str_ops F s' = Ok (tt, mkb (x :: r) l2 (mkm i2 ln2 0) [t] adj true K ind2 inds2 tp false lws2) ->
  snd t <> TStreamEnd -> (stale_k K (mkm i2 ln2 0) && sk_required K) = false -> sk_possible (staled K (mkm i2 ln2 0)) = false ->
  ((ind2, inds2) = stk [0] \/ (ind2, inds2) = (1%Z, nbl 0 :: snd (stk [0]))) -> first_ok x ->
  (forall B, at_tok B (x :: r) 0 [0] -> ends_with F B T) ->
  ends_with F s' (snd t :: T).
Proof.
  intros HF Hcanon Hf Ht Hst Hnp Hstk Hx HB.
  pose proof (unit1 F s' (x :: r) l2 (mkm i2 ln2 0) t [] adj true K ind2 inds2 tp lws2 ltac:(lia) Hcanon Hf ltac:(repeat constructor; exact Ht) Hst Hnp) as Hd.
  set (K' := staled K (mkm i2 ln2 0)) in *. set (tp' := tp + N.of_nat (length [t])) in *.
  set (B := mkb (x :: r) l2 (mkm i2 ln2 0) [] adj true K' (fst (stk [0])) (snd (stk [0])) tp' false lws2).
  assert (HatB : at_tok B (x :: r) 0 [0]) by (exists l2, i2, ln2, adj, K', tp', lws2; split; [reflexivity|left; exact Hnp]).
  pose proof (HB B HatB) as HeB.
  assert (HeS : ends_with F (mkb (x :: r) l2 (mkm i2 ln2 0) [] adj true K' ind2 inds2 tp' false lws2) T).
  { apply (ends_with_fetch_eq F _ B T ltac:(lia) (canon_b _ _ _ _ _ _ _ _ _ _) (canon_b _ _ _ _ _ _ _ _ _ _)); [|exact HeB].
    apply sibling_fetch_eq; [exact Hx | lia | apply stale_staled, Hst | exact Hstk]. }
  exact (ends_with_delivers F s' [t] _ T Hd HeS).
Qed.

Lemma nbrel_below0 ind2 inds2 : nbrel (1%Z, nbl 0 :: snd (stk [0])) (ind2, inds2) ->
  (ind2, inds2) = stk [0] \/ (ind2, inds2) = (1%Z, nbl 0 :: snd (stk [0])).
Proof. intros [E|E]; [right; exact E|left; rewrite E; reflexivity]. Qed.
Lemma nbrel_stk0 ind2 inds2 : nbrel (fst (stk [0]), snd (stk [0])) (ind2, inds2) ->
  (ind2, inds2) = stk [0] \/ (ind2, inds2) = (1%Z, nbl 0 :: snd (stk [0])).
Proof. intros [E|E]; left; rewrite E; reflexivity. Qed.

Lemma p_text_nil w tail : p_text w [] tail = w ++ tail.
Proof. unfold p_text, plain_render. cbn [flat_map]. rewrite app_nil_r. reflexivity. Qed.
Lemma plain_text_nil w : plain_text w [] = w.
Proof. rewrite plain_text_rest. cbn [rest_text]. apply app_nil_r. Qed.

(* a one-line plain scalar holds no line feed *)
Lemma plain_line_nolf : forall w prev, plain_line_chars_wf false prev w = true -> forallb (fun c => negb (c =? 10)) w = true.
Proof.
  induction w as [|c w IH]; intros prev H; [reflexivity|]. cbn [plain_line_chars_wf forallb] in *. apply andb_prop in H as [Hc H].
  rewrite (IH c H), andb_true_r. destruct (N.eqb_spec c 10) as [-> |_]; [discriminate Hc|reflexivity].
Qed.

(* the trailing white space of the sibling line *)
Definition tail_ok (brk : N) (tail : list N) : bool := ws_only tail && keeps_breaks brk tail.

Lemma keeps_breaks_app brk a c : keeps_breaks brk a = true -> keeps_breaks brk c = true -> keeps_breaks brk (a ++ c) = true.
Proof.
  unfold keeps_breaks. destruct (brk =? 0); [reflexivity|]. cbn [orb]. intros Ha Hc. rewrite forallb_app, Ha, Hc. reflexivity.
Qed.
Lemma keeps_breaks_nolf brk a : forallb (fun c => negb (c =? 10)) a = true -> keeps_breaks brk a = true.
Proof. unfold keeps_breaks. intros ->. apply orb_true_r. Qed.

Definition sib_wf (w : list N) : bool := plain_layout_wf false 0 w [].
Lemma sib_wf_facts w : sib_wf w = true -> p_wf 1 w [] = true /\ forallb (fun c => negb (c =? 10)) w = true.
Proof.
  intros H. split; [exact H|]. unfold sib_wf, plain_layout_wf in H. apply andb_prop in H as [H _]. apply andb_prop in H as [_ H].
  unfold plain_line_wf in H. destruct w as [|c w]; [discriminate H|]. apply andb_prop in H as [_ H]. exact (plain_line_nolf _ _ H).
Qed.

(* T-value with a sibling pair:  kw: <block scalar> / kw2: w *)
Theorem scan_block_value_sib b kw kw2 w tail :
  case_ok b = true -> leading_tab_b b = false -> bc_parent b = Some O -> key_ok kw = true -> bc_prefix b = kw ++ [58; 32] ->
  bc_eof b = EofRest (kw2 ++ 58 :: 32 :: w ++ tail) -> key_ok kw2 = true -> sib_wf w = true -> tail_ok (bc_brk b) tail = true ->
  forallb (fun c => negb (c =? 0)) (case_text b) = true ->
  exists toks, scan_str (case_text b) = (toks, SEnded) /\
               map snd toks = wrap false false [TBlockMappingStart; TKey; TScalar Plain kw; TValue; TScalar (bstyle b) (case_value b);
                                                TKey; TScalar Plain kw2; TValue; TScalar Plain w; TBlockEnd].
Proof.
  intros Hok Htab Hpar Hkw Hpre Heof Hkw2 Hw Htail Hnul.
  destruct (key_ok_word kw Hkw) as (c0 & w0 & Ekw & Hw0 & Hlen0).
  destruct (key_ok_word kw2 Hkw2) as (c2 & w2 & Ekw2 & Hw2 & Hlen2).
  destruct (sib_wf_facts w Hw) as [Hpw Hwnolf].
  apply andb_prop in Htail as [Hws Hkb].
  assert (Et : case_text b = c0 :: w0 ++ 58 :: 32 :: case_block b).
  { rewrite case_text_split, Hpre. rewrite with_breaks_nolf.
    - rewrite Ekw, <- app_assoc. reflexivity.
    - rewrite forallb_app. rewrite Ekw, (word_nolf _ Hw0). reflexivity. }
  pose proof Hw2 as Hw2'. cbn [forallb] in Hw2'. apply andb_prop in Hw2' as [Hc2 _]. destruct (wch_first_ok c2 Hc2) as [Hfo2 Hnz2].
  destruct Hfo2 as (H32 & H9 & H10 & H13 & H35).
  assert (Hkeep : keeps_breaks (bc_brk b) (c2 :: w2 ++ 58 :: 32 :: w ++ tail) = true).
  { change (c2 :: w2 ++ 58 :: 32 :: w ++ tail) with ((c2 :: w2) ++ [58; 32] ++ w ++ tail).
    repeat apply keeps_breaks_app; try exact Hkb; apply keeps_breaks_nolf; [exact (word_nolf _ Hw2) | reflexivity | exact Hwnolf]. }
  rewrite Ekw2 in Heof. cbn [app] in Heof.
  destruct (case_block_rest b c2 (w2 ++ 58 :: 32 :: w ++ tail) Heof H10 H32 Hkeep) as (Hd0 & Ecb0 & Erest).
  set (txt := case_text b) in *. set (F := (2 * length txt + 10)%nat).
  assert (Hlt : (length w0 + 3 + length (case_block b) = length txt)%nat).
  { rewrite Et. cbn [length]. rewrite app_length. cbn [length]. lia. }
  assert (HF : (case_fuel b < F)%nat).
  { pose proof (case_fuel_block b Hok (or_intror Hpar)). unfold F. lia. }
  pose proof (start_at_tok_p txt) as Hat. rewrite Et in Hat at 2.
  destruct (key_at_tok_p F (start_state txt) c0 w0 32 (case_block b) 0 [] [] true 0 1 Hat Hw0 Hlen0 (or_introl eq_refl) ltac:(constructor)
              ltac:(split; cbn; lia) ltac:(unfold F; lia))
    as (pre & s' & Hd & Hmp & Hat').
  cbn [joined length repeat app] in Hat', Hmp.
  destruct (case_block_head b) as (cs & Ecb). destruct (ind_char_first (bc_literal b)) as [Hfo Hnz].
  rewrite Ecb in Hat'.
  destruct (arrive_blank_p F s' _ cs [N.of_nat 0] _ _ _ Hat' Hfo Hnz ltac:(unfold F; lia))
    as (Hcanon & l' & adj & ska & k & tp & top' & rest' & [= <- <-] & Hc1 & Hl' & Hk & Hf).
  rewrite rest_block in Hf; [ | exact Hl' | apply Z.ltb_ge; cbn [Z.of_N N.of_nat]; lia ].
  rewrite <- Ecb in Hf. change (N.of_nat 0) with 0 in *.
  set (pre0 := c0 :: w0 ++ [58; 32]).
  assert (Eo : txt = pre0 ++ case_block b) by (rewrite Et; unfold pre0; cbn [app]; rewrite <- app_assoc; reflexivity).
  assert (Hpl : length pre0 = (length w0 + 3)%nat) by (unfold pre0; cbn [length]; rewrite app_length; cbn [length]; lia).
  assert (Hnb : forallb (fun c => negb (is_break c)) pre0 = true).
  { unfold pre0. change (c0 :: w0 ++ [58; 32]) with ((c0 :: w0) ++ [58; 32]). rewrite forallb_app. apply andb_true_intro. split; [|reflexivity].
    apply forallb_forall. intros c Hc. rewrite forallb_forall in Hw0. destruct (wch_facts c (Hw0 c Hc)) as (Hb & _).
    destruct (blankz_facts c Hb) as (_ & _ & E10 & E13 & _). unfold is_break. rewrite E10, E13. reflexivity. }
  destruct (fetch_block_case_pos F b l' (mkm (0 + wlen c0 w0 + 1 + 1) 1 (0 + wlen c0 w0 + 1 + 1)) [] adj ska k
              (Z.of_N 0 + 1)%Z (nbl (Z.of_N 0) :: snd (stk [0])) tp false
              (snd (stk [0])) txt pre0 (pre0 ++ Hd0) Hok Htab
              ltac:(rewrite unroll_nb_below, Hpar; reflexivity) HF ltac:(discriminate) (forallb_nonul _ Hnul) Eo
              ltac:(cbn [m_index mkm]; rewrite Hpl; unfold wlen; cbn [length]; lia)
              ltac:(rewrite Eo, (pos_go_nobreak pre0 _ 1 0 Hnb); cbn [m_line m_col mkm]; rewrite Hpl; unfold wlen; cbn [length]; f_equal; lia)
              ltac:(rewrite Eo, Ecb0, Erest, <- !app_assoc; reflexivity)
              ltac:(rewrite Erest; cbn [hd]; exact H10) ltac:(rewrite app_length; lia))
    as (l2 & mk2 & sp & lws2 & ind2 & inds2 & E & Hnbr & Hcol & Hline).
  rewrite E in Hf. cbn [app] in Hf. rewrite Erest in Hf.
  destruct mk2 as [i2 ln2 c2']. cbn [m_col m_line mkm] in Hcol, Hline. subst c2'.
  change {| m_index := i2; m_line := ln2; m_col := 0 |} with (mkm i2 ln2 0) in Hf.
  set (K := saved ska k (Z.of_N 0 + 1)%Z (nbl (Z.of_N 0) :: snd (stk [0])) tp []
                  (mkm (0 + wlen c0 w0 + 1 + 1) 1 (0 + wlen c0 w0 + 1 + 1))) in *.
  assert (HK : (stale_k K (mkm i2 ln2 0) && sk_required K) = false /\ sk_possible (staled K (mkm i2 ln2 0)) = false).
  { unfold K, saved. destruct ska.
    - unfold staled, stale_k, newkey, req. cbn [sk_possible sk_required sk_mark m_line m_index mkm nbl in_needs_block_end andb].
      replace (1 <? ln2) with true by (symmetry; apply N.ltb_lt; exact Hline). cbn [orb andb]. rewrite andb_false_r. split; reflexivity.
    - unfold staled. rewrite (stale_k_not_possible k _ Hk). split; [reflexivity|exact Hk]. }
  destruct HK as [HK1 HK2].
  assert (Htxt : (S (length w2 + S (S (length w + length tail))) + length pre0 <= length txt)%nat).
  { rewrite Eo, Ecb0, !app_length. cbn [length]. rewrite !app_length. cbn [length]. rewrite app_length. lia. }
  pose proof (sibling_tail F s' l2 i2 ln2 _ adj K ind2 inds2 tp lws2 c2 (w2 ++ 58 :: 32 :: w ++ tail)
                ([TKey; TScalar Plain (c2 :: w2); TValue] ++ p_tok w [] :: repeat TBlockEnd 1 ++ [TStreamEnd])
                ltac:(unfold F; lia) Hcanon Hf ltac:(discriminate) HK1 HK2 (nbrel_below0 _ _ Hnbr) (conj H32 (conj H9 (conj H10 (conj H13 H35))))) as He.
  assert (He' : ends_with F s' (TScalar (bstyle b) (case_value b) :: [TKey; TScalar Plain (c2 :: w2); TValue] ++ p_tok w [] :: repeat TBlockEnd 1 ++ [TStreamEnd])).
  { apply He. intros B HatB.
    destruct (key_at_tok F B c2 w2 32 (w ++ tail) 0 [] [0] false HatB Hw2 Hlen2 (or_introl eq_refl) ltac:(constructor)
                ltac:(exists []; reflexivity) ltac:(unfold F; lia)) as (pre2 & s2 & Hd2 & Hmp2 & Hat2).
    cbn [joined length repeat app] in Hat2, Hmp2. rewrite <- (p_text_nil w tail) in Hat2.
    pose proof (plain_end_below F s2 1 w [] tail 0 [] Hat2 ltac:(cbn; lia) Hpw Hws
                  ltac:(rewrite p_text_nil, app_length; unfold F; lia)) as He2.
    pose proof (ends_with_delivers F B pre2 s2 _ Hd2 He2) as He3. rewrite Hmp2 in He3. exact He3. }
  assert (Hlp : length pre = 4%nat) by (pose proof (f_equal (@length _) Hmp) as Hl; rewrite map_length in Hl; exact Hl).
  destruct (scan_str_units txt pre s' _ Hd He' ltac:(rewrite Hlp; cbn [length repeat app]; lia)) as (toks & Es & Hm).
  exists toks. split; [exact Es|]. rewrite Hm, Hmp, Ekw, Ekw2. unfold p_tok. rewrite plain_text_nil. reflexivity.
Qed.

(* T-entry with a sibling entry:  - <block scalar> / - w *)
Theorem scan_block_entry_sib b w tail :
  case_ok b = true -> leading_tab_b b = false -> bc_parent b = Some O -> bc_prefix b = [45; 32] ->
  bc_eof b = EofRest (45 :: 32 :: w ++ tail) -> sib_wf w = true -> tail_ok (bc_brk b) tail = true ->
  forallb (fun c => negb (c =? 0)) (case_text b) = true ->
  exists toks, scan_str (case_text b) = (toks, SEnded) /\
               map snd toks = wrap false false [TBlockSequenceStart; TBlockEntry; TScalar (bstyle b) (case_value b);
                                                TBlockEntry; TScalar Plain w; TBlockEnd].
Proof.
  intros Hok Htab Hpar Hpre Heof Hw Htail Hnul.
  destruct (sib_wf_facts w Hw) as [Hpw Hwnolf].
  apply andb_prop in Htail as [Hws Hkb].
  assert (Hwf0 := Hpw). unfold p_wf, plain_layout_wf in Hwf0. apply andb_prop in Hwf0 as [Hwf0 _]. apply andb_prop in Hwf0 as [Hfirst Hline].
  destruct (plain_first_facts w Hfirst Hline) as (x & t & Ew & Hfox & Hnzx & Hbrx & Hflx & _).
  assert (Et : case_text b = 45 :: 32 :: case_block b).
  { rewrite case_text_split, Hpre. rewrite with_breaks_nolf by reflexivity. reflexivity. }
  assert (Hkeep : keeps_breaks (bc_brk b) (45 :: 32 :: w ++ tail) = true).
  { change (45 :: 32 :: w ++ tail) with ([45; 32] ++ w ++ tail).
    repeat apply keeps_breaks_app; try exact Hkb; apply keeps_breaks_nolf; [reflexivity | exact Hwnolf]. }
  destruct (case_block_rest b 45 (32 :: w ++ tail) Heof eq_refl eq_refl Hkeep) as (Hd0 & Ecb0 & Erest).
  set (txt := case_text b) in *. set (F := (2 * length txt + 10)%nat).
  assert (HF : (case_fuel b < F)%nat).
  { pose proof (case_fuel_block b Hok (or_intror Hpar)). unfold F. rewrite Et. cbn [length]. lia. }
  destruct (case_block_head b) as (cs & Ecb). destruct (ind_char_first (bc_literal b)) as [Hfo Hnz].
  pose proof (start_at_tok_p txt) as Hat. rewrite Et in Hat at 2. rewrite Ecb in Hat.
  destruct (dash_sp_p F (start_state txt) _ cs 0 [] [] true 0 1 Hat ltac:(constructor) ltac:(split; cbn; lia)
              (first_ok_not_ws _ Hfo) ltac:(destruct (bc_literal b); reflexivity) ltac:(destruct (bc_literal b); reflexivity) ltac:(unfold F; lia))
    as (pre & s' & Hd & Hmp & Hat').
  cbn [joined Nat.add] in Hat'. change (N.of_nat 0) with 0 in Hat'.
  assert (Hbase : base_le [0] (Z.of_nat 2)) by (cbn; lia).
  destruct (arrive_tok_p F s' _ cs 2 [] [0] (0 + 2) 1 Hat' Hfo Hnz ltac:(constructor) Hbase ltac:(unfold F; lia))
    as (Hcanon & l' & adj & k & tp & lws & Hl' & Hk & Hf).
  cbn [length repeat] in Hf.
  rewrite rest_block in Hf; [ | exact Hl' | apply col_ge_top, Hbase ].
  rewrite <- Ecb in Hf.
  assert (Eo : txt = [45; 32] ++ case_block b) by (rewrite Et; reflexivity).
  destruct (fetch_block_case_pos F b l' (mkm (0 + 2) 1 (N.of_nat 2)) [] adj true k (fst (stk [0])) (snd (stk [0])) tp lws
              (snd (stk [0])) txt [45; 32] ([45; 32] ++ Hd0) Hok Htab
              ltac:(rewrite unroll_nb_stk, Hpar; reflexivity) HF (stk_req_ne [0] (N.of_nat 2)) (forallb_nonul _ Hnul) Eo
              eq_refl
              ltac:(rewrite Eo, (pos_go_nobreak [45; 32] _ 1 0 eq_refl); reflexivity)
              ltac:(rewrite Eo, Ecb0, Erest, <- !app_assoc; reflexivity)
              ltac:(rewrite Erest; reflexivity) ltac:(rewrite app_length; lia))
    as (l2 & mk2 & sp & lws2 & ind2 & inds2 & E & Hnbr & Hcol & Hline2).
  rewrite E in Hf. cbn [app] in Hf. rewrite Erest in Hf.
  destruct mk2 as [i2 ln2 c2']. cbn [m_col m_line mkm] in Hcol, Hline2. subst c2'.
  change {| m_index := i2; m_line := ln2; m_col := 0 |} with (mkm i2 ln2 0) in Hf.
  set (K := saved true k (fst (stk [0])) (snd (stk [0])) tp [] (mkm (0 + 2) 1 (N.of_nat 2))) in *.
  assert (HK : (stale_k K (mkm i2 ln2 0) && sk_required K) = false /\ sk_possible (staled K (mkm i2 ln2 0)) = false).
  { unfold K, saved, staled, stale_k, newkey, req. cbn [sk_possible sk_required sk_mark m_line m_index m_col mkm andb stk fst snd].
    replace (1 <? ln2) with true by (symmetry; apply N.ltb_lt; exact Hline2). cbn [orb andb].
    change (Z.of_N 0 =? Z.of_N (N.of_nat 2))%Z with false. cbn [andb]. split; reflexivity. }
  destruct HK as [HK1 HK2].
  assert (Htxt : (S (S (length w + length tail)) + 2 <= length txt)%nat).
  { rewrite Eo, Ecb0, !app_length. cbn [length]. rewrite !app_length. lia. }
  pose proof (sibling_tail F s' l2 i2 ln2 _ adj K ind2 inds2 tp lws2 45 (32 :: w ++ tail)
                ([TBlockEntry] ++ p_tok w [] :: repeat TBlockEnd 1 ++ [TStreamEnd])
                ltac:(unfold F; lia) Hcanon Hf ltac:(discriminate) HK1 HK2 (nbrel_stk0 _ _ Hnbr) ltac:(repeat split; reflexivity)) as He.
  assert (He' : ends_with F s' (TScalar (bstyle b) (case_value b) :: [TBlockEntry] ++ p_tok w [] :: repeat TBlockEnd 1 ++ [TStreamEnd])).
  { apply He. intros B HatB. rewrite Ew in HatB. cbn [app] in HatB.
    destruct (dash_sp F B x (t ++ tail) 0 [] [0] false (or_introl HatB) ltac:(constructor) ltac:(exists []; reflexivity)
                (first_ok_not_ws x Hfox) Hbrx Hflx ltac:(unfold F; lia)) as (pre2 & s2 & Hd2 & Hmp2 & Hat2).
    cbn [joined Nat.add length repeat app dash_toks] in Hat2, Hmp2.
    change (x :: t ++ tail) with ((x :: t) ++ tail) in Hat2. rewrite <- Ew, <- (p_text_nil w tail) in Hat2.
    pose proof (plain_end_tok F s2 1 w [] tail 2 [0] Hat2 ltac:(cbn; lia) ltac:(cbn; lia) Hpw Hws ltac:(discriminate)
                  ltac:(rewrite p_text_nil, app_length; unfold F; lia)) as He2.
    pose proof (ends_with_delivers F B pre2 s2 _ Hd2 He2) as He3. rewrite Hmp2 in He3. exact He3. }
  assert (Hlp : length pre = 2%nat) by (pose proof (f_equal (@length _) Hmp) as Hl; rewrite map_length in Hl; exact Hl).
  destruct (scan_str_units txt pre s' _ Hd He' ltac:(rewrite Hlp; cbn [length repeat app]; lia)) as (toks & Es & Hm).
  exists toks. split; [exact Es|]. rewrite Hm, Hmp. unfold p_tok. rewrite plain_text_nil. reflexivity.
Qed.

(* ---------- text -> events ---------- *)
Theorem run_block_value_sib b kw kw2 w tail :
  case_ok b = true -> leading_tab_b b = false -> bc_parent b = Some O -> key_ok kw = true -> bc_prefix b = kw ++ [58; 32] ->
  bc_eof b = EofRest (kw2 ++ 58 :: 32 :: w ++ tail) -> key_ok kw2 = true -> sib_wf w = true -> tail_ok (bc_brk b) tail = true ->
  forallb (fun c => negb (c =? 0)) (case_text b) = true ->
  map fst (fst (run_str (case_text b)))
  = [EStreamStart; EDocumentStart false; EMappingStart 0 None; EScalar kw Plain 0 None; EScalar (case_value b) (bstyle b) 0 None;
     EScalar kw2 Plain 0 None; EScalar w Plain 0 None; EMappingEnd; EDocumentEnd; EStreamEnd]
  /\ snd (run_str (case_text b)) = PDone.
Proof.
  intros Hok Htab Hpar Hkw Hpre Heof Hkw2 Hw Htail Hnul.
  destruct (scan_block_value_sib b kw kw2 w tail Hok Htab Hpar Hkw Hpre Heof Hkw2 Hw Htail Hnul) as (toks & Es & Hm).
  exact (run_of_scan (case_text b) (LBMap no_props [(true, lword kw, (true, scalar_node b)); (true, lword kw2, (true, lword w))])
           toks Es Hm eq_refl eq_refl ltac:(cbn; lia)).
Qed.

Theorem run_block_entry_sib b w tail :
  case_ok b = true -> leading_tab_b b = false -> bc_parent b = Some O -> bc_prefix b = [45; 32] ->
  bc_eof b = EofRest (45 :: 32 :: w ++ tail) -> sib_wf w = true -> tail_ok (bc_brk b) tail = true ->
  forallb (fun c => negb (c =? 0)) (case_text b) = true ->
  map fst (fst (run_str (case_text b)))
  = [EStreamStart; EDocumentStart false; ESequenceStart 0 None; EScalar (case_value b) (bstyle b) 0 None; EScalar w Plain 0 None;
     ESequenceEnd; EDocumentEnd; EStreamEnd]
  /\ snd (run_str (case_text b)) = PDone.
Proof.
  intros Hok Htab Hpar Hpre Heof Hw Htail Hnul.
  destruct (scan_block_entry_sib b w tail Hok Htab Hpar Hpre Heof Hw Htail Hnul) as (toks & Es & Hm).
  exact (run_of_scan (case_text b) (LBSeq no_props [scalar_node b; lword w]) toks Es Hm eq_refl eq_refl ltac:(cbn; lia)).
Qed.
