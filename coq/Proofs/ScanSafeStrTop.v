(* Assembly: over the STRING input ([str_ops]) the scanner model never panics -- no [assert!(buflen >= k)] of the
   Input default methods (sites 103-107; on the string side [buflen] is the lookahead counter, raised by every
   [lookahead(n)] and never lowered), no [debug_assert!(is_break)] in skip_break (110), no skeleton panic (111-118),
   no u32 overflow of the %YAML version number (120), no [bufmaxlen < 2] (121) -- for every input, every loop fuel F
   and every iteration fuel; hence the whole pipeline scanner + parser ([run_str]) never ends in [PPanic].
   [Err] and [OutOfFuel] are acceptable outcomes here (termination is a separate theorem, ScanFuel*.v). *)
From Coq Require Import List NArith ZArith Bool Arith Lia.
Import ListNotations.
Require Import Parser SBase SPrim SDir SScalar SFetch Pipe.
Require Import ScanSafeStrWP ScanSafeStrPrim ScanSafeStrDir ScanSafeStrScalar ScanSafeStrFetch.
Local Open Scope nat_scope.

Theorem scanner_never_panics_str : forall F fuel input n,
  snd (scan_all str_ops F fuel (init_sc {| si_chars := input; si_look := 0 |}) []) <> SPanic n.
Proof. exact ScanSafeStrFetch.scan_init_never_panics. Qed.

(* from any state satisfying the strengthened skeleton invariant, not only the initial one *)
Theorem scanner_never_panics_str_from : forall F fuel s acc n,
  ScanSafeStrFetch.SInv' s -> snd (scan_all str_ops F fuel s acc) <> SPanic n.
Proof. exact ScanSafeStrFetch.scan_all_never_panics. Qed.

Theorem pipeline_never_panics_str : forall input n, snd (run_str input) <> PPanic n.
Proof. exact ScanSafeStrFetch.run_str_never_panics. Qed.

Print Assumptions scanner_never_panics_str.
Print Assumptions scanner_never_panics_str_from.
Print Assumptions pipeline_never_panics_str.
