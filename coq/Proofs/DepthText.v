(* C11 — "nesting is bounded" as a statement about TEXT: the scanner theorems (Proofs/DepthScan.v: flow level;
   Proofs/DepthNest.v: nesting of the whole token stream, a CONSTANT) composed with the parser theorem
   (Proofs/DepthTokRun.v). *)
From Coq Require Import List NArith Bool Lia PeanoNat.
Import ListNotations.
Require Import Parser SBase SFetch SBuf Pipe Drivers Grammar Loader C02run Depth DepthProofs DepthTok DepthTokRun DepthScan DepthNest DepthTree DepthAlias.
Require Consts.
Local Open Scope nat_scope.

(* For EVERY text: scan it with the scanner model (string back-end, the driver's fuel), feed the tokens to the pull
   parser model with whatever fuel: the events nest at most twice as deep as FLOW_LEVEL_MAX plus the number of
   collection-start tokens the flow level does not count (block collections, synthetic FlowMappingStart of implicit
   pairs) — whether the text is accepted or not. *)
Theorem text_nesting_bounded text keep se fuel :
  let toks := fst (scan_str text) in
  max_nesting (evs_of (fst (parse_all fuel (init_parser toks keep) se [])))
  <= 2 * (N.to_nat Consts.FLOW_LEVEL_MAX + other_openers toks).
Proof.
  cbv zeta.
  pose proof (nesting_bounded_by_flow_level_and_other_openers (fst (scan_str text)) keep se fuel) as H.
  pose proof (scan_str_flow_level_bounded text) as B. lia.
Qed.

(* the whole model pipeline *)
Theorem run_str_nesting_bounded text :
  max_nesting (evs_of (fst (run_str text)))
  <= 2 * (N.to_nat Consts.FLOW_LEVEL_MAX + other_openers (fst (scan_str text))).
Proof.
  unfold run_str, scan_str.
  destruct (scan_all str_ops (2 * length text + 10) (4 * (2 * length text + 10) + 20)
              (init_sc {| si_chars := text; si_look := 0 |}) []) as [toks se] eqn:E.
  cbn [fst].
  pose proof (nesting_bounded_by_flow_level_and_other_openers toks false se (4 * (4 * (2 * length text + 10) + 20) + 40)) as H.
  pose proof (scan_str_flow_level_bounded text) as B. unfold scan_str in B. rewrite E in B. cbn [fst] in B.
  unfold init_parser in H. lia.
Qed.

(* in particular: a text whose tokens contain no block collection start and no synthetic FlowMappingStart — flow
   collections written with their indicators only — nests at most 2 * FLOW_LEVEL_MAX deep *)
Corollary pure_flow_text_nesting_bounded text :
  other_openers (fst (scan_str text)) = 0 ->
  max_nesting (evs_of (fst (run_str text))) <= 2 * N.to_nat Consts.FLOW_LEVEL_MAX.
Proof. intros H. pose proof (run_str_nesting_bounded text) as B. rewrite H in B. lia. Qed.

(* the extracted oracle [c11_oracle] (run by vlib/p_c11.py on the IMPLEMENTATION's tokens and events) can never fail on
   the model: its three verdicts are theorems (h), (g), (i) *)
Lemma run_str_nesting_le_tokens text :
  max_nesting (evs_of (fst (run_str text))) <= 2 * tok_nest_max (fst (scan_str text)).
Proof.
  unfold run_str, scan_str.
  destruct (scan_all str_ops (2 * length text + 10) (4 * (2 * length text + 10) + 20)
              (init_sc {| si_chars := text; si_look := 0 |}) []) as [toks se] eqn:E.
  cbn [fst]. apply (nesting_bounded_by_token_nesting toks false se).
Qed.

(* ------------------------------------------------------------------------------------------------ *)
(* THE headline: for EVERY text the events of the whole model pipeline nest at most NEST_BOUND deep    *)
(* ------------------------------------------------------------------------------------------------ *)
Theorem run_str_nesting_const text : max_nesting (evs_of (fst (run_str text))) <= NEST_BOUND.
Proof.
  pose proof (run_str_nesting_le_tokens text). pose proof (scan_str_nest_bounded text). unfold NEST_BOUND. lia.
Qed.

Theorem oracle_holds_on_model text :
  c11_oracle (fst (scan_str text)) (evs_of (fst (run_str text))) = (true, true, true, true, true).
Proof.
  unfold c11_oracle.
  rewrite (proj2 (Nat.leb_le _ _) (scan_str_flow_level_bounded text)).
  rewrite (proj2 (Nat.leb_le _ _) (run_str_nesting_le_tokens text)).
  rewrite (proj2 (Nat.leb_le _ _) (run_str_nesting_bounded text)).
  rewrite (proj2 (Nat.leb_le _ _) (scan_str_nest_bounded text)).
  rewrite (proj2 (Nat.leb_le _ _) (run_str_nesting_const text)). reflexivity.
Qed.

(* ------------------------------------------------------------------------------------------------ *)
(* the recursion of the push loader (Parser::load) on the first document, in terms of the tokens     *)
(* ------------------------------------------------------------------------------------------------ *)
(* whenever load_document returns on the events of a run of the pull parser: the deepest chain of load_node
   activations is at most one more than twice the nesting of the token stream *)
Theorem push_loader_recursion_bounded_by_tokens toks keep se fuel fuel' rest m :
  pl_document fuel' (tl (evs_of (fst (parse_all fuel (init_parser toks keep) se [])))) = PlDone rest m ->
  m <= 1 + 2 * tok_nest_max toks.
Proof.
  pose proof (nesting_bounded_by_token_nesting toks keep se fuel) as HB.
  destruct (evs_of (fst (parse_all fuel (init_parser toks keep) se []))) as [|e0 evs]; [discriminate|].
  cbn [tl]. unfold pl_document. destruct evs as [|e1 r]; [discriminate|]. destruct e1; try discriminate.
  destruct (pl_node fuel' 1 r) as [r1 m1| | |] eqn:E; try discriminate.
  destruct r1 as [|e2 r2]; [discriminate|]. destruct e2; try discriminate. intros H. inversion H; subst.
  destruct (push_loader_recursion_depth _ _ _ _ _ E) as (used & Er & _ & Em). subst r.
  pose proof (max_nesting_segment [e0; EDocumentStart explicit] used (EDocumentEnd :: rest)) as HS.
  cbn [app] in HS. lia.
Qed.

Theorem push_loader_recursion_bounded_for_text text fuel' rest m :
  pl_document fuel' (tl (evs_of (fst (run_str text)))) = PlDone rest m ->
  m <= 1 + 2 * (N.to_nat Consts.FLOW_LEVEL_MAX + other_openers (fst (scan_str text))).
Proof.
  pose proof (run_str_nesting_bounded text) as HB.
  destruct (evs_of (fst (run_str text))) as [|e0 evs]; [discriminate|].
  cbn [tl]. unfold pl_document. destruct evs as [|e1 r]; [discriminate|]. destruct e1; try discriminate.
  destruct (pl_node fuel' 1 r) as [r1 m1| | |] eqn:E; try discriminate.
  destruct r1 as [|e2 r2]; [discriminate|]. destruct e2; try discriminate. intros H. inversion H; subst.
  destruct (push_loader_recursion_depth _ _ _ _ _ E) as (used & Er & _ & Em). subst r.
  pose proof (max_nesting_segment [e0; EDocumentStart explicit] used (EDocumentEnd :: rest)) as HS.
  cbn [app] in HS. lia.
Qed.

(* ... by a constant: Parser::load never has more than 1 + NEST_BOUND load_node activations on the call stack *)
Theorem push_loader_recursion_const text fuel' rest m :
  pl_document fuel' (tl (evs_of (fst (run_str text)))) = PlDone rest m -> m <= 1 + NEST_BOUND.
Proof.
  pose proof (run_str_nesting_const text) as HB.
  destruct (evs_of (fst (run_str text))) as [|e0 evs]; [discriminate|].
  cbn [tl]. unfold pl_document. destruct evs as [|e1 r]; [discriminate|]. destruct e1; try discriminate.
  destruct (pl_node fuel' 1 r) as [r1 m1| | |] eqn:E; try discriminate.
  destruct r1 as [|e2 r2]; [discriminate|]. destruct e2; try discriminate. intros H. inversion H; subst.
  destruct (push_loader_recursion_depth _ _ _ _ _ E) as (used & Er & _ & Em). subst r.
  pose proof (max_nesting_segment [e0; EDocumentStart explicit] used (EDocumentEnd :: rest)) as HS.
  cbn [app] in HS. lia.
Qed.

(* ------------------------------------------------------------------------------------------------ *)
(* the loaded tree: drop / clone / eq / hash / emit of what an ACCEPTED alias-free text loads to       *)
(* ------------------------------------------------------------------------------------------------ *)
Lemma run_str_accepted_grammar text :
  snd (run_str text) = PDone -> grun GInit (evs_of (fst (run_str text))) = Some GEnd.
Proof.
  unfold run_str.
  destruct (scan_all str_ops (2 * length text + 10) (4 * (2 * length text + 10) + 20)
              (init_sc {| si_chars := text; si_look := 0 |}) []) as [toks se].
  intros H. destruct (parser_run_wellformed toks false se (4 * (4 * (2 * length text + 10) + 20) + 40)) as [[g [Hg HD]] _].
  unfold init_parser in *. rewrite Hg. f_equal. apply HD. exact H.
Qed.

(* For EVERY text the model pipeline accepts and whose events hold no alias: the loader model builds its documents,
   and every recursive traversal of a document entered at depth d reaches at most
   d + 2 * (FLOW_LEVEL_MAX + the collection starts the flow level does not count) *)
Theorem loaded_tree_walk_bounded_for_text text :
  snd (run_str text) = PDone -> alias_free_events (evs_of (fst (run_str text))) = true ->
  exists ld, load_events (evs_of (fst (run_str text))) l0 = LOk ld
             /\ Forall (fun y => forall d, ywalk d y <= d + 2 * (N.to_nat Consts.FLOW_LEVEL_MAX + other_openers (fst (scan_str text))))
                        (l_docs ld).
Proof.
  intros HD HA. destruct (loaded_tree_depth_bounded _ (run_str_accepted_grammar text HD) HA) as (ld & HL & HF).
  exists ld. split; [exact HL|]. eapply Forall_impl; [|exact HF]. cbn beta. intros y [_ Hy] d.
  pose proof (Hy d). pose proof (run_str_nesting_bounded text). lia.
Qed.

(* ... by a constant: every recursive traversal of a document of an accepted alias-free text, entered at depth d,
   reaches at most d + NEST_BOUND *)
Theorem loaded_tree_walk_const text :
  snd (run_str text) = PDone -> alias_free_events (evs_of (fst (run_str text))) = true ->
  exists ld, load_events (evs_of (fst (run_str text))) l0 = LOk ld
             /\ Forall (fun y => ydepth y <= NEST_BOUND /\ forall d, ywalk d y <= d + NEST_BOUND) (l_docs ld).
Proof.
  intros HD HA. destruct (loaded_tree_depth_bounded _ (run_str_accepted_grammar text HD) HA) as (ld & HL & HF).
  exists ld. split; [exact HL|]. eapply Forall_impl; [|exact HF]. cbn beta. intros y [Hd Hy].
  pose proof (run_str_nesting_const text). split; [lia|]. intros d. pose proof (Hy d). lia.
Qed.

(* ... and WITH aliases, for every accepted text: no document is deeper than the events have collection starts *)
Theorem loaded_tree_depth_le_collection_starts_for_text text :
  snd (run_str text) = PDone ->
  exists ld, load_events (evs_of (fst (run_str text))) l0 = LOk ld
             /\ Forall (fun y => ydepth y <= coll_starts (evs_of (fst (run_str text)))
                                 /\ forall d, ywalk d y <= d + coll_starts (evs_of (fst (run_str text)))) (l_docs ld).
Proof. intros HD. apply loaded_tree_depth_le_collection_starts. apply run_str_accepted_grammar. exact HD. Qed.

(* ------------------------------------------------------------------------------------------------ *)
(* the same bound over the BUFFERED input back-end of any capacity                                    *)
(* ------------------------------------------------------------------------------------------------ *)
Definition scan_buf (cap : nat) (text : list N) : list token * scan_end :=
  let F := (2 * length text + 10)%nat in
  scan_all (buf_ops cap) F (4 * F + 20) (init_sc {| b_buf := []; b_rest := text |}) [].

Theorem run_buf_nesting_bounded cap text :
  max_nesting (evs_of (fst (run_buf cap text)))
  <= 2 * (N.to_nat Consts.FLOW_LEVEL_MAX + other_openers (fst (scan_buf cap text))).
Proof.
  unfold run_buf, scan_buf.
  pose proof (scan_flow_level_bounded (buf_ops cap) (2 * length text + 10) (4 * (2 * length text + 10) + 20)
                {| b_buf := []; b_rest := text |}) as B.
  destruct (scan_all (buf_ops cap) (2 * length text + 10) (4 * (2 * length text + 10) + 20)
              (init_sc {| b_buf := []; b_rest := text |}) []) as [toks se] eqn:E.
  cbn [fst] in *.
  pose proof (nesting_bounded_by_flow_level_and_other_openers toks false se (4 * (4 * (2 * length text + 10) + 20) + 40)) as H.
  unfold init_parser in H. lia.
Qed.

Theorem run_buf_nesting_const cap text : max_nesting (evs_of (fst (run_buf cap text))) <= NEST_BOUND.
Proof.
  unfold run_buf.
  pose proof (scan_token_nesting_bounded (buf_ops cap) (2 * length text + 10) (4 * (2 * length text + 10) + 20)
                {| b_buf := []; b_rest := text |}) as B.
  destruct (scan_all (buf_ops cap) (2 * length text + 10) (4 * (2 * length text + 10) + 20)
              (init_sc {| b_buf := []; b_rest := text |}) []) as [toks se] eqn:E.
  cbn [fst] in *.
  pose proof (nesting_bounded_by_token_nesting toks false se (4 * (4 * (2 * length text + 10) + 20) + 40)) as H.
  unfold init_parser in H. unfold NEST_BOUND. lia.
Qed.

(* the push loader and the loaded tree over the buffered back-end *)
Theorem push_loader_recursion_const_buffered cap text fuel' rest m :
  pl_document fuel' (tl (evs_of (fst (run_buf cap text)))) = PlDone rest m -> m <= 1 + NEST_BOUND.
Proof.
  pose proof (run_buf_nesting_const cap text) as HB.
  destruct (evs_of (fst (run_buf cap text))) as [|e0 evs]; [discriminate|].
  cbn [tl]. unfold pl_document. destruct evs as [|e1 r]; [discriminate|]. destruct e1; try discriminate.
  destruct (pl_node fuel' 1 r) as [r1 m1| | |] eqn:E; try discriminate.
  destruct r1 as [|e2 r2]; [discriminate|]. destruct e2; try discriminate. intros H. inversion H; subst.
  destruct (push_loader_recursion_depth _ _ _ _ _ E) as (used & Er & _ & Em). subst r.
  pose proof (max_nesting_segment [e0; EDocumentStart explicit] used (EDocumentEnd :: rest)) as HS.
  cbn [app] in HS. lia.
Qed.
