(* Joint proof "every position the scanner reports is a true position" (see SCANPOS.md): the whitespace / comment
   skipping family of Model/SPrim.v.
   Part (a): derived rules everybody reuses - advancing the mark over k non-break characters at once
   ([markat_step_many], [pwp_adv_mark_over]), [skip_n_non_blank], the bulk input loops ([in_skip_while*],
   [in_fetch_while_alpha], [in_skip_ws_to_eol]) exposing WHAT they consumed, [skip_linebreak], and the fact that
   lookahead does not disturb the invariant.
   Part (b): the three contracts pos_skip_ws_to_eol, pos_skip_to_next_token, pos_skip_yaml_whitespace.
   After the section closes every rule of the section takes [orig no_nul] as its first two arguments. *)
From Coq Require Import List NArith ZArith Bool Arith Lia.
Import ListNotations.
Require Import Parser SBase SPrim SDir SScalar SFetch Positions ScanPos.
Local Open Scope nat_scope.

Arguments Nat.ltb : simpl never.
Arguments Nat.leb : simpl never.
Arguments Nat.eqb : simpl never.
Arguments Nat.sub : simpl never.

(* ---------------- character classes: what the loop predicates guarantee ---------------- *)
Lemma breakz_false c : is_breakz c = false -> is_break c = false /\ c <> 0%N.
Proof.
  unfold is_breakz, is_z. intros H. apply orb_false_iff in H as [H1 H2]. split; [exact H1|]. apply N.eqb_neq. exact H2.
Qed.
Lemma breakz_false_break c : is_breakz c = false -> is_break c = false.
Proof. intros H. apply (breakz_false c H). Qed.
Lemma breakz_false_nz c : is_breakz c = false -> c <> 0%N.
Proof. intros H. apply (breakz_false c H). Qed.

Lemma blank_not_breakz c : is_blank c = true -> is_breakz c = false.
Proof. unfold is_blank. intros H. apply orb_true_iff in H as [H|H]; apply N.eqb_eq in H; subst c; reflexivity. Qed.
Lemma alpha_not_breakz c : is_alpha c = true -> is_breakz c = false.
Proof.
  intros H. destruct (is_breakz c) eqn:B; [|reflexivity]. exfalso. unfold is_breakz, is_break, is_z in B.
  repeat (apply orb_true_iff in B as [B|B]); apply N.eqb_eq in B; subst c; vm_compute in H; discriminate H.
Qed.
Lemma negb_breakz_not_breakz c : negb (is_breakz c) = true -> is_breakz c = false.
Proof. apply negb_true_iff. Qed.
Lemma tab_or_space_not_breakz c : ((c =? 9) || (c =? 32))%N = true -> is_breakz c = false.
Proof. intros H. apply orb_true_iff in H as [H|H]; apply N.eqb_eq in H; subst c; reflexivity. Qed.

Lemma Forall_not_breakz_nonbreak (w : list chr) :
  Forall (fun c => is_breakz c = false) w -> Forall (fun c => is_break c = false) w.
Proof. apply Forall_impl. exact breakz_false_break. Qed.
Lemma Forall_pred_nonbreak (p : chr -> bool) (w : list chr) :
  (forall c, p c = true -> is_breakz c = false) -> Forall (fun c => p c = true) w -> Forall (fun c => is_break c = false) w.
Proof. intros Hp. apply Forall_impl. intros c Hc. apply breakz_false_break, Hp, Hc. Qed.

(* ---------------- the remaining input: a character that is not NUL is really there ---------------- *)
Lemma rem_head_nz s : rnth s 0 <> 0%N -> rem s = rnth s 0 :: tl (rem s).
Proof. unfold rnth. destruct (rem s) as [|c r]; cbn [nth tl]; [congruence|reflexivity]. Qed.
Lemma rnth_nz_lt s i : rnth s i <> 0%N -> i < length (rem s).
Proof.
  intros H. destruct (Nat.lt_ge_cases i (length (rem s))) as [L|G]; [exact L|]. exfalso. apply H. unfold rnth.
  apply nth_overflow. exact G.
Qed.
Lemma rnth_eq s s' i : rem s' = rem s -> rnth s' i = rnth s i.
Proof. unfold rnth. intros ->. reflexivity. Qed.

Lemma firstn_nonbreak (l : list chr) n :
  n <= length l -> (forall i, i < n -> is_break (nth i l 0%N) = false) -> Forall (fun c => is_break c = false) (firstn n l).
Proof.
  revert l. induction n as [|n IH]; intros l Hl H; [constructor|].
  destruct l as [|c l]; [cbn in Hl; lia|]. cbn [firstn]. constructor.
  - apply (H 0). lia.
  - apply IH; [cbn in Hl; lia|]. intros i Hi. apply (H (S i)). lia.
Qed.
Lemma not_breakz_prefix (l : list chr) n :
  (forall i, i < n -> is_breakz (nth i l 0%N) = false) -> n <= length l.
Proof.
  revert l. induction n as [|n IH]; intros l H; [lia|].
  destruct l as [|c l]; [specialize (H 0 ltac:(lia)); cbn in H; discriminate H|].
  cbn [length]. apply le_n_S. apply IH. intros i Hi. apply (H (S i)). lia.
Qed.

(* ---------------- "only the input changed" ---------------- *)
Definition inonly (s s' : sst) : Prop := s' = set_in (sc_in s') s.
Lemma inonly_refl s : inonly s s.
Proof. unfold inonly. destruct s; reflexivity. Qed.
Lemma inonly_trans a b c : inonly a b -> inonly b c -> inonly a c.
Proof.
  unfold inonly. intros H1 H2. transitivity (set_in (sc_in c) (set_in (sc_in b) a)); [rewrite <- H1; exact H2|reflexivity].
Qed.
Lemma inonly_keeps s s' : inonly s s' -> pkeeps s s' /\ sc_mark s' = sc_mark s.
Proof. apply in_keeps. Qed.
Lemma inonly_pkeeps s s' : inonly s s' -> pkeeps s s'.
Proof. intros H. apply (in_keeps _ _ H). Qed.
Lemma inonly_mark s s' : inonly s s' -> sc_mark s' = sc_mark s.
Proof. intros H. apply (in_keeps _ _ H). Qed.

Ltac ino :=
  match goal with
  | |- inonly ?a ?a => apply inonly_refl
  | H : inonly ?a ?b |- inonly ?a ?b => exact H
  | H : inonly ?a ?b |- inonly ?a ?c => apply (inonly_trans a b c H); ino
  end.
Ltac pk :=
  match goal with
  | |- pkeeps ?a ?a => apply pkeeps_refl
  | H : pkeeps ?a ?b |- pkeeps ?a ?b => exact H
  | H : inonly ?a ?b |- pkeeps ?a ?b => exact (inonly_pkeeps a b H)
  | H : pkeeps ?a ?b |- pkeeps ?a ?c => apply (pkeeps_trans a b c H); pk
  | H : inonly ?a ?b |- pkeeps ?a ?c => apply (pkeeps_trans a b c (inonly_pkeeps a b H)); pk
  end.

(* mark arithmetic *)
Lemma adv_0 m : adv 0 m = m.
Proof. destruct m as [i l c]. unfold adv. cbn [m_index m_line m_col]. rewrite !N.add_0_r. reflexivity. Qed.
Lemma adv_adv a b m : adv a (adv b m) = adv (b + a) m.
Proof. unfold adv. cbn [m_index m_line m_col]. rewrite !N.add_assoc. reflexivity. Qed.
Lemma of_nat_snoc {A} (w : list A) (c : A) : (N.of_nat (length w) + 1)%N = N.of_nat (length (w ++ [c])).
Proof. rewrite app_length. cbn [length]. lia. Qed.

(* in_skip on a character that is not NUL really drops that character (any error predicate) *)
Lemma swp_in_skip_real E (Q : unit -> sst -> Prop) s :
  rnth s 0 <> 0%N -> (forall s', rem s = rnth s 0 :: rem s' -> inonly s s' -> Q tt s') -> swp E (in_skip str_ops) Q s.
Proof.
  intros Hnz HQ. apply swp_in_skip. intros s' R' I'. apply HQ; [|exact I']. rewrite R'. apply rem_head_nz. exact Hnz.
Qed.

Section PosPrim.
Variable orig : list chr.
Hypothesis no_nul : Forall (fun c => c <> 0%N) orig.
Notation pwp := (swp (true_mark orig)).
Notation MarkAt := (MarkAt orig).
Notation MarkOK := (MarkOK orig).

(* the contracts' postconditions (SCANPOS.md) *)
Definition ppost (s : sst) : token -> sst -> Prop := fun t s' => MarkOK s' /\ true_tok orig t /\ pkeeps s s'.
Definition upost (s : sst) {A} : A -> sst -> Prop := fun _ s' => MarkOK s' /\ pkeeps s s'.

(* ================= (a) general derived rules ================= *)

(* the invariant only looks at the remaining input and the mark *)
Lemma markat_ext pre s s' : MarkAt pre s -> rem s' = rem s -> sc_mark s' = sc_mark s -> MarkAt pre s'.
Proof using no_nul. intros (E & I & P) Hr Hm. unfold ScanPos.MarkAt. rewrite Hr, Hm. repeat split; assumption. Qed.

Lemma markat_inonly pre s s' : MarkAt pre s -> rem s' = rem s -> inonly s s' -> MarkAt pre s'.
Proof using no_nul. intros HM Hr HI. apply (markat_ext pre s s' HM Hr). apply inonly_mark. exact HI. Qed.

Lemma markok_ext s s' : MarkOK s -> rem s' = rem s -> sc_mark s' = sc_mark s -> MarkOK s'.
Proof using no_nul. intros [pre HM] Hr Hm. exists pre. eapply markat_ext; eauto. Qed.

(* advancing over k non-break characters at once *)
Lemma markat_step_many pre w r s s' :
  MarkAt pre s -> rem s = w ++ r -> Forall (fun c => is_break c = false) w ->
  rem s' = r -> sc_mark s' = adv (N.of_nat (length w)) (sc_mark s) -> MarkAt (pre ++ w) s'.
Proof using no_nul.
  revert pre s. induction w as [|c w IH]; intros pre s HM Hr HF Hr' Hm.
  - rewrite app_nil_r. cbn [app length N.of_nat] in Hr, Hm. rewrite adv_0 in Hm.
    apply (markat_ext pre s s' HM); [congruence|exact Hm].
  - inversion HF as [|c0 w0 Hc HF']; subst c0 w0.
    pose (s1 := set_mark (adv 1 (sc_mark s)) (set_in {| si_chars := w ++ r; si_look := 0 |} s)).
    assert (M1 : MarkAt (pre ++ [c]) s1).
    { eapply markat_step_plain; [exact HM|exact Hr|exact Hc|reflexivity|reflexivity]. }
    replace (pre ++ c :: w) with ((pre ++ [c]) ++ w) by (rewrite <- app_assoc; reflexivity).
    apply (IH (pre ++ [c]) s1); [exact M1|reflexivity|exact HF'|exact Hr'|].
    rewrite Hm. change (sc_mark s1) with (adv 1 (sc_mark s)). rewrite adv_adv. f_equal. cbn [length]. lia.
Qed.

(* [adv_mark k] after an input-level bulk skip of the k non-break characters [w]: the mark [s] still carries is
   the one of the state [s0] before the skip *)
Lemma pwp_adv_mark_over pre w (Q : unit -> sst -> Prop) s0 s :
  MarkAt pre s0 -> rem s0 = w ++ rem s -> sc_mark s = sc_mark s0 -> Forall (fun c => is_break c = false) w ->
  (forall s', MarkAt (pre ++ w) s' -> rem s' = rem s -> pkeeps s s' -> Q tt s') ->
  pwp (adv_mark (N.of_nat (length w))) Q s.
Proof using no_nul.
  intros HM Hr Hm HF HQ. unfold adv_mark. apply swp_modify. apply HQ.
  - eapply markat_step_many; [exact HM|exact Hr|exact HF|reflexivity|].
    transitivity (adv (N.of_nat (length w)) (sc_mark s)); [reflexivity|rewrite Hm; reflexivity].
  - reflexivity.
  - repeat split.
Qed.

(* lookahead does not disturb the invariant *)
Lemma pwp_look n pre (Q : unit -> sst -> Prop) s :
  MarkAt pre s -> (forall s', MarkAt pre s' -> rem s' = rem s -> inonly s s' -> Q tt s') -> pwp (look str_ops n) Q s.
Proof using no_nul.
  intros HM HQ. apply swp_look. intros s' R' I'. apply HQ; [|exact R'|exact I']. eapply markat_inonly; eauto.
Qed.
Lemma pwp_look_ch pre (Q : chr -> sst -> Prop) s :
  MarkAt pre s -> (forall s', MarkAt pre s' -> rem s' = rem s -> inonly s s' -> Q (rnth s' 0) s') -> pwp (look_ch str_ops) Q s.
Proof using no_nul.
  intros HM HQ. apply swp_look_ch. intros s' R' I'. apply HQ; [|exact R'|exact I']. eapply markat_inonly; eauto.
Qed.
(* [peek] / [peekn] do not change the state at all: [swp_peek], [swp_peekn] of ScanPos.v are already the rules *)
Lemma pwp_peek pre (Q : chr -> sst -> Prop) s : MarkAt pre s -> (MarkAt pre s -> Q (rnth s 0) s) -> pwp (SPrim.peek str_ops) Q s.
Proof using no_nul. intros HM HQ. apply swp_peek. apply HQ. exact HM. Qed.
Lemma pwp_peekn n pre (Q : chr -> sst -> Prop) s : MarkAt pre s -> (MarkAt pre s -> Q (rnth s n) s) -> pwp (peekn str_ops n) Q s.
Proof using no_nul. intros HM HQ. apply swp_peekn. apply HQ. exact HM. Qed.

(* skip_blank / skip_non_blank on a character known (from its value) not to be a break nor NUL *)
Lemma pwp_skip_plain_z (k : SM unit) pre (Q : unit -> sst -> Prop) s :
  (k = skip_blank str_ops \/ k = skip_non_blank str_ops) ->
  MarkAt pre s -> is_breakz (rnth s 0) = false ->
  (forall s', MarkAt (pre ++ [rnth s 0]) s' -> rem s = rnth s 0 :: rem s' -> pkeeps s s' -> Q tt s') -> pwp k Q s.
Proof using no_nul.
  intros Hk HM Hz HQ. destruct (breakz_false _ Hz) as [Hb Hnz].
  eapply (pwp_skip_plain orig k pre (rnth s 0) (tl (rem s))); [exact Hk|exact HM|apply rem_head_nz; exact Hnz|exact Hb|].
  intros s' M' R' K'. apply HQ; [exact M'| |exact K']. rewrite R'. apply rem_head_nz. exact Hnz.
Qed.

(* skip_n_non_blank over n characters that exist and are not breaks *)
Lemma pwp_skip_n_non_blank n pre w r (Q : unit -> sst -> Prop) s :
  MarkAt pre s -> rem s = w ++ r -> length w = n -> Forall (fun c => is_break c = false) w ->
  (forall s', MarkAt (pre ++ w) s' -> rem s' = r -> pkeeps s s' -> Q tt s') ->
  pwp (skip_n_non_blank str_ops n) Q s.
Proof using no_nul.
  intros HM Hr Hl HF HQ. unfold skip_n_non_blank.
  apply swp_bind. apply swp_in_skip_n. intros s1 R1 I1.
  apply swp_bind. unfold adv_mark. apply swp_modify. apply swp_modify.
  destruct (in_keeps _ _ I1) as [K1 M1].
  assert (R1' : rem s1 = r).
  { rewrite R1, Hr, <- Hl. rewrite skipn_app, skipn_all, Nat.sub_diag. reflexivity. }
  apply HQ.
  - eapply markat_step_many; [exact HM|exact Hr|exact HF|exact R1'|].
    transitivity (adv (N.of_nat n) (sc_mark s1)); [reflexivity|rewrite Hl, M1; reflexivity].
  - exact R1'.
  - destruct K1 as (A & B & C). repeat split; assumption.
Qed.

Lemma pwp_skip_n_non_blank_len n pre (Q : unit -> sst -> Prop) s :
  MarkAt pre s -> n <= length (rem s) -> (forall i, i < n -> is_break (rnth s i) = false) ->
  (forall s', MarkAt (pre ++ firstn n (rem s)) s' -> rem s' = skipn n (rem s) -> pkeeps s s' -> Q tt s') ->
  pwp (skip_n_non_blank str_ops n) Q s.
Proof using no_nul.
  intros HM Hn Hb HQ.
  apply (pwp_skip_n_non_blank n pre (firstn n (rem s)) (skipn n (rem s))); [exact HM| | | |exact HQ].
  - symmetry. apply firstn_skipn.
  - apply firstn_length_le. exact Hn.
  - apply firstn_nonbreak; [exact Hn|exact Hb].
Qed.

(* the usual call site: the n characters have just been peeked and none is a break or NUL *)
Lemma pwp_skip_n_non_blank_z n pre (Q : unit -> sst -> Prop) s :
  MarkAt pre s -> (forall i, i < n -> is_breakz (rnth s i) = false) ->
  (forall s', MarkAt (pre ++ firstn n (rem s)) s' -> rem s' = skipn n (rem s) -> pkeeps s s' -> Q tt s') ->
  pwp (skip_n_non_blank str_ops n) Q s.
Proof using no_nul.
  intros HM Hz HQ. apply (pwp_skip_n_non_blank_len n pre); [exact HM| | |exact HQ].
  - apply not_breakz_prefix. exact Hz.
  - intros i Hi. apply breakz_false_break. apply Hz. exact Hi.
Qed.

(* in_skip_while p: the characters [w] consumed all satisfy p (hence are real and not breaks), the count returned
   is |w|, the next character fails p, the mark has NOT moved (the caller's adv_mark does that: pwp_adv_mark_over) *)
Lemma pwp_in_skip_while F p (Q : N -> sst -> Prop) s :
  (forall c, p c = true -> is_breakz c = false) ->
  (forall w s', rem s = w ++ rem s' -> Forall (fun c => p c = true) w -> Forall (fun c => is_break c = false) w ->
                p (rnth s' 0) = false -> inonly s s' -> Q (N.of_nat (length w)) s') ->
  pwp (in_skip_while str_ops F p) Q s.
Proof using no_nul.
  intros Hp HQ. unfold in_skip_while.
  match goal with |- swp _ (?L F 0%N) _ _ =>
    assert (HL : forall f w s1, rem s = w ++ rem s1 -> Forall (fun c => p c = true) w -> inonly s s1 ->
                                pwp (L f (N.of_nat (length w))) Q s1) end.
  { induction f as [|f IHf]; intros w s1 R1 F1 I1; [exact I|]. lazy beta iota.
    apply swp_bind. apply swp_look_ch. intros s2 R2 I2. fold (inonly s1 s2) in I2.
    destruct (p (rnth s2 0)) eqn:Ep.
    - apply swp_bind. apply swp_in_skip_real; [apply breakz_false_nz, Hp, Ep|]. intros s3 R3 I3.
      rewrite (of_nat_snoc w (rnth s2 0)). apply IHf.
      + rewrite <- app_assoc. cbn [app]. rewrite <- R3, R2. exact R1.
      + apply Forall_app. split; [exact F1|]. constructor; [exact Ep|constructor].
      + ino.
    - apply swp_ret. apply HQ; [rewrite R2; exact R1|exact F1|apply (Forall_pred_nonbreak p); assumption|exact Ep|].
      ino. }
  apply (HL F [] s); [reflexivity|constructor|apply inonly_refl].
Qed.

Lemma pwp_in_skip_while_non_breakz F (Q : N -> sst -> Prop) s :
  (forall w s', rem s = w ++ rem s' -> Forall (fun c => is_breakz c = false) w -> Forall (fun c => is_break c = false) w ->
                is_breakz (rnth s' 0) = true -> inonly s s' -> Q (N.of_nat (length w)) s') ->
  pwp (in_skip_while_non_breakz str_ops F) Q s.
Proof using no_nul.
  intros HQ. unfold in_skip_while_non_breakz. apply pwp_in_skip_while; [exact negb_breakz_not_breakz|].
  intros w s' R Fp Fb Ex I'. apply HQ; [exact R| |exact Fb|apply negb_false_iff; exact Ex|exact I'].
  revert Fp. apply Forall_impl. exact negb_breakz_not_breakz.
Qed.

Lemma pwp_in_skip_while_blank F (Q : N -> sst -> Prop) s :
  (forall w s', rem s = w ++ rem s' -> Forall (fun c => is_blank c = true) w -> Forall (fun c => is_break c = false) w ->
                is_blank (rnth s' 0) = false -> inonly s s' -> Q (N.of_nat (length w)) s') ->
  pwp (in_skip_while_blank str_ops F) Q s.
Proof using no_nul. intros HQ. unfold in_skip_while_blank. apply pwp_in_skip_while; [exact blank_not_breakz|exact HQ]. Qed.

(* in_fetch_while_alpha: same, and the characters are returned (reversed, in front of acc) *)
Lemma pwp_in_fetch_while_alpha F acc (Q : list chr * N -> sst -> Prop) s :
  (forall w s', rem s = w ++ rem s' -> Forall (fun c => is_alpha c = true) w -> Forall (fun c => is_break c = false) w ->
                is_alpha (rnth s' 0) = false -> inonly s s' -> Q (rev w ++ acc, N.of_nat (length w)) s') ->
  pwp (in_fetch_while_alpha str_ops F acc) Q s.
Proof using no_nul.
  intros HQ. unfold in_fetch_while_alpha.
  match goal with |- swp _ (?L F acc 0%N) _ _ =>
    assert (HL : forall f w s1, rem s = w ++ rem s1 -> Forall (fun c => is_alpha c = true) w -> inonly s s1 ->
                                pwp (L f (rev w ++ acc) (N.of_nat (length w))) Q s1) end.
  { induction f as [|f IHf]; intros w s1 R1 F1 I1; [exact I|]. lazy beta iota.
    apply swp_bind. apply swp_look_ch. intros s2 R2 I2. fold (inonly s1 s2) in I2.
    destruct (is_alpha (rnth s2 0)) eqn:Ep.
    - apply swp_bind. apply swp_in_skip_real; [apply breakz_false_nz, alpha_not_breakz, Ep|]. intros s3 R3 I3.
      rewrite (of_nat_snoc w (rnth s2 0)).
      replace (rnth s2 0 :: rev w ++ acc) with (rev (w ++ [rnth s2 0]) ++ acc) by (rewrite rev_app_distr; reflexivity).
      apply IHf.
      + rewrite <- app_assoc. cbn [app]. rewrite <- R3, R2. exact R1.
      + apply Forall_app. split; [exact F1|]. constructor; [exact Ep|constructor].
      + ino.
    - apply swp_ret. apply HQ; [rewrite R2; exact R1|exact F1|apply (Forall_pred_nonbreak is_alpha); [exact alpha_not_breakz|exact F1]|exact Ep|].
      ino. }
  apply (HL F [] s); [reflexivity|constructor|apply inonly_refl].
Qed.

(* in_skip_ws_to_eol (with its nested comment loop): the count grows by the number of characters consumed - blanks,
   '#' and comment characters, none of them a break, all of them real -; the mark has not moved *)
Lemma pwp_in_skip_ws_to_eol F stb tab ws n (Q : N * option (bool * bool) -> sst -> Prop) s :
  (forall w o s', rem s = w ++ rem s' -> Forall (fun c => is_break c = false) w -> inonly s s' ->
                  Q ((n + N.of_nat (length w))%N, o) s') ->
  pwp (in_skip_ws_to_eol str_ops F stb tab ws n) Q s.
Proof using no_nul.
  revert tab ws n s. induction F as [|F IHF]; intros tab ws n s HQ; [exact I|].
  assert (HQ0 : forall o s', rem s = rem s' -> inonly s s' -> Q (n, o) s').
  { intros o s' R' I'. replace n with (n + N.of_nat (@length chr []))%N by (cbn [length]; lia).
    apply HQ; [exact R'|constructor|exact I']. }
  (* one real non-break character [c] consumed, then a callee that adds to the count n + 1 *)
  assert (HQ1 : forall s1 s2, rem s1 = rem s -> inonly s s1 -> is_breakz (rnth s1 0) = false ->
                  rem s1 = rnth s1 0 :: rem s2 -> inonly s1 s2 ->
                  forall w o s', rem s2 = w ++ rem s' -> Forall (fun c => is_break c = false) w -> inonly s2 s' ->
                  Q ((n + 1 + N.of_nat (length w))%N, o) s').
  { intros s1 s2 R1 I1 Z1 R2 I2 w o s' R' F' I'.
    replace (n + 1 + N.of_nat (length w))%N with (n + N.of_nat (length (rnth s1 0 :: w)))%N by (cbn [length]; lia).
    apply HQ.
    - rewrite <- R1, R2, R'. reflexivity.
    - constructor; [apply breakz_false_break; exact Z1|exact F'].
    - ino. }
  cbn [in_skip_ws_to_eol].
  apply swp_bind. apply swp_look_ch. intros s1 R1 I1. fold (inonly s s1) in I1.
  destruct (N.eqb_spec (rnth s1 0) 32) as [E32|N32].
  { assert (Z1 : is_breakz (rnth s1 0) = false) by (rewrite E32; reflexivity).
    apply swp_bind. apply swp_in_skip_real; [apply breakz_false_nz; exact Z1|]. intros s2 R2 I2.
    apply IHF. apply (HQ1 s1 s2); assumption. }
  match goal with |- swp _ (if ?b then _ else _) _ _ => destruct b eqn:E9 end.
  { apply andb_true_iff in E9 as [E9 _]. apply N.eqb_eq in E9.
    assert (Z1 : is_breakz (rnth s1 0) = false) by (rewrite E9; reflexivity).
    apply swp_bind. apply swp_in_skip_real; [apply breakz_false_nz; exact Z1|]. intros s2 R2 I2.
    apply IHF. apply (HQ1 s1 s2); assumption. }
  destruct (N.eqb_spec (rnth s1 0) 35) as [E35|N35]; [|apply swp_ret; apply HQ0; [symmetry; exact R1|exact I1]].
  destruct (negb tab && negb ws); [apply swp_ret; apply HQ0; [symmetry; exact R1|exact I1]|].
  assert (Z1 : is_breakz (rnth s1 0) = false) by (rewrite E35; reflexivity).
  apply swp_bind. apply swp_in_skip_real; [apply breakz_false_nz; exact Z1|]. intros s2 R2 I2.
  (* the comment loop: [wc] = comment characters consumed so far; the '#' is counted at the exit *)
  match goal with |- swp _ (?L F n) _ _ =>
    assert (HL : forall f wc s3, rem s2 = wc ++ rem s3 -> Forall (fun c => is_break c = false) wc -> inonly s2 s3 ->
                                 pwp (L f (n + N.of_nat (length wc))%N) Q s3) end.
  { induction f as [|f IHf]; intros wc s3 R3 F3 I3; [exact I|]. lazy beta iota.
    apply swp_bind. apply swp_look_ch. intros s4 R4 I4. fold (inonly s3 s4) in I4.
    destruct (is_breakz (rnth s4 0)) eqn:Z4.
    - apply IHF. intros w o s' R' F' I'.
      replace (n + N.of_nat (length wc) + 1 + N.of_nat (length w))%N
        with (n + 1 + N.of_nat (length (wc ++ w)))%N by (rewrite app_length; lia).
      apply (HQ1 s1 s2 R1 I1 Z1 R2 I2).
      + rewrite R3, <- R4, R', app_assoc. reflexivity.
      + apply Forall_app. split; assumption.
      + ino.
    - apply swp_bind. apply swp_in_skip_real; [apply breakz_false_nz; exact Z4|]. intros s5 R5 I5.
      replace (n + N.of_nat (length wc) + 1)%N with (n + N.of_nat (length (wc ++ [rnth s4 0])))%N
        by (rewrite app_length; cbn [length]; lia).
      apply IHf.
      + rewrite <- app_assoc. cbn [app]. rewrite <- R5, R4. exact R3.
      + apply Forall_app. split; [exact F3|]. constructor; [apply breakz_false_break; exact Z4|constructor].
      + ino. }
  replace n with (n + N.of_nat (@length chr []))%N at 1 by (cbn [length]; lia).
  apply HL; [reflexivity|constructor|apply inonly_refl].
Qed.

(* skip_linebreak: CR LF / LF / lone CR consumed as one unit; anything else: no-op *)
Lemma pwp_skip_linebreak pre (Q : unit -> sst -> Prop) s :
  MarkAt pre s ->
  (is_break (rnth s 0) = false -> Q tt s) ->
  (forall s' b rest, rem s = b ++ rest -> is_break_unit b -> (b = [13%N] -> hd 0%N rest <> 10%N) ->
                     MarkAt (pre ++ b) s' -> rem s' = rest -> pkeeps s s' -> Q tt s') ->
  pwp (skip_linebreak str_ops) Q s.
Proof using no_nul.
  intros HM HQ0 HQ. unfold skip_linebreak, next_2_are.
  apply swp_bind. apply swp_bind. apply swp_assert_buflen. apply swp_bind. apply swp_peek. apply swp_bind. apply swp_peekn.
  apply swp_ret.
  unfold rnth in *. destruct (rem s) as [|c r] eqn:Hr; cbn [nth] in *.
  { change ((0 =? 13)%N && (0 =? 10)%N) with false. cbv iota. apply swp_bind. apply swp_peek.
    unfold rnth. rewrite Hr. cbn [nth]. change (is_break 0%N) with false. cbv iota. apply swp_ret. apply HQ0. reflexivity. }
  destruct (N.eqb_spec c 13) as [->|Hn13].
  - destruct r as [|d r']; cbn [nth].
    + change ((0 =? 10)%N) with false. cbn [andb]. apply swp_bind. apply swp_peek. unfold rnth. rewrite Hr. cbn [nth].
      change (is_break 13%N) with true. cbv iota.
      eapply pwp_skip_nl; [exact HM|exact Hr|right; split; [reflexivity|cbn; discriminate]|].
      intros s' M' R' K'. apply (HQ s' [13%N] []); auto; [right; left; reflexivity|cbn; discriminate].
    + destruct (N.eqb_spec d 10) as [->|Hn10]; cbn [andb].
      * apply swp_bind. eapply (pwp_skip_cr orig pre r'); [exact HM|exact Hr|].
        intros s1 M1 R1 K1. eapply pwp_skip_nl; [exact M1|exact R1|left; reflexivity|].
        intros s2 M2 R2 K2. apply (HQ s2 [13%N; 10%N] r'); auto.
        -- right; right; reflexivity.
        -- discriminate.
        -- rewrite <- app_assoc in M2. exact M2.
        -- eapply pkeeps_trans; eauto.
      * apply swp_bind. apply swp_peek. unfold rnth. rewrite Hr. cbn [nth]. change (is_break 13%N) with true. cbv iota.
        eapply pwp_skip_nl; [exact HM|exact Hr|right; split; [reflexivity|cbn; exact Hn10]|].
        intros s' M' R' K'. apply (HQ s' [13%N] (d :: r')); auto; [right; left; reflexivity].
  - cbn [andb]. apply swp_bind. apply swp_peek. unfold rnth. rewrite Hr. cbn [nth].
    destruct (is_break c) eqn:Hb.
    + assert (Ec : c = 10%N).
      { unfold is_break in Hb. apply orb_true_iff in Hb as [H|H]; apply N.eqb_eq in H; [exact H|contradiction]. }
      subst c. eapply pwp_skip_nl; [exact HM|exact Hr|left; reflexivity|].
      intros s' M' R' K'. apply (HQ s' [10%N] r); auto; [left; reflexivity|discriminate].
    + apply swp_ret. apply HQ0. reflexivity.
Qed.

(* the flag accessors used by this family *)
Lemma pwp_allow_simple_key pre (Q : unit -> sst -> Prop) s :
  MarkAt pre s -> (forall s', MarkAt pre s' -> rem s' = rem s -> pkeeps s s' -> Q tt s') -> pwp (allow_simple_key (I:=strin)) Q s.
Proof using no_nul.
  intros HM HQ. unfold allow_simple_key. apply swp_modify. apply HQ; [|reflexivity|repeat split].
  apply (markat_ext pre s _ HM); reflexivity.
Qed.
Lemma pwp_disallow_simple_key pre (Q : unit -> sst -> Prop) s :
  MarkAt pre s -> (forall s', MarkAt pre s' -> rem s' = rem s -> pkeeps s s' -> Q tt s') -> pwp (disallow_simple_key (I:=strin)) Q s.
Proof using no_nul.
  intros HM HQ. unfold disallow_simple_key. apply swp_modify. apply HQ; [|reflexivity|repeat split].
  apply (markat_ext pre s _ HM); reflexivity.
Qed.

(* a contract established from a later state is a contract from an earlier one *)
Lemma upost_trans {A} (m : SM A) s0 s : pkeeps s0 s -> pwp m (upost s) s -> pwp m (upost s0) s.
Proof using no_nul.
  intros K H. eapply swp_mono; [exact H|]. intros a s' [M' K']. split; [exact M'|eapply pkeeps_trans; eauto].
Qed.

(* ================= (b) the contracts ================= *)
Theorem pos_skip_ws_to_eol : forall F stb s, MarkOK s -> pwp (skip_ws_to_eol str_ops F stb) (upost s) s.
Proof using no_nul.
  intros F stb s [pre HM]. unfold skip_ws_to_eol.
  apply swp_bind. apply pwp_in_skip_ws_to_eol. intros w o s1 R1 F1 I1. cbn [fst snd]. rewrite N.add_0_l.
  apply swp_bind. apply (pwp_adv_mark_over pre w _ s s1); [exact HM|exact R1|apply inonly_mark; exact I1|exact F1|].
  intros s2 M2 R2 K2. destruct o as [tw|].
  - apply swp_ret. split; [exists (pre ++ w); exact M2|pk].
  - apply swp_bind. unfold mark. apply swp_gets. apply swp_fail. apply markok_true. exists (pre ++ w). exact M2.
Qed.

Theorem pos_skip_to_next_token : forall F s, MarkOK s -> pwp (skip_to_next_token str_ops F) (upost s) s.
Proof using no_nul.
  induction F as [|F IHF]; intros s [pre HM]; [exact I|].
  cbn [skip_to_next_token].
  apply swp_bind. apply (pwp_look_ch pre); [exact HM|]. intros s1 M1 R1 I1.
  apply swp_bind. apply swp_get. apply swp_bind. unfold is_within_block. apply swp_gets. cbv beta.
  match goal with |- swp _ (if ?b then _ else _) _ _ => destruct b end.
  { (* a tab in the indentation: skip_ws_to_eol, then a break must follow *)
    apply swp_bind. eapply swp_mono; [apply pos_skip_ws_to_eol; exists pre; exact M1|]. intros tw s2 [M2 K2].
    apply swp_bind. unfold next_is. apply swp_bind. apply swp_peek. apply swp_ret.
    destruct (is_breakz (rnth s2 0)).
    - apply (upost_trans _ s s2); [pk|]. apply IHF. exact M2.
    - apply swp_bind. unfold mark. apply swp_gets. apply swp_fail. apply markok_true. exact M2. }
  match goal with |- swp _ (if ?b then _ else _) _ _ => destruct b eqn:Ebl end.
  { (* tab or space *)
    apply swp_bind. apply (pwp_skip_plain_z (skip_blank str_ops) pre); [left; reflexivity|exact M1|apply tab_or_space_not_breakz; exact Ebl|].
    intros s2 M2 R2 K2. apply (upost_trans _ s s2); [pk|]. apply IHF. eexists; exact M2. }
  match goal with |- swp _ (if ?b then _ else _) _ _ => destruct b eqn:Ebr end.
  { (* a line break *)
    apply swp_bind. apply (pwp_look 2 pre); [exact M1|]. intros s2 M2 R2 I2.
    apply swp_bind. apply (pwp_skip_linebreak pre); [exact M2| |].
    - intros _. apply swp_bind. unfold flow_level. apply swp_gets. cbv beta.
      apply swp_bind. destruct (sc_flow_level s2 =? 0)%N.
      + apply (pwp_allow_simple_key pre); [exact M2|]. intros s3 M3 R3 K3.
        apply (upost_trans _ s s3); [pk|]. apply IHF. eexists; exact M3.
      + apply swp_ret. apply (upost_trans _ s s2); [pk|]. apply IHF. eexists; exact M2.
    - intros s3 b rest Rb Ub Hb M3 R3 K3. apply swp_bind. unfold flow_level. apply swp_gets. cbv beta.
      apply swp_bind. destruct (sc_flow_level s3 =? 0)%N.
      + apply (pwp_allow_simple_key (pre ++ b)); [exact M3|]. intros s4 M4 R4 K4.
        apply (upost_trans _ s s4); [pk|]. apply IHF. eexists; exact M4.
      + apply swp_ret. apply (upost_trans _ s s3); [pk|]. apply IHF. eexists; exact M3. }
  match goal with |- swp _ (if ?b then _ else _) _ _ => destruct b end.
  { (* a comment: everything up to the break (or the end) *)
    apply swp_bind. apply pwp_in_skip_while_non_breakz. intros w s2 R2 Fz Fb Ex I2.
    apply swp_bind. apply (pwp_adv_mark_over pre w _ s1 s2); [exact M1|exact R2|apply inonly_mark; exact I2|exact Fb|].
    intros s3 M3 R3 K3. apply (upost_trans _ s s3); [pk|]. apply IHF. eexists; exact M3. }
  apply swp_ret. split; [exists pre; exact M1|pk].
Qed.

Theorem pos_skip_yaml_whitespace : forall F s, MarkOK s -> pwp (skip_yaml_whitespace str_ops F) (upost s) s.
Proof using no_nul.
  intros F s HS. unfold skip_yaml_whitespace.
  match goal with |- swp _ (?L F true) _ _ =>
    assert (HL : forall f need s1, MarkOK s1 -> pwp (L f need) (upost s1) s1) end.
  { clear s HS. induction f as [|f IHf]; intros need s [pre HM]; [exact I|]. lazy beta iota.
    apply swp_bind. apply (pwp_look_ch pre); [exact HM|]. intros s1 M1 R1 I1.
    destruct (N.eqb_spec (rnth s1 0) 32) as [E32|N32].
    { apply swp_bind. apply (pwp_skip_plain_z (skip_blank str_ops) pre); [left; reflexivity|exact M1|rewrite E32; reflexivity|].
      intros s2 M2 R2 K2. apply (upost_trans _ s s2); [pk|]. apply IHf. eexists; exact M2. }
    match goal with |- swp _ (if ?b then _ else _) _ _ => destruct b eqn:Ebr end.
    { apply swp_bind. apply (pwp_look 2 pre); [exact M1|]. intros s2 M2 R2 I2.
      apply swp_bind. apply (pwp_skip_linebreak pre); [exact M2| |].
      - intros _. apply swp_bind. unfold flow_level. apply swp_gets. cbv beta.
        apply swp_bind. destruct (sc_flow_level s2 =? 0)%N.
        + apply (pwp_allow_simple_key pre); [exact M2|]. intros s3 M3 R3 K3.
          apply (upost_trans _ s s3); [pk|]. apply IHf. eexists; exact M3.
        + apply swp_ret. apply (upost_trans _ s s2); [pk|]. apply IHf. eexists; exact M2.
      - intros s3 b rest Rb Ub Hb M3 R3 K3. apply swp_bind. unfold flow_level. apply swp_gets. cbv beta.
        apply swp_bind. destruct (sc_flow_level s3 =? 0)%N.
        + apply (pwp_allow_simple_key (pre ++ b)); [exact M3|]. intros s4 M4 R4 K4.
          apply (upost_trans _ s s4); [pk|]. apply IHf. eexists; exact M4.
        + apply swp_ret. apply (upost_trans _ s s3); [pk|]. apply IHf. eexists; exact M3. }
    destruct (N.eqb_spec (rnth s1 0) 35) as [E35|N35].
    { apply swp_bind. apply pwp_in_skip_while_non_breakz. intros w s2 R2 Fz Fb Ex I2.
      apply swp_bind. apply (pwp_adv_mark_over pre w _ s1 s2); [exact M1|exact R2|apply inonly_mark; exact I2|exact Fb|].
      intros s3 M3 R3 K3. apply (upost_trans _ s s3); [pk|]. apply IHf. eexists; exact M3. }
    destruct need.
    - apply swp_bind. unfold mark. apply swp_gets. apply swp_fail. apply markok_true. exists pre. exact M1.
    - apply swp_ret. split; [exists pre; exact M1|pk]. }
  apply HL. exact HS.
Qed.

End PosPrim.

Print Assumptions pos_skip_ws_to_eol.
Print Assumptions pos_skip_to_next_token.
Print Assumptions pos_skip_yaml_whitespace.
