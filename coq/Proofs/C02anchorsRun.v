From Coq Require Import List NArith Bool Lia.
Import ListNotations.
Require Import Parser SBase SPrim SDir SScalar SFetch Pipe Grammar C02base C02rest C02tail C02run C02anchors.
Open Scope N_scope.

Lemma arun_app n a b : arun n (a ++ b) = match arun n a with Some n' => arun n' b | None => None end.
Proof.
  revert n; induction a as [|e a IH]; intros n; cbn [app arun]; [reflexivity|].
  destruct (aev n e); [apply IH|reflexivity].
Qed.

Lemma init_ainv toks keep : AInv (init_parser toks keep) 0.
Proof. split; [reflexivity|]. intros nm id H. discriminate. Qed.

Lemma parse_all_anchors fuel : forall p se acc n,
  AInv p n -> arun 0 (evs_of (rev acc)) = Some n ->
  exists n', arun 0 (evs_of (fst (parse_all fuel p se acc))) = Some n'.
Proof.
  induction fuel as [|fuel IH]; intros p se acc n HA Hr.
  - cbn [parse_all fst]. eauto.
  - rewrite parse_all_S.
    assert (Hstep : p_state p <> SEnd -> exists n', arun 0 (evs_of (fst (step_result fuel p se acc))) = Some n').
    { intros HNE. unfold step_result.
      pose proof (state_machine_apost n p HA HNE) as HP.
      destruct (state_machine p) as [[[e sp] p']|er|k].
      - destruct HP as [n' [He HA']]. apply (IH p' se ((e, sp) :: acc) n' HA').
        cbn [rev]. unfold evs_of. rewrite map_app, arun_app. fold (evs_of (rev acc)). rewrite Hr.
        cbn [map fst arun]. rewrite He. reflexivity.
      - destruct er; cbn [fst]; eauto.
      - cbn [fst]; eauto. }
    destruct (p_state p); try (apply Hstep; discriminate). cbn [fst]. eauto.
Qed.

(* Whole runs, every token list: the anchor ids carried by the events are exactly 1, 2, 3, ... in order of
   appearance (positive, never reused - in particular not within a document), and every alias refers to an id
   already handed out. *)
Theorem parser_run_anchors toks keep se fuel :
  exists n, arun 0 (evs_of (fst (parse_all fuel (init_parser toks keep) se []))) = Some n.
Proof. apply (parse_all_anchors fuel _ se [] 0 (init_ainv toks keep)). reflexivity. Qed.
