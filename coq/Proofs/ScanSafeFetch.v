(* The token-level skeleton of the scanner (fetch_*, fetch_next_token, fetch_more_tokens, next_token, scan_all)
   preserves the skeleton invariant and never panics, given the contracts of the character-level entry points.
   Panic sites covered here: 111 (insert_token out of range), 112/118 (token-number underflow), 113/114 (empty
   indent stack), 115/116/117 (empty simple-key stack). *)
From Coq Require Import List NArith ZArith Bool Arith Lia.
Import ListNotations.
Require Import Parser SBase SPrim SDir SScalar SFetch SBuf Pipe ScanWP C02run.
Local Open Scope nat_scope.
Arguments Nat.ltb : simpl never.
Arguments Nat.leb : simpl never.
Arguments Nat.eqb : simpl never.
Arguments Nat.sub : simpl never.

(* ---------------- pure list facts ---------------- *)
Lemma insert_at_ok {A} (x : A) : forall n l, n <= length l ->
  exists l', insert_at n x l = Some l' /\ length l' = S (length l).
Proof.
  induction n as [|n IH]; intros l H; cbn [insert_at].
  - eexists; split; reflexivity.
  - destruct l as [|y r]; cbn [length] in H; [lia|].
    destruct (IH r) as [l' [E L]]; [lia|]. rewrite E. eexists; split; [reflexivity|]. cbn [length]. lia.
Qed.
Lemma insert_at_none {A} (x : A) : forall n l, length l < n -> insert_at n x l = None.
Proof.
  induction n as [|n IH]; intros l H; [lia|]. cbn [insert_at].
  destruct l as [|y r]; [reflexivity|]. cbn [length] in H. rewrite IH; [reflexivity|lia].
Qed.
(* insert_at succeeds iff the position is within (or just past) the list; the result is one longer *)
Lemma insert_at_iff {A} (x : A) n l : (exists l', insert_at n x l = Some l') <-> n <= length l.
Proof.
  split.
  - intros [l' E]. destruct (Nat.le_gt_cases n (length l)) as [H|H]; [exact H|].
    rewrite (insert_at_none x n l H) in E. discriminate.
  - intros H. destruct (insert_at_ok x n l H) as [l' [E _]]. exists l'; exact E.
Qed.
Lemma insert_at_length {A} (x : A) n l l' : insert_at n x l = Some l' -> length l' = S (length l).
Proof.
  intros E. assert (H : n <= length l) by (apply (insert_at_iff x); eauto).
  destruct (insert_at_ok x n l H) as [l2 [E2 L]]. congruence.
Qed.

Ltac sproj :=
  cbn [sc_in sc_mark sc_tokens sc_stream_start sc_stream_end sc_adjacent sc_ska sc_sks sc_indent sc_indents
       sc_flow_level sc_tokens_parsed sc_token_available sc_lws sc_ifms
       set_in set_mark set_tokens set_flags set_ska set_lws set_adj set_ta set_ss set_se
       set_struct set_sks set_indent set_fl set_tp set_ifms upd].
Ltac sproj_in H :=
  cbn [sc_in sc_mark sc_tokens sc_stream_start sc_stream_end sc_adjacent sc_ska sc_sks sc_indent sc_indents
       sc_flow_level sc_tokens_parsed sc_token_available sc_lws sc_ifms
       set_in set_mark set_tokens set_flags set_ska set_lws set_adj set_ta set_ss set_se
       set_struct set_sks set_indent set_fl set_tp set_ifms upd] in H.

Section Fetch.
Variable cap : nat.
Hypothesis cap_ge : 8 <= cap.
Notation B := (bops cap).
Notation st := (sc bufin).
Notation M := (@M bufin).

Hypothesis H_next : spec_skip_to_next_token cap.
Hypothesis H_ws : spec_skip_ws_to_eol cap.
Hypothesis H_yws : spec_skip_yaml_whitespace cap.
Hypothesis H_dir : spec_scan_directive cap.
Hypothesis H_tag : spec_scan_tag cap.
Hypothesis H_anchor : spec_scan_anchor cap.
Hypothesis H_flow : spec_scan_flow_scalar cap.
Hypothesis H_plain : spec_scan_plain_scalar cap.
Hypothesis H_block : spec_scan_block_scalar cap.

(* ---------------- invariants ---------------- *)
(* the working invariant of every fetch_* function other than fetch_stream_start: the stream has started *)
Definition SI (s : st) : Prop := SInv s /\ sc_stream_start s = true.

(* frame of a skeleton operation: the input is untouched, no token is consumed, the queue only grows *)
Definition fr (s s' : st) : Prop :=
  sc_in s' = sc_in s /\ sc_tokens_parsed s' = sc_tokens_parsed s
  /\ length (sc_tokens s) <= length (sc_tokens s').

Lemma fr_refl s : fr s s.
Proof. unfold fr; auto. Qed.
Lemma fr_trans s1 s2 s3 : fr s1 s2 -> fr s2 s3 -> fr s1 s3.
Proof. unfold fr. intros (A1 & A2 & A3) (B1 & B2 & B3). repeat split; try congruence. lia. Qed.
Lemma fr_bl s s' : fr s s' -> bl s' = bl s.
Proof. intros (A & _). unfold bl. rewrite A. reflexivity. Qed.

(* no possible simple key points at the head of the token queue: the head may be handed out *)
Definition nokey (s : st) : Prop :=
  forall k, In k (sc_sks s) -> sk_possible k = true -> sk_token_number k <> sc_tokens_parsed s.

(* the invariant at the level of next_token / scan_all *)
Definition J (s : st) : Prop := SInv s /\ (sc_stream_start s = false -> sc_indents s = []).
Definition SInv' (s : st) : Prop := J s /\ (sc_token_available s = true -> nokey s).

Lemma si_J s : SI s -> J s.
Proof. intros [H E]. split; [exact H|]. rewrite E. discriminate. Qed.

Lemma si_elim s : SI s ->
  sc_stream_start s = true /\ N.of_nat (length (sc_sks s)) = (sc_flow_level s + 1)%N
  /\ sorted_from (sc_indent s) (sc_indents s) /\ Forall (sk_in_range s) (sc_sks s).
Proof. intros [(I1 & I2 & I3) E]. rewrite E in I1. auto. Qed.
Lemma si_intro s :
  sc_stream_start s = true -> N.of_nat (length (sc_sks s)) = (sc_flow_level s + 1)%N ->
  sorted_from (sc_indent s) (sc_indents s) -> Forall (sk_in_range s) (sc_sks s) -> SI s.
Proof. intros E I1 I2 I3. split; [|exact E]. unfold SInv. rewrite E. auto. Qed.

Lemma si_keeps s s' : keeps s s' -> SI s -> SI s'.
Proof.
  intros K [H E]. split; [eapply sinv_keeps; eauto|].
  destruct K as (_ & _ & _ & _ & A5 & _). congruence.
Qed.

(* states agreeing on the skeleton (queue possibly longer) *)
Definition same_skel (s s' : st) : Prop :=
  sc_sks s' = sc_sks s /\ sc_flow_level s' = sc_flow_level s /\ sc_stream_start s' = sc_stream_start s
  /\ sc_tokens_parsed s' = sc_tokens_parsed s /\ length (sc_tokens s) <= length (sc_tokens s')
  /\ sc_indent s' = sc_indent s /\ sc_indents s' = sc_indents s /\ sc_in s' = sc_in s.

Lemma range_mono (s s' : st) k :
  sc_tokens_parsed s' = sc_tokens_parsed s -> length (sc_tokens s) <= length (sc_tokens s') ->
  sk_in_range s k -> sk_in_range s' k.
Proof. intros E4 E5 Hk Hp. specialize (Hk Hp). rewrite E4. lia. Qed.

Lemma sinv_ext s s' : same_skel s s' -> SInv s -> SInv s'.
Proof.
  intros (E1 & E2 & E3 & E4 & E5 & E6 & E7 & _) (I1 & I2 & I3). unfold SInv. rewrite E1, E2, E3, E6, E7.
  split; [exact I1|]. split; [exact I2|].
  eapply Forall_impl; [|exact I3]. intros k Hk. eapply range_mono; eauto.
Qed.
Lemma si_ext s s' : same_skel s s' -> SI s -> SI s'.
Proof.
  intros K [H E]. split; [eapply sinv_ext; eauto|]. destruct K as (_ & _ & E3 & _). congruence.
Qed.
Lemma skel_fr s s' : same_skel s s' -> fr s s'.
Proof. intros (_ & _ & _ & E4 & E5 & _ & _ & E8). unfold fr. auto. Qed.

Ltac skel_triv :=
  unfold same_skel; cbv beta;
  repeat match goal with |- context [if ?b then _ else _] => destruct b end;
  repeat match goal with |- context [match sc_ifms ?s with _ => _ end] => destruct (sc_ifms s) as [|[| | |] ?] end;
  repeat split; sproj; try reflexivity; try (rewrite app_length; lia); try lia.

Lemma wp_modify_skel f (Q : unit -> st -> Prop) s :
  same_skel s (f s) -> SI s -> (forall s', SI s' -> fr s s' -> Q tt s') -> wp (modify f) Q s.
Proof. intros K HI HQ. apply wp_modify. apply HQ; [eapply si_ext; eauto|apply skel_fr; exact K]. Qed.

(* a monadic step whose only possible effects are "fail" or "leave the state alone" *)
Lemma wp_pure {A} (m : M A) (Q : A -> st -> Prop) s :
  wp m (fun _ s' => s' = s) s -> (forall a, Q a s) -> wp m Q s.
Proof. intros H HQ. eapply wp_mono; [exact H|]. intros a s' ->. apply HQ. Qed.

Lemma use_spec {A} (m : M A) s k (Q : A -> st -> Prop) :
  wp m (post_keeps s k) s -> (forall a s', keeps s s' -> k <= bl s' -> Q a s') -> wp m Q s.
Proof. intros H HQ. eapply wp_mono; [exact H|]. intros a s' [K Bd]. apply HQ; assumption. Qed.

(* ---------------- token queue ---------------- *)
Lemma wp_push_tok t (Q : unit -> st -> Prop) s :
  SI s -> (forall s', SI s' -> fr s s' -> Q tt s') -> wp (push_tok t) Q s.
Proof. intros HI HQ. unfold push_tok. apply wp_modify_skel; [skel_triv|exact HI|exact HQ]. Qed.

(* panic 111 is unreachable when the position is within (or just past) the queue *)
Lemma wp_insert_token pos t (Q : unit -> st -> Prop) s :
  SI s -> N.to_nat pos <= length (sc_tokens s) ->
  (forall s', SI s' -> fr s s' -> Q tt s') -> wp (insert_token pos t) Q s.
Proof.
  intros HI Hp HQ. unfold wp, insert_token.
  destruct (insert_at_ok t _ _ Hp) as [l [E L]]. rewrite E.
  assert (K : same_skel s (set_tokens l s)) by (unfold same_skel; repeat split; sproj; try reflexivity; lia).
  apply HQ; [eapply si_ext; eauto|apply skel_fr; exact K].
Qed.

Lemma wp_allow (Q : unit -> st -> Prop) s :
  SI s -> (forall s', SI s' -> fr s s' -> Q tt s') -> wp allow_simple_key Q s.
Proof. intros HI HQ. unfold allow_simple_key. apply wp_modify_skel; [skel_triv|exact HI|exact HQ]. Qed.
Lemma wp_disallow (Q : unit -> st -> Prop) s :
  SI s -> (forall s', SI s' -> fr s s' -> Q tt s') -> wp disallow_simple_key Q s.
Proof. intros HI HQ. unfold disallow_simple_key. apply wp_modify_skel; [skel_triv|exact HI|exact HQ]. Qed.

(* ---------------- indentation ---------------- *)
Lemma si_set_indent s z l : SI s -> sorted_from z l -> SI (set_indent z l s).
Proof.
  intros HI Hs. destruct (si_elim _ HI) as (E & I1 & I2 & I3).
  apply si_intro; sproj; auto.
Qed.

(* panic 112 is unreachable: a token number handed to roll_indent lies in the queue *)
Lemma wp_roll_indent col number tk mk (Q : unit -> st -> Prop) s :
  SI s ->
  (forall n, number = Some n ->
     (sc_tokens_parsed s <= n)%N /\ (n <= sc_tokens_parsed s + N.of_nat (length (sc_tokens s)))%N) ->
  (forall s', SI s' -> fr s s' -> Q tt s') -> wp (roll_indent col number tk mk) Q s.
Proof.
  intros HI Hn HQ. unfold roll_indent. apply wp_bind, wp_get.
  destruct (0 <? sc_flow_level s)%N; [apply wp_ret, HQ; [exact HI|apply fr_refl]|].
  destruct (si_elim _ HI) as (E & I1 & I2 & I3).
  match goal with |- wp (let '(_, _) := ?p in _) _ _ =>
    assert (Hp : sorted_from (fst p) (snd p)); [|destruct p as [ind inds]] end.
  { destruct (sc_indent s <=? Z.of_N col)%Z; [|exact I2].
    destruct (sc_indents s) as [|i r] eqn:EI; [exact I2|].
    destruct (negb (in_needs_block_end i)); cbn [fst snd]; [|exact I2].
    destruct I2 as [_ I2]. exact I2. }
  cbn [fst snd] in Hp.
  destruct (ind <? Z.of_N col)%Z eqn:EC.
  - apply Z.ltb_lt in EC. destruct (BLOCK_NESTING_MAX <=? N.of_nat (length inds))%N; [exact I|]. apply wp_bind, wp_put.
    set (s1 := set_indent (Z.of_N col) ({| in_indent := ind; in_needs_block_end := true |} :: inds) s).
    assert (HI1 : SI s1) by (apply si_set_indent; [exact HI|cbn [sorted_from in_indent]; auto]).
    assert (F1 : fr s s1) by (unfold fr, s1; sproj; auto).
    destruct number as [n|].
    + destruct (Hn n eq_refl) as [L1 L2].
      destruct (n <? sc_tokens_parsed s)%N eqn:EN; [apply N.ltb_lt in EN; lia|].
      apply wp_insert_token; [exact HI1| unfold s1; sproj; lia |].
      intros s2 HI2 F2. apply HQ; [exact HI2|eapply fr_trans; [exact F1|exact F2]].
    + apply wp_push_tok; [exact HI1|]. intros s2 HI2 F2. apply HQ; [exact HI2|eapply fr_trans; [exact F1|exact F2]].
  - apply wp_put. apply HQ; [apply si_set_indent; assumption|unfold fr; sproj; auto].
Qed.

(* panic 113 is unreachable: an empty stack means indent = -1, and the column is >= -1 *)
Lemma wp_unroll_indent_go col : (-1 <= col)%Z -> forall fuel (Q : unit -> st -> Prop) s,
  SI s -> (forall s', SI s' -> fr s s' -> Q tt s') -> wp (unroll_indent_go fuel col) Q s.
Proof.
  intros Hc. induction fuel as [|fuel IH]; intros Q s HI HQ; cbn [unroll_indent_go]; [apply wp_oof|].
  apply wp_bind, wp_get.
  destruct (col <? sc_indent s)%Z eqn:EC; [|apply wp_ret, HQ; [exact HI|apply fr_refl]].
  apply Z.ltb_lt in EC. destruct (si_elim _ HI) as (E & I1 & I2 & I3).
  destruct (sc_indents s) as [|i r] eqn:EI.
  - cbn [sorted_from] in I2. lia.
  - destruct I2 as [I2a I2b].
    apply wp_bind, wp_put.
    set (s1 := set_indent (in_indent i) r s).
    assert (HI1 : SI s1) by (apply si_set_indent; assumption).
    assert (F1 : fr s s1) by (unfold fr, s1; sproj; auto).
    apply wp_bind.
    destruct (in_needs_block_end i).
    + apply wp_push_tok; [exact HI1|]. intros s2 HI2 F2.
      apply IH; [exact HI2|]. intros s3 HI3 F3. apply HQ; [exact HI3|].
      eapply fr_trans; [exact F1|]. eapply fr_trans; [exact F2|exact F3].
    + apply wp_ret. apply IH; [exact HI1|]. intros s3 HI3 F3. apply HQ; [exact HI3|eapply fr_trans; [exact F1|exact F3]].
Qed.

Lemma wp_unroll_indent col (Q : unit -> st -> Prop) s :
  (-1 <= col)%Z -> SI s -> (forall s', SI s' -> fr s s' -> Q tt s') -> wp (unroll_indent col) Q s.
Proof.
  intros Hc HI HQ. unfold unroll_indent. apply wp_bind, wp_get.
  destruct (0 <? sc_flow_level s)%N; [apply wp_ret, HQ; [exact HI|apply fr_refl]|].
  apply wp_unroll_indent_go; assumption.
Qed.

Lemma wp_roll_one_col_indent (Q : unit -> st -> Prop) s :
  SI s -> (forall s', SI s' -> fr s s' -> Q tt s') -> wp roll_one_col_indent Q s.
Proof.
  intros HI HQ. unfold roll_one_col_indent. apply wp_bind, wp_get.
  destruct (_ && _); [|apply wp_ret, HQ; [exact HI|apply fr_refl]].
  apply wp_put. destruct (si_elim _ HI) as (E & I1 & I2 & I3).
  apply HQ; [|unfold fr; sproj; auto].
  apply si_set_indent; [exact HI|]. cbn [sorted_from in_indent]. split; [lia|exact I2].
Qed.

(* ---------------- simple keys ---------------- *)
Definition clr (k : simple_key) : simple_key :=
  {| sk_possible := false; sk_required := sk_required k; sk_token_number := sk_token_number k; sk_mark := sk_mark k |}.
Lemma range_clr (s : st) k : sk_in_range s (clr k).
Proof. intros H. discriminate H. Qed.

Lemma si_set_sks s l :
  SI s -> length l = length (sc_sks s) -> Forall (sk_in_range s) l -> SI (set_sks l s).
Proof.
  intros HI HL HF. destruct (si_elim _ HI) as (E & I1 & I2 & I3).
  apply si_intro; sproj; auto. rewrite HL. exact I1.
Qed.
Lemma si_sks_nonempty s : SI s -> exists k r, sc_sks s = k :: r.
Proof.
  intros HI. destruct (si_elim _ HI) as (E & I1 & I2 & I3).
  destruct (sc_sks s) as [|k r]; [cbn [length] in I1; lia|eauto].
Qed.

(* panic 114 is unreachable: indent = column >= 0 means the indent stack is not empty; the simple-key stack is
   not empty once the stream has started, so replacing its head keeps its length *)
Lemma wp_save_simple_key (Q : unit -> st -> Prop) s :
  SI s -> (forall s', SI s' -> fr s s' -> Q tt s') -> wp save_simple_key Q s.
Proof.
  intros HI HQ. unfold save_simple_key. apply wp_bind, wp_get.
  destruct (sc_ska s); [|apply wp_ret, HQ; [exact HI|apply fr_refl]].
  destruct (si_elim _ HI) as (E & I1 & I2 & I3).
  destruct (si_sks_nonempty _ HI) as (k0 & r0 & EK).
  apply wp_bind.
  apply wp_mono with (Q := fun (_ : bool) s' => s' = s).
  - destruct ((sc_flow_level s =? 0)%N && (sc_indent s =? Z.of_N (m_col (sc_mark s)))%Z) eqn:EC; [|apply wp_ret; reflexivity].
    apply andb_true_iff in EC. destruct EC as [_ EC]. apply Z.eqb_eq in EC.
    destruct (sc_indents s) as [|i r]; [cbn [sorted_from] in I2; lia|apply wp_ret; reflexivity].
  - intros rq s' ->. apply wp_put. apply HQ; [|unfold fr; sproj; auto].
    apply si_set_sks; [exact HI|rewrite EK; reflexivity|].
    rewrite EK in I3 |- *. cbn [tl]. inversion I3; subst. constructor; [|assumption].
    intros _. cbn [sk_token_number]. lia.
Qed.

(* panic 115 is unreachable once the stream has started *)
Lemma wp_remove_simple_key (Q : unit -> st -> Prop) s :
  SI s -> (forall s', SI s' -> fr s s' -> Q tt s') -> wp remove_simple_key Q s.
Proof.
  intros HI HQ. unfold remove_simple_key. apply wp_bind, wp_get.
  destruct (si_elim _ HI) as (E & I1 & I2 & I3).
  destruct (si_sks_nonempty _ HI) as (k0 & r0 & EK). rewrite EK.
  destruct (_ && _); [apply wp_fail|].
  apply wp_put. apply HQ; [|unfold fr; sproj; auto].
  apply si_set_sks; [exact HI|rewrite EK; reflexivity|].
  rewrite EK in I3. inversion I3; subst. constructor; [apply (range_clr s k0)|assumption].
Qed.

Lemma Forall_map_clr (s : st) (p : simple_key -> bool) l :
  Forall (sk_in_range s) l -> Forall (sk_in_range s) (map (fun k => if p k then clr k else k) l).
Proof.
  induction 1 as [|k l Hk Hl IH]; cbn [map]; constructor; [|exact IH].
  destruct (p k); [apply range_clr|exact Hk].
Qed.

(* stale_simple_keys keeps the stack length and only clears [sk_possible]; it is also called before the
   stream has started, hence stated for J *)
Lemma wp_stale_J (Q : unit -> st -> Prop) s :
  J s -> (forall s', J s' -> sc_stream_start s' = sc_stream_start s -> fr s s' ->
                     sc_tokens s' = sc_tokens s -> Q tt s') -> wp stale_simple_keys Q s.
Proof.
  intros [(I1 & I2 & I3) HJ] HQ. unfold stale_simple_keys. apply wp_bind, wp_get.
  destruct (existsb _ _); [apply wp_fail|]. apply wp_put. apply HQ; sproj; try reflexivity; [|unfold fr; sproj; auto].
  split; [|sproj; exact HJ]. unfold SInv; sproj. split; [|split; [exact I2|]].
  - destruct (sc_stream_start s); [rewrite map_length; exact I1|].
    destruct I1 as [-> ->]. auto.
  - apply (Forall_map_clr s
      (fun k => sk_possible k && (sc_flow_level s =? 0)%N
                && ((m_line (sk_mark k) <? m_line (sc_mark s))%N
                    || (m_index (sk_mark k) + SIMPLE_KEY_MAX <? m_index (sc_mark s))%N))). exact I3.
Qed.
Lemma wp_stale (Q : unit -> st -> Prop) s :
  SI s -> (forall s', SI s' -> fr s s' -> Q tt s') -> wp stale_simple_keys Q s.
Proof.
  intros HI HQ. apply wp_stale_J; [apply si_J, HI|]. intros s' [H' _] E F _.
  apply HQ; [|exact F]. split; [exact H'|]. rewrite E. apply HI.
Qed.

Lemma wp_end_implicit_mapping mk (Q : unit -> st -> Prop) s :
  SI s -> (forall s', SI s' -> fr s s' -> Q tt s') -> wp (end_implicit_mapping mk) Q s.
Proof.
  intros HI HQ. unfold end_implicit_mapping. apply wp_bind, wp_get.
  destruct (sc_ifms s) as [|[| | |] r]; try (apply wp_ret, HQ; [exact HI|apply fr_refl]).
  - apply wp_bind, wp_put.
    set (s1 := set_ifms (ImPossible :: r) s).
    assert (K : same_skel s s1) by (unfold s1; skel_triv).
    apply wp_push_tok; [eapply si_ext; eauto|]. intros s2 HI2 F2.
    apply HQ; [exact HI2|]. eapply fr_trans; [apply skel_fr; exact K|exact F2].
  - apply wp_put.
    set (s1 := set_ifms (ImPossible :: r) s).
    assert (K : same_skel s s1) by (unfold s1; skel_triv).
    apply HQ; [eapply si_ext; eauto|apply skel_fr; exact K].
Qed.

(* the simple-key stack and the flow level grow and shrink together *)
Lemma wp_increase_flow_level (Q : unit -> st -> Prop) s :
  SI s -> (forall s', SI s' -> fr s s' -> Q tt s') -> wp increase_flow_level Q s.
Proof.
  intros HI HQ. unfold increase_flow_level. apply wp_bind, wp_get.
  destruct (sc_flow_level s =? FLOW_LEVEL_MAX)%N; [exact I|].
  apply wp_put. destruct (si_elim _ HI) as (E & I1 & I2 & I3).
  apply HQ; [|unfold fr; sproj; auto].
  apply si_intro; sproj; auto.
  - cbn [length]. lia.
  - constructor; [intros H; discriminate H|]. exact I3.
Qed.

(* panic 116 is unreachable once the stream has started *)
Lemma wp_decrease_flow_level (Q : unit -> st -> Prop) s :
  SI s -> (forall s', SI s' -> fr s s' -> Q tt s') -> wp decrease_flow_level Q s.
Proof.
  intros HI HQ. unfold decrease_flow_level. apply wp_bind, wp_get.
  destruct (0 <? sc_flow_level s)%N eqn:EF; [|apply wp_ret, HQ; [exact HI|apply fr_refl]].
  apply N.ltb_lt in EF.
  destruct (si_elim _ HI) as (E & I1 & I2 & I3).
  destruct (si_sks_nonempty _ HI) as (k0 & r0 & EK). rewrite EK.
  apply wp_put. apply HQ; [|unfold fr; sproj; auto].
  rewrite EK in I1, I3. cbn [length] in I1.
  apply si_intro; sproj; auto; [lia|]. inversion I3; subst; assumption.
Qed.


(* ---------------- skeleton steps as a combinator language ---------------- *)
Definition skstep (m : M unit) : Prop :=
  forall (Q : unit -> st -> Prop) s, SI s -> (forall s', SI s' -> fr s s' -> Q tt s') -> wp m Q s.

Lemma skc_run m (Q : unit -> st -> Prop) s :
  skstep m -> SI s -> (forall s', SI s' -> fr s s' -> Q tt s') -> wp m Q s.
Proof. intros H. apply H. Qed.
Lemma skc_ret : skstep (ret tt).
Proof. intros Q s HI HQ. apply wp_ret, HQ; [exact HI|apply fr_refl]. Qed.
Lemma skc_fail site mk : skstep (fail site mk).
Proof. intros Q s HI HQ. apply wp_fail. Qed.
Lemma skc_if (b : bool) m1 m2 : skstep m1 -> skstep m2 -> skstep (if b then m1 else m2).
Proof. destruct b; auto. Qed.
Lemma skc_bind m1 m2 : skstep m1 -> skstep m2 -> skstep (bind m1 (fun _ => m2)).
Proof.
  intros H1 H2 Q s HI HQ. apply wp_bind. apply H1; [exact HI|]. intros s1 HI1 F1.
  apply H2; [exact HI1|]. intros s2 HI2 F2. apply HQ; [exact HI2|eapply fr_trans; [exact F1|exact F2]].
Qed.
Lemma skc_get f : (forall s0, skstep (f s0)) -> skstep (bind get f).
Proof. intros H Q s HI HQ. apply wp_bind, wp_get. apply H; assumption. Qed.
Lemma skc_mark f : (forall m, skstep (f m)) -> skstep (bind mark f).
Proof. intros H Q s HI HQ. apply wp_bind, wp_mark. apply H; assumption. Qed.
Lemma skc_modify f : (forall s, same_skel s (f s)) -> skstep (modify f).
Proof. intros H Q s HI HQ. apply wp_modify_skel; auto. Qed.

Lemma skc_check_closer seq : skstep (check_flow_closer seq).
Proof.
  intros Q s HI HQ. unfold check_flow_closer. apply wp_bind, wp_get.
  destruct (sc_ifms s) as [|st r]; [apply wp_ret, HQ; [exact HI|apply fr_refl]|]. cbv zeta.
  destruct (Bool.eqb _ _); [apply wp_ret, HQ; [exact HI|apply fr_refl]|apply wp_fail].
Qed.
Definition skc_push_tok t : skstep (push_tok t) := wp_push_tok t.
Definition skc_allow : skstep allow_simple_key := wp_allow.
Definition skc_disallow : skstep disallow_simple_key := wp_disallow.
Definition skc_roll_one : skstep roll_one_col_indent := wp_roll_one_col_indent.
Definition skc_save : skstep save_simple_key := wp_save_simple_key.
Definition skc_remove : skstep remove_simple_key := wp_remove_simple_key.
Definition skc_stale : skstep stale_simple_keys := wp_stale.
Definition skc_eim mk : skstep (end_implicit_mapping mk) := wp_end_implicit_mapping mk.
Definition skc_incr : skstep increase_flow_level := wp_increase_flow_level.
Definition skc_decr : skstep decrease_flow_level := wp_decrease_flow_level.
Lemma skc_roll_indent_none col tk mk : skstep (roll_indent col None tk mk).
Proof. intros Q s HI HQ. apply wp_roll_indent; [exact HI|intros n Hn; discriminate Hn|exact HQ]. Qed.
Lemma skc_unroll_m1 : skstep (unroll_indent (-1)%Z).
Proof. intros Q s HI HQ. apply wp_unroll_indent; [lia|exact HI|exact HQ]. Qed.
Lemma skc_unroll_N n : skstep (unroll_indent (Z.of_N n)).
Proof. intros Q s HI HQ. apply wp_unroll_indent; [lia|exact HI|exact HQ]. Qed.
Lemma skc_clear_head :
  skstep (modify (fun s : st => match sc_sks s with
                     | k :: r => set_sks ({| sk_possible := false; sk_required := sk_required k;
                                             sk_token_number := sk_token_number k; sk_mark := sk_mark k |} :: r) s
                     | [] => s end)).
Proof.
  intros Q s HI HQ. apply wp_modify. destruct (si_elim _ HI) as (E & I1 & I2 & I3).
  destruct (sc_sks s) as [|k r] eqn:EK; [apply HQ; [exact HI|apply fr_refl]|].
  apply HQ; [|unfold fr; sproj; auto].
  apply si_set_sks; [exact HI|rewrite EK; reflexivity|].
  inversion I3; subst. constructor; [apply (range_clr s k)|assumption].
Qed.

Ltac skc_one :=
  cbv beta;
  lazymatch goal with
  | |- skstep (ret tt) => apply skc_ret
  | |- skstep (fail _ _) => apply skc_fail
  | |- skstep (if _ then _ else _) => apply skc_if
  | |- skstep (bind get _) => apply skc_get; intros ?
  | |- skstep (bind mark _) => apply skc_mark; intros ?
  | |- skstep (bind _ _) => apply skc_bind
  | |- skstep (push_tok _) => apply skc_push_tok
  | |- skstep allow_simple_key => apply skc_allow
  | |- skstep disallow_simple_key => apply skc_disallow
  | |- skstep roll_one_col_indent => apply skc_roll_one
  | |- skstep save_simple_key => apply skc_save
  | |- skstep remove_simple_key => apply skc_remove
  | |- skstep stale_simple_keys => apply skc_stale
  | |- skstep (end_implicit_mapping _) => apply skc_eim
  | |- skstep (check_flow_closer _) => apply skc_check_closer
  | |- skstep increase_flow_level => apply skc_incr
  | |- skstep decrease_flow_level => apply skc_decr
  | |- skstep (roll_indent _ None _ _) => apply skc_roll_indent_none
  | |- skstep (unroll_indent (-1)%Z) => apply skc_unroll_m1
  | |- skstep (unroll_indent (Z.of_N _)) => apply skc_unroll_N
  | |- skstep (modify _) => first [apply skc_clear_head | apply skc_modify; intros ?; skel_triv]
  end.
Ltac skc_auto := repeat skc_one.

(* one skeleton step of a sequence *)
Ltac sks :=
  apply wp_bind; cbv beta;
  (eapply skc_run; [solve [skc_auto] | assumption | ]);
  let s' := fresh "s" in let H := fresh "HI" in let F := fresh "Fr" in let Bd := fresh "Bd" in
  intros s' H F; pose proof (fr_bl _ _ F) as Bd; cbv beta.
(* the whole remainder is a skeleton step *)
Ltac skfin := cbv beta; (eapply skc_run; [solve [skc_auto] | assumption | ]); intros; assumption.
Ltac wb := apply wp_bind; cbv beta.
Ltac wget := apply wp_bind, wp_get; cbv beta.
Ltac wmark := apply wp_bind, wp_mark; cbv beta.
Ltac kstep :=
  let s' := fresh "s" in let K := fresh "K" in let Bd := fresh "Bd" in let H := fresh "HI" in
  intros s' K Bd; assert (H : SI s') by (eapply si_keeps; [exact K|assumption]); cbv beta.
Ltac kstepv := let t := fresh "t" in intros t; kstep.
Ltac dif := match goal with |- wp (if ?b then _ else _) _ _ => destruct b end.
Ltac fin := cbv beta; apply wp_push_tok; [assumption|]; intros; assumption.

Definition post_si : unit -> st -> Prop := fun _ s' => SI s'.

(* weaker frame: no token consumed, the queue only grows (skeleton steps and character-level scanners) *)
Definition grows (s s' : st) : Prop :=
  sc_tokens_parsed s' = sc_tokens_parsed s /\ length (sc_tokens s) <= length (sc_tokens s').
Lemma grows_fr s s' : fr s s' -> grows s s'.
Proof. intros (_ & A & C). split; assumption. Qed.
Lemma grows_keeps s s' : keeps s s' -> grows s s'.
Proof. intros (_ & _ & A3 & A4 & _). split; [exact A4|rewrite A3; lia]. Qed.
Lemma grows_trans s1 s2 s3 : grows s1 s2 -> grows s2 s3 -> grows s1 s3.
Proof. intros [A1 A2] [B1 B2]. split; [congruence|lia]. Qed.
Lemma range_grows s s' k : grows s s' -> sk_in_range s k -> sk_in_range s' k.
Proof. intros [A1 A2]. apply range_mono; assumption. Qed.

Lemma j_keeps s s' : keeps s s' -> J s -> J s'.
Proof.
  intros K [H HJ]. split; [eapply sinv_keeps; eauto|].
  destruct K as (_ & _ & _ & _ & A5 & _ & _ & A9). rewrite A5. intros E. specialize (HJ E).
  destruct A9 as [[_ ->]|Au]; [exact HJ|]. rewrite HJ in Au. cbn [unroll_nb] in Au. congruence.
Qed.
Lemma j_ext s s' : same_skel s s' -> J s -> J s'.
Proof.
  intros K [H HJ]. split; [eapply sinv_ext; eauto|].
  destruct K as (_ & _ & E3 & _ & _ & _ & E7 & _). rewrite E3, E7. exact HJ.
Qed.

(* ---------------- fetch_* ---------------- *)
Lemma wp_fetch_stream_start s : J s -> sc_stream_start s = false -> wp fetch_stream_start post_si s.
Proof.
  intros [(I1 & I2 & I3) HJ] E. rewrite E in I1. destruct I1 as [EK EF]. specialize (HJ E).
  unfold fetch_stream_start. wget. apply wp_put. unfold post_si.
  apply si_intro; sproj.
  - reflexivity.
  - rewrite EK, EF. reflexivity.
  - rewrite HJ. reflexivity.
  - rewrite EK. constructor; [intros H; discriminate H|constructor].
Qed.

Lemma wp_fetch_stream_end s : SI s -> wp fetch_stream_end post_si s.
Proof.
  intros HI. unfold fetch_stream_end. sks. wget.
  destruct (existsb _ _); [apply wp_fail|].
  match goal with |- wp (bind (put ?x) _) _ _ => assert (HI2 : SI x) end.
  { apply si_set_sks; [assumption|apply map_length|]. apply Forall_forall. intros k Hk.
    apply in_map_iff in Hk. destruct Hk as [k0 [<- _]]. apply (range_clr s0 k0). }
  apply wp_bind, wp_put. skfin.
Qed.

Lemma wp_fetch_directive F s : SI s -> 1 <= bl s -> wp (fetch_directive B F) post_si s.
Proof.
  intros HI HB. unfold fetch_directive. sks. sks. sks.
  wb. eapply use_spec; [apply H_dir; lia|]. kstepv. fin.
Qed.

Lemma wp_fetch_tag F s : SI s -> wp (fetch_tag B F) post_si s.
Proof.
  intros HI. unfold fetch_tag. sks. sks.
  wb. eapply use_spec; [apply H_tag|]. kstepv. fin.
Qed.

Lemma wp_fetch_anchor F alias s : SI s -> 1 <= bl s -> wp (fetch_anchor B F alias) post_si s.
Proof.
  intros HI HB. unfold fetch_anchor. sks. sks.
  wb. eapply use_spec; [apply H_anchor; lia|]. kstepv. fin.
Qed.

Lemma wp_fetch_flow_collection_start F seq s : SI s -> wp (fetch_flow_collection_start B F seq) post_si s.
Proof.
  intros HI. unfold fetch_flow_collection_start. sks. sks. sks. sks. wmark.
  wb. apply (wp_skip_non_blank cap cap_ge). kstep.
  sks.
  wb. eapply use_spec; [apply H_ws|]. kstepv.
  wmark. fin.
Qed.

Lemma wp_fetch_flow_collection_end F seq s : SI s -> wp (fetch_flow_collection_end B F seq) post_si s.
Proof.
  intros HI. unfold fetch_flow_collection_end. sks. sks. sks. sks. sks. sks. wmark.
  wb. apply (wp_skip_non_blank cap cap_ge). kstep.
  wb. eapply use_spec; [apply H_ws|]. kstepv.
  sks. wmark. fin.
Qed.

Lemma wp_fetch_flow_entry F s : SI s -> wp (fetch_flow_entry B F) post_si s.
Proof.
  intros HI. unfold fetch_flow_entry. sks. sks. wmark. sks.
  wb. apply (wp_skip_non_blank cap cap_ge). kstep.
  wb. eapply use_spec; [apply H_ws|]. kstepv.
  wmark. fin.
Qed.

Lemma wp_fetch_block_entry F s : SI s -> wp (fetch_block_entry B F) post_si s.
Proof.
  intros HI. unfold fetch_block_entry. wget.
  dif; [apply wp_fail|]. dif; [apply wp_fail|].
  wb. apply wp_pure.
  { destruct (last _ _) as [sp tk]. destruct tk; try (apply wp_ret; reflexivity); (dif; [apply wp_fail|apply wp_ret; reflexivity]). }
  intros _. cbv zeta.
  wb. apply (wp_skip_non_blank cap cap_ge). kstep.
  sks.
  wb. eapply use_spec; [apply H_ws|]. kstepv.
  wb. apply (wp_look cap cap_ge); [lia|]. intros s3 Hs3 B3 _ _.
  assert (HI3 : SI s3) by (eapply si_keeps; [apply keeps_input; exact Hs3|assumption]).
  wb. apply (wp_peek cap cap_ge); [lia|]. intros c.
  wb. apply (wp_peekn cap cap_ge); [lia|]. intros nc. cbv beta.
  dif; [wmark; apply wp_fail|].
  wb. eapply use_spec; [apply H_ws|]. kstepv.
  wb. apply (wp_look cap cap_ge); [lia|]. intros s5 Hs5 B5 _ _.
  assert (HI5 : SI s5) by (eapply si_keeps; [apply keeps_input; exact Hs5|assumption]).
  wb. apply (wp_peek cap cap_ge); [lia|]. intros c'. cbv beta.
  sks. sks. sks. wmark. fin.
Qed.

Lemma wp_fetch_document_indicator t s : SI s -> 3 <= bl s -> wp (fetch_document_indicator B t) post_si s.
Proof.
  intros HI HB. unfold fetch_document_indicator. sks. sks. sks. wmark.
  wb. apply (wp_skip_n_non_blank cap cap_ge); [lia|]. kstep.
  wmark. fin.
Qed.

Lemma wp_fetch_block_scalar F literal s : SI s -> 1 <= bl s -> wp (fetch_block_scalar B F literal) post_si s.
Proof.
  intros HI HB. unfold fetch_block_scalar. sks. sks.
  wb. eapply use_spec; [apply H_block; lia|]. kstepv. fin.
Qed.

Lemma wp_fetch_flow_scalar F single s : SI s -> 1 <= bl s -> wp (fetch_flow_scalar B F single) post_si s.
Proof.
  intros HI HB. unfold fetch_flow_scalar. sks. sks.
  wb. eapply use_spec; [apply H_flow; lia|]. kstepv.
  wb. eapply use_spec; [apply H_next|]. kstepv.
  sks. fin.
Qed.

Lemma wp_fetch_plain_scalar F s : SI s -> wp (fetch_plain_scalar B F) post_si s.
Proof.
  intros HI. unfold fetch_plain_scalar. sks. sks.
  wb. eapply use_spec; [apply H_plain|]. kstepv. fin.
Qed.

Lemma wp_fetch_key F s : SI s -> wp (fetch_key B F) post_si s.
Proof.
  intros HI. unfold fetch_key. wget. cbv zeta. sks. sks. sks.
  wb. apply (wp_skip_non_blank cap cap_ge). kstep.
  wb. eapply use_spec; [apply H_yws|]. kstepv.
  wb. apply (wp_peek cap cap_ge); [lia|]. intros c. cbv beta.
  dif; [wmark; apply wp_fail|]. wmark. fin.
Qed.

(* panic 117: the simple-key stack is not empty; panic 118 / 111 / 112: the token number of a possible key lies
   in the queue *)
Lemma wp_fetch_value F s : SI s -> wp (fetch_value B F) post_si s.
Proof.
  intros HI. unfold fetch_value. wget.
  destruct (si_sks_nonempty _ HI) as (sk & r0 & EK). rewrite EK. wb. apply wp_ret. cbv beta zeta.
  assert (HR : sk_in_range s sk).
  { destruct (si_elim _ HI) as (_ & _ & _ & I3). rewrite EK in I3. inversion I3; assumption. }
  match goal with |- context [if ?a then modify _ else ret tt] => generalize a; intros ifm end.
  sks.
  wb. apply (wp_skip_non_blank cap cap_ge). kstep.
  wb. apply wp_mono with (Q := fun _ s2 => keeps s1 s2).
  { dif; [|apply wp_ret, keeps_refl].
    apply (wp_look_ch cap cap_ge). intros c s2 Hs2 B2 _. apply keeps_input; exact Hs2. }
  intros c s2 K2. cbv beta.
  assert (HI2 : SI s2) by (eapply si_keeps; [exact K2|assumption]).
  wb. apply wp_mono with (Q := fun _ s' => keeps s2 s').
  { dif; [|apply wp_ret, keeps_refl].
    wb. eapply use_spec; [apply H_ws|]. intros tw s3 K3 B3. cbv beta.
    dif; [|apply wp_ret; exact K3].
    wb. apply (wp_peek cap cap_ge); [lia|]. intros c'. cbv beta.
    dif; [wmark; apply wp_fail|apply wp_ret; exact K3]. }
  intros _ s3 K3. cbv beta.
  assert (HI3 : SI s3) by (eapply si_keeps; [exact K3|assumption]).
  assert (G : grows s s3).
  { eapply grows_trans; [apply grows_fr; eassumption|].
    eapply grows_trans; [apply grows_keeps; eassumption|].
    eapply grows_trans; [apply grows_keeps; exact K2|apply grows_keeps; exact K3]. }
  destruct (sk_possible sk) eqn:EP.
  - destruct (range_grows _ _ _ G HR EP) as [L1 L2].
    wget.
    wb. destruct (sk_token_number sk <? sc_tokens_parsed s3)%N eqn:EN; [apply N.ltb_lt in EN; lia|].
    apply wp_ret. cbv beta.
    wb. apply wp_insert_token; [assumption|lia|]. intros s4 HI4 F4. cbv beta.
    destruct F4 as (_ & T4 & L4).
    wb. apply wp_mono with (Q := fun _ s' => SI s' /\ fr s4 s').
    { dif; [|apply wp_ret; split; [assumption|apply fr_refl]].
      dif; [apply wp_fail|]. dif; [|apply wp_ret; split; [assumption|apply fr_refl]].
      apply wp_insert_token; [assumption|lia|]. intros; split; assumption. }
    intros _ s5 [HI5 (_ & T5 & L5)]. cbv beta.
    wb. apply wp_roll_indent; [assumption| |].
    { intros n Hn. injection Hn as <-. lia. }
    intros s6 HI6 _. cbv beta. skfin.
  - skfin.
Qed.

Lemma wp_fetch_flow_value F s : SI s -> 2 <= bl s -> wp (fetch_flow_value B F) post_si s.
Proof.
  intros HI HB. unfold fetch_flow_value.
  wb. apply (wp_peekn cap cap_ge); [lia|]. intros nc. wget.
  dif; [apply wp_fail|]. apply wp_fetch_value; assumption.
Qed.

(* ---------------- fetch_next_token ---------------- *)
Lemma wp_fetch_next_token F s : J s -> wp (fetch_next_token B F) post_si s.
Proof.
  intros HJ. unfold fetch_next_token.
  wb. apply (wp_look cap cap_ge); [lia|]. intros s1 Hs1 _ _ _.
  assert (HJ1 : J s1) by (eapply j_keeps; [apply keeps_input; exact Hs1|exact HJ]).
  wget.
  destruct (sc_stream_start s1) eqn:ES; cbn [negb]; [|apply wp_fetch_stream_start; assumption].
  assert (HI1 : SI s1) by (split; [apply HJ1|exact ES]).
  wb. eapply use_spec; [apply H_next|]. kstepv.
  sks. wmark. sks.
  wb. apply (wp_look cap cap_ge); [lia|]. intros s5 Hs5 B5 _ _.
  assert (HI5 : SI s5) by (eapply si_keeps; [apply keeps_input; exact Hs5|assumption]).
  wb. apply (wp_next_is cap cap_ge); [lia|]. intros z. cbv beta.
  destruct z; [apply wp_fetch_stream_end; assumption|].
  wget.
  wb. apply (wp_peek cap cap_ge); [lia|]. intros c0. cbv beta.
  wb. apply wp_pure.
  { repeat dif; try (apply wp_ret; reflexivity).
    apply (wp_next_is_document_start cap cap_ge); [lia|]. intros; reflexivity. }
  intros dstart.
  wb. apply wp_pure.
  { repeat dif; try (apply wp_ret; reflexivity).
    apply (wp_next_is_document_end cap cap_ge); [lia|]. intros; reflexivity. }
  intros dend.
  dif; [apply wp_fetch_directive; [assumption|lia]|].
  destruct dstart; [apply wp_fetch_document_indicator; [assumption|lia]|].
  destruct dend.
  { wb. eapply wp_mono; [apply wp_fetch_document_indicator; [assumption|lia]|].
    intros u6 s6 HI6. unfold post_si in HI6. cbv beta.
    wb. eapply use_spec; [apply H_ws|]. kstepv.
    wb. apply (wp_next_is cap cap_ge); [lia|]. intros b. cbv beta.
    destruct b; [apply wp_ret; assumption|wmark; apply wp_fail]. }
  dif; [apply wp_fail|].
  wb. apply (wp_peek cap cap_ge); [lia|]. intros c.
  wb. apply (wp_peekn cap cap_ge); [lia|]. intros nc. cbv beta zeta.
  repeat dif;
    first [ apply wp_fail
          | apply wp_fetch_flow_collection_start; assumption
          | apply wp_fetch_flow_collection_end; assumption
          | apply wp_fetch_flow_entry; assumption
          | apply wp_fetch_block_entry; assumption
          | apply wp_fetch_key; assumption
          | apply wp_fetch_value; assumption
          | apply wp_fetch_flow_value; [assumption|lia]
          | apply wp_fetch_anchor; [assumption|lia]
          | apply wp_fetch_tag; assumption
          | apply wp_fetch_block_scalar; [assumption|lia]
          | apply wp_fetch_flow_scalar; [assumption|lia]
          | apply wp_fetch_plain_scalar; assumption ].
Qed.

(* ---------------- fetch_more_tokens, next_token, scan_all ---------------- *)
Lemma wp_fetch_more_tokens F : forall fuel s,
  J s -> wp (fetch_more_tokens B F fuel) (fun _ s' => J s' /\ nokey s') s.
Proof.
  induction fuel as [|fuel IH]; intros s HJ; cbn [fetch_more_tokens]; [apply wp_oof|].
  wget.
  wb. apply wp_mono with (Q := fun (b : bool) s' => J s' /\ (b = false -> nokey s')).
  - destruct (sc_tokens s) as [|t r]; [apply wp_ret; split; [exact HJ|discriminate]|].
    wb. apply wp_stale_J; [exact HJ|]. intros s1 HJ1 _ _ _. cbv beta. wget. apply wp_ret.
    split; [exact HJ1|]. intros EX k Hk Hp Heq.
    apply Bool.not_true_iff_false in EX. apply EX. apply existsb_exists. exists k. split; [exact Hk|].
    rewrite Hp, Heq, N.eqb_refl. reflexivity.
  - intros need s1 [HJ1 HN]. cbv beta. destruct need.
    + wb. eapply wp_mono; [apply wp_fetch_next_token; exact HJ1|]. intros u2 s2 HI2. unfold post_si in HI2. cbv beta.
      apply IH. apply si_J. exact HI2.
    + apply wp_modify. split; [eapply j_ext; [|exact HJ1]; skel_triv|]. exact (HN eq_refl).
Qed.

Lemma sinv'_ext s s' :
  same_skel s s' -> sc_token_available s' = sc_token_available s -> SInv' s -> SInv' s'.
Proof.
  intros K ET [HJ HT]. split; [eapply j_ext; eauto|]. rewrite ET. intros E. specialize (HT E).
  destruct K as (E1 & _ & _ & E4 & _). unfold nokey. rewrite E1, E4. exact HT.
Qed.

Lemma wp_next_token F s : SInv' s -> wp (next_token B F) (fun _ s' => SInv' s') s.
Proof.
  intros [HJ HT]. unfold next_token. wget.
  destruct (sc_stream_end s); [apply wp_ret; split; assumption|].
  wb. apply wp_mono with (Q := fun _ s' => J s' /\ nokey s').
  { destruct (sc_token_available s); [apply wp_ret; split; [exact HJ|apply HT; reflexivity]|].
    apply wp_fetch_more_tokens. exact HJ. }
  intros _ s1 [HJ1 HN1]. cbv beta. wget.
  destruct (sc_tokens s1) as [|t r] eqn:ETK; [apply wp_fail|].
  match goal with |- wp (bind (put ?x) _) _ _ => assert (H2 : SInv' x); [|set (s2 := x) in *] end.
  { destruct HJ1 as [(I1 & I2 & I3) HJ1]. split; [split|sproj; discriminate].
    - unfold SInv; sproj. split; [exact I1|]. split; [exact I2|].
      apply Forall_forall. intros k Hk. rewrite Forall_forall in I3. specialize (I3 k Hk).
      intros Hp. specialize (I3 Hp). specialize (HN1 k Hk Hp). sproj. rewrite ETK in I3. cbn [length] in I3. lia.
    - sproj. exact HJ1. }
  apply wp_bind, wp_put.
  wb. apply wp_mono with (Q := fun _ s' => SInv' s').
  { destruct (snd t); try (apply wp_ret; exact H2).
    all: apply wp_modify; eapply sinv'_ext; [| |exact H2]; [skel_triv|reflexivity]. }
  intros _ s3 H3. cbv beta. apply wp_ret. exact H3.
Qed.

Theorem scan_all_never_panics : forall F fuel s acc n,
  SInv' s -> snd (scan_all B F fuel s acc) <> SPanic n.
Proof.
  intros F. induction fuel as [|fuel IH]; intros s acc n H; cbn [scan_all]; [cbn [snd]; discriminate|].
  pose proof (wp_next_token F s H) as W. unfold wp in W.
  destruct (next_token B F s) as [[[t|] s']| | |]; cbn [snd]; try discriminate; [apply IH; exact W|contradiction].
Qed.

Lemma sinv'_init (i : bufin) : SInv' (init_sc i).
Proof.
  unfold SInv', J, SInv, init_sc; cbn.
  repeat split; auto; discriminate.
Qed.

Theorem scan_init_never_panics : forall F fuel input n,
  snd (scan_all B F fuel (init_sc {| b_buf := []; b_rest := input |}) []) <> SPanic n.
Proof. intros. apply scan_all_never_panics, sinv'_init. Qed.

Theorem run_buf_never_panics : forall input n, snd (run_buf cap input) <> PPanic n.
Proof.
  intros input n. unfold run_buf. cbv zeta.
  pose proof (scan_init_never_panics (2 * length input + 10) (4 * (2 * length input + 10) + 20) input) as HS.
  change (buf_ops cap) with B.
  destruct (scan_all B _ _ _ _) as [toks se]. cbn [snd] in HS.
  pose proof (parser_run_wellformed toks false se (4 * (4 * (2 * length input + 10) + 20) + 40)) as [_ HE].
  unfold init_parser in HE. intros EP. rewrite EP in HE. cbn [end_ok] in HE. exact (HS n HE).
Qed.

End Fetch.

Print Assumptions scan_all_never_panics.
Print Assumptions scan_init_never_panics.
Print Assumptions run_buf_never_panics.
