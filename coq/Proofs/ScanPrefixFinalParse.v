(* C15, parser level: the events WITHOUT spans depend on the tokens only up to their spans.

   The parser model (Parser.v) never looks inside a marker (ScanShiftParse.v, ScanBrkParse.v): every parser function
   commutes with a map on markers.  Here the map is the ERASURE [em _ = mk0] of every marker; because the commutation
   is an EQUATION  state_machine (epa p) = mres eep (state_machine p),  it can be read backwards: two parsers with the
   same erasure take the same steps, and their events have the same erasure.

     state_machine_erase   state_machine (epa p) = mres eep (state_machine p)
     steps_lift            steps p evs q -> epa p = epa p' -> exists evs' q', steps p' evs' q' /\ same erasures
     accepts_up_to_spans   accepts toks keep evs -> map etk toks' = map etk toks ->
                           exists evs', accepts toks' keep evs' /\ evs_of evs' = evs_of evs

   (The commutation lemmas are those of ScanShiftParse.v, whose proofs are independent of what [em] does.) *)
From Coq Require Import List NArith Bool Arith Lia.
Import ListNotations.
Require Import Parser SBase SPrim SDir SScalar SFetch Pipe DocRun.
Local Open Scope nat_scope.

Section ParseErase.

Definition em (m : marker) : marker := mk0.
Definition esp (s : span) : span := {| sp_start := em (sp_start s); sp_end := em (sp_end s) |}.
Definition etk (t : token) : token := (esp (fst t), snd t).
Definition est (s : pstate) : pstate :=
  match s with SFlowSequenceEntryMappingEnd m => SFlowSequenceEntryMappingEnd (em m) | s => s end.
Definition epa (p : parser) : parser :=
  {| p_toks := map etk (p_toks p); p_token := option_map etk (p_token p);
     p_states := map est (p_states p); p_state := est (p_state p);
     p_anchors := p_anchors p; p_anchor_id := p_anchor_id p; p_tags := p_tags p; p_keep_tags := p_keep_tags p |}.
Definition eev (v : event * span) : event * span := (fst v, esp (snd v)).
(* on the values the parser functions return *)
Definition ept (v : token * parser) : token * parser := (etk (fst v), epa (snd v)).
Definition eep (v : (event * span) * parser) : (event * span) * parser := (eev (fst v), epa (snd v)).
Definition e3 (v : N * option tag * parser) : N * option tag * parser := (fst v, epa (snd v)).
Definition mres {A B} (f : A -> B) (r : Parser.res A) : Parser.res B :=
  match r with
  | Parser.Ok v => Parser.Ok (f v)
  | Parser.Err PErrScan => Parser.Err PErrScan
  | Parser.Err (PErr s m) => Parser.Err (PErr s (em m))
  | Parser.Panic n => Parser.Panic n
  end.

(* ================================================================================================ *)
(* Every parser function commutes with the shift                                                    *)
(* ================================================================================================ *)
Definition rc {A B} (f : A -> B) (r : Parser.res A) (r' : Parser.res B) : Prop := r' = mres f r.

Lemma rc_bind {T T' U U'} (e1 : T -> T') (e2 : U -> U') r r' (k : T -> Parser.res U) (k' : T' -> Parser.res U') :
  rc e1 r r' -> (forall v, rc e2 (k v) (k' (e1 v))) ->
  rc e2 (match r with Parser.Ok v => k v | Parser.Err e => Parser.Err e | Parser.Panic n => Parser.Panic n end)
        (match r' with Parser.Ok v => k' v | Parser.Err e => Parser.Err e | Parser.Panic n => Parser.Panic n end).
Proof. unfold rc. intros -> HK. destruct r as [v|[|s m]|n]; cbn [mres]; auto. Qed.

Lemma peek_comm p : rc ept (Parser.peek p) (Parser.peek (epa p)).
Proof.
  destruct p as [toks tok sts st an aid tg kt]. unfold rc, Parser.peek, epa. cbn [p_token p_toks].
  destruct tok as [t|]; [reflexivity|]. cbn [option_map]. destruct toks as [|t r]; reflexivity.
Qed.
Lemma pop_state_comm p : rc epa (pop_state p) (pop_state (epa p)).
Proof.
  destruct p as [toks tok sts st an aid tg kt]. unfold rc, pop_state, epa. cbn [p_states]. destruct sts; reflexivity.
Qed.
Lemma resolve_tag_comm p m h s : rc (fun v : tag => v) (resolve_tag p m h s) (resolve_tag (epa p) (em m) h s).
Proof.
  unfold rc, resolve_tag. cbn [epa p_tags].
  repeat match goal with
         | |- context [if ?b then _ else _] => destruct b
         | |- context [match assoc ?a ?b with _ => _ end] => destruct (assoc a b)
         end; reflexivity.
Qed.

(* symbolic execution of both sides *)
Ltac cnorm :=
  unfold register_anchor, empty_or_err;
  cbn [etk eev ept eep e3 fst snd
       p_toks p_token p_states p_state p_anchors p_anchor_id p_tags p_keep_tags
       skip set_tok set_state set_states set_anchors set_tags push_state];
  repeat match goal with
         | |- context [p_anchors (epa ?q)] => change (p_anchors (epa q)) with (p_anchors q)
         | |- context [p_anchor_id (epa ?q)] => change (p_anchor_id (epa q)) with (p_anchor_id q)
         | |- context [p_tags (epa ?q)] => change (p_tags (epa q)) with (p_tags q)
         | |- context [p_keep_tags (epa ?q)] => change (p_keep_tags (epa q)) with (p_keep_tags q)
         end.
Ltac cleaf :=
  first [ reflexivity
        | match goal with |- context [if ?b then _ else _] => destruct b end; reflexivity ].
Create HintDb pcomm.
Ltac cstep :=
  cnorm;
  lazymatch goal with
  | |- rc _ (Parser.Ok _) _ => cleaf
  | |- rc _ (Parser.Err _) _ => reflexivity
  | |- rc _ (Parser.Panic _) _ => reflexivity
  | |- rc _ (Parser.peek ?p) _ => exact (peek_comm p)
  | |- rc _ (pop_state ?p) _ => exact (pop_state_comm p)
  | |- rc _ (resolve_tag ?p ?m ?h ?s) _ => exact (resolve_tag_comm p m h s)
  | |- rc _ (match ?r with Parser.Ok _ => _ | Parser.Err _ => _ | Parser.Panic _ => _ end) _ =>
      let T := type of r in
      lazymatch T with
      | Parser.res parser => eapply (rc_bind epa)
      | Parser.res (token * parser)%type => eapply (rc_bind ept)
      | Parser.res ((event * span) * parser)%type => eapply (rc_bind eep)
      | Parser.res (N * option tag * parser)%type => eapply (rc_bind e3)
      | Parser.res tag => eapply (rc_bind (fun v : tag => v))
      end;
      [ | let v := fresh "v" in intros v;
          repeat match goal with x : (_ * _)%type |- _ => destruct x end ]
  | |- rc _ (match (match ?t with _ => _ end) with _ => _ end) _ => destruct t
  | |- rc _ (match ?t with _ => _ end) _ => destruct t
  | |- rc _ (if ?b then _ else _) _ => destruct b
  | |- _ => solve [auto with pcomm nocore]
  end.
Ltac pcomm := repeat cstep.

Lemma node_props_comm p t : rc e3 (node_props p t) (node_props (epa p) (etk t)).
Proof. unfold node_props. destruct t as [sp k]. pcomm. Qed.
#[local] Hint Extern 0 (rc _ (node_props ?p ?t) _) => exact (node_props_comm p t) : pcomm.
Lemma node_content_comm p aid tg b i : rc eep (node_content p aid tg b i) (node_content (epa p) aid tg b i).
Proof. unfold node_content. pcomm. Qed.
#[local] Hint Extern 0 (rc _ (node_content ?p ?a ?t ?b ?i) _) => exact (node_content_comm p a t b i) : pcomm.
Lemma parse_node_comm p b i : rc eep (parse_node p b i) (parse_node (epa p) b i).
Proof. unfold parse_node. pcomm. Qed.
#[local] Hint Extern 0 (rc _ (parse_node ?p ?b ?i) _) => exact (parse_node_comm p b i) : pcomm.

Lemma stream_start_comm p : rc eep (stream_start p) (stream_start (epa p)).
Proof. unfold stream_start. pcomm. Qed.

(* the two fuelled loops: the fuel is computed from the length of the token list, which the erasure keeps *)
Lemma process_directives_comm : forall f p vs tags,
  rc epa (process_directives f p vs tags) (process_directives f (epa p) vs tags).
Proof.
  induction f as [|f IH]; intros p vs tags; [reflexivity|]. cbn [process_directives].
  eapply (rc_bind ept); [exact (peek_comm p)|]. intros [[sp k] q]. cnorm.
  destruct k; try reflexivity.
  - destruct vs; [reflexivity|]. exact (IH (skip q) true tags).
  - match goal with |- rc _ (if ?b then _ else _) _ => destruct b end; [reflexivity|]. exact (IH (skip q) vs _).
Qed.
Lemma skip_document_ends_comm : forall f p, rc epa (skip_document_ends f p) (skip_document_ends f (epa p)).
Proof.
  induction f as [|f IH]; intros p; [reflexivity|]. cbn [skip_document_ends].
  eapply (rc_bind ept); [exact (peek_comm p)|]. intros [[sp k] q]. cnorm.
  destruct k; try reflexivity. exact (IH (skip q)).
Qed.
Lemma len_toks_epa p : length (p_toks (epa p)) = length (p_toks p).
Proof. unfold epa. cbn [p_toks]. apply map_length. Qed.
Lemma process_directives_call p vs tags :
  rc epa (process_directives (S (S (length (p_toks p)))) p vs tags)
         (process_directives (S (S (length (p_toks (epa p))))) (epa p) vs tags).
Proof. rewrite len_toks_epa. apply process_directives_comm. Qed.
Lemma skip_document_ends_call p :
  rc epa (skip_document_ends (S (S (length (p_toks p)))) p)
         (skip_document_ends (S (S (length (p_toks (epa p))))) (epa p)).
Proof. rewrite len_toks_epa. apply skip_document_ends_comm. Qed.
#[local] Hint Extern 0 (rc _ (process_directives _ ?p ?vs ?tags) _) => exact (process_directives_call p vs tags) : pcomm.
#[local] Hint Extern 0 (rc _ (skip_document_ends _ ?p) _) => exact (skip_document_ends_call p) : pcomm.

Lemma explicit_document_start_comm p : rc eep (explicit_document_start p) (explicit_document_start (epa p)).
Proof. unfold explicit_document_start. pcomm. Qed.
#[local] Hint Extern 0 (rc _ (explicit_document_start ?p) _) => exact (explicit_document_start_comm p) : pcomm.
Lemma document_start_comm p i : rc eep (document_start p i) (document_start (epa p) i).
Proof. unfold document_start. pcomm. Qed.
Lemma document_content_comm p : rc eep (document_content p) (document_content (epa p)).
Proof. unfold document_content. pcomm. Qed.
Lemma document_end_comm p : rc eep (document_end p) (document_end (epa p)).
Proof.
  unfold document_end. eapply (rc_bind ept); [exact (peek_comm p)|]. intros [[sp k] q].
  destruct k; cnorm; destruct (p_keep_tags q); pcomm.
Qed.
Lemma block_mapping_key_comm p b : rc eep (block_mapping_key p b) (block_mapping_key (epa p) b).
Proof. unfold block_mapping_key. pcomm. Qed.
Lemma block_mapping_value_comm p : rc eep (block_mapping_value p) (block_mapping_value (epa p)).
Proof. unfold block_mapping_value. pcomm. Qed.
Lemma flow_mapping_key_comm p b : rc eep (flow_mapping_key p b) (flow_mapping_key (epa p) b).
Proof. unfold flow_mapping_key. pcomm. Qed.
Lemma flow_mapping_value_comm p b : rc eep (flow_mapping_value p b) (flow_mapping_value (epa p) b).
Proof. unfold flow_mapping_value. pcomm. Qed.
Lemma flow_sequence_entry_comm p b : rc eep (flow_sequence_entry p b) (flow_sequence_entry (epa p) b).
Proof. unfold flow_sequence_entry. pcomm. Qed.
Lemma indentless_sequence_entry_comm p :
  rc eep (indentless_sequence_entry p) (indentless_sequence_entry (epa p)).
Proof. unfold indentless_sequence_entry. pcomm. Qed.
Lemma block_sequence_entry_comm p b : rc eep (block_sequence_entry p b) (block_sequence_entry (epa p) b).
Proof. unfold block_sequence_entry. pcomm. Qed.
Lemma flow_sequence_entry_mapping_key_comm p :
  rc eep (flow_sequence_entry_mapping_key p) (flow_sequence_entry_mapping_key (epa p)).
Proof. unfold flow_sequence_entry_mapping_key. pcomm. Qed.
Lemma flow_sequence_entry_mapping_value_comm p :
  rc eep (flow_sequence_entry_mapping_value p) (flow_sequence_entry_mapping_value (epa p)).
Proof. unfold flow_sequence_entry_mapping_value. pcomm. Qed.
Lemma flow_sequence_entry_mapping_end_comm p m :
  rc eep (flow_sequence_entry_mapping_end p m) (flow_sequence_entry_mapping_end (epa p) (em m)).
Proof. reflexivity. Qed.

Theorem state_machine_comm p : rc eep (state_machine p) (state_machine (epa p)).
Proof.
  unfold state_machine. cbn [epa p_state]. destruct (p_state p); cbn [est].
  - apply stream_start_comm.
  - apply document_start_comm.
  - apply document_start_comm.
  - apply document_content_comm.
  - apply document_end_comm.
  - apply parse_node_comm.
  - apply block_sequence_entry_comm.
  - apply block_sequence_entry_comm.
  - apply indentless_sequence_entry_comm.
  - apply block_mapping_key_comm.
  - apply block_mapping_key_comm.
  - apply block_mapping_value_comm.
  - apply flow_sequence_entry_comm.
  - apply flow_sequence_entry_comm.
  - apply flow_sequence_entry_mapping_key_comm.
  - apply flow_sequence_entry_mapping_value_comm.
  - apply flow_sequence_entry_mapping_end_comm.
  - apply flow_mapping_key_comm.
  - apply flow_mapping_key_comm.
  - apply flow_mapping_value_comm.
  - apply flow_mapping_value_comm.
  - reflexivity.
Qed.

(* ================================================================================================ *)
(* Runs                                                                                             *)
(* ================================================================================================ *)
Theorem state_machine_erase p : state_machine (epa p) = mres eep (state_machine p).
Proof. exact (state_machine_comm p). Qed.

Lemma est_end s : est s = SEnd -> s = SEnd.
Proof. destruct s; cbn [est]; intros H; first [exact H|discriminate H]. Qed.

Lemma steps_lift p evs q : steps p evs q -> forall p', epa p' = epa p ->
  exists evs' q', steps p' evs' q' /\ map eev evs' = map eev evs /\ epa q' = epa q.
Proof.
  induction 1 as [p|p e p1 l p2 H1 _ IH]; intros p' EP.
  - exists [], p'. split; [constructor|]. split; [reflexivity|exact EP].
  - pose proof (state_machine_erase p) as C1. pose proof (state_machine_erase p') as C2.
    rewrite EP, C1, H1 in C2. cbn [mres] in C2.
    destruct (state_machine p') as [[e' p1']|[|s m]|n] eqn:E'; cbn [mres] in C2; try discriminate C2.
    assert (EE : eep (e, p1) = eep (e', p1')) by congruence.
    assert (Ee : eev e = eev e') by exact (f_equal fst EE).
    assert (Ep : epa p1 = epa p1') by exact (f_equal snd EE).
    destruct (IH p1' (eq_sym Ep)) as (evs' & q' & HS & HM & HQ).
    exists (e' :: evs'), q'. split; [econstructor; [exact E'|exact HS]|]. split; [|exact HQ].
    cbn [map]. rewrite HM, Ee. reflexivity.
Qed.

Lemma epa_start toks keep : epa (start_parser toks keep) = start_parser (map etk toks) keep.
Proof. reflexivity. Qed.
Lemma evs_of_eev l : evs_of (map eev l) = evs_of l.
Proof. unfold evs_of. rewrite map_map. reflexivity. Qed.

Theorem accepts_up_to_spans toks toks' keep evs :
  accepts toks keep evs -> map etk toks' = map etk toks ->
  exists evs', accepts toks' keep evs' /\ evs_of evs' = evs_of evs.
Proof.
  intros (q & HS & HE) ET.
  destruct (steps_lift _ _ _ HS (start_parser toks' keep)) as (evs' & q' & HS' & HM & HQ).
  { rewrite !epa_start, ET. reflexivity. }
  exists evs'. split.
  - exists q'. split; [exact HS'|]. apply est_end.
    assert (EQ : p_state (epa q') = p_state (epa q)) by (rewrite HQ; reflexivity).
    cbn [epa p_state] in EQ. rewrite EQ, HE. reflexivity.
  - rewrite <- (evs_of_eev evs'), HM, evs_of_eev. reflexivity.
Qed.
End ParseErase.

Print Assumptions state_machine_erase.
Print Assumptions accepts_up_to_spans.
