(* C15 / C11 / C06 — the scanner's flow level is EXACTLY the bracket depth of the token stream it produces, for every
   input (any Input back-end, any fuel), unless that stream is already beyond repair:

   Invariant [Q] over (tokens delivered ++ tokens queued) =: L, carried through every function of the scanner model:
     (Exact)  zs L = flow_level + #(ImInside entries of sc_ifms)     [zs: +1 at every FlowSequenceStart / FlowMappingStart
                                                                      token, synthetic or not, -1 at every End token, in Z]
              and |sc_ifms| = flow_level;
     (Dead)   or some prefix of L of length P has a NEGATIVE sum, and every possible simple key is saved at a position >= P
              - decrease_flow_level saturates at 0: a ']' / '}' at flow level 0 is queued without lowering the level; at
              that moment the only simple-key slot has been cleared by remove_simple_key, the token is the last of L, and
              tokens are INSERTED into the queue only at the position of a possible simple key: the prefix never changes;
     (Pend)   between that decrease_flow_level and the push of its token.
   DepthScan.v's [G] is the inequality "<="; its frame lemmas [neu_*] allow the insertion of End tokens and cannot be
   reused for an equation, so the walk over Model/SFetch.v is redone here on the pattern of DepthNest.v ([Tr], [Keepk],
   [Fr] from DocScan.v / ScanFrame.v; the character-level scanners are frames).

     scan_flow_exact             a scan that ends properly ends in a state with [QV] over the tokens delivered
     balanced_flow_level_zero    ... hence: if the delivered tokens are bracket-balanced (C06's [flow_balanced]), the flow
                                 level at the end is 0 *)
From Coq Require Import List NArith ZArith Bool Lia PeanoNat.
Import ListNotations.
Require Import Parser SBase SPrim SDir SScalar SFetch Drivers Depth DepthTok ScanFrame DocScan DepthNest LazyScan.
Require RejectProofs.
Local Open Scope nat_scope.

(* ------------------------------------------------------------------------------------------------ *)
(* 1. pure facts                                                                                      *)
(* ------------------------------------------------------------------------------------------------ *)
Definition wk_tok (k : tok) : Z :=
  match k with
  | TFlowSequenceStart | TFlowMappingStart => 1
  | TFlowSequenceEnd | TFlowMappingEnd => -1
  | _ => 0
  end%Z.
Definition wt (t : token) : Z := wk_tok (snd t).
Fixpoint zs (l : list token) : Z := match l with [] => 0%Z | t :: r => (wt t + zs r)%Z end.
Lemma zs_app a b : zs (a ++ b) = (zs a + zs b)%Z.
Proof. induction a as [|x a IH]; cbn [zs app]; [reflexivity|rewrite IH; lia]. Qed.
Lemma firstn_pre {A} P (a b : list A) : P <= length a -> firstn P (a ++ b) = firstn P a.
Proof. intros H. rewrite firstn_app. replace (P - length a) with 0 by lia. cbn [firstn]. apply app_nil_r. Qed.

Definition kge (P : nat) (sks : list simple_key) : Prop := Forall (fun k => sk_possible k = true -> P <= kpos k) sks.
Lemma wk_kge P sks sks' : wk sks sks' -> kge P sks -> kge P sks'.
Proof.
  induction 1 as [|k k' r r' [H1 H2] _ IH]; intros H; [constructor|]. inversion H as [|x y Hk Hr]; subst.
  constructor; [intros Hp; rewrite H1; apply Hk, H2, Hp|exact (IH Hr)].
Qed.
Lemma wk_allclr sks sks' : wk sks sks' -> allclr sks -> allclr sks'.
Proof.
  induction 1 as [|k k' r r' [H1 H2] _ IH]; intros H; [constructor|]. inversion H as [|x y Hk Hr]; subst.
  constructor; [|exact (IH Hr)]. destruct (sk_possible k') eqn:E; [|reflexivity]. rewrite (H2 eq_refl) in Hk. discriminate.
Qed.
Lemma allclr_kge P sks : allclr sks -> kge P sks.
Proof. intros H. eapply Forall_impl; [|exact H]. cbn beta. intros k Hk Hp. rewrite Hk in Hp. discriminate. Qed.

Definition QV (d e : Z) (L : list token) (sks : list simple_key) (fl : N) (ifms : list ims) : Prop :=
  (Z.of_nat (length ifms) = Z.of_N fl + e /\ zs L = Z.of_N fl + Z.of_nat (ni ifms) + d)%Z
  \/ (exists P, P <= length L /\ (zs (firstn P L) < 0)%Z /\ kge P sks)
  \/ (d = 1%Z /\ fl = 0%N /\ ifms = [] /\ zs L = 0%Z /\ allclr sks).

(* a token pushed at the end *)
Lemma QV_push t d e L sks fl ifms :
  QV d e L sks fl ifms -> (d = 1%Z -> wt t = 0%Z \/ wt t = (-1)%Z) -> QV (d + wt t) e (L ++ [t]) sks fl ifms.
Proof.
  intros [[H1 H2]|[(P & HP & HZ & HK)|(Hd & Hf & Hi & HZ & HC)]] Hw.
  - left. split; [exact H1|]. rewrite zs_app. cbn [zs]. lia.
  - right; left. exists P. rewrite app_length, firstn_pre by exact HP. cbn [length]. repeat split; [lia|exact HZ|exact HK].
  - destruct (Hw Hd) as [W|W].
    + right; right. rewrite zs_app. cbn [zs]. rewrite W. repeat split; auto; lia.
    + right; left. exists (length (L ++ [t])). split; [lia|]. rewrite firstn_all, zs_app. cbn [zs]. split; [lia|].
      apply allclr_kge. exact HC.
Qed.
Lemma QV_push_plain t d e L sks fl ifms : wt t = 0%Z -> QV d e L sks fl ifms -> QV d e (L ++ [t]) sks fl ifms.
Proof. intros W H. replace d with (d + wt t)%Z at 1 by lia. apply QV_push; [exact H|auto]. Qed.
Lemma QV_push_open t e L sks fl ifms : wt t = 1%Z -> QV (-1) e L sks fl ifms -> QV 0 e (L ++ [t]) sks fl ifms.
Proof. intros W H. replace 0%Z with (-1 + wt t)%Z by lia. apply QV_push; [exact H|lia]. Qed.
Lemma QV_push_close t e L sks fl ifms : wt t = (-1)%Z -> QV 1 e L sks fl ifms -> QV 0 e (L ++ [t]) sks fl ifms.
Proof. intros W H. replace 0%Z with (1 + wt t)%Z by lia. apply QV_push; [exact H|auto]. Qed.

(* a token inserted at the position of a possible simple key *)
Lemma QV_insert t d e a b sks fl ifms k :
  In k sks -> sk_possible k = true -> kpos k = length a ->
  QV d e (a ++ b) sks fl ifms -> QV (d + wt t) e (a ++ t :: b) sks fl ifms.
Proof.
  intros Hin Hp Hk [[H1 H2]|[(P & HP & HZ & HK)|(Hd & Hf & Hi & HZ & HC)]].
  - left. split; [exact H1|]. rewrite zs_app in *. cbn [zs]. lia.
  - right; left. exists P. assert (PL : P <= length a).
    { unfold kge in HK. rewrite Forall_forall in HK. specialize (HK k Hin Hp). lia. }
    rewrite firstn_pre in * by exact PL. rewrite app_length in *. cbn [length]. repeat split; [lia|exact HZ|exact HK].
  - exfalso. unfold allclr in HC. rewrite Forall_forall in HC. rewrite (HC k Hin) in Hp. discriminate.
Qed.

(* the key stack *)
Lemma QV_sks d e L sks sks' fl ifms : wk sks sks' -> QV d e L sks fl ifms -> QV d e L sks' fl ifms.
Proof.
  intros W [H|[(P & HP & HZ & HK)|(Hd & Hf & Hi & HZ & HC)]]; [left; exact H| |].
  - right; left. exists P. repeat split; auto. eapply wk_kge; eauto.
  - right; right. repeat split; auto. eapply wk_allclr; eauto.
Qed.
Lemma QV_sks_gen d e L sks sks' fl ifms : (d <> 1)%Z -> (forall P, P <= length L -> kge P sks -> kge P sks') ->
  QV d e L sks fl ifms -> QV d e L sks' fl ifms.
Proof.
  intros Hd W [H|[(P & HP & HZ & HK)|(Hd' & _)]]; [left; exact H| |lia].
  right; left. exists P. repeat split; auto.
Qed.

(* flow level and implicit-mapping stack *)
Lemma QV_state d e L sks fl ifms d' e' fl' ifms' :
  QV d e L sks fl ifms -> (d = 1%Z -> ifms <> []) ->
  (Z.of_nat (length ifms) = Z.of_N fl + e -> Z.of_nat (length ifms') = Z.of_N fl' + e')%Z ->
  (Z.of_nat (length ifms) = Z.of_N fl + e -> Z.of_N fl' + Z.of_nat (ni ifms') + d' = Z.of_N fl + Z.of_nat (ni ifms) + d)%Z ->
  QV d' e' L sks fl' ifms'.
Proof.
  intros [[H1 H2]|[H|(Hd & Hf & Hi & _)]] Hn HL HS.
  - left. split; [auto|]. specialize (HS H1). rewrite HS. exact H2.
  - right; left. exact H.
  - exfalso. exact (Hn Hd Hi).
Qed.

(* bracket-balanced token lists *)
Definition nse (t : token) : Prop := snd t <> TStreamEnd.
Lemma balanced_zs sp : forall t stk, Forall nse t -> RejectProofs.flow_balanced (t ++ [(sp, TStreamEnd)]) stk = true ->
  (zs t + Z.of_nat (length stk) = 0)%Z /\ forall P, (0 <= zs (firstn P t) + Z.of_nat (length stk))%Z.
Proof.
  induction t as [|[s k] r IH]; intros stk HN HB.
  - cbn [app RejectProofs.flow_balanced] in HB. destruct stk; [|discriminate]. cbn [zs length]. split; [reflexivity|].
    intros P. rewrite firstn_nil. cbn [zs]. lia.
  - inversion HN as [|x y Hk Hr]; subst. unfold nse in Hk. cbn [snd] in Hk.
    cbn [app RejectProofs.flow_balanced] in HB.
    assert (G : forall stk', RejectProofs.flow_balanced (r ++ [(sp, TStreamEnd)]) stk' = true ->
                (Z.of_nat (length stk') = Z.of_nat (length stk) + wk_tok k)%Z ->
                (zs ((s, k) :: r) + Z.of_nat (length stk) = 0)%Z
                /\ forall P, (0 <= zs (firstn P ((s, k) :: r)) + Z.of_nat (length stk))%Z).
    { intros stk' HB' HW. destruct (IH stk' Hr HB') as [I1 I2]. cbn [zs]. unfold wt. cbn [snd].
      clear HB IH HB' HN Hk Hr. split; [lia|].
      intros [|P]; cbn [firstn zs]; [lia|]. unfold wt. cbn [snd]. specialize (I2 P). unfold token in *. lia. }
    destruct k; try (apply (G stk HB); cbn [wk_tok]; lia); try congruence.
    + apply (G (true :: stk) HB). cbn [wk_tok length]. lia.
    + destruct stk as [|[|] stk']; try discriminate. apply (G stk' HB). cbn [wk_tok length]. lia.
    + apply (G (false :: stk) HB). cbn [wk_tok length]. lia.
    + destruct stk as [|[|] stk']; try discriminate. apply (G stk' HB). cbn [wk_tok length]. lia.
Qed.

(* ------------------------------------------------------------------------------------------------ *)
(* 2. the invariant over scanner states, and the judgment                                             *)
(* ------------------------------------------------------------------------------------------------ *)
Section Scan.
Context {I : Type} (ops : InputOps I).
Notation M := (@M I).
Notation st := (sc I).

Definition Q (pre : list token) (d e : Z) (s : st) : Prop :=
  length pre = N.to_nat (sc_tokens_parsed s)
  /\ QV d e (pre ++ sc_tokens s) (sc_sks s) (sc_flow_level s) (sc_ifms s).
Definition QB (pre : list token) (d e : Z) (s : st) : Prop := SkB s /\ Q pre d e s.
Definition kq {A} (m : M A) (d e d' e' : Z) : Prop :=
  forall pre, Tr (QB pre d e) m (fun _ => QB pre d' e').

Lemma kq_bind {A B} (m : M A) (f : A -> M B) d1 e1 d2 e2 d3 e3 :
  kq m d1 e1 d2 e2 -> (forall a, kq (f a) d2 e2 d3 e3) -> kq (bind m f) d1 e1 d3 e3.
Proof. intros Hm Hf pre. eapply Tr_bind; [apply Hm|intros a; apply Hf]. Qed.
Lemma kq_ret {A} (a : A) d e : kq (ret a) d e d e.
Proof. intros pre s a' s' H E. inversion E; subst. exact H. Qed.
Lemma kq_fail {A} x mk d e d' e' : kq (@fail I A x mk) d e d' e'.
Proof. intros pre s a s' _ E. discriminate. Qed.
Lemma kq_panic {A} n d e d' e' : kq (@panic I A n) d e d' e'.
Proof. intros pre s a s' _ E. discriminate. Qed.
Lemma kq_oof {A} d e d' e' : kq (@oof I A) d e d' e'.
Proof. intros pre s a s' _ E. discriminate. Qed.
Lemma kq_get d e : kq (@get I) d e d e.
Proof. intros pre s a s' H E. inversion E; subst. exact H. Qed.
Lemma kq_gets {A} (f : st -> A) d e : kq (gets f) d e d e.
Proof. intros pre s a s' H E. inversion E; subst. exact H. Qed.

Lemma kq_intro {A} (m : M A) d e d' e' :
  Keepk m -> (forall pre s a s', m s = Ok (a, s') -> SkB s -> Q pre d e s -> Q pre d' e' s') -> kq m d e d' e'.
Proof. intros HK HJ pre s a s' [HB H] E. split; [apply (HK _ _ _ HB E)|eapply HJ; eauto]. Qed.

Lemma Q_view pre d e (s s' : st) :
  sc_tokens s' = sc_tokens s -> sc_tokens_parsed s' = sc_tokens_parsed s -> sc_sks s' = sc_sks s ->
  sc_flow_level s' = sc_flow_level s -> sc_ifms s' = sc_ifms s ->
  Q pre d e s -> Q pre d e s'.
Proof. intros E1 E2 E3 E4 E5. unfold Q. rewrite E1, E2, E3, E4, E5. auto. Qed.

Lemma Q_frame pre d e (s s' : st) : frame s s' -> Q pre d e s -> Q pre d e s'.
Proof. intros (F1 & F2 & F3 & F4 & F5 & _) HJ. eapply Q_view; [..|exact HJ]; auto. Qed.

Lemma kq_Fr {A} (m : M A) d e : Fr m -> kq m d e d e.
Proof.
  intros HF. apply kq_intro; [apply Keepk_of_Fr; exact HF|].
  intros pre s a s' E _ HJ. eapply Q_frame; [eapply HF; exact E|exact HJ].
Qed.

Lemma kq_modify_view (f : st -> st) d e :
  (forall s, vsame s (f s) /\ sc_tokens (f s) = sc_tokens s /\ sc_tokens_parsed (f s) = sc_tokens_parsed s) ->
  kq (modify f) d e d e.
Proof.
  intros Hf. apply kq_intro; [apply Keepk_modify; intros s; apply Hf|].
  intros pre s a s' E _ HJ. inversion E; subst. destruct (Hf s) as ((V1 & V2 & V3 & V4 & V5 & V6) & T1 & T2).
  eapply Q_view; [..|exact HJ]; auto.
Qed.
Lemma kq_allow d e : kq (@allow_simple_key I) d e d e.
Proof. apply kq_modify_view. intros s. unfold vsame; cbn. auto 10. Qed.
Lemma kq_disallow d e : kq (@disallow_simple_key I) d e d e.
Proof. apply kq_modify_view. intros s. unfold vsame; cbn. auto 10. Qed.

Ltac vw := cbn [sc_tokens sc_tokens_parsed sc_sks sc_indents sc_indent sc_flow_level sc_ifms sc_stream_start sc_mark sc_ska
                 set_tokens set_sks set_indent set_fl set_tp set_ifms set_struct set_flags set_ta set_se set_ska set_ss set_adj
                 set_lws set_in set_mark upd].
Ltac vwin H := cbn [sc_tokens sc_tokens_parsed sc_sks sc_indents sc_indent sc_flow_level sc_ifms sc_stream_start sc_mark sc_ska
                 set_tokens set_sks set_indent set_fl set_tp set_ifms set_struct set_flags set_ta set_se set_ska set_ss set_adj
                 set_lws set_in set_mark upd] in H.

(* ---- tokens pushed at the end of the queue ---- *)
Lemma kq_push_plain t d e : wt t = 0%Z -> kq (@push_tok I t) d e d e.
Proof.
  intros Ht. apply kq_intro; [apply Keepk_push_tok|]. intros pre s a s' E _ [J0 HJ].
  unfold push_tok, modify in E. inversion E; subst. split; [exact J0|]. vw. rewrite app_assoc.
  apply QV_push_plain; assumption.
Qed.
Lemma kq_push_close t e : wt t = (-1)%Z -> kq (@push_tok I t) 1 e 0 e.
Proof.
  intros Ht. apply kq_intro; [apply Keepk_push_tok|]. intros pre s a s' E _ [J0 HJ].
  unfold push_tok, modify in E. inversion E; subst. split; [exact J0|]. vw. rewrite app_assoc.
  apply QV_push_close; assumption.
Qed.
Lemma kq_push_open t e : wt t = 1%Z -> kq (@push_tok I t) (-1) e 0 e.
Proof.
  intros Ht. apply kq_intro; [apply Keepk_push_tok|]. intros pre s a s' E _ [J0 HJ].
  unfold push_tok, modify in E. inversion E; subst. split; [exact J0|]. vw. rewrite app_assoc.
  apply QV_push_open; assumption.
Qed.

(* ---- simple keys ---- *)
Lemma kq_save_simple_key : kq (@save_simple_key I) 0 0 0 0.
Proof.
  apply kq_intro; [apply Keepk_save_simple_key|]. intros pre s a s' E HB [J0 HJ].
  pose proof (sks_nonempty _ HB) as NE.
  unfold save_simple_key, bind, get, put, ret, panic in E.
  destruct (sc_ska s); [|inversion E; subst; split; assumption].
  assert (X : forall r0, Q pre 0 0 (set_sks ({| sk_possible := true; sk_required := r0;
                 sk_token_number := sc_tokens_parsed s + N.of_nat (length (sc_tokens s)); sk_mark := sc_mark s |} :: tl (sc_sks s)) s)).
  { intros r0. split; [exact J0|]. vw. destruct (sc_sks s) as [|k0 r] eqn:Es; [congruence|]. cbn [tl].
    eapply QV_sks_gen; [lia| |exact HJ]. intros P HP HK. inversion HK as [|x y Hk Hr]; subst.
    constructor; [|exact Hr]. intros _. unfold kpos. cbn [sk_token_number]. rewrite app_length in HP. lia. }
  destruct (_ && _).
  - destruct (sc_indents s); [discriminate|]. inversion E; subst. apply X.
  - inversion E; subst. apply X.
Qed.

Lemma Q_wk pre d e (s : st) sks' : wk (sc_sks s) sks' -> Q pre d e s -> Q pre d e (set_sks sks' s).
Proof. intros W [J0 HJ]. split; [exact J0|]. vw. eapply QV_sks; [exact W|exact HJ]. Qed.

Lemma kq_remove_simple_key d e : kq (@remove_simple_key I) d e d e.
Proof.
  apply kq_intro; [apply Keepk_remove_simple_key|]. intros pre s a s' E _ HJ.
  unfold remove_simple_key, bind, get, put, fail, panic in E.
  destruct (sc_sks s) as [|k r] eqn:Es; [discriminate|]. destruct (_ && _); [discriminate|].
  inversion E; subst. apply Q_wk; [|exact HJ]. rewrite Es. constructor; [apply wk1_kill|apply wk_refl].
Qed.

Lemma stale_Q pre d e (s : st) a s' : stale_simple_keys s = Ok (a, s') -> Q pre d e s -> Q pre d e s'.
Proof.
  intros E HJ. unfold stale_simple_keys, bind, get, put, fail in E. destruct (existsb _ _); [discriminate|].
  inversion E; subst. apply Q_wk; [|exact HJ]. apply wk_map. intros k.
  destruct (_ && _); [apply wk1_kill|split; auto].
Qed.
Lemma kq_stale_simple_keys d e : kq (@stale_simple_keys I) d e d e.
Proof. apply kq_intro; [apply Keepk_stale_simple_keys|]. intros pre s a s' E _ HJ. eapply stale_Q; eauto. Qed.

Lemma kq_kill_key d e :
  kq (modify (fun s : st => match sc_sks s with
                            | k :: r => set_sks ({| sk_possible := false; sk_required := sk_required k;
                                                    sk_token_number := sk_token_number k; sk_mark := sk_mark k |} :: r) s
                            | [] => s end)) d e d e.
Proof.
  apply kq_intro; [apply Keepk_kill_key|]. intros pre s a s' E _ HJ. inversion E; subst.
  destruct (sc_sks s) as [|k r] eqn:Es; [exact HJ|].
  apply Q_wk; [|exact HJ]. rewrite Es. constructor; [apply wk1_kill|apply wk_refl].
Qed.

(* ---- indentation ---- *)
Lemma kq_roll_one_col_indent d e : kq (@roll_one_col_indent I) d e d e.
Proof.
  apply kq_intro; [apply Keepk_roll_one_col_indent|]. intros pre s a s' E _ HJ.
  unfold roll_one_col_indent, bind, get, put, ret in E. destruct (_ && _); inversion E; subst; [|exact HJ].
  eapply Q_view; [..|exact HJ]; reflexivity.
Qed.

Lemma kq_unroll_indent_go fuel col d e : kq (@unroll_indent_go I fuel col) d e d e.
Proof.
  induction fuel as [|fuel IH]; cbn [unroll_indent_go]; [apply kq_oof|].
  intros pre s a s' [HB HJ] E. unfold bind at 1, get at 1 in E.
  destruct (col <? sc_indent s)%Z; [|inversion E; subst; split; assumption].
  destruct (sc_indents s) as [|i r] eqn:EI; [discriminate|].
  unfold bind at 1, put at 1 in E.
  assert (H1 : QB pre d e (set_indent (in_indent i) r s)).
  { split.
    - destruct HB as (B1 & B2 & B3). unfold SkB. vw. rewrite EI in B3. cbn in B3. tauto.
    - eapply Q_view; [..|exact HJ]; reflexivity. }
  destruct (in_needs_block_end i) eqn:Eb.
  - unfold bind at 1 in E.
    destruct (push_tok (span_empty (sc_mark s), TBlockEnd) (set_indent (in_indent i) r s)) as [[u s2]| | |] eqn:E2; try discriminate.
    pose proof (kq_push_plain (span_empty (sc_mark s), TBlockEnd) d e eq_refl pre _ _ _ H1 E2) as H2.
    eapply IH; [exact H2|exact E].
  - unfold bind at 1, ret at 1 in E. eapply IH; [exact H1|exact E].
Qed.
Lemma kq_unroll_indent col d e : kq (@unroll_indent I col) d e d e.
Proof.
  intros pre s a s' H E. unfold unroll_indent in E. unfold bind at 1, get at 1 in E.
  destruct (0 <? sc_flow_level s)%N; [inversion E; subst; exact H|]. eapply kq_unroll_indent_go; eauto.
Qed.

Lemma kq_roll_indent_none col tk mk d e : wk_tok tk = 0%Z -> kq (@roll_indent I col None tk mk) d e d e.
Proof.
  intros Ho. apply kq_intro; [apply Keepk_roll_indent|]. intros pre s a s' E _ [J0 HJ].
  unfold roll_indent in E. unfold bind at 1, get at 1 in E.
  destruct (0 <? sc_flow_level s)%N; [inversion E; subst; split; assumption|].
  destruct (if (sc_indent s <=? Z.of_N col)%Z then _ else _) as [ind inds].
  destruct (ind <? Z.of_N col)%Z.
  - destruct (BLOCK_NESTING_MAX <=? N.of_nat (length inds))%N eqn:EL; [discriminate|].
    unfold bind, put, push_tok, modify in E. inversion E; subst. split; [exact J0|]. vw. rewrite app_assoc.
    apply QV_push_plain; [exact Ho|exact HJ].
  - unfold put in E. inversion E; subst. eapply Q_view; [..|split; [exact J0|exact HJ]]; reflexivity.
Qed.

(* ---- the implicit-flow-mapping stack and the flow level ---- *)
Lemma kq_end_implicit_mapping mk d e : kq (@end_implicit_mapping I mk) d e d e.
Proof.
  apply kq_intro; [apply Keepk_end_implicit_mapping|]. intros pre s a s' E _ [J0 HJ].
  unfold end_implicit_mapping in E. unfold bind at 1, get at 1 in E.
  destruct (sc_ifms s) as [|[| | |] r] eqn:Ei; try (inversion E; subst; split; [exact J0|rewrite Ei; exact HJ]).
  - unfold bind, put, push_tok, modify in E. inversion E; subst. split; [exact J0|]. vw. rewrite app_assoc.
    replace d with ((d + 1) + wt (span_empty mk, TFlowMappingEnd))%Z by (unfold wt; cbn; lia).
    apply QV_push.
    + eapply QV_state; [exact HJ|intros _; discriminate| |]; intros HL; cbn [length] in *; rewrite ?ni_cons; cbn [is_inside]; lia.
    + intros _. right. reflexivity.
  - unfold put in E. inversion E; subst. split; [exact J0|]. vw.
    eapply QV_state; [exact HJ|intros _; discriminate| |]; intros HL; cbn [length] in *; rewrite ?ni_cons; cbn [is_inside]; lia.
Qed.

Lemma kq_increase : kq (@increase_flow_level I) 0 0 (-1) (-1).
Proof.
  intros pre s a s' [HB [J0 HJ]] E. unfold increase_flow_level, bind, get, put in E.
  destruct (sc_flow_level s =? FLOW_LEVEL_MAX)%N eqn:EM; [discriminate|]. inversion E; subst. split.
  - destruct HB as (B1 & B2 & B3). unfold SkB. vw. cbn [length]. repeat split; auto. lia.
  - split; [exact J0|]. vw.
    eapply QV_state; [eapply QV_sks_gen; [| |exact HJ]|..]; try lia.
    intros P _ HK. constructor; [cbn; discriminate|exact HK].
Qed.

Lemma kq_push_ifms x : is_inside x = false -> kq (modify (fun s : st => set_ifms (x :: sc_ifms s) s)) (-1) (-1) (-1) 0.
Proof.
  intros Hx pre s a s' [HB [J0 HJ]] E. inversion E; subst. split; [exact HB|]. split; [exact J0|]. vw.
  eapply QV_state; [exact HJ|lia| |]; intros HL; cbn [length] in *; rewrite ?ni_cons, ?Hx; lia.
Qed.

Lemma kq_key_ifms d e :
  kq (modify (fun s : st => match sc_ifms s with
                            | ImPossible :: r => set_ifms (ImInsideExplicitKey :: r) s
                            | _ => s end)) d e d e.
Proof.
  apply kq_intro; [apply Keepk_key_ifms|]. intros pre s a s' E _ [J0 HJ]. inversion E; subst.
  destruct (sc_ifms s) as [|[| | |] r] eqn:Ei; try (split; [exact J0|rewrite Ei; exact HJ]).
  split; [exact J0|]. vw.
  eapply QV_state; [exact HJ|intros _; discriminate| |]; intros HL; cbn [length] in *; rewrite ?ni_cons; cbn [is_inside]; lia.
Qed.


(* ------------------------------------------------------------------------------------------------ *)
(* 3. the token-producing scanners return a token that is no flow collection start or end             *)
(* ------------------------------------------------------------------------------------------------ *)
Definition retw (m : M token) : Prop := forall s t s', m s = Ok (t, s') -> wt t = 0%Z.
Lemma retw_bind {A} (m : M A) (f : A -> M token) : (forall a, retw (f a)) -> retw (bind m f).
Proof.
  intros Hf s t s' H. unfold bind in H. destruct (m s) as [[a s1]| | |]; try discriminate. eapply Hf; exact H.
Qed.
Lemma retw_ret t : wt t = 0%Z -> retw (ret t).
Proof. intros Ht s x s' H. inversion H; subst. exact Ht. Qed.
Lemma retw_fail x mk : retw (fail x mk).
Proof. intros s t s' H. discriminate. Qed.
Lemma retw_panic n : retw (panic n).
Proof. intros s t s' H. discriminate. Qed.
Lemma retw_oof : retw oof.
Proof. intros s t s' H. discriminate. Qed.

Ltac retw1 :=
  lazymatch goal with
  | |- retw (bind _ _) => apply retw_bind; intros ?
  | |- retw (ret _) => apply retw_ret; first [reflexivity | assumption]
  | |- retw (fail _ _) => apply retw_fail
  | |- retw (panic _) => apply retw_panic
  | |- retw oof => apply retw_oof
  | |- retw (match ?x with _ => _ end) => destruct x
  | |- retw _ => solve [eauto 3 with retw]
  end.
Ltac retw_go := repeat (lazy zeta; retw1).

Variable F : nat.

Lemma retw_scan_tag : retw (scan_tag ops F).
Proof. unfold scan_tag. retw_go. Qed.
Lemma retw_scan_anchor alias : retw (scan_anchor ops F alias).
Proof. unfold scan_anchor. destruct alias; retw_go. Qed.
Lemma retw_scan_version_directive_value mk : retw (scan_version_directive_value ops F mk).
Proof. unfold scan_version_directive_value. retw_go. Qed.
Lemma retw_scan_tag_directive_value mk : retw (scan_tag_directive_value ops F mk).
Proof. unfold scan_tag_directive_value. retw_go. Qed.
Hint Resolve retw_scan_version_directive_value retw_scan_tag_directive_value : retw.
Lemma retw_bind_tok (m : M token) (g : token -> M token) :
  retw m -> (forall tk, wt tk = 0%Z -> retw (g tk)) -> retw (bind m g).
Proof.
  intros Hm Hg s t s' H. unfold bind in H. destruct (m s) as [[tk s1]| | |] eqn:E; try discriminate.
  eapply Hg; [eapply Hm; exact E|exact H].
Qed.
Lemma retw_scan_directive : retw (scan_directive ops F).
Proof.
  unfold scan_directive. apply retw_bind; intros start. apply retw_bind; intros _. apply retw_bind; intros name.
  apply retw_bind_tok; [retw_go|]. intros tk Htk. retw_go.
Qed.
Lemma retw_scan_flow_scalar single : retw (scan_flow_scalar ops F single).
Proof. unfold scan_flow_scalar. destruct single; retw_go. Qed.
Lemma retw_scan_plain_scalar : retw (scan_plain_scalar ops F).
Proof. unfold scan_plain_scalar. retw_go. Qed.
Lemma retw_scan_block_scalar literal : retw (scan_block_scalar ops F literal).
Proof. unfold scan_block_scalar. destruct literal; retw_go. Qed.

Lemma kq_bind_tok (m : M token) (f : token -> M unit) d e d' e' :
  Fr m -> retw m -> (forall t, wt t = 0%Z -> kq (f t) d e d' e') -> kq (bind m f) d e d' e'.
Proof.
  intros Hm Hk Hf pre s b s' H E. unfold bind in E. destruct (m s) as [[t s1]| | |] eqn:E1; try discriminate.
  eapply Hf; [eapply Hk; exact E1| |exact E]. eapply (kq_Fr m d e Hm); [exact H|exact E1].
Qed.

(* ------------------------------------------------------------------------------------------------ *)
(* 4. Model/SFetch.v                                                                                  *)
(* ------------------------------------------------------------------------------------------------ *)
Create HintDb kq.
Hint Resolve kq_allow kq_disallow kq_save_simple_key kq_remove_simple_key kq_stale_simple_keys kq_roll_one_col_indent
  kq_unroll_indent kq_increase kq_end_implicit_mapping kq_key_ifms : kq.
Hint Extern 1 (kq (roll_indent _ None _ _) _ _ _ _) => apply kq_roll_indent_none; reflexivity : kq.

Ltac kq1 :=
  lazymatch goal with
  | |- kq (bind _ _) _ _ _ _ => eapply kq_bind; [kq1|intros ?]
  | |- kq (ret _) _ _ _ _ => apply kq_ret
  | |- kq (fail _ _) _ _ _ _ => apply kq_fail
  | |- kq (panic _) _ _ _ _ => apply kq_panic
  | |- kq oof _ _ _ _ => apply kq_oof
  | |- kq get _ _ _ _ => apply kq_get
  | |- kq (gets _) _ _ _ _ => apply kq_gets
  | |- kq (push_tok _) (-1)%Z _ _ _ => apply kq_push_open; first [reflexivity | match goal with |- context [if ?b then _ else _] => destruct b; reflexivity end]
  | |- kq (push_tok _) 1%Z _ _ _ => apply kq_push_close; first [reflexivity | match goal with |- context [if ?b then _ else _] => destruct b; reflexivity end]
  | |- kq (push_tok _) _ _ _ _ => apply kq_push_plain; first [reflexivity | assumption | match goal with |- context [if ?b then _ else _] => destruct b; reflexivity end]
  | |- kq (match ?x with _ => _ end) _ _ _ _ => destruct x
  | |- kq _ _ _ _ _ => first [ solve [eauto 2 with kq] | apply kq_Fr; solve [auto with fr] ]
  end.
Ltac kq_go := repeat (lazy zeta; kq1).

Lemma kq_fetch_directive : kq (fetch_directive ops F) 0 0 0 0.
Proof.
  unfold fetch_directive. do 3 (eapply kq_bind; [solve [eauto 2 with kq]|intros _]).
  apply kq_bind_tok; [apply Fr_scan_directive|apply retw_scan_directive|]. intros t Ht. kq_go.
Qed.
Lemma kq_fetch_tag : kq (fetch_tag ops F) 0 0 0 0.
Proof.
  unfold fetch_tag. do 2 (eapply kq_bind; [solve [eauto 2 with kq]|intros _]).
  apply kq_bind_tok; [apply Fr_scan_tag|apply retw_scan_tag|]. intros t Ht. kq_go.
Qed.
Lemma kq_fetch_anchor alias : kq (fetch_anchor ops F alias) 0 0 0 0.
Proof.
  unfold fetch_anchor. do 2 (eapply kq_bind; [solve [eauto 2 with kq]|intros _]).
  apply kq_bind_tok; [apply Fr_scan_anchor|apply retw_scan_anchor|]. intros t Ht. kq_go.
Qed.
Lemma kq_fetch_block_scalar literal : kq (fetch_block_scalar ops F literal) 0 0 0 0.
Proof.
  unfold fetch_block_scalar. do 2 (eapply kq_bind; [solve [eauto 2 with kq]|intros _]).
  apply kq_bind_tok; [apply Fr_scan_block_scalar|apply retw_scan_block_scalar|]. intros t Ht. kq_go.
Qed.
Lemma kq_set_adj d e : kq (modify (fun s : st => set_adj (m_index (sc_mark s)) s)) d e d e.
Proof. apply kq_modify_view. intros s. unfold vsame; cbn. auto 10. Qed.
Hint Resolve kq_set_adj : kq.
Lemma kq_fetch_flow_scalar single : kq (fetch_flow_scalar ops F single) 0 0 0 0.
Proof.
  unfold fetch_flow_scalar. do 2 (eapply kq_bind; [solve [eauto 2 with kq]|intros _]).
  apply kq_bind_tok; [apply Fr_scan_flow_scalar|apply retw_scan_flow_scalar|]. intros t Ht. kq_go.
Qed.
Lemma kq_fetch_plain_scalar : kq (fetch_plain_scalar ops F) 0 0 0 0.
Proof.
  unfold fetch_plain_scalar. do 2 (eapply kq_bind; [solve [eauto 2 with kq]|intros _]).
  apply kq_bind_tok; [apply Fr_scan_plain_scalar|apply retw_scan_plain_scalar|]. intros t Ht. kq_go.
Qed.
Lemma kq_fetch_flow_entry : kq (fetch_flow_entry ops F) 0 0 0 0.
Proof. unfold fetch_flow_entry. kq_go. Qed.
Lemma kq_fetch_block_entry : kq (fetch_block_entry ops F) 0 0 0 0.
Proof. unfold fetch_block_entry. kq_go. Qed.
Lemma kq_fetch_document_indicator t : wk_tok t = 0%Z -> kq (fetch_document_indicator ops t) 0 0 0 0.
Proof. intros Ht. unfold fetch_document_indicator. kq_go. Qed.

Lemma kq_fetch_stream_end : kq (fetch_stream_end (I:=I)) 0 0 0 0.
Proof.
  unfold fetch_stream_end.
  eapply kq_bind; [apply kq_modify_view; intros s; destruct (_ =? _)%N; unfold vsame; cbn; auto 10|intros _].
  intros pre s a s' H E. unfold bind at 1, get at 1 in E. destruct (existsb _ _); [discriminate|].
  unfold bind at 1, put at 1 in E.
  match type of E with ?m ?s1 = _ =>
    assert (H1 : QB pre 0 0 s1);
    [|assert (HR : kq m 0 0 0 0) by kq_go; exact (HR pre _ _ _ H1 E)] end.
  destruct H as [HB HJ]. split.
  - destruct HB as (B1 & B2 & B3). unfold SkB. vw. rewrite map_length. auto.
  - apply Q_wk; [|exact HJ]. apply wk_map. intros k. apply wk1_kill.
Qed.

Lemma kq_fetch_key : kq (fetch_key ops F) 0 0 0 0.
Proof. unfold fetch_key. kq_go. Qed.

Lemma kq_fetch_flow_collection_start seq : kq (fetch_flow_collection_start ops F seq) 0 0 0 0.
Proof.
  unfold fetch_flow_collection_start.
  do 6 (eapply kq_bind; [kq1|intros ?]).
  eapply kq_bind; [apply kq_push_ifms; destruct seq; reflexivity|intros ?]. kq_go.
Qed.


(* ---- fetch_flow_collection_end: decrease_flow_level saturates at 0 ---- *)
Definition top_dead (sks : list simple_key) : Prop := match sks with k :: _ => sk_possible k = false | [] => True end.
Definition Qh (seq : bool) (l : list ims) : Prop := seq = false -> hd_inside l = false.

Lemma Tr_check_flow_closer_Q seq pre :
  Tr (QB pre 0 0) (@check_flow_closer I seq) (fun _ s => QB pre 0 0 s /\ Qh seq (sc_ifms s)).
Proof.
  intros s a s' HJ E. unfold check_flow_closer, bind, get in E.
  destruct (sc_ifms s) as [|x r] eqn:Ei.
  - inversion E; subst. split; [exact HJ|]. intros _. rewrite Ei. reflexivity.
  - cbv zeta in E. destruct (Bool.eqb _ _) eqn:Eb; [|discriminate]. inversion E; subst. split; [exact HJ|].
    intros ->. rewrite Ei. destruct x; cbn in *; try discriminate; reflexivity.
Qed.

Lemma Tr_remove_Q seq pre :
  Tr (fun s => QB pre 0 0 s /\ Qh seq (sc_ifms s)) (@remove_simple_key I)
     (fun _ s => QB pre 0 0 s /\ Qh seq (sc_ifms s) /\ top_dead (sc_sks s)).
Proof.
  intros s a s' [HJ HQ] E. split; [eapply (kq_remove_simple_key 0 0); eauto|].
  unfold remove_simple_key, bind, get, put, fail, panic in E.
  destruct (sc_sks s) as [|k r]; [discriminate|]. destruct (_ && _); [discriminate|]. inversion E; subst.
  split; [exact HQ|reflexivity].
Qed.

Lemma Tr_decrease_Q seq pre :
  Tr (fun s => QB pre 0 0 s /\ Qh seq (sc_ifms s) /\ top_dead (sc_sks s)) (@decrease_flow_level I)
     (fun _ s => QB pre 1 1 s /\ Qh seq (sc_ifms s)).
Proof.
  intros s a s' ([HB [J0 HJ]] & HQ & HT) E. unfold decrease_flow_level, bind, get, put, ret, panic in E.
  destruct (0 <? sc_flow_level s)%N eqn:EM.
  - apply N.ltb_lt in EM. destruct (sc_sks s) as [|k r] eqn:Es; [discriminate|]. inversion E; subst.
    split; [|exact HQ]. split.
    + destruct HB as (B1 & B2 & B3). unfold SkB. vw. rewrite Es in B2. cbn [length] in B2. repeat split; auto. lia.
    + split; [exact J0|]. vw.
      eapply QV_state; [eapply (QV_sks_gen _ _ _ (k :: r) r); [| |exact HJ]|..]; try lia.
      intros P _ HK. inversion HK; assumption.
  - apply N.ltb_ge in EM. inversion E; subst. split; [|exact HQ]. split; [exact HB|]. split; [exact J0|].
    assert (EF : sc_flow_level s' = 0%N) by lia.
    destruct HB as (_ & B2 & _). rewrite EF in B2.
    destruct (sc_sks s') as [|k [|k2 r]] eqn:Es; cbn [length] in B2; try lia.
    assert (HC : allclr [k]) by (constructor; [exact HT|constructor]).
    destruct HJ as [[H1 H2]|[HD|(Hd & _)]]; [|right; left; exact HD|lia].
    right; right. rewrite EF in *. destruct (sc_ifms s') as [|x ri]; [|cbn [length] in H1; lia].
    repeat split; auto.
Qed.

Lemma Tr_keep_Qh {A} (m : M A) pre d e d' e' seq :
  kq m d e d' e' -> same_ifms m ->
  Tr (fun s => QB pre d e s /\ Qh seq (sc_ifms s)) m (fun _ s => QB pre d' e' s /\ Qh seq (sc_ifms s)).
Proof. intros Hk Hs s a s' [HJ HQ] E. split; [eapply Hk; eauto|]. rewrite (Hs _ _ _ E). exact HQ. Qed.

Lemma pop_ifms_Q pre (s : st) :
  hd_inside (sc_ifms s) = false -> QB pre 1 1 s -> QB pre 1 0 (set_ifms (tl (sc_ifms s)) s).
Proof.
  intros Hh [HB [J0 HJ]]. split; [exact HB|]. split; [exact J0|]. vw.
  destruct HJ as [[H1 H2]|[HD|(Hd & Hf & Hi & HZ & HC)]].
  - left. destruct (sc_ifms s) as [|x r]; [cbn [length] in H1; lia|]. cbn [tl length] in *.
    rewrite ni_cons in H2. destruct x; try discriminate; cbn [is_inside] in H2; split; lia.
  - right; left. exact HD.
  - right; right. rewrite Hi. cbn [tl]. repeat split; auto.
Qed.

Lemma kq_adj_if d e :
  kq (modify (fun s : st => if (0 <? sc_flow_level s)%N then set_adj (m_index (sc_mark s)) s else s)) d e d e.
Proof. apply kq_modify_view. intros s. destruct (_ <? _)%N; unfold vsame; cbn; auto 10. Qed.
Hint Resolve kq_adj_if : kq.

Lemma kq_fetch_flow_collection_end seq : kq (fetch_flow_collection_end ops F seq) 0 0 0 0.
Proof.
  unfold fetch_flow_collection_end. intros pre.
  eapply Tr_bind; [apply (Tr_check_flow_closer_Q seq pre)|intros ?; cbv beta].
  eapply Tr_bind; [apply (Tr_remove_Q seq pre)|intros ?; cbv beta].
  eapply Tr_bind; [apply (Tr_decrease_Q seq pre)|intros ?; cbv beta].
  eapply Tr_bind; [apply (Tr_keep_Qh _ pre _ _ _ _ seq (kq_disallow 1 1) same_ifms_disallow)|intros ?; cbv beta].
  eapply Tr_bind with (R := fun _ s => QB pre 1 1 s /\ hd_inside (sc_ifms s) = false).
  { destruct seq.
    - intros s x s' [HJ _] E. unfold bind at 1, mark, gets in E.
      split; [eapply (kq_end_implicit_mapping (sc_mark s) 1 1); [exact HJ|exact E]|eapply end_implicit_hd; exact E].
    - intros s x s' [HJ HQ] E. inversion E; subst. split; [exact HJ|apply HQ; reflexivity]. }
  intros ?; cbv beta.
  eapply Tr_bind with (R := fun _ => QB pre 1 0).
  { intros s x s' [HJ Hh] E. inversion E; subst. apply pop_ifms_Q; assumption. }
  intros ?; cbv beta.
  match goal with |- Tr _ ?m _ => assert (HR : kq m 1 0 0 0) by kq_go; apply HR end.
Qed.

(* ---- fetch_value: tokens are inserted in the middle of the queue, at the position of a possible simple key ---- *)
Lemma insert_Q pre d e (s : st) sk r t l :
  sc_sks s = sk :: r -> sk_possible sk = true -> (sc_tokens_parsed s <= sk_token_number sk)%N ->
  insert_at (N.to_nat (sk_token_number sk - sc_tokens_parsed s)) t (sc_tokens s) = Some l ->
  Q pre d e s -> Q pre (d + wt t) e (set_tokens l s).
Proof.
  intros Es Hp Hle Hi [J0 HJ]. destruct (insert_at_split _ _ _ _ Hi) as (a0 & b0 & Et & -> & Hl).
  split; [exact J0|]. vw. rewrite Et in HJ. rewrite app_assoc in HJ |- *.
  eapply (QV_insert t d e (pre ++ a0) b0 _ _ _ sk); [rewrite Es; left; reflexivity|exact Hp| |exact HJ].
  unfold kpos. rewrite app_length. lia.
Qed.

Lemma roll_indent_some_Q pre d e (s : st) a s' sk r col mk :
  roll_indent col (Some (sk_token_number sk)) TBlockMappingStart mk s = Ok (a, s') ->
  sc_sks s = sk :: r -> sk_possible sk = true -> Q pre d e s -> Q pre d e s'.
Proof.
  intros E Es Hp HJ. unfold roll_indent in E. unfold bind at 1, get at 1 in E.
  destruct (0 <? sc_flow_level s)%N eqn:EF; [inversion E; subst; exact HJ|].
  destruct (if (sc_indent s <=? Z.of_N col)%Z then _ else _) as [ind inds].
  destruct (ind <? Z.of_N col)%Z.
  - destruct (BLOCK_NESTING_MAX <=? N.of_nat (length inds))%N eqn:EL; [discriminate|].
    unfold bind at 1, put at 1 in E.
    destruct (sk_token_number sk <? sc_tokens_parsed s)%N eqn:EP; [discriminate|]. apply N.ltb_ge in EP.
    unfold insert_token in E. vwin E.
    destruct (insert_at _ _ _) as [l|] eqn:Ei; [|discriminate]. inversion E; subst.
    replace d with (d + wt (span_empty mk, TBlockMappingStart))%Z by (unfold wt; cbn; lia).
    eapply (insert_Q pre d e _ sk r _ l); vw; try eassumption.
  - unfold put in E. inversion E; subst. eapply Q_view; [..|exact HJ]; reflexivity.
Qed.

Ltac bstep E E1 a s1 :=
  unfold bind at 1 in E;
  match type of E with (match ?m ?s with _ => _ end) = _ => destruct (m s) as [[a s1]| | |] eqn:E1; try discriminate end.

Lemma step_Fr_Q {A} (m : M A) pre d e (x : st) a y sks fl :
  Fr m -> m x = Ok (a, y) -> QB pre d e x /\ sc_sks x = sks /\ sc_flow_level x = fl ->
  QB pre d e y /\ sc_sks y = sks /\ sc_flow_level y = fl.
Proof.
  intros HF E (HJ & H1 & H2). split; [eapply (kq_Fr m d e HF); eauto|].
  destruct (HF _ _ _ E) as (F1 & F2 & _). rewrite F1, F2. auto.
Qed.

Lemma kq_fetch_value : kq (fetch_value ops F) 0 0 0 0.
Proof.
  intros pre s a s' [HB HJ] E. unfold fetch_value in E. unfold bind at 1, get at 1 in E.
  destruct (sc_sks s) as [|sk r] eqn:Es; [discriminate|]. unfold bind at 1, ret at 1 in E. cbv zeta in E.
  remember (match sc_ifms s with ImPossible :: _ => true | _ => false end) as bs eqn:Ebs.
  bstep E E1 u1 s1.
  assert (H1 : QB pre (if bs then -1 else 0) 0 s1 /\ sc_sks s1 = sk :: r /\ sc_flow_level s1 = sc_flow_level s).
  { destruct bs.
    - inversion E1; subst. split; [|split; [exact Es|reflexivity]]. split; [exact HB|]. destruct HJ as [J0 HJ].
      split; [exact J0|]. vw. destruct (sc_ifms s) as [|[| | |] ri]; try discriminate. cbn [tl].
      eapply QV_state; [exact HJ|lia| |]; intros HL; cbn [length] in *; rewrite ?ni_cons; cbn [is_inside]; lia.
    - inversion E1; subst. split; [split; assumption|split; [exact Es|reflexivity]]. }
  clear E1 HJ HB.
  bstep E E2 u2 s2. apply (step_Fr_Q _ _ _ _ _ _ _ _ _ (Fr_skip_non_blank ops) E2) in H1. clear E2.
  bstep E E3 c s3.
  assert (H3 : Fr (if (sc_flow_level s =? 0)%N then look_ch ops else ret 0%N)) by (destruct (_ =? _)%N; auto with fr).
  apply (step_Fr_Q _ _ _ _ _ _ _ _ _ H3 E3) in H1. clear E3 H3.
  bstep E E4 u4 s4.
  match type of E4 with ?m _ = _ => assert (H4 : Fr m) by fr end.
  apply (step_Fr_Q _ _ _ _ _ _ _ _ _ H4 E4) in H1. clear E4 H4.
  destruct H1 as ([HB4 HJ4] & Es4 & Ef4).
  destruct (sk_possible sk) eqn:Hp.
  - unfold bind at 1, get at 1 in E.
    destruct (sk_token_number sk <? sc_tokens_parsed s4)%N eqn:EP; [discriminate|]. apply N.ltb_ge in EP.
    unfold bind at 1, ret at 1 in E.
    bstep E E5 u5 s5. unfold insert_token in E5.
    destruct (insert_at _ _ (sc_tokens s4)) as [l5|] eqn:Ei5; [|discriminate]. inversion E5; subst u5 s5. clear E5.
    pose proof (insert_Q pre _ 0 s4 sk r _ l5 Es4 Hp EP Ei5 HJ4) as HJ5.
    replace ((if bs then -1 else 0) + wt (span_empty (sk_mark sk), TKey))%Z with (if bs then -1 else 0)%Z in HJ5
      by (unfold wt; cbn; destruct bs; lia).
    bstep E E6 u6 s6.
    assert (H6 : SkB s6 /\ sc_sks s6 = sk :: r /\ Q pre 0 0 s6).
    { destruct bs.
      - cbn [orb] in E6. destruct (_ || _) in E6; [discriminate|]. unfold insert_token in E6. vwin E6.
        destruct (insert_at _ _ l5) as [l6|] eqn:Ei6; [|discriminate]. inversion E6; subst u6 s6.
        split; [exact HB4|]. split; [exact Es4|].
        exact (insert_Q pre (-1) 0 (set_tokens l5 s4) sk r _ l6 Es4 Hp EP Ei6 HJ5).
      - assert (s6 = set_tokens l5 s4).
        { cbn [orb] in E6. destruct (match sc_ifms s with ImInside :: _ => true | _ => false end);
            [destruct (_ || _) in E6; [discriminate|]|]; inversion E6; reflexivity. }
        subst s6. split; [exact HB4|]. split; [exact Es4|]. exact HJ5. }
    clear E6 HJ5 HJ4. destruct H6 as (HB6 & Es6 & HJ6).
    bstep E E7 u7 s7.
    pose proof (roll_indent_some_Q pre 0 0 s6 u7 s7 sk r _ _ E7 Es6 Hp HJ6) as HJ7.
    pose proof (Keepk_roll_indent _ _ _ _ _ _ _ HB6 E7) as (HB7 & _).
    match type of E with ?m _ = _ => assert (HR : kq m 0 0 0 0) end.
    { eapply kq_bind; [apply kq_roll_one_col_indent|intros ?]. eapply kq_bind; [apply kq_kill_key|intros ?]. kq_go. }
    exact (HR pre _ _ _ (conj HB7 HJ7) E).
  - match type of E with ?m _ = _ => assert (HR : kq m (if bs then -1 else 0) 0 0 0) end.
    { destruct bs; cbv iota; kq_go. }
    exact (HR pre _ _ _ (conj HB4 HJ4) E).
Qed.
Hint Resolve kq_fetch_value : kq.

Lemma kq_fetch_flow_value : kq (fetch_flow_value ops F) 0 0 0 0.
Proof. unfold fetch_flow_value. kq_go. Qed.


(* ------------------------------------------------------------------------------------------------ *)
(* 5. fetch_next_token, fetch_more_tokens, next_token, the Scanner iterator                            *)
(* ------------------------------------------------------------------------------------------------ *)
Hint Resolve kq_fetch_stream_end kq_fetch_directive kq_fetch_flow_collection_start kq_fetch_flow_collection_end
  kq_fetch_flow_entry kq_fetch_block_entry kq_fetch_key kq_fetch_flow_value kq_fetch_anchor kq_fetch_tag
  kq_fetch_block_scalar kq_fetch_flow_scalar kq_fetch_plain_scalar : kq.
Hint Extern 1 (kq (fetch_document_indicator _ _) _ _ _ _) => apply kq_fetch_document_indicator; reflexivity : kq.

Definition QInv (pre : list token) (s : st) : Prop := SkInv s /\ Q pre 0 0 s.

Lemma stream_start_Q pre (s : st) a s' : fetch_stream_start s = Ok (a, s') -> Q pre 0 0 s -> Q pre 0 0 s'.
Proof.
  intros E [J0 HJ]. unfold fetch_stream_start, bind, get, put in E. inversion E; subst. split; [exact J0|]. vw.
  rewrite app_assoc. eapply QV_sks_gen; [lia| |apply QV_push_plain; [reflexivity|exact HJ]].
  intros P _ HK. constructor; [cbn; discriminate|exact HK].
Qed.

Lemma fetch_next_token_Q pre : Tr (QInv pre) (fetch_next_token ops F) (fun _ => Q pre 0 0).
Proof.
  intros s a s' [HS HJ] E. unfold fetch_next_token in E.
  bstep E E1 u1 s1. pose proof (Fr_look ops 1 _ _ _ E1) as HF.
  apply (Q_frame _ _ _ _ _ HF) in HJ. apply (SkInv_frame _ _ HF) in HS. clear E1 HF.
  unfold bind at 1, get at 1 in E. destruct (sc_stream_start s1) eqn:ESS; cbn [negb] in E.
  - pose proof (SkInv_SkB _ HS ESS) as HB.
    match type of E with ?m _ = _ => assert (HR : kq m 0 0 0 0) by kq_go end.
    apply (HR pre _ _ _ (conj HB HJ) E).
  - eapply stream_start_Q; eauto.
Qed.

Lemma fetch_more_tokens_QInv fuel pre : Tr (QInv pre) (fetch_more_tokens ops F fuel) (fun _ => QInv pre).
Proof.
  induction fuel as [|fuel IH]; cbn [fetch_more_tokens]; intros s a s' HI E; [discriminate|].
  unfold bind at 1, get at 1 in E. bstep E E1 need s1.
  assert (H1 : QInv pre s1).
  { destruct (sc_tokens s); [inversion E1; subst; exact HI|].
    unfold bind at 1 in E1. destruct (stale_simple_keys s) as [[u s0]| | |] eqn:E0; try discriminate.
    unfold bind, get, ret in E1. inversion E1; subst. destruct HI as [HS HJ].
    split; [eapply Tr_stale_SkInv; eauto|eapply stale_Q; eauto]. }
  clear E1 HI. destruct need.
  - bstep E E2 u2 s2. eapply IH; [|exact E]. split.
    + eapply fetch_next_token_SkInv; [apply H1|exact E2].
    + eapply fetch_next_token_Q; [exact H1|exact E2].
  - inversion E; subst. destruct H1 as [HS HJ]. split.
    + eapply SkInv_vsame; [|exact HS]. unfold vsame; cbn; auto 10.
    + eapply Q_view; [..|exact HJ]; reflexivity.
Qed.

(* between two calls of next_token; [Good] (LazyScan.v): a queued StreamEnd token is the last one *)
Definition TInv (pre : list token) (s : st) : Prop :=
  QInv pre s /\ (sc_stream_end s = false -> Good s) /\ (sc_stream_end s = true -> sc_tokens s = []).

Lemma pop_good (s1 : st) t r n :
  Good s1 -> sc_tokens s1 = t :: r ->
  (is_se (snd t) = true -> r = [])
  /\ (is_se (snd t) = false -> Good (set_tp n (set_ta false (set_tokens r s1)))).
Proof.
  intros [HN|(HC & l & EL & HL)] ET.
  - split.
    + intros HS. specialize (HN t). rewrite ET in HN. specialize (HN (or_introl eq_refl)). unfold tnse in HN. congruence.
    + intros _. left. intros x Hx. apply HN. rewrite ET. right. exact Hx.
  - rewrite ET in EL. destruct l as [|y l'].
    + cbn [app] in EL. inversion EL; subst. split; [reflexivity|intros HS; discriminate HS].
    + cbn [app] in EL. inversion EL; subst. split.
      * intros HS. specialize (HL y (or_introl eq_refl)). unfold tnse in HL. congruence.
      * intros _. right. split; [exact HC|]. exists l'. split; [reflexivity|]. intros x Hx. apply HL. right. exact Hx.
Qed.

Lemma next_token_TInv pre (s : st) t s' :
  next_token ops F s = Ok (Some t, s') -> TInv pre s -> TInv (pre ++ [t]) s'.
Proof.
  intros H (HI & HG & HE). unfold next_token in H. unfold bind at 1, get at 1 in H.
  destruct (sc_stream_end s) eqn:ESE; [inversion H|].
  bstep H E1 u s1.
  assert (H1 : QInv pre s1 /\ Good s1 /\ sc_stream_end s1 = false).
  { destruct (sc_token_available s); [inversion E1; subst; auto|].
    split; [eapply fetch_more_tokens_QInv; eauto|].
    destruct (fetch_more_tokens_good ops F _ _ _ _ E1) as ([FL _] & G & _). split; [apply G, HG; reflexivity|congruence]. }
  clear E1 HI HG HE. destruct H1 as (HI & HG & ES1). unfold bind at 1, get at 1 in H.
  destruct (sc_tokens s1) as [|t0 r] eqn:ET; [discriminate|].
  unfold bind at 1, put at 1 in H. unfold bind at 1 in H.
  assert (H2 : QInv (pre ++ [t0]) (set_tp (sc_tokens_parsed s1 + 1) (set_ta false (set_tokens r s1)))).
  { destruct HI as [HS [J0 HJ]]. split.
    - eapply SkInv_vsame; [|exact HS]. unfold vsame; cbn; auto 10.
    - split; vw; [rewrite app_length, J0; cbn [length]; lia|].
      rewrite <- app_assoc. cbn [app]. rewrite ET in HJ. exact HJ. }
  destruct (pop_good s1 t0 r (sc_tokens_parsed s1 + 1)%N HG ET) as [PG1 PG2].
  destruct (is_se (snd t0)) eqn:EK.
  - destruct (snd t0); try discriminate EK. unfold modify, ret in H. inversion H; subst. rewrite (PG1 eq_refl) in *.
    split; [|split; [intros X; discriminate X|intros _; reflexivity]].
    destruct H2 as [HS HJ]. split.
    + eapply SkInv_vsame; [|exact HS]. unfold vsame; cbn; auto 10.
    + eapply Q_view; [..|exact HJ]; reflexivity.
  - assert (s' = set_tp (sc_tokens_parsed s1 + 1) (set_ta false (set_tokens r s1)) /\ t = t0).
    { destruct (snd t0); try discriminate EK; unfold ret in H; inversion H; auto. }
    destruct H0 as [-> ->]. split; [exact H2|]. split; [intros _; apply PG2; reflexivity|].
    cbn. rewrite ES1. intros X; discriminate X.
Qed.

Lemma TInv_init (i : I) : TInv [] (init_sc i).
Proof.
  split; [split; [apply SkInv_init|]|].
  - split; [reflexivity|]. left. cbn. split; reflexivity.
  - split; [intros _; left; intros t []|cbn; intros X; discriminate X].
Qed.

(* the state in which a scan ends *)
Fixpoint last_state (n : nat) (s : st) : st :=
  match n with
  | O => s
  | S n => match next_token ops F s with
           | Ok (Some _, s') => last_state n s'
           | Ok (None, s') => s'
           | _ => s
           end
  end.

Lemma scan_all_final fuel : forall (s : st) acc toks,
  TInv (rev acc) s -> scan_all ops F fuel s acc = (toks, SEnded) ->
  QV 0 0 toks (sc_sks (last_state fuel s)) (sc_flow_level (last_state fuel s)) (sc_ifms (last_state fuel s)).
Proof.
  induction fuel as [|fuel IH]; intros s acc toks HI HS; cbn [scan_all last_state] in *; [discriminate HS|].
  destruct (next_token ops F s) as [[[t|] s']| | |] eqn:E; try discriminate HS.
  - apply (IH s' (t :: acc) toks); [cbn [rev]; eapply next_token_TInv; eauto|exact HS].
  - inversion HS; subst. destruct (next_token_none ops F _ _ E) as [ESE ->].
    destruct HI as ([_ [_ HJ]] & _ & HE). rewrite (HE ESE), app_nil_r in HJ. exact HJ.
Qed.

(* THE scanner theorem: a scan that ends properly with a bracket-balanced token stream ends at flow level 0 *)
Theorem balanced_flow_level_zero fuel (i : I) ss t sps :
  scan_all ops F fuel (init_sc i) [] = (ss :: t ++ [(sps, TStreamEnd)], SEnded) ->
  snd ss = TStreamStart -> Forall nse t ->
  RejectProofs.flow_balanced (ss :: t ++ [(sps, TStreamEnd)]) [] = true ->
  sc_flow_level (last_state fuel (init_sc i)) = 0%N.
Proof.
  intros HS HSS HN HB.
  pose proof (scan_all_final fuel (init_sc i) [] _ (TInv_init i) HS) as HQ.
  destruct ss as [sp0 k0]. cbn [snd] in HSS. subst k0. cbn [RejectProofs.flow_balanced] in HB.
  destruct (balanced_zs sps t [] HN HB) as [Z1 Z2]. cbn [length] in Z1, Z2.
  assert (ZT : zs ((sp0, TStreamStart) :: t ++ [(sps, TStreamEnd)]) = 0%Z).
  { cbn [zs]. rewrite zs_app. cbn [zs]. unfold wt. cbn [snd wk_tok]. lia. }
  destruct HQ as [[H1 H2]|[(P & HP & HZ & _)|(Hd & _)]].
  - rewrite ZT in H2. lia.
  - exfalso. destruct P as [|P]; [cbn in HZ; lia|]. cbn [firstn zs] in HZ. rewrite firstn_app, zs_app in HZ.
    specialize (Z2 P). unfold wt at 1 in HZ. cbn [snd wk_tok] in HZ.
    assert (Z3 : zs (firstn (P - length t) [(sps, TStreamEnd)]) = 0%Z) by (destruct (P - length t); [reflexivity|cbn; destruct n; reflexivity]).
    unfold token in *. lia.
  - discriminate Hd.
Qed.

End Scan.

Print Assumptions balanced_flow_level_zero.
