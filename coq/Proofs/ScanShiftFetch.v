(* C15 tail independence of the scanner (see ScanShift.v): the FETCH family - the token-level skeleton of
   Model/SFetch.v under the state relation [SH d] of ScanShift.v.

   Every fetch_* function, the dispatcher fetch_next_token, fetch_more_tokens, next_token and scan_all, run from two
   states with the same remaining text, side 2 shifted by [d], end the same way: related values and related states
   again, or the same error site at the shifted marker.  TWO independent fuels everywhere.  The five character-level
   contracts proved by the other families (directive, tag, flow / plain / block scalar) are hypotheses of the
   section; the contracts of the primitives and of scan_anchor come from ScanShiftPrim.v.

   Port of ScanBrkFetch.v; what is NOT mechanical:
     fetch_flow_collection_start   increase_flow_level .. skip_non_blank is one step ([bwp_flow_open]): the flow level may
                                   go from 0 to 1, where the adjacency information becomes observable
     fetch_block_entry             the LAST queued token is compared (anchor / tag at column 0): related queues have
                                   related last elements, or are both empty ([F2_last_cons])
     fetch_value                   the key's token number and mark are related only while the key is possible; the
                                   queue position  sk_token_number - sc_tokens_parsed  is the same on both sides
                                   ([shift_sub]); the 1024-character / same-line test on the key of a flow pair is
                                   invariant under the shift ([key_far_brk])
     fetch_flow_value, dispatcher  adjacent_value_allowed_at is compared with the index only inside a flow collection
                                   ([SH_adj_guard]); fetch_flow_value has the precondition "flow level > 0"
     fetch_next_token_gen          the step after StreamStart from two states whose leading skip_to_next_token runs end
                                   in related states (used at the document boundary, ScanShiftTop.v)
     fetch_more_tokens             "a possible key sits at the head of the queue":  sk_token_number = sc_tokens_parsed
                                   on both sides ([shift_eqb])
   The alignment premises inherited from ScanBrkFetch.v ([rn s1 0 <> 10], [noLF 3 (rm s1)]) are not needed for the
   shift (see the header of ScanShift.v). *)
From Coq Require Import List NArith ZArith Bool Arith Lia.
Import ListNotations.
Require Import Parser SBase SPrim SDir SScalar SFetch ScanShift ScanShiftPrim.
Local Open Scope nat_scope.

(* ---------------- small facts ---------------- *)
Lemma rn_keep (t s : bst) : rm t = rm s -> rn s 0 <> 10%N -> rn t 0 <> 10%N.
Proof. intros R N. rewrite (rn_eq t s 0 R). exact N. Qed.
Lemma noLF_keep k (t s : bst) : rm t = rm s -> noLF k (rm s) -> noLF k (rm t).
Proof. intros R N. rewrite R. exact N. Qed.
Lemma docstart_noLF (s : bst) : docstart_val s = true -> noLF 3 (rm s).
Proof.
  unfold docstart_val. destruct (n3are s 45%N 45%N 45%N) eqn:E; [intros _|discriminate].
  eapply n3are_noLF; [| | |exact E]; reflexivity.
Qed.
Lemma docend_noLF (s : bst) : docend_val s = true -> noLF 3 (rm s).
Proof.
  unfold docend_val. destruct (n3are s 46%N 46%N 46%N) eqn:E; [intros _|discriminate].
  eapply n3are_noLF; [| | |exact E]; reflexivity.
Qed.
Lemma F2_rev {A B} (R : A -> B -> Prop) l1 l2 : Forall2 R l1 l2 -> Forall2 R (rev l1) (rev l2).
Proof.
  induction 1 as [|a b l1 l2 Hab H IH]; [constructor|]. cbn [rev]. apply Forall2_app; [exact IH|].
  constructor; [exact Hab|constructor].
Qed.
Lemma F2_last_cons {A B} (R : A -> B -> Prop) l1 l2 : Forall2 R l1 l2 -> forall a b d1 d2, R a b ->
  R (last (a :: l1) d1) (last (b :: l2) d2).
Proof.
  induction 1 as [|a' b' l1 l2 Hab' H IH]; intros a b d1 d2 Hab; [exact Hab|].
  change (R (last (a' :: l1) d1) (last (b' :: l2) d2)). apply IH. exact Hab'.
Qed.
Lemma ES_panic_r d e n : ES d e (SPanic n).
Proof. destruct e; exact I. Qed.
Lemma ES_fuel_r d e : ES d e SFuel.
Proof. destruct e; exact I. Qed.
Lemma ES_panic_l d e n : ES d (SPanic n) e.
Proof. destruct e; exact I. Qed.
Lemma ES_fuel_l d e : ES d SFuel e.
Proof. destruct e; exact I. Qed.

(* [keep]: an alignment fact about a state [s] is moved to a state [t] with the same remaining text *)
Ltac keep :=
  repeat match goal with
  | RT : rm ?t = rm ?s, N : rn ?s 0 <> 10%N |- _ => pose proof (rn_keep t s RT N); clear N
  | RT : rm ?t = rm ?s, N : noLF ?k (rm ?s) |- _ => pose proof (noLF_keep k t s RT N); clear N
  end.
(* the same boolean test on both sides (syntactically) *)
Ltac br := match goal with |- swp _ (if ?b then _ else _) (if ?b then _ else _) _ _ _ => destruct b end.

Section BrkFetch.
Variable d : shift.
Local Notation bwp := (swp d).

Hypothesis H_dir : shf_scan_directive d.
Hypothesis H_tag : shf_scan_tag d.
Hypothesis H_flow : shf_scan_flow_scalar d.
Hypothesis H_plain : shf_scan_plain_scalar d.
Hypothesis H_block : shf_scan_block_scalar d.

(* a unit-valued step that keeps the remaining text *)
Definition kpost (s1 : bst) : unit -> bst -> unit -> bst -> Prop :=
  fun _ t1 _ t2 => SH d t1 t2 /\ rm t1 = rm s1.
Lemma bwp_seq {B1 B2} (m1 m2 : BM unit) (f1 : unit -> BM B1) (f2 : unit -> BM B2)
  (Q : B1 -> bst -> B2 -> bst -> Prop) s1 s2 :
  bwp m1 m2 (kpost s1) s1 s2 ->
  (forall t1 t2, SH d t1 t2 -> rm t1 = rm s1 -> bwp (f1 tt) (f2 tt) Q t1 t2) ->
  bwp (bind m1 f1) (bind m2 f2) Q s1 s2.
Proof.
  intros H HK. apply bwp_bind. eapply bwp_mono; [exact H|]. intros [] t1 [] t2 [HB HR]. apply HK; assumption.
Qed.

(* [sk lem]: one skeleton-only step  m ;;; rest  with the rule [lem d : SH d s1 s2 -> skel_post -> bwp m m Q s1 s2] *)
Ltac sk lem :=
  apply bwp_bind; apply (lem d); [eassumption|];
  let t1 := fresh "t1" in let t2 := fresh "t2" in let HT := fresh "HT" in let RT := fresh "RT" in
  intros t1 t2 HT RT; keep; clear RT.
(* close [bpost d eq tt t1 tt t2] / [kpost s tt t1 tt t2] *)
Ltac fin := split; [reflexivity|assumption].
Ltac kfin := split; [assumption|first [assumption|reflexivity]].

(* ---------------- stream start / end ---------------- *)
Theorem fetch_stream_start_ok : shf_fetch_stream_start d.
Proof.
  intros s1 s2 H. unfold fetch_stream_start. apply bwp_bind. apply bwp_get. cbv beta zeta.
  apply bwp_put. split; [reflexivity|].
  apply SH_set_sks.
  - apply SH_push; [|apply TS_empty; exact (sh_mark H)]. apply SH_set_ska. apply SH_set_ss.
    rewrite <- (SH_indents H). apply SH_set_indent. exact H.
  - constructor; [apply KS_dead|]. exact (sh_sks H).
Qed.

Theorem fetch_stream_end_ok : shf_fetch_stream_end d.
Proof.
  intros s1 s2 H. unfold fetch_stream_end.
  apply bwp_bind. apply bwp_modify. cbv beta.
  match goal with |- swp _ _ _ _ ?a ?b => assert (HU : SH d a b) end.
  { rewrite <- (SH_col H). destruct (m_col (sc_mark s1) =? 0)%N; [exact H|].
    apply SH_set_mark; [exact H|]. apply mark_step_eol. exact (sh_mark H). }
  match goal with |- swp _ _ _ _ ?a ?b => generalize dependent a; generalize dependent b end.
  intros u2 u1 HU.
  apply bwp_bind. apply bwp_get. cbv beta.
  rewrite <- (F2_existsb _ (fun k => sk_required k && sk_possible k) (fun k => sk_required k && sk_possible k) _ _ (sh_sks HU)).
  2:{ intros k1 k2 HK. symmetry. apply (KS_rp d). exact HK. }
  destruct (existsb _ (sc_sks u1)); [apply (bwp_fail_mark d); exact HU|].
  apply bwp_bind. apply (bwp_put_br d).
  { apply SH_set_sks; [exact HU|]. apply (F2_map (KS d)); [exact (sh_sks HU)|].
    intros k1 k2 HK. apply KS_kill. exact HK. }
  { reflexivity. }
  intros v1 v2 HV _.
  sk bwp_unroll_indent. sk bwp_remove_simple_key. sk bwp_disallow_simple_key.
  apply bwp_bind. apply (bwp_mark d); [eassumption|]. intros HM.
  apply (bwp_push_tok d); [eassumption|apply TS_empty; exact HM|]. intros; fin.
Qed.

(* ---------------- the entry points of the character-level scanners ---------------- *)
Theorem fetch_directive_ok : shf_fetch_directive d.
Proof.
  intros F1 F2 s1 s2 H N0. unfold fetch_directive.
  sk bwp_unroll_indent. sk bwp_remove_simple_key. sk bwp_disallow_simple_key.
  eapply (bwp_call d); [apply H_dir; eassumption|]. intros a1 a2 u1 u2 HTR HU.
  apply (bwp_push_tok d); [exact HU|exact HTR|]. intros; fin.
Qed.

Theorem fetch_tag_ok : shf_fetch_tag d.
Proof.
  intros F1 F2 s1 s2 H N0. unfold fetch_tag.
  sk bwp_save_simple_key. sk bwp_disallow_simple_key.
  eapply (bwp_call d); [apply H_tag; eassumption|]. intros a1 a2 u1 u2 HTR HU.
  apply (bwp_push_tok d); [exact HU|exact HTR|]. intros; fin.
Qed.

Theorem fetch_anchor_ok : shf_fetch_anchor d.
Proof.
  intros F1 F2 alias s1 s2 H N0. unfold fetch_anchor.
  sk bwp_save_simple_key. sk bwp_disallow_simple_key.
  eapply (bwp_call d); [apply (scan_anchor_ok d); eassumption|]. intros a1 a2 u1 u2 HTR HU.
  apply (bwp_push_tok d); [exact HU|exact HTR|]. intros; fin.
Qed.

Theorem fetch_block_scalar_ok : shf_fetch_block_scalar d.
Proof.
  intros F1 F2 literal s1 s2 H N0. unfold fetch_block_scalar.
  sk bwp_save_simple_key. sk bwp_allow_simple_key.
  eapply (bwp_call d); [apply H_block; eassumption|]. intros a1 a2 u1 u2 HTR HU.
  apply (bwp_push_tok d); [exact HU|exact HTR|]. intros; fin.
Qed.

Theorem fetch_flow_scalar_ok : shf_fetch_flow_scalar d.
Proof.
  intros F1 F2 single s1 s2 H N0. unfold fetch_flow_scalar.
  sk bwp_save_simple_key. sk bwp_disallow_simple_key.
  eapply (bwp_call d); [apply H_flow; eassumption|]. intros a1 a2 u1 u2 HTR HU.
  eapply (bwp_call_al_eq d); [apply (skip_to_next_token_ok d); exact HU|]. intros [] v1 v2 HV _.
  apply bwp_bind. apply (bwp_modify_br d); [apply SH_set_adj_here; exact HV|reflexivity|]. intros w1 w2 HW _.
  apply (bwp_push_tok d); [exact HW|exact HTR|]. intros; fin.
Qed.

Theorem fetch_plain_scalar_ok : shf_fetch_plain_scalar d.
Proof.
  intros F1 F2 s1 s2 H N0. unfold fetch_plain_scalar.
  sk bwp_save_simple_key. sk bwp_disallow_simple_key.
  eapply (bwp_call d); [apply H_plain; eassumption|]. intros a1 a2 u1 u2 HTR HU.
  apply (bwp_push_tok d); [exact HU|exact HTR|]. intros; fin.
Qed.

(* ---------------- flow collections ---------------- *)
Theorem fetch_flow_collection_start_ok : shf_fetch_flow_collection_start d.
Proof.
  intros F1 F2 seq s1 s2 H N0. unfold fetch_flow_collection_start.
  sk bwp_save_simple_key. sk bwp_roll_one_col_indent.
  match goal with HH : SH d ?a ?b |- _ => pose proof (sh_mark HH) as HM0; apply (bwp_flow_open d); [exact HH|] end.
  intros u1 u2 HU _.
  apply bwp_bind. apply (bwp_modify_br d).
  { rewrite <- (SH_ifms HU). apply SH_set_ifms. exact HU. }
  { reflexivity. }
  intros v1 v2 HV _.
  eapply (bwp_call_eq d); [apply (skip_ws_to_eol_ok d); exact HV|]. intros tw w1 w2 HW.
  apply bwp_bind. apply (bwp_mark d); [exact HW|]. intros HM1.
  apply (bwp_push_tok d); [exact HW|apply TS_mk; apply SPS_mk; assumption|]. intros; fin.
Qed.

Lemma bwp_check_flow_closer seq (Q : unit -> bst -> unit -> bst -> Prop) s1 s2 :
  SH d s1 s2 -> Q tt s1 tt s2 -> bwp (check_flow_closer seq) (check_flow_closer seq) Q s1 s2.
Proof.
  intros H HQ. unfold check_flow_closer. apply bwp_bind. apply bwp_get. cbv beta. sh_sync H.
  destruct (sc_ifms s1) as [|st r]; [apply bwp_ret; exact HQ|]. cbv zeta.
  destruct (Bool.eqb _ _); [apply bwp_ret; exact HQ|]. apply bwp_fail. exact (sh_mark H).
Qed.

Theorem fetch_flow_collection_end_ok : shf_fetch_flow_collection_end d.
Proof.
  intros F1 F2 seq s1 s2 H N0. unfold fetch_flow_collection_end.
  apply bwp_bind. apply bwp_check_flow_closer; [exact H|]. cbv beta.
  sk bwp_remove_simple_key. sk bwp_decrease_flow_level. sk bwp_disallow_simple_key.
  apply bwp_seq.
  { destruct seq.
    - apply bwp_bind. apply (bwp_mark d); [eassumption|]. intros HM.
      apply (bwp_end_implicit_mapping d); [eassumption|exact HM|]. intros; kfin.
    - apply bwp_ret. kfin. }
  intros u1 u2 HU RU. keep. clear RU.
  apply bwp_bind. apply (bwp_modify_br d).
  { rewrite <- (SH_ifms HU). apply SH_set_ifms. exact HU. }
  { reflexivity. }
  intros v1 v2 HV RV. keep. clear RV.
  apply bwp_bind. apply (bwp_mark d); [exact HV|]. intros HM0.
  apply bwp_bind. apply (bwp_skip_non_blank d); [exact HV|eassumption|]. intros w1 w2 HW _.
  eapply (bwp_call_eq d); [apply (skip_ws_to_eol_ok d); exact HW|]. intros tw x1 x2 HX.
  apply bwp_bind. apply bwp_modify. cbv beta.
  match goal with |- swp _ _ _ _ ?a ?b => assert (HY : SH d a b) end.
  { rewrite <- (SH_flow_level HX). destruct (0 <? sc_flow_level x1)%N; [apply SH_set_adj_here|]; exact HX. }
  match goal with |- swp _ _ _ _ ?a ?b => generalize dependent a; generalize dependent b end.
  intros y2 y1 HY.
  apply bwp_bind. apply (bwp_mark d); [exact HY|]. intros HM1.
  apply (bwp_push_tok d); [exact HY|apply TS_mk; apply SPS_mk; assumption|]. intros; fin.
Qed.

Theorem fetch_flow_entry_ok : shf_fetch_flow_entry d.
Proof.
  intros F1 F2 s1 s2 H N0. unfold fetch_flow_entry.
  sk bwp_remove_simple_key. sk bwp_allow_simple_key.
  apply bwp_bind. apply (bwp_mark d); [eassumption|]. intros HM0.
  apply bwp_bind. apply (bwp_end_implicit_mapping d); [eassumption|exact HM0|]. intros u1 u2 HU RU. keep. clear RU.
  apply bwp_bind. apply (bwp_skip_non_blank d); [exact HU|eassumption|]. intros v1 v2 HV _.
  eapply (bwp_call_eq d); [apply (skip_ws_to_eol_ok d); exact HV|]. intros tw w1 w2 HW.
  apply bwp_bind. apply (bwp_mark d); [exact HW|]. intros HM1.
  apply (bwp_push_tok d); [exact HW|apply TS_mk; apply SPS_mk; assumption|]. intros; fin.
Qed.

(* ---------------- block entry ---------------- *)
Theorem fetch_block_entry_ok : shf_fetch_block_entry d.
Proof.
  intros F1 F2 s1 s2 H N0. unfold fetch_block_entry.
  apply bwp_bind. apply bwp_get. cbv beta zeta. sh_sync H.
  br; [apply (bwp_fail_mark d); exact H|].
  br; [apply (bwp_fail_mark d); exact H|].
  apply bwp_bind.
  apply bwp_mono with (Q := fun (_ : unit) (t1 : bst) (_ : unit) (t2 : bst) => t1 = s1 /\ t2 = s2).
  { pose proof (sh_tokens H) as HT. rewrite <- (F2_nil_iff (TS d) _ _ HT).
    destruct HT as [|a b l1 l2 Hab HT]; [cbn [last]; lazy beta iota; apply bwp_ret; split; reflexivity|].
    pose proof (F2_last_cons (TS d) l1 l2 HT a b (span_empty mk0, TStreamEnd) (span_empty mk0, TStreamEnd) Hab) as HL.
    revert HL. destruct (last (a :: l1) _) as [sp1 tk1]. destruct (last (b :: l2) _) as [sp2 tk2].
    intros [[HS _] HE]. cbn [fst snd] in HS, HE. subst tk2.
    rewrite <- (MS_col d _ _ HS).
    destruct tk1; try (apply bwp_ret; split; reflexivity);
      (br; [apply bwp_fail; exact HS|apply bwp_ret; split; reflexivity]). }
  intros [] t1 [] t2 [-> ->].
  apply bwp_bind. apply (bwp_skip_non_blank d); [exact H|exact N0|]. intros u1 u2 HU _.
  apply bwp_bind. apply (bwp_roll_indent d); [exact HU|exact (sh_mark H)|exact I|]. intros v1 v2 HV _.
  eapply (bwp_call_eq d); [apply (skip_ws_to_eol_ok d); exact HV|]. intros tw w1 w2 HW.
  apply bwp_bind. apply (bwp_look d); [exact HW|]. intros x1 x2 HX _ _ _ _ _.
  (* [c] may be a line feed here: the test on [nc] is guarded by [c = '-'] *)
  apply bwp_bind. apply (bwp_peekn_raw d 0). apply bwp_bind. apply (bwp_peekn_raw d 1). cbv beta.
  rewrite <- !andb_assoc.
  rewrite (guard1_brk d is_blank_or_breakz 45%N x1 x2 HX eq_refl b1_is_blank_or_breakz).
  br; [apply (bwp_mark_fail d); exact HX|].
  eapply (bwp_call_eq d); [apply (skip_ws_to_eol_ok d); exact HX|]. intros tw' y1 y2 HY.
  apply bwp_bind. apply (bwp_look d); [exact HY|]. intros z1 z2 HZ _ _ _ _ _.
  apply bwp_bind. apply (bwp_peek d); [exact HZ|]. cbv beta. b1_norm.
  eapply (bwp_call_eq d).
  { br; [apply (bwp_roll_one_col_indent d); [exact HZ|]; intros; fin|apply bwp_ret; fin]. }
  intros [] a1 a2 HA.
  sk bwp_remove_simple_key. sk bwp_allow_simple_key.
  apply bwp_bind. apply (bwp_mark d); [eassumption|]. intros HM.
  apply (bwp_push_tok d); [eassumption|apply TS_empty; exact HM|]. intros; fin.
Qed.

(* ---------------- document indicators ---------------- *)
Theorem fetch_document_indicator_ok : shf_fetch_document_indicator d.
Proof.
  intros t s1 s2 H N3. unfold fetch_document_indicator.
  sk bwp_unroll_indent. sk bwp_remove_simple_key. sk bwp_disallow_simple_key.
  apply bwp_bind. apply (bwp_mark d); [eassumption|]. intros HM0.
  apply bwp_bind. apply (bwp_skip_n_non_blank d); [eassumption|eassumption|]. intros u1 u2 HU _.
  apply bwp_bind. apply (bwp_mark d); [exact HU|]. intros HM1.
  apply (bwp_push_tok d); [exact HU|apply TS_mk; apply SPS_mk; assumption|]. intros; fin.
Qed.

(* ---------------- key / value ---------------- *)
Theorem fetch_key_ok : shf_fetch_key d.
Proof.
  intros F1 F2 s1 s2 H N0. unfold fetch_key.
  apply bwp_bind. apply bwp_get. cbv beta zeta. sh_sync H.
  apply bwp_seq.
  { br.
    - br; [apply (bwp_fail_mark d); exact H|].
      apply (bwp_roll_indent d); [exact H|exact (sh_mark H)|exact I|]. intros; kfin.
    - apply bwp_modify. rewrite <- (SH_ifms H).
      destruct (sc_ifms s1) as [|[| | |] r]; (split; [first [exact H|apply SH_set_ifms; exact H]|reflexivity]). }
  intros u1 u2 HU RU. keep. clear RU.
  sk bwp_remove_simple_key.
  apply bwp_seq.
  { br; [apply (bwp_allow_simple_key d)|apply (bwp_disallow_simple_key d)]; try eassumption; intros; kfin. }
  intros v1 v2 HV RV. keep. clear RV.
  apply bwp_bind. apply (bwp_skip_non_blank d); [exact HV|eassumption|]. intros w1 w2 HW _.
  eapply (bwp_call_al_eq d); [apply (skip_yaml_whitespace_ok d); exact HW|]. intros [] x1 x2 HX _.
  apply bwp_bind. apply (bwp_peek d); [exact HX|]. cbv beta. b1_norm.
  br; [apply (bwp_mark_fail d); exact HX|].
  apply bwp_bind. apply (bwp_mark d); [exact HX|]. intros HM.
  apply (bwp_push_tok d); [exact HX|apply TS_mk; apply SPS_mk; [exact (sh_mark H)|exact HM]|]. intros; fin.
Qed.

(* the 1024-character test and the line test on the implicit key of a flow-sequence pair (fetch_value) are invariant
   under the shift *)
Lemma key_far_brk c1 c2 k1 k2 : KS d k1 k2 -> MS d c1 c2 -> sk_possible k1 = true ->
  ((m_line (sk_mark k2) <? m_line c2)%N || (m_index (sk_mark k2) + SIMPLE_KEY_MAX <? m_index c2)%N)
  = ((m_line (sk_mark k1) <? m_line c1)%N || (m_index (sk_mark k1) + SIMPLE_KEY_MAX <? m_index c1)%N).
Proof.
  intros HK HC EP. pose proof (ks_mark HK EP) as M.
  rewrite (MS_line_ltb d _ _ _ _ M HC), (MS_index_far d _ _ _ _ SIMPLE_KEY_MAX M HC). reflexivity.
Qed.

Theorem fetch_value_ok : shf_fetch_value d.
Proof.
  intros F1 F2 s1 s2 H N0. unfold fetch_value.
  apply bwp_bind. apply bwp_get. cbv beta.
  pose proof (sh_sks H) as HK. destruct HK as [|k1 k2 r1 r2 HK HR]; [exact I|].
  apply bwp_bind. apply bwp_ret. cbv beta zeta. sh_sync H.
  match goal with |- context [if ?b then modify _ else ret tt] => remember b as is_ifm eqn:Eifm; clear Eifm end.
  apply bwp_seq.
  { br; [|apply bwp_ret; kfin]. apply bwp_modify. split; [|reflexivity].
    rewrite <- (SH_ifms H). apply SH_set_ifms. exact H. }
  intros u1 u2 HU RU. keep. clear RU.
  apply bwp_bind. apply (bwp_skip_non_blank d); [exact HU|eassumption|]. intros v1 v2 HV _.
  apply bwp_bind.
  apply bwp_mono with (Q := fun (c1 : chr) (t1 : bst) (c2 : chr) (t2 : bst) => SH d t1 t2 /\ (c2 =? 9)%N = (c1 =? 9)%N).
  { br; [|apply bwp_ret; split; [exact HV|reflexivity]].
    apply (bwp_look_ch d); [exact HV|]. intros w1 w2 HW _ _ _ _. cbv beta. b1_norm. split; [exact HW|reflexivity]. }
  intros c1 w1 c2 w2 [HW Ec]. cbv beta. rewrite Ec. clear Ec.
  eapply (bwp_call_eq d).
  { br; [|apply bwp_ret; fin].
    eapply (bwp_call_eq d); [apply (skip_ws_to_eol_ok d); exact HW|]. intros tw x1 x2 HX.
    br; [|apply bwp_ret; fin].
    apply bwp_bind. apply (bwp_peek d); [exact HX|]. cbv beta. b1_norm.
    br; [apply (bwp_mark_fail d); exact HX|apply bwp_ret; fin]. }
  intros [] x1 x2 HX.
  rewrite <- (ks_possible HK).
  destruct (sk_possible k1) eqn:EP.
  - (* the pending simple key becomes a KEY token *)
    pose proof (ks_mark HK EP) as HKM. rewrite <- (ks_number HK EP), <- (MS_col d _ _ HKM).
    apply bwp_bind. apply bwp_get. cbv beta. sh_sync HX. rewrite !shift_ltb, !shift_sub.
    apply bwp_bind. br; [apply bwp_panic_l|]. apply bwp_ret.
    apply bwp_bind. apply (bwp_insert_token d); [exact HX|apply TS_empty; exact HKM|]. intros y1 y2 HY _.
    eapply (bwp_call_eq d).
    { br; [|apply bwp_ret; fin].
      match goal with |- swp _ (if ?b1 then _ else _) (if ?b2 then _ else _) _ _ _ =>
        replace b2 with b1 by (rewrite ?(SH_line H); symmetry; apply (key_far_brk _ _ _ _ HK (sh_mark H) EP)) end.
      br; [apply bwp_fail; exact (sh_mark H)|]. br; [|apply bwp_ret; fin].
      apply (bwp_insert_token d); [exact HY|apply TS_empty; exact HKM|]. intros; fin. }
    intros [] z1 z2 HZ.
    apply bwp_bind. apply (bwp_roll_indent d); [exact HZ|exact HKM|reflexivity|]. intros a1 a2 HA _.
    sk bwp_roll_one_col_indent.
    apply bwp_bind. apply bwp_modify. cbv beta.
    match goal with |- swp _ _ _ _ ?a ?b => assert (HB : SH d a b) end.
    { match goal with HH : SH d ?a ?b |- SH d (match sc_sks ?a with _ => _ end) _ =>
        pose proof (sh_sks HH) as HS; destruct HS as [|q1 q2 l1 l2 HQ HL];
          [exact HH|apply SH_set_sks; [exact HH|constructor; [apply KS_kill; exact HQ|exact HL]]] end. }
    match goal with |- swp _ _ _ _ ?a ?b => generalize dependent a; generalize dependent b end.
    intros b2 b1' HB.
    sk bwp_disallow_simple_key.
    apply (bwp_push_tok d); [eassumption|apply TS_empty; exact (sh_mark H)|]. intros; fin.
  - (* no simple key: an empty key *)
    eapply (bwp_call_eq d).
    { br; [|apply bwp_ret; fin]. apply (bwp_push_tok d); [exact HX|apply TS_empty; exact (sh_mark H)|]. intros; fin. }
    intros [] y1 y2 HY.
    apply bwp_bind. apply bwp_get. cbv beta. sh_sync HY.
    eapply (bwp_call_eq d).
    { br; [|apply bwp_ret; fin]. br; [apply bwp_fail; exact (sh_mark H)|].
      apply (bwp_roll_indent d); [exact HY|exact (sh_mark H)|exact I|]. intros; fin. }
    intros [] z1 z2 HZ.
    sk bwp_roll_one_col_indent.
    eapply (bwp_call_eq d).
    { br; [apply (bwp_allow_simple_key d)|apply (bwp_disallow_simple_key d)]; try eassumption; intros; fin. }
    intros [] a1 a2 HA.
    apply (bwp_push_tok d); [exact HA|apply TS_empty; exact (sh_mark H)|]. intros; fin.
Qed.

Theorem fetch_flow_value_ok : shf_fetch_flow_value d.
Proof.
  intros F1 F2 s1 s2 H N0 HFL. unfold fetch_flow_value.
  apply bwp_bind. apply (bwp_peekn d 1); [exact H|apply noLF_1; exact N0|].
  apply bwp_bind. apply bwp_get. cbv beta. b1_norm. rewrite (SH_adj_eqb H) by (apply N.ltb_lt in HFL; lia).
  br; [apply (bwp_fail_mark d); exact H|]. apply fetch_value_ok; assumption.
Qed.

(* ---------------- the dispatcher ---------------- *)
Ltac q4 := split; [reflexivity|split; [reflexivity|split; [reflexivity|intros E; first [discriminate E|exact E]]]].

(* The step after StreamStart, from ANY two states (not necessarily related) whose leading skip_to_next_token runs -
   possibly with different fuels - end in related states: this is what is used at a document boundary, where side 2
   has to cross the rest of the marker line first (ScanShiftTop.v). *)
Theorem fetch_next_token_gen F1 F2 (s1 s2 : bst) :
  sc_stream_start s1 = true -> sc_stream_start s2 = true ->
  bwp (skip_to_next_token sops F1) (skip_to_next_token sops F2) (bpost_al d eq) (bump 1 s1) (bump 1 s2) ->
  bwp (fetch_next_token sops F1) (fetch_next_token sops F2) (bpost d eq) s1 s2.
Proof.
  intros ES1 ES2 HSK. unfold fetch_next_token.
  eapply bwp_bind_eval; [apply look_ok|apply look_ok|].
  apply bwp_bind. apply bwp_get. cbv beta.
  change (sc_stream_start (bump 1 s1)) with (sc_stream_start s1). change (sc_stream_start (bump 1 s2)) with (sc_stream_start s2).
  rewrite ES1, ES2. cbn [negb].
  eapply (bwp_call_al_eq d); [exact HSK|]. intros [] v1 v2 HV NV.
  sk bwp_stale_simple_keys.
  apply bwp_bind. apply (bwp_mark d); [eassumption|]. intros HM. cbv beta.
  match goal with HH : SH d ?a ?b |- context [m_col (sc_mark ?b)] => rewrite <- (SH_col HH) end.
  sk bwp_unroll_indent.
  apply bwp_bind. apply (bwp_look d); [eassumption|]. intros w1 w2 HW RW _ _ _ _. keep. clear RW.
  apply bwp_bind. apply (bwp_next_is d); [exact HW|exact b1_is_z|].
  br; [apply fetch_stream_end_ok; exact HW|].
  apply bwp_bind. apply bwp_get. cbv beta. sh_sync HW.
  apply bwp_bind. apply (bwp_peek d); [exact HW|]. cbv beta. b1_norm.
  (* document markers at column 0: found on one side iff found on the other, whatever the alignment *)
  apply bwp_bind.
  apply bwp_mono with (Q := fun (a1 : bool) (t1 : bst) (a2 : bool) (t2 : bst) =>
     a1 = a2 /\ t1 = w1 /\ t2 = w2 /\ (a1 = true -> docstart_val w1 = true)).
  { br; [|apply bwp_ret; q4]. br; [apply bwp_ret; q4|].
    apply (bwp_next_is_document_start d); [exact HW|]. q4. }
  intros dstart ? ? ? (<- & -> & -> & HDS).
  apply bwp_bind.
  apply bwp_mono with (Q := fun (a1 : bool) (t1 : bst) (a2 : bool) (t2 : bst) =>
     a1 = a2 /\ t1 = w1 /\ t2 = w2 /\ (a1 = true -> docend_val w1 = true)).
  { br; [|apply bwp_ret; q4]. apply (bwp_next_is_document_end d); [exact HW|]. q4. }
  intros dend ? ? ? (<- & -> & -> & HDE).
  br; [apply fetch_directive_ok; assumption|].
  br; [apply fetch_document_indicator_ok; [exact HW|apply docstart_noLF; apply HDS; reflexivity]|].
  br.
  { eapply (bwp_call_eq d);
      [apply fetch_document_indicator_ok; [exact HW|apply docend_noLF; apply HDE; reflexivity]|].
    intros [] z1 z2 HZ.
    eapply (bwp_call_eq d); [apply (skip_ws_to_eol_ok d); exact HZ|]. intros tw a1 a2 HA.
    apply bwp_bind. apply (bwp_next_is d); [exact HA|exact b1_is_breakz|].
    br; [apply bwp_ret; fin|apply (bwp_mark_fail d); exact HA]. }
  br; [apply (bwp_fail_mark d); exact HW|].
  (* the character dispatch: the first character is not a line feed, so the second is aligned too *)
  apply bwp_bind. apply (bwp_peek d); [exact HW|].
  apply bwp_bind. apply (bwp_peekn d 1); [exact HW|apply noLF_1; assumption|]. cbv beta zeta. b1_norm.
  rewrite <- !andb_assoc. rewrite (SH_adj_guard HW).
  br; [apply fetch_flow_collection_start_ok; assumption|].
  br; [apply fetch_flow_collection_start_ok; assumption|].
  br; [apply fetch_flow_collection_end_ok; assumption|].
  br; [apply fetch_flow_collection_end_ok; assumption|].
  br; [apply fetch_flow_entry_ok; assumption|].
  br; [apply fetch_block_entry_ok; assumption|].
  br; [apply fetch_key_ok; assumption|].
  br; [apply fetch_value_ok; assumption|].
  match goal with |- bwp (if ?b then _ else _) (if ?b then _ else _) _ _ _ => destruct b eqn:EFV end.
  { apply fetch_flow_value_ok; [assumption|assumption|].
    apply andb_true_iff in EFV. destruct EFV as [_ EFV]. apply andb_true_iff in EFV. exact (proj1 EFV). }
  br; [apply fetch_anchor_ok; assumption|].
  br; [apply fetch_anchor_ok; assumption|].
  br; [apply fetch_tag_ok; assumption|].
  br; [apply fetch_block_scalar_ok; assumption|].
  br; [apply fetch_block_scalar_ok; assumption|].
  br; [apply fetch_flow_scalar_ok; assumption|].
  br; [apply fetch_flow_scalar_ok; assumption|].
  br; [apply fetch_plain_scalar_ok; assumption|].
  br; [apply fetch_plain_scalar_ok; assumption|].
  br; [apply (bwp_fail_mark d); exact HW|].
  apply fetch_plain_scalar_ok; assumption.
Qed.

Theorem fetch_next_token_ok : shf_fetch_next_token d.
Proof.
  intros F1 F2 s1 s2 H. destruct (sc_stream_start s1) eqn:ES.
  - apply fetch_next_token_gen; [exact ES|rewrite <- (SH_stream_start H); exact ES|].
    apply (skip_to_next_token_ok d). apply SH_bump. exact H.
  - unfold fetch_next_token.
    apply bwp_bind. apply (bwp_look d); [exact H|]. intros u1 u2 HU _ E1 _ _ _.
    apply bwp_bind. apply bwp_get. cbv beta. sh_sync HU.
    replace (sc_stream_start u1) with false by (symmetry; destruct (ers_fields _ _ E1) as (_ & _ & E & _); congruence).
    cbn [negb]. apply fetch_stream_start_ok; exact HU.
Qed.


(* ---------------- fetch_more_tokens / next_token / scan_all ---------------- *)
Theorem fetch_more_tokens_ok : shf_fetch_more_tokens d.
Proof.
  intros F1 F2 n1. induction n1 as [|n1 IH]; intros n2 s1 s2 H; [exact I|].
  destruct n2 as [|n2]; [apply bwp_oof_r|]. cbn [fetch_more_tokens].
  apply bwp_bind. apply bwp_get. cbv beta.
  eapply (bwp_call_eq d).
  { pose proof (sh_tokens H) as HT. destruct HT as [|a b l1 l2 _ _]; [apply bwp_ret; fin|].
    sk bwp_stale_simple_keys. apply bwp_bind. apply bwp_get. cbv beta. apply bwp_ret. split; [|assumption].
    match goal with HH : SH d ?a ?b |- _ = existsb _ (sc_sks ?b) =>
      rewrite <- (SH_tokens_parsed HH); apply (F2_existsb _ _ _ _ _ (sh_sks HH)) end.
    intros k1 k2 HK. rewrite <- (ks_possible HK). destruct (sk_possible k1) eqn:EP; [|reflexivity].
    rewrite <- (ks_number HK EP), shift_eqb. reflexivity. }
  intros need u1 u2 HU. destruct need.
  - eapply (bwp_call_eq d); [apply fetch_next_token_ok; exact HU|]. intros [] v1 v2 HV. apply IH. exact HV.
  - apply bwp_modify. split; [reflexivity|]. apply SH_set_ta. exact HU.
Qed.

Theorem next_token_ok : shf_next_token d.
Proof.
  intros F1 F2 s1 s2 H. unfold next_token.
  apply bwp_bind. apply bwp_get. cbv beta. sh_sync H.
  br; [apply bwp_ret; split; [exact I|exact H]|].
  eapply (bwp_call_eq d).
  { br; [apply bwp_ret; fin|apply fetch_more_tokens_ok; exact H]. }
  intros [] u1 u2 HU.
  apply bwp_bind. apply bwp_get. cbv beta. sh_sync HU.
  pose proof (sh_tokens HU) as HT. destruct HT as [|a b l1 l2 HAB HL]; [apply (bwp_fail_mark d); exact HU|].
  apply bwp_bind. apply (bwp_put_br d).
  { apply SH_set_tp; [|lia]. apply SH_set_ta. apply SH_set_tokens; [exact HU|exact HL]. }
  { reflexivity. }
  intros v1 v2 HV _.
  rewrite <- (proj2 HAB).
  eapply (bwp_call_eq d).
  { destruct (snd a); try (apply bwp_ret; fin). apply bwp_modify. split; [reflexivity|]. apply SH_set_se. exact HV. }
  intros [] w1 w2 HW. apply bwp_ret. split; [exact HAB|exact HW].
Qed.

Theorem scan_all_ok : shf_scan_all d.
Proof.
  intros F1 F2 n1. induction n1 as [|n1 IH]; intros n2 s1 s2 acc1 acc2 H HA.
  { cbn [scan_all snd fst]. split; [apply ES_fuel_l|intros []]. }
  destruct n2 as [|n2].
  { cbn [scan_all snd fst]. split; [apply ES_fuel_r|intros _ []]. }
  pose proof (bwp_elim d _ _ _ _ _ (next_token_ok F1 F2 s1 s2 H)) as HN.
  cbn [scan_all].
  destruct (next_token sops F1 s1) as [[o1 t1]|e1 k1|p1|].
  - destruct (next_token sops F2 s2) as [[o2 t2]|e2 k2|p2|].
    + destruct HN as [HO HT]. destruct o1 as [a1|], o2 as [a2|].
      * apply IH; [exact HT|]. constructor; [exact HO|exact HA].
      * destruct HO.
      * destruct HO.
      * cbn [snd fst]. split; [exact I|]. intros _ _. apply F2_rev. exact HA.
    + destruct HN.
    + destruct o1 as [a1|]; cbn [snd fst]; (split; [apply ES_panic_r|intros _ []]).
    + destruct o1 as [a1|]; cbn [snd fst]; (split; [apply ES_fuel_r|intros _ []]).
  - destruct (next_token sops F2 s2) as [[o2 t2]|e2 k2|p2|].
    + destruct HN.
    + cbn [snd fst]. split; [exact HN|]. intros _ _. apply F2_rev. exact HA.
    + cbn [snd fst]. split; [apply ES_panic_r|intros _ []].
    + cbn [snd fst]. split; [apply ES_fuel_r|intros _ []].
  - cbn [snd fst]. split; [apply ES_panic_l|intros []].
  - cbn [snd fst]. split; [apply ES_fuel_l|intros []].
Qed.

End BrkFetch.

Print Assumptions fetch_stream_start_ok.
Print Assumptions fetch_stream_end_ok.
Print Assumptions fetch_directive_ok.
Print Assumptions fetch_tag_ok.
Print Assumptions fetch_anchor_ok.
Print Assumptions fetch_flow_collection_start_ok.
Print Assumptions fetch_flow_collection_end_ok.
Print Assumptions fetch_flow_entry_ok.
Print Assumptions fetch_block_entry_ok.
Print Assumptions fetch_document_indicator_ok.
Print Assumptions fetch_block_scalar_ok.
Print Assumptions fetch_flow_scalar_ok.
Print Assumptions fetch_plain_scalar_ok.
Print Assumptions fetch_key_ok.
Print Assumptions fetch_value_ok.
Print Assumptions fetch_flow_value_ok.
Print Assumptions fetch_next_token_gen.
Print Assumptions fetch_next_token_ok.
Print Assumptions fetch_more_tokens_ok.
Print Assumptions next_token_ok.
Print Assumptions scan_all_ok.
