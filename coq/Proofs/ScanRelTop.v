(* Joint proof "the scanner over the buffered input computes what the scanner over the string input computes"
   (see SCANREL.md): ASSEMBLY.

   From related states the token iterators [scan_all] over the string input and over the buffered input (any
   capacity >= 8, the same fuels) return the same token list and the same end - unless one of the two runs ends in
   [SFuel] or [SPanic]; even then the tokens delivered by the run that broke off are a prefix of the other run's
   tokens.  The initial states are related; hence the theorem for a whole input, and for the pipelines
   [run_str] / [run_buf cap] (scanner + parser).

   The six character-level contracts (directive, tag, anchor, flow / plain / block scalar) are premises. *)
From Coq Require Import List NArith ZArith Bool Arith Lia.
Import ListNotations.
Require Import Parser SBase SPrim SDir SScalar SFetch SBuf Pipe InputRefine ScanRel ScanRelPrim ScanRelFetch.
Require ScanSafeTop.
Local Open Scope nat_scope.

(* how a run of the iterator ended: properly (end of stream, or a scanner error), or not *)
Definition se_proper (e : scan_end) : Prop := match e with SEnded | SError _ _ => True | SPanic _ | SFuel => False end.
Definition se_bad (e : scan_end) : Prop := match e with SPanic _ | SFuel => True | SEnded | SError _ _ => False end.
Lemma se_proper_or_bad e : se_proper e \/ se_bad e.
Proof. destruct e; cbn; auto. Qed.
Lemma se_proper_not_bad e : se_proper e -> se_bad e -> False.
Proof. destruct e; cbn; auto. Qed.

(* the same for the pipeline *)
Definition pend_bad (e : pend) : Prop := match e with PPanic _ | PFuel => True | _ => False end.

(* the iterator only appends to what it has collected *)
Lemma scan_all_extends {I} (ops : InputOps I) F N : forall s acc,
  exists x, fst (scan_all ops F N s acc) = rev acc ++ x.
Proof.
  induction N as [|N IH]; intros s acc; cbn [scan_all].
  - exists []. cbn [fst]. rewrite app_nil_r. reflexivity.
  - destruct (next_token ops F s) as [[[t|] s']| | |]; try (exists []; cbn [fst]; rewrite app_nil_r; reflexivity).
    destruct (IH s' (t :: acc)) as [x Hx]. exists (t :: x). rewrite Hx. cbn [rev]. rewrite <- app_assoc. reflexivity.
Qed.

(* the initial states are related *)
Lemma SR_init orig :
  SR (init_sc {| si_chars := orig; si_look := 0 |}) (init_sc {| b_buf := []; b_rest := orig |}).
Proof.
  split; [|reflexivity]. exists 0. cbn [init_sc sc_in b_buf b_rest si_chars repeat app].
  rewrite app_nil_r. split; [reflexivity|lia].
Qed.

Section RelTop.
Variable cap : nat.
Hypothesis cap_ge : 8 <= cap.
Notation sops := str_ops.
Notation bops := (buf_ops cap).

Hypothesis H_dir : rel_scan_directive cap.
Hypothesis H_tag : rel_scan_tag cap.
Hypothesis H_anchor : rel_scan_anchor cap.
Hypothesis H_flow : rel_scan_flow_scalar cap.
Hypothesis H_plain : rel_scan_plain_scalar cap.
Hypothesis H_block : rel_scan_block_scalar cap.

Let NT := rwp_next_token cap cap_ge H_dir H_tag H_anchor H_flow H_plain H_block.

(* the outcome of the two iterators from related states *)
Definition scan_agree (r1 r2 : list token * scan_end) : Prop :=
  r1 = r2
  \/ (se_bad (snd r1) /\ exists x, fst r2 = fst r1 ++ x)
  \/ (se_bad (snd r2) /\ exists x, fst r1 = fst r2 ++ x).

Theorem scan_all_rel F N : forall s1 s2 acc, SR s1 s2 ->
  scan_agree (scan_all sops F N s1 acc) (scan_all bops F N s2 acc).
Proof.
  induction N as [|N IH]; intros s1 s2 acc HS; [left; reflexivity|].
  pose proof (scan_all_extends sops F (S N) s1 acc) as X1.
  pose proof (scan_all_extends bops F (S N) s2 acc) as X2.
  pose proof (rwp_elim _ _ _ _ _ (NT F s1 s2 HS)) as H.
  cbn [scan_all] in *. revert X1 X2 H.
  destruct (next_token sops F s1) as [[[t1|] u1]|e1 k1|n1|];
    destruct (next_token bops F s2) as [[[t2|] u2]|e2 k2|n2|]; intros X1 X2 H;
    try contradiction;
    try (right; left; split; [exact I|exact X2]);
    try (right; right; split; [exact I|exact X1]).
  - destruct H as [E HU]. inversion E; subst t2. apply IH. exact HU.
  - destruct H as [E _]. discriminate E.
  - destruct H as [E _]. discriminate E.
  - left. reflexivity.
  - destruct H as [-> ->]. left. reflexivity.
Qed.

(* both runs end properly: the same tokens and the same end *)
Corollary scan_all_agree F N s1 s2 acc : SR s1 s2 ->
  se_proper (snd (scan_all sops F N s1 acc)) -> se_proper (snd (scan_all bops F N s2 acc)) ->
  scan_all sops F N s1 acc = scan_all bops F N s2 acc.
Proof.
  intros HS P1 P2. destruct (scan_all_rel F N s1 s2 acc HS) as [E|[[B _]|[B _]]]; [exact E| |].
  - destruct (se_proper_not_bad _ P1 B).
  - destruct (se_proper_not_bad _ P2 B).
Qed.

End RelTop.

(* ---------------- the parser reads its tokens front to back ----------------
   [ext x p]: the parser [p] with the tokens [x] appended to what the scanner will still deliver.  One step of the
   state machine on [p] either asks for a token beyond the end of its list ([Err PErrScan]), or does exactly what it
   does on [ext x p]. *)
Definition ext (x : list token) (p : parser) : parser := set_tok p (p_toks p ++ x) (p_token p).
Definition pe {A} (x : list token) (v : A * parser) : A * parser := (fst v, ext x (snd v)).

Definition rsimG {T} (e : T -> T) (r r' : res T) : Prop :=
  match r with
  | Parser.Ok v => r' = Parser.Ok (e v)
  | Parser.Err PErrScan => True
  | Parser.Err er => r' = Parser.Err er
  | Parser.Panic n => r' = Parser.Panic n
  end.

Lemma rsimG_err {T} (e : T -> T) er : rsimG e (Parser.Err er) (Parser.Err er).
Proof. destruct er; cbn; auto. Qed.
Lemma rsimG_id {T} (r : res T) : rsimG (fun v => v) r r.
Proof. destruct r as [v|[|s m]|n]; cbn; auto. Qed.
Lemma rsimG_bind {T U} (e1 : T -> T) (e2 : U -> U) (r r' : res T) (k k' : T -> res U) :
  rsimG e1 r r' -> (forall v, rsimG e2 (k v) (k' (e1 v))) ->
  rsimG e2 (match r with Parser.Ok v => k v | Parser.Err e => Parser.Err e | Parser.Panic n => Parser.Panic n end)
           (match r' with Parser.Ok v => k' v | Parser.Err e => Parser.Err e | Parser.Panic n => Parser.Panic n end).
Proof. intros H HK. destruct r as [v|[|s m]|n]; cbn in *; subst; auto. Qed.

(* [ext] commutes with every update of the parser state and is invisible to every field but [p_toks] *)
Lemma pe_pair {A} x (a : A) q : pe x (a, q) = (a, ext x q). Proof. reflexivity. Qed.
Lemma skip_ext x p : skip (ext x p) = ext x (skip p). Proof. reflexivity. Qed.
Lemma set_state_ext x p s : set_state (ext x p) s = ext x (set_state p s). Proof. reflexivity. Qed.
Lemma set_states_ext x p l : set_states (ext x p) l = ext x (set_states p l). Proof. reflexivity. Qed.
Lemma push_state_ext x p s : push_state (ext x p) s = ext x (push_state p s). Proof. reflexivity. Qed.
Lemma set_anchors_ext x p a n : set_anchors (ext x p) a n = ext x (set_anchors p a n). Proof. reflexivity. Qed.
Lemma set_tags_ext x p t : set_tags (ext x p) t = ext x (set_tags p t). Proof. reflexivity. Qed.
Lemma p_toks_ext x p : p_toks (ext x p) = p_toks p ++ x. Proof. reflexivity. Qed.
Lemma p_token_ext x p : p_token (ext x p) = p_token p. Proof. reflexivity. Qed.
Lemma p_states_ext x p : p_states (ext x p) = p_states p. Proof. reflexivity. Qed.
Lemma p_state_ext x p : p_state (ext x p) = p_state p. Proof. reflexivity. Qed.
Lemma p_anchors_ext x p : p_anchors (ext x p) = p_anchors p. Proof. reflexivity. Qed.
Lemma p_anchor_id_ext x p : p_anchor_id (ext x p) = p_anchor_id p. Proof. reflexivity. Qed.
Lemma p_tags_ext x p : p_tags (ext x p) = p_tags p. Proof. reflexivity. Qed.
Lemma p_keep_tags_ext x p : p_keep_tags (ext x p) = p_keep_tags p. Proof. reflexivity. Qed.
Lemma resolve_tag_ext x p a h s : resolve_tag (ext x p) a h s = resolve_tag p a h s. Proof. reflexivity. Qed.
Lemma if_ext x (b : bool) p q : (if b then ext x p else ext x q) = ext x (if b then p else q).
Proof. destruct b; reflexivity. Qed.
Global Hint Rewrite @pe_pair skip_ext set_state_ext set_states_ext push_state_ext set_anchors_ext set_tags_ext
  p_toks_ext p_token_ext p_states_ext p_state_ext p_anchors_ext p_anchor_id_ext p_tags_ext p_keep_tags_ext
  resolve_tag_ext if_ext : pext.

(* tokens the parser can still look at without asking the scanner *)
Definition mes (p : parser) : nat := length (p_toks p) + match p_token p with Some _ => 1 | None => 0 end.

Lemma peek_cases x p :
  Parser.peek p = Parser.Err PErrScan
  \/ exists t q, Parser.peek p = Parser.Ok (t, q) /\ Parser.peek (ext x p) = Parser.Ok (t, ext x q)
                 /\ mes q = mes p /\ p_token q = Some t.
Proof.
  unfold Parser.peek. rewrite p_token_ext, p_toks_ext. destruct (p_token p) as [t|] eqn:ET.
  - right. exists t, p. auto.
  - destruct (p_toks p) as [|t r] eqn:ER; [left; reflexivity|]. right.
    exists t, (set_tok p r (Some t)). split; [reflexivity|]. split; [reflexivity|].
    unfold mes. cbn [set_tok p_toks p_token]. rewrite ER, ET. cbn [length]. split; [lia|reflexivity].
Qed.

Lemma peek_sim x p : rsimG (pe x) (Parser.peek p) (Parser.peek (ext x p)).
Proof.
  destruct (peek_cases x p) as [E|(t & q & E & E' & _)]; rewrite E; [exact I|]. rewrite E'. reflexivity.
Qed.
Lemma pop_state_sim x p : rsimG (ext x) (pop_state p) (pop_state (ext x p)).
Proof. unfold pop_state. rewrite p_states_ext. destruct (p_states p); reflexivity. Qed.

Create HintDb psim.
Global Hint Resolve peek_sim pop_state_sim rsimG_id : psim.

Ltac pnorm := unfold register_anchor, empty_or_err; autorewrite with pext; cbv beta iota zeta.
Ltac pstep x :=
  pnorm;
  lazymatch goal with
  | |- rsimG _ (Parser.Ok _) _ => reflexivity
  | |- rsimG _ (Parser.Err _) _ => apply rsimG_err
  | |- rsimG _ (Parser.Panic _) _ => reflexivity
  | |- rsimG _ (match ?r with Parser.Ok _ => _ | Parser.Err _ => _ | Parser.Panic _ => _ end) _ =>
      let T := type of r in
      lazymatch T with
      | res parser => eapply (rsimG_bind (ext x))
      | res (_ * parser)%type => eapply (rsimG_bind (pe x))
      | res _ => eapply (rsimG_bind (fun v => v))
      end;
      [ | let v := fresh "v" in intros v;
          lazymatch type of v with (_ * _)%type => destruct v | _ => idtac end ]
  | |- rsimG _ (match (match ?t with _ => _ end) with _ => _ end) _ => destruct t
  | |- rsimG _ (match ?t with _ => _ end) _ => destruct t
  | |- rsimG _ (if ?b then _ else _) _ => destruct b
  | |- _ => solve [auto with psim nocore]
  end.
Ltac psim x := repeat (pstep x).

Lemma node_props_sim x p t : rsimG (pe x) (node_props p t) (node_props (ext x p) t).
Proof. unfold node_props. psim x. Qed.
Global Hint Resolve node_props_sim : psim.
Lemma node_content_sim x p aid tg b i : rsimG (pe x) (node_content p aid tg b i) (node_content (ext x p) aid tg b i).
Proof. unfold node_content. psim x. Qed.
Global Hint Resolve node_content_sim : psim.
Lemma parse_node_sim x p b i : rsimG (pe x) (parse_node p b i) (parse_node (ext x p) b i).
Proof. unfold parse_node. psim x. Qed.
Global Hint Resolve parse_node_sim : psim.

Lemma stream_start_sim x p : rsimG (pe x) (stream_start p) (stream_start (ext x p)).
Proof. unfold stream_start. psim x. Qed.

(* the two fuelled loops: their fuel is computed from the token list, and is enough on both sides *)
Lemma mes_skip p t : p_token p = Some t -> S (mes (skip p)) = mes p.
Proof. unfold mes, skip. cbn [set_tok p_toks p_token]. intros ->. lia. Qed.

Lemma process_directives_sim x : forall f f' p vs tags, mes p < f -> mes p + length x < f' ->
  rsimG (ext x) (process_directives f p vs tags) (process_directives f' (ext x p) vs tags).
Proof.
  induction f as [|f IH]; intros f' p vs tags Hf Hf'; [lia|]. destruct f' as [|f']; [lia|].
  cbn [process_directives].
  destruct (peek_cases x p) as [E|(t & q & E & E' & M & C)]; rewrite E; [exact I|]. rewrite E'. cbv beta iota.
  pose proof (mes_skip q t C) as MS.
  destruct t as [sp tk]. destruct tk; try reflexivity.
  - destruct vs; [reflexivity|]. rewrite skip_ext. apply IH; lia.
  - match goal with |- rsimG _ (if ?b then _ else _) _ => destruct b end; [reflexivity|].
    rewrite skip_ext. apply IH; lia.
Qed.
Lemma skip_document_ends_sim x : forall f f' p, mes p < f -> mes p + length x < f' ->
  rsimG (ext x) (skip_document_ends f p) (skip_document_ends f' (ext x p)).
Proof.
  induction f as [|f IH]; intros f' p Hf Hf'; [lia|]. destruct f' as [|f']; [lia|].
  cbn [skip_document_ends].
  destruct (peek_cases x p) as [E|(t & q & E & E' & M & C)]; rewrite E; [exact I|]. rewrite E'. cbv beta iota.
  pose proof (mes_skip q t C) as MS.
  destruct t as [sp tk]. destruct tk; try reflexivity.
  rewrite skip_ext. apply IH; lia.
Qed.
Lemma mes_le p : mes p < S (S (length (p_toks p))).
Proof. unfold mes. destruct (p_token p); lia. Qed.
Lemma process_directives_call x p vs tags :
  rsimG (ext x) (process_directives (S (S (length (p_toks p)))) p vs tags)
                (process_directives (S (S (length (p_toks p ++ x)))) (ext x p) vs tags).
Proof. pose proof (mes_le p). apply process_directives_sim; [assumption|]. rewrite app_length. lia. Qed.
Lemma skip_document_ends_call x p :
  rsimG (ext x) (skip_document_ends (S (S (length (p_toks p)))) p)
                (skip_document_ends (S (S (length (p_toks p ++ x)))) (ext x p)).
Proof. pose proof (mes_le p). apply skip_document_ends_sim; [assumption|]. rewrite app_length. lia. Qed.
Global Hint Resolve process_directives_call skip_document_ends_call : psim.

Lemma explicit_document_start_sim x p : rsimG (pe x) (explicit_document_start p) (explicit_document_start (ext x p)).
Proof. unfold explicit_document_start. psim x. Qed.
Global Hint Resolve explicit_document_start_sim : psim.
Lemma document_start_sim x p i : rsimG (pe x) (document_start p i) (document_start (ext x p) i).
Proof. unfold document_start. psim x. Qed.
Lemma document_content_sim x p : rsimG (pe x) (document_content p) (document_content (ext x p)).
Proof. unfold document_content. psim x. Qed.
Lemma document_end_sim x p : rsimG (pe x) (document_end p) (document_end (ext x p)).
Proof. unfold document_end. psim x. Qed.
Lemma block_mapping_key_sim x p b : rsimG (pe x) (block_mapping_key p b) (block_mapping_key (ext x p) b).
Proof. unfold block_mapping_key. psim x. Qed.
Lemma block_mapping_value_sim x p : rsimG (pe x) (block_mapping_value p) (block_mapping_value (ext x p)).
Proof. unfold block_mapping_value. psim x. Qed.
Lemma flow_mapping_key_sim x p b : rsimG (pe x) (flow_mapping_key p b) (flow_mapping_key (ext x p) b).
Proof. unfold flow_mapping_key. psim x. Qed.
Lemma flow_mapping_value_sim x p b : rsimG (pe x) (flow_mapping_value p b) (flow_mapping_value (ext x p) b).
Proof. unfold flow_mapping_value. psim x. Qed.
Lemma flow_sequence_entry_sim x p b : rsimG (pe x) (flow_sequence_entry p b) (flow_sequence_entry (ext x p) b).
Proof. unfold flow_sequence_entry. psim x. Qed.
Lemma indentless_sequence_entry_sim x p :
  rsimG (pe x) (indentless_sequence_entry p) (indentless_sequence_entry (ext x p)).
Proof. unfold indentless_sequence_entry. psim x. Qed.
Lemma block_sequence_entry_sim x p b : rsimG (pe x) (block_sequence_entry p b) (block_sequence_entry (ext x p) b).
Proof. unfold block_sequence_entry. psim x. Qed.
Lemma flow_sequence_entry_mapping_key_sim x p :
  rsimG (pe x) (flow_sequence_entry_mapping_key p) (flow_sequence_entry_mapping_key (ext x p)).
Proof. unfold flow_sequence_entry_mapping_key. psim x. Qed.
Lemma flow_sequence_entry_mapping_value_sim x p :
  rsimG (pe x) (flow_sequence_entry_mapping_value p) (flow_sequence_entry_mapping_value (ext x p)).
Proof. unfold flow_sequence_entry_mapping_value. psim x. Qed.

Theorem state_machine_ext x p : rsimG (pe x) (state_machine p) (state_machine (ext x p)).
Proof.
  unfold state_machine. rewrite p_state_ext. destruct (p_state p).
  - apply stream_start_sim.
  - apply document_start_sim.
  - apply document_start_sim.
  - apply document_content_sim.
  - apply document_end_sim.
  - apply parse_node_sim.
  - apply block_sequence_entry_sim.
  - apply block_sequence_entry_sim.
  - apply indentless_sequence_entry_sim.
  - apply block_mapping_key_sim.
  - apply block_mapping_key_sim.
  - apply block_mapping_value_sim.
  - apply flow_sequence_entry_sim.
  - apply flow_sequence_entry_sim.
  - apply flow_sequence_entry_mapping_key_sim.
  - apply flow_sequence_entry_mapping_value_sim.
  - reflexivity.
  - apply flow_mapping_key_sim.
  - apply flow_mapping_key_sim.
  - apply flow_mapping_value_sim.
  - apply flow_mapping_value_sim.
  - reflexivity.
Qed.

(* the whole parser run: over a token list that broke off (its end is fuel / panic) the parser either ends in
   fuel / panic itself, or never asked for more - and then it does the same over any longer list, whatever its end *)
Theorem parse_all_ext x K : forall p se se' acc, se_bad se ->
  parse_all K p se acc = parse_all K (ext x p) se' acc \/ pend_bad (snd (parse_all K p se acc)).
Proof.
  induction K as [|K IH]; intros p se se' acc HB; [right; exact I|].
  cbn [parse_all]. rewrite p_state_ext.
  pose proof (state_machine_ext x p) as HS.
  assert (HK : match state_machine p with
               | Parser.Ok (ev, p') => parse_all K p' se (ev :: acc)
               | Parser.Err PErrScan =>
                   (rev acc, match se with
                             | SError s m => PScanErr s m | SPanic n => PPanic n | SFuel => PFuel
                             | SEnded => PScanErr 0 {| m_index := 0; m_line := 0; m_col := 0 |} end)
               | Parser.Err (PErr s m) => (rev acc, PParseErr s m)
               | Parser.Panic n => (rev acc, PPanic n)
               end
               = match state_machine (ext x p) with
               | Parser.Ok (ev, p') => parse_all K p' se' (ev :: acc)
               | Parser.Err PErrScan =>
                   (rev acc, match se' with
                             | SError s m => PScanErr s m | SPanic n => PPanic n | SFuel => PFuel
                             | SEnded => PScanErr 0 {| m_index := 0; m_line := 0; m_col := 0 |} end)
               | Parser.Err (PErr s m) => (rev acc, PParseErr s m)
               | Parser.Panic n => (rev acc, PPanic n)
               end
            \/ pend_bad (snd match state_machine p with
               | Parser.Ok (ev, p') => parse_all K p' se (ev :: acc)
               | Parser.Err PErrScan =>
                   (rev acc, match se with
                             | SError s m => PScanErr s m | SPanic n => PPanic n | SFuel => PFuel
                             | SEnded => PScanErr 0 {| m_index := 0; m_line := 0; m_col := 0 |} end)
               | Parser.Err (PErr s m) => (rev acc, PParseErr s m)
               | Parser.Panic n => (rev acc, PPanic n)
               end)).
  { destruct (state_machine p) as [[ev q]|[|s m]|n]; cbn [rsimG] in HS.
    - rewrite HS. unfold pe. cbn [fst snd]. apply IH. exact HB.
    - right. cbn [snd]. destruct se; cbn in HB; try contradiction; exact I.
    - rewrite HS. left. reflexivity.
    - rewrite HS. left. reflexivity. }
  destruct (p_state p); try exact HK. left. reflexivity.
Qed.

(* ---------------- a whole input ---------------- *)
Theorem scan_str_buf_agree : forall orig cap, 8 <= cap ->
  rel_scan_directive cap -> rel_scan_tag cap -> rel_scan_anchor cap ->
  rel_scan_flow_scalar cap -> rel_scan_plain_scalar cap -> rel_scan_block_scalar cap ->
  forall F N,
  scan_agree (scan_all str_ops F N (init_sc {| si_chars := orig; si_look := 0 |}) [])
             (scan_all (buf_ops cap) F N (init_sc {| b_buf := []; b_rest := orig |}) []).
Proof.
  intros orig cap Hc H1 H2 H3 H4 H5 H6 F N. apply (scan_all_rel cap Hc H1 H2 H3 H4 H5 H6). apply SR_init.
Qed.

Corollary scan_str_buf_equal : forall orig cap, 8 <= cap ->
  rel_scan_directive cap -> rel_scan_tag cap -> rel_scan_anchor cap ->
  rel_scan_flow_scalar cap -> rel_scan_plain_scalar cap -> rel_scan_block_scalar cap ->
  forall F N,
  se_proper (snd (scan_all str_ops F N (init_sc {| si_chars := orig; si_look := 0 |}) [])) ->
  se_proper (snd (scan_all (buf_ops cap) F N (init_sc {| b_buf := []; b_rest := orig |}) [])) ->
  scan_all str_ops F N (init_sc {| si_chars := orig; si_look := 0 |}) []
  = scan_all (buf_ops cap) F N (init_sc {| b_buf := []; b_rest := orig |}) [].
Proof.
  intros orig cap Hc H1 H2 H3 H4 H5 H6 F N. apply (scan_all_agree cap Hc H1 H2 H3 H4 H5 H6). apply SR_init.
Qed.

(* ---------------- the pipelines: scanner + parser ---------------- *)
Definition run_of (r : list token * scan_end) (K : nat) : list (event * span) * pend :=
  parse_all K {| p_toks := fst r; p_token := None; p_states := []; p_state := SStreamStart;
                 p_anchors := []; p_anchor_id := 1%N; p_tags := []; p_keep_tags := false |} (snd r) [].
Lemma run_str_of orig :
  run_str orig = run_of (scan_all str_ops (2 * length orig + 10) (4 * (2 * length orig + 10) + 20)
                                  (init_sc {| si_chars := orig; si_look := 0 |}) [])
                        (4 * (4 * (2 * length orig + 10) + 20) + 40).
Proof. unfold run_str, run_of. cbv zeta. destruct (scan_all _ _ _ _ _) as [toks se]. reflexivity. Qed.
Lemma run_buf_of cap orig :
  run_buf cap orig = run_of (scan_all (buf_ops cap) (2 * length orig + 10) (4 * (2 * length orig + 10) + 20)
                                      (init_sc {| b_buf := []; b_rest := orig |}) [])
                            (4 * (4 * (2 * length orig + 10) + 20) + 40).
Proof. unfold run_buf, run_of. cbv zeta. destruct (scan_all _ _ _ _ _) as [toks se]. reflexivity. Qed.

(* both scanner runs end properly: the pipelines agree *)
Theorem run_str_buf_equal : forall orig cap, 8 <= cap ->
  rel_scan_directive cap -> rel_scan_tag cap -> rel_scan_anchor cap ->
  rel_scan_flow_scalar cap -> rel_scan_plain_scalar cap -> rel_scan_block_scalar cap ->
  let F := 2 * length orig + 10 in
  se_proper (snd (scan_all str_ops F (4 * F + 20) (init_sc {| si_chars := orig; si_look := 0 |}) [])) ->
  se_proper (snd (scan_all (buf_ops cap) F (4 * F + 20) (init_sc {| b_buf := []; b_rest := orig |}) [])) ->
  run_str orig = run_buf cap orig.
Proof.
  intros orig cap Hc H1 H2 H3 H4 H5 H6 F P1 P2. subst F. rewrite run_str_of, run_buf_of.
  f_equal. exact (scan_str_buf_equal orig cap Hc H1 H2 H3 H4 H5 H6 _ _ P1 P2).
Qed.

(* in general: the pipelines agree on the events and on the end, unless one of them ends in fuel / panic *)
Theorem run_str_buf_agree : forall orig cap, 8 <= cap ->
  rel_scan_directive cap -> rel_scan_tag cap -> rel_scan_anchor cap ->
  rel_scan_flow_scalar cap -> rel_scan_plain_scalar cap -> rel_scan_block_scalar cap ->
  run_str orig = run_buf cap orig \/ pend_bad (snd (run_str orig)) \/ pend_bad (snd (run_buf cap orig)).
Proof.
  intros orig cap Hc H1 H2 H3 H4 H5 H6. rewrite run_str_of, run_buf_of.
  set (F := 2 * length orig + 10). set (K0 := 4 * F + 20). set (K := 4 * K0 + 40).
  pose proof (scan_str_buf_agree orig cap Hc H1 H2 H3 H4 H5 H6 F K0) as HA.
  match type of HA with scan_agree ?a ?b => change (run_of a K = run_of b K \/ pend_bad (snd (run_of a K))
                                                   \/ pend_bad (snd (run_of b K))); generalize dependent a;
                                            generalize dependent b end.
  intros [T2 e2] [T1 e1] HA. unfold run_of. cbn [fst snd].
  destruct HA as [E|[[B [x X]]|[B [x X]]]]; cbn [fst snd] in *.
  - inversion E; subst. left. reflexivity.
  - subst T2.
    match goal with |- parse_all _ ?p _ _ = _ \/ _ => destruct (parse_all_ext x K p e1 e2 [] B) as [E|P] end;
      [left; exact E|right; left; exact P].
  - subst T1.
    match goal with |- _ = parse_all _ ?p _ _ \/ _ => destruct (parse_all_ext x K p e2 e1 [] B) as [E|P] end;
      [left; symmetry; exact E|right; right; exact P].
Qed.

(* the buffered pipeline never panics (ScanSafeTop.v): its only improper end is running out of fuel *)
Corollary run_str_buf_agree_safe : forall orig cap, 8 <= cap ->
  rel_scan_directive cap -> rel_scan_tag cap -> rel_scan_anchor cap ->
  rel_scan_flow_scalar cap -> rel_scan_plain_scalar cap -> rel_scan_block_scalar cap ->
  run_str orig = run_buf cap orig \/ pend_bad (snd (run_str orig)) \/ snd (run_buf cap orig) = PFuel.
Proof.
  intros orig cap Hc H1 H2 H3 H4 H5 H6.
  destruct (run_str_buf_agree orig cap Hc H1 H2 H3 H4 H5 H6) as [E|[B|B]]; [left; exact E|right; left; exact B|].
  right. right. pose proof (ScanSafeTop.pipeline_never_panics_buffered cap Hc orig) as NP.
  destruct (snd (run_buf cap orig)); cbn in B; try contradiction; [|reflexivity].
  destruct (NP site). reflexivity.
Qed.

Print Assumptions scan_all_rel.
Print Assumptions scan_str_buf_agree.
Print Assumptions scan_str_buf_equal.
Print Assumptions state_machine_ext.
Print Assumptions parse_all_ext.
Print Assumptions run_str_buf_equal.
Print Assumptions run_str_buf_agree.
Print Assumptions run_str_buf_agree_safe.
