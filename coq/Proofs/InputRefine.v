(* C10: the buffered input (any capacity) refines the string input, operation by operation. *)
From Coq Require Import List NArith Bool Arith Lia.
Import ListNotations.
Require Import Parser SBase SBuf.
Open Scope nat_scope.

(* buffer ++ unread rest = remaining characters, NUL-padded once the source is exhausted *)
Definition Rel (s : strin) (b : bufin) : Prop :=
  exists k, b_buf b ++ b_rest b = si_chars s ++ repeat 0%N k /\ (0 < k -> b_rest b = []).

Lemma nth_app_pad (l : list N) k n : nth n (l ++ repeat 0%N k) 0%N = nth n l 0%N.
Proof.
  destruct (Nat.lt_ge_cases n (length l)) as [H|H].
  - apply app_nth1; exact H.
  - rewrite app_nth2 by exact H. rewrite (nth_overflow l) by exact H.
    destruct (Nat.lt_ge_cases (n - length l) k) as [H2|H2].
    + apply nth_repeat.
    + apply nth_overflow. rewrite repeat_length. exact H2.
Qed.

Lemma rel_peek_nth cap s b n : Rel s b -> n < length (b_buf b) ->
  peek_nth (buf_ops cap) n b = peek_nth str_ops n s.
Proof.
  intros [k [E _]] Hn. cbn [peek_nth buf_ops str_ops].
  destruct (nth_error (b_buf b) n) as [c|] eqn:Hc.
  - f_equal. symmetry.
    transitivity (nth n (si_chars s ++ repeat 0%N k) 0%N); [symmetry; apply nth_app_pad|].
    rewrite <- E. rewrite app_nth1 by exact Hn. apply nth_error_nth. exact Hc.
  - apply nth_error_None in Hc. lia.
Qed.

Lemma take_pad_nil n : forall a r, take_pad n [] = (a, r) -> r = [].
Proof.
  induction n as [|n IH]; intros a r H; cbn in H.
  - inversion H; reflexivity.
  - destruct (take_pad n []) as [a2 r2] eqn:E2. inversion H; subst. eapply IH. reflexivity.
Qed.

Lemma take_pad_spec n : forall s a r, take_pad n s = (a, r) ->
  length a = n /\ exists k, a ++ r = s ++ repeat 0%N k /\ (0 < k -> r = []) .
Proof.
  induction n as [|n IH]; intros s a r H; cbn in H.
  - inversion H; subst. split; [reflexivity|]. exists 0. cbn. rewrite app_nil_r. split; [reflexivity|lia].
  - destruct s as [|c s].
    + destruct (take_pad n []) as [a' r'] eqn:E. inversion H; subst.
      destruct (IH _ _ _ E) as [L [k [Ek Hk]]]. split; [cbn; lia|].
      exists (S k). cbn. cbn in Ek. rewrite Ek. split; [reflexivity|]. intros _.
      exact (take_pad_nil _ _ _ E).
    + destruct (take_pad n s) as [a' r'] eqn:E. inversion H; subst.
      destruct (IH _ _ _ E) as [L [k [Ek Hk]]]. split; [cbn; lia|].
      exists k. cbn. rewrite Ek. split; [reflexivity|exact Hk].
Qed.

Lemma rel_skip1 cap s b : Rel s b -> b_buf b <> [] -> Rel (skip1 str_ops s) (skip1 (buf_ops cap) b).
Proof.
  intros [k [E Hk]] Hne. cbn [skip1 buf_ops str_ops si_chars b_buf b_rest].
  destruct (b_buf b) as [|c buf]; [congruence|]. cbn [tl app] in *.
  destruct (si_chars s) as [|d chars]; cbn [tl app] in *.
  - destruct k as [|k]; [discriminate|]. cbn in E. inversion E; subst. exists k. split; [assumption|]. intros _. apply Hk. lia.
  - inversion E; subst. exists k. split; auto.
Qed.
