From Coq Require Import List NArith ZArith Bool Arith Lia.
Import ListNotations.
Require Import Parser SBase SPrim SDir SScalar SFetch Pipe Drivers TokenGrammar FlowText BlockText ScanFlowProofs ScanBlockProofs EmitterRoundTripDefs.
Open Scope N_scope.
Open Scope mon_scope.

#[local] Arguments N.add : simpl never.
#[local] Arguments N.sub : simpl never.
#[local] Arguments N.mul : simpl never.
#[local] Arguments N.ltb : simpl nomatch.
#[local] Arguments N.leb : simpl nomatch.
#[local] Arguments Z.of_N : simpl never.
#[local] Arguments Z.ltb : simpl never.
#[local] Arguments Z.leb : simpl never.
#[local] Arguments Z.eqb : simpl never.
#[local] Arguments Z.add : simpl never.
#[local] Arguments bind {I A B} m f s /.
#[local] Arguments ret {I A} a s /.
#[local] Arguments get {I} s /.
#[local] Arguments put {I} s _ /.
#[local] Arguments modify {I} f s /.
#[local] Arguments gets {I A} f s /.
#[local] Arguments fail {I A} site m _ /.
#[local] Arguments upd {I} s i m t /.
#[local] Arguments set_in {I} i s /.
#[local] Arguments set_mark {I} m s /.
#[local] Arguments set_tokens {I} t s /.
#[local] Arguments set_flags {I} s ss se adj ska ta lws /.
#[local] Arguments set_ska {I} b s /.
#[local] Arguments set_lws {I} b s /.
#[local] Arguments set_adj {I} n s /.
#[local] Arguments set_ta {I} b s /.
#[local] Arguments set_ss {I} b s /.
#[local] Arguments set_se {I} b s /.
#[local] Arguments set_struct {I} s sks ind inds fl tp ifms /.
#[local] Arguments set_sks {I} l s /.
#[local] Arguments set_indent {I} z l s /.
#[local] Arguments set_fl {I} n s /.
#[local] Arguments set_tp {I} n s /.
#[local] Arguments set_ifms {I} l s /.
#[local] Arguments skip_to_next_token : simpl never.
#[local] Arguments stale_simple_keys : simpl never.
#[local] Arguments plain_chunk : simpl never.
#[local] Arguments plain_blanks : simpl never.
#[local] Arguments scan_plain_scalar : simpl never.
#[local] Arguments fetch_stream_start : simpl never.
#[local] Arguments fetch_stream_end : simpl never.
#[local] Arguments fetch_directive : simpl never.
#[local] Arguments fetch_document_indicator : simpl never.
#[local] Arguments fetch_flow_collection_start : simpl never.
#[local] Arguments fetch_flow_collection_end : simpl never.
#[local] Arguments fetch_flow_entry : simpl never.
#[local] Arguments fetch_block_entry : simpl never.
#[local] Arguments fetch_key : simpl never.
#[local] Arguments fetch_value : simpl never.
#[local] Arguments fetch_flow_value : simpl never.
#[local] Arguments fetch_anchor : simpl never.
#[local] Arguments fetch_tag : simpl never.
#[local] Arguments fetch_block_scalar : simpl never.
#[local] Arguments fetch_flow_scalar : simpl never.
#[local] Arguments fetch_plain_scalar : simpl never.
#[local] Arguments fetch_next_token : simpl never.
#[local] Arguments fetch_more_tokens : simpl never.
#[local] Arguments next_token : simpl never.
#[local] Arguments scan_all : simpl never.
#[local] Arguments fnt_rest : simpl never.
#[local] Arguments skip_ws_to_eol : simpl never.
#[local] Arguments insert_token : simpl never.
#[local] Arguments need_comp : simpl never.
#[local] Arguments unroll_indent : simpl never.
#[local] Arguments roll_indent : simpl never.
#[local] Arguments roll_one_col_indent : simpl never.
#[local] Arguments unroll_non_block_indents : simpl never.
#[local] Arguments ntb : simpl never.

Lemma doc_start_step F x cs : (4 <= F)%nat ->
  exists lk,
  next_token str_ops F (mkb (45 :: 45 :: 45 :: 10 :: x :: cs) 1 (mkm 0 1 0) [] 0 true dummy_key (-1)%Z [] 1 false true)
  = Ok (Some (spn (mkm 0 1 0) (mkm 3 1 3), TDocumentStart),
        mkb (10 :: x :: cs) lk (mkm 3 1 3) [] 0 false dummy_key (-1)%Z [] 2 false false).
Proof.
  intros HF. destruct F as [|[|[|[|F]]]]; try lia. eexists. reflexivity.
Qed.

Lemma gap_fetch F x cs lk k0 : (4 <= F)%nat -> first_ok x -> sk_possible k0 = false ->
  fetch_next_token str_ops F (mkb (10 :: x :: cs) lk (mkm 3 1 3) [] 0 false k0 (-1)%Z [] 2 false false)
  = fetch_next_token str_ops F
      (mkb (x :: cs) (Nat.max (Nat.max lk 1) 2) (mkm (3 + 1 + N.of_nat 0) (1 + 1) (N.of_nat 0)) [] 0 true k0 (-1)%Z [] 2 false true).
Proof.
  intros HF Hx Hk.
  rewrite (fnt_b F (10 :: x :: cs) lk (mkm 3 1 3) [] 0 false k0 (-1)%Z [] 2 false false
             (x :: cs) (Nat.max (Nat.max lk 1) 2) (mkm (3 + 1 + N.of_nat 0) (1 + 1) (N.of_nat 0)) true true 0 (-1)%Z []).
  2:{ exact (skip_gap 0 F cs (Nat.max lk 1) 3 1 3 [] 0 false k0 (-1)%Z [] 2 false false x ltac:(cbn; lia) Hx). }
  2:{ rewrite stale_k_not_possible by exact Hk. reflexivity. }
  2:{ apply unroll_keep. cbn [m_col mkm]. lia. }
  rewrite (fnt_b F (x :: cs) (Nat.max (Nat.max lk 1) 2) (mkm (3 + 1 + N.of_nat 0) (1 + 1) (N.of_nat 0)) [] 0 true k0 (-1)%Z [] 2 false true
             (x :: cs) (Nat.max (Nat.max (Nat.max (Nat.max lk 1) 2) 1) 1) (mkm (3 + 1 + N.of_nat 0) (1 + 1) (N.of_nat 0)) true true 0 (-1)%Z []).
  2:{ exact (skip_none F cs _ _ [] 0 true k0 (-1)%Z [] 2 false true x ltac:(lia) Hx). }
  2:{ rewrite stale_k_not_possible by exact Hk. reflexivity. }
  2:{ apply unroll_keep. cbn [m_col mkm]. lia. }
  f_equal. unfold mkb. do 2 f_equal. lia.
Qed.

Lemma gap_next F x cs lk k0 : (4 <= F)%nat -> first_ok x -> sk_possible k0 = false ->
  next_token str_ops F (mkb (10 :: x :: cs) lk (mkm 3 1 3) [] 0 false k0 (-1)%Z [] 2 false false)
  = next_token str_ops F
      (mkb (x :: cs) (Nat.max (Nat.max lk 1) 2) (mkm (3 + 1 + N.of_nat 0) (1 + 1) (N.of_nat 0)) [] 0 true k0 (-1)%Z [] 2 false true).
Proof.
  intros HF Hx Hk. pose proof (gap_fetch F x cs lk k0 HF Hx Hk) as E.
  set (A := mkb (10 :: x :: cs) lk (mkm 3 1 3) [] 0 false k0 (-1)%Z [] 2 false false) in *.
  set (B := mkb (x :: cs) (Nat.max (Nat.max lk 1) 2) (mkm (3 + 1 + N.of_nat 0) (1 + 1) (N.of_nat 0)) [] 0 true k0 (-1)%Z [] 2 false true) in *.
  rewrite (nt_ntb F F A eq_refl (eq_refl : sc_stream_end A = false)), (nt_ntb F F B eq_refl (eq_refl : sc_stream_end B = false)).
  destruct F as [|b]; [lia|].
  unfold ntb. cbn [bind get]. change (sc_token_available A) with false. change (sc_token_available B) with false. cbv iota.
  rewrite !fmt_S. cbn [bind].
  rewrite (need_canon A eq_refl), (need_canon B eq_refl). cbv iota beta.
  cbn [bind]. rewrite E. reflexivity.
Qed.

Lemma gap_scan F x cs lk k0 : (4 <= F)%nat -> first_ok x -> sk_possible k0 = false -> forall fuel acc,
  scan_all str_ops F fuel (mkb (10 :: x :: cs) lk (mkm 3 1 3) [] 0 false k0 (-1)%Z [] 2 false false) acc
  = scan_all str_ops F fuel
      (mkb (x :: cs) (Nat.max (Nat.max lk 1) 2) (mkm (3 + 1 + N.of_nat 0) (1 + 1) (N.of_nat 0)) [] 0 true k0 (-1)%Z [] 2 false true) acc.
Proof.
  intros HF Hx Hk fuel acc. destruct fuel as [|fuel]; [reflexivity|].
  rewrite !scan_all_S, (gap_next F x cs lk k0 HF Hx Hk). reflexivity.
Qed.

Theorem header_scan : forall F x cs, (4 <= F)%nat -> first_ok x -> (x =? 0) = false ->
  exists t0 t1 s1,
    snd t0 = TStreamStart /\ snd t1 = TDocumentStart /\ at_tok s1 (x :: cs) 0 [] /\
    forall fuel acc, scan_all str_ops F (2 + fuel) (init_sc {| si_chars := doc_header ++ x :: cs; si_look := 0 |}) acc
                     = scan_all str_ops F fuel s1 (t1 :: t0 :: acc).
Proof.
  intros F x cs HF Hx _. destruct (doc_start_step F x cs HF) as (lk & E2).
  exists (span_empty (mk1 0), TStreamStart), (spn (mkm 0 1 0) (mkm 3 1 3), TDocumentStart),
    (mkb (x :: cs) (Nat.max (Nat.max lk 1) 2) (mkm (3 + 1 + N.of_nat 0) (1 + 1) (N.of_nat 0)) [] 0 true dummy_key (-1)%Z [] 2 false true).
  split; [reflexivity|]. split; [reflexivity|]. split.
  - eapply at_tok_intro; [reflexivity|reflexivity|reflexivity|left; reflexivity].
  - intros fuel acc. change (2 + fuel)%nat with (S (S fuel)).
    rewrite scan_all_S, (first_token F (doc_header ++ x :: cs)) by lia. cbv beta iota.
    change (mkst (doc_header ++ x :: cs) 1 (mk1 0) [] 0 true [dummy_key] 0 1 false true [])
      with (mkb (45 :: 45 :: 45 :: 10 :: x :: cs) 1 (mkm 0 1 0) [] 0 true dummy_key (-1)%Z [] 1 false true).
    rewrite scan_all_S, E2. cbv beta iota.
    apply gap_scan; [exact HF|exact Hx|reflexivity].
Qed.

Print Assumptions header_scan.
