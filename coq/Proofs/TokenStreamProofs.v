(* C03, parser half, whole streams: any number of documents, %YAML / %TAG directives, '---' / '...' markers.
   The pull parser run on stream_toks ds emits exactly stream_events keep ds.  Also: the fuel of parse_tokens suffices. *)
From Coq Require Import List NArith Bool Lia.
Import ListNotations.
Require Import Parser TokenGrammar TokenGrammarProofs.

Arguments N.add : simpl never.
Arguments N.ltb : simpl never.

(* ---------- handle tables ---------- *)
Lemma str_eqb_eq a b : str_eqb a b = true <-> a = b.
Proof. unfold str_eqb. destruct (list_eq_dec N.eq_dec a b); split; congruence. Qed.
Lemma str_eqb_refl a : str_eqb a a = true.
Proof. apply str_eqb_eq. reflexivity. Qed.

Lemma assoc_set_spec {B} k k' (v : B) l : assoc k (assoc_set k' v l) = if str_eqb k k' then Some v else assoc k l.
Proof.
  induction l as [|[a b] l IH]; cbn [assoc_set assoc]; [reflexivity|].
  destruct (str_eqb k' a) eqn:E1; cbn [assoc].
  - apply str_eqb_eq in E1. subst a. destruct (str_eqb k k'); reflexivity.
  - rewrite IH. destruct (str_eqb k a) eqn:E2; [|reflexivity].
    apply str_eqb_eq in E2. subst a. destruct (str_eqb k k') eqn:E3; [|reflexivity].
    apply str_eqb_eq in E3. subst k'. rewrite str_eqb_refl in E1. discriminate.
Qed.

Lemma assoc_app {B} k (a b : list (str * B)) :
  assoc k (a ++ b) = match assoc k a with Some v => Some v | None => assoc k b end.
Proof. induction a as [|[x y] a IH]; cbn [app assoc]; [reflexivity|]. destruct (str_eqb k x); [reflexivity|exact IH]. Qed.

Lemma assoc_set_fresh {B} k (v : B) l : assoc k l = None -> assoc_set k v l = l ++ [(k, v)].
Proof.
  induction l as [|[a b] l IH]; cbn [assoc assoc_set app]; [reflexivity|].
  destruct (str_eqb k a); [discriminate|]. intros H. rewrite (IH H). reflexivity.
Qed.

(* two tables with the same lookups *)
Definition teq (t1 t2 : list (str * str)) : Prop := forall k, assoc k t1 = assoc k t2.

Lemma resolve_pure_ext t1 t2 h s : teq t1 t2 -> resolve_pure t1 h s = resolve_pure t2 h s.
Proof. intros H. unfold resolve_pure. rewrite !H. reflexivity. Qed.
Lemma tag_ev_ext t1 t2 tg : teq t1 t2 -> tag_ev t1 tg = tag_ev t2 tg.
Proof. intros H. destruct tg as [[h s]|]; [|reflexivity]. cbn. apply resolve_pure_ext, H. Qed.
Lemma tag_ok_ext t1 t2 tg : teq t1 t2 -> tag_ok t1 tg = tag_ok t2 tg.
Proof. intros H. destruct tg as [[h s]|]; [|reflexivity]. cbn. rewrite (resolve_pure_ext _ _ h s H). reflexivity. Qed.
Lemma number_ext t1 t2 : teq t1 t2 -> forall l e, number t1 e l = number t2 e l.
Proof.
  intros H. induction l as [|x l IH]; intros e; cbn [number]; [reflexivity|]. rewrite IH. f_equal.
  destruct x; cbn [number1]; rewrite ?(tag_ev_ext _ _ _ H); reflexivity.
Qed.
Lemma bound_ext t1 t2 : teq t1 t2 -> forall l e, bound t1 e l = bound t2 e l.
Proof.
  intros H. induction l as [|x l IH]; intros e; cbn [bound]; [reflexivity|]. rewrite IH. f_equal.
  destruct x; cbn [bound1]; rewrite ?(tag_ok_ext _ _ _ H); reflexivity.
Qed.

Lemma dir_tags_ver a b r : dir_tags (DVersion a b :: r) = dir_tags r.
Proof. reflexivity. Qed.
Lemma dir_tags_tag h p r : dir_tags (DTag h p :: r) = (h, p) :: dir_tags r.
Proof. reflexivity. Qed.

Lemma dirs_ok_fresh dirs : forall seen ver h, dirs_ok seen ver dirs = true ->
  existsb (str_eqb h) seen = true -> assoc h (dir_tags dirs) = None.
Proof.
  induction dirs as [|[a b|h0 p0] r IH]; intros seen ver h Hok Hs; cbn [dirs_ok] in *; rewrite ?dir_tags_ver, ?dir_tags_tag.
  - reflexivity.
  - apply andb_prop in Hok as [_ Hok]. eapply IH; eauto.
  - apply andb_prop in Hok as [Hf Hok]. cbn [assoc]. destruct (str_eqb h h0) eqn:E.
    + apply str_eqb_eq in E. subst h0. rewrite Hs in Hf. discriminate.
    + eapply IH; [exact Hok|]. cbn [existsb]. rewrite Hs. apply orb_true_r.
Qed.

Lemma extend_tags_teq dirs : forall seen ver t t', dirs_ok seen ver dirs = true -> teq t t' ->
  teq (extend_tags t (dir_tags dirs)) (dir_tags dirs ++ t').
Proof.
  induction dirs as [|[a b|h0 p0] r IH]; intros seen ver t t' Hok Ht; cbn [dirs_ok] in *; rewrite ?dir_tags_ver, ?dir_tags_tag; cbn [app extend_tags].
  - exact Ht.
  - apply andb_prop in Hok as [_ Hok]. eapply IH; eauto.
  - apply andb_prop in Hok as [Hf Hok].
    assert (Ht1 : teq (assoc_set h0 p0 t) ((h0, p0) :: t')).
    { intros k. rewrite assoc_set_spec. cbn [assoc]. rewrite Ht. reflexivity. }
    intros k. rewrite (IH _ _ _ _ Hok Ht1 k). rewrite assoc_app. cbn [assoc]. rewrite assoc_app.
    destruct (str_eqb k h0) eqn:E; [|reflexivity].
    apply str_eqb_eq in E. subst h0.
    rewrite (dirs_ok_fresh r (k :: seen) ver k Hok); [reflexivity|]. cbn [existsb]. rewrite str_eqb_refl. reflexivity.
Qed.

(* ---------- lookahead bookkeeping ---------- *)
Lemma view_len p u s k a n tg kp : view p = mkv u s k a n tg kp -> (length u <= S (length (p_toks p)))%nat.
Proof.
  unfold view, upcoming. intros H. inversion H as [[Hu Hs Hk Ha Hn Ht Hkp]]. clear H.
  destruct (p_token p); cbn [length]; lia.
Qed.

Definition is_dir (x : tok) : bool := match x with TVersionDirective _ _ | TTagDirective _ _ => true | _ => false end.
Definition all_ends (le : list token) : Prop := Forall (fun t => snd t = TDocumentEnd) le.

Lemma skip_ends (le : list token) : forall p x rest st k a n tg kp fuel,
  view p = mkv (le ++ x :: rest) st k a n tg kp ->
  all_ends le -> snd x <> TDocumentEnd -> (length le < fuel)%nat ->
  exists p', skip_document_ends fuel p = Ok p' /\ view p' = mkv (x :: rest) st k a n tg kp.
Proof.
  induction le as [|[sp0 t0] le IH]; intros p x rest st k a n tg kp fuel Hv Hle Hx Hf;
    (destruct fuel as [|fuel]; [cbn in Hf; lia|]); cbn [skip_document_ends app] in *.
  - vpeek Hv. destruct x as [sx tx]. cbn [snd] in Hx.
    destruct tx; try congruence; eexists; (split; [reflexivity|reflexivity]).
  - inversion Hle as [|? ? H0 Hle']; subst. cbn [snd] in H0. subst t0. vpeek Hv.
    apply (IH (skip (mkp (le ++ x :: rest) (Some (sp0, TDocumentEnd)) st k a n tg kp)) x rest st k a n tg kp fuel eq_refl Hle' Hx).
    cbn in Hf. lia.
Qed.

Lemma proc_dirs dirs : forall p (td : list token) x rest st k a n tg kp ver seen tags fuel,
  view p = mkv (td ++ x :: rest) st k a n tg kp ->
  map snd td = map dir_tok dirs ->
  dirs_ok seen ver dirs = true ->
  (forall h, has_key h tags = existsb (str_eqb h) seen) ->
  is_dir (snd x) = false -> (length dirs < fuel)%nat ->
  exists p', process_directives fuel p ver tags = Ok p' /\
     view p' = mkv (x :: rest) st k a n (extend_tags tg (tags ++ dir_tags dirs)) kp.
Proof.
  induction dirs as [|d r IH]; intros p td x rest st k a n tg kp ver seen tags fuel Hv Hm Hok Hseen Hx Hf;
    (destruct fuel as [|fuel]; [cbn in Hf; lia|]); cbn [process_directives map dirs_ok] in *.
  - change (dir_tags []) with (@nil (str * str)). apply map_snd_nil in Hm as ->. cbn [app] in Hv. vpeek Hv. rewrite app_nil_r.
    destruct x as [sx tx]. cbn [snd] in Hx. destruct tx; try discriminate; eexists; (split; reflexivity).
  - apply map_snd_cons in Hm as (sp0 & td' & -> & Hm). cbn [app] in Hv. vpeek Hv.
    destruct d as [va vb|h pre]; cbn [dir_tok].
    + apply andb_prop in Hok as [Hver Hok]. destruct ver; [discriminate|]. cbn [negb].
      rewrite dir_tags_ver.
      apply (IH (skip (mkp (td' ++ x :: rest) (Some (sp0, TVersionDirective va vb)) st k a n tg kp)) td' x rest st k a n tg kp
                true seen tags fuel eq_refl Hm Hok Hseen Hx). cbn in Hf. lia.
    + apply andb_prop in Hok as [Hfresh Hok].
      assert (Hk : has_key h tags = false) by (rewrite Hseen; destruct (existsb (str_eqb h) seen); [discriminate|reflexivity]).
      rewrite Hk, andb_false_r.
      assert (Hnone : assoc h tags = None) by (unfold has_key in Hk; destruct (assoc h tags); [discriminate|reflexivity]).
      rewrite (assoc_set_fresh h pre tags Hnone).
      destruct (IH (skip (mkp (td' ++ x :: rest) (Some (sp0, TTagDirective h pre)) st k a n tg kp)) td' x rest st k a n tg kp
                ver (h :: seen) (tags ++ [(h, pre)]) fuel eq_refl Hm Hok) as (p' & E & V); [| exact Hx | cbn in Hf; lia |].
      * intros h'. unfold has_key. rewrite assoc_app. cbn [assoc existsb].
        specialize (Hseen h'). unfold has_key in Hseen. destruct (assoc h' tags).
        -- rewrite <- Hseen. rewrite orb_true_r. reflexivity.
        -- rewrite <- Hseen. rewrite orb_false_r. destruct (str_eqb h' h); reflexivity.
      * exists p'. split; [exact E|]. rewrite V, dir_tags_tag, <- app_assoc. reflexivity.
Qed.

(* ---------- one document ---------- *)
Definition between (closed : bool) : pstate := if closed then SImplicitDocumentStart else SDocumentStart.

Lemma sm_between closed p u k a n tg kp :
  view p = mkv u (between closed) k a n tg kp -> state_machine p = document_start p closed.
Proof. intros H. unfold state_machine. rewrite (view_state _ _ _ _ _ _ _ _ H). destruct closed; reflexivity. Qed.

Lemma dirs_first (td tds : list token) dirs u :
  map snd td = map dir_tok dirs -> map snd tds = flag true TDocumentStart ->
  exists t0 r0, td ++ tds ++ u = t0 :: r0 /\ (is_dir (snd t0) = true \/ snd t0 = TDocumentStart).
Proof.
  intros Hm Hs. destruct dirs as [|d r]; cbn [map] in Hm.
  - apply map_snd_nil in Hm as ->. cbn in Hs. apply map_snd_cons in Hs as (sp & t2 & -> & _). cbn. eauto.
  - apply map_snd_cons in Hm as (sp & t2 & -> & _). cbn. do 2 eexists. split; [reflexivity|]. left. destruct d; reflexivity.
Qed.

Lemma doc_open_gen closed dirs start (le td tds u : list token) p a n tg kp :
  view p = mkv (le ++ td ++ tds ++ u) (between closed) [] a n tg kp ->
  all_ends le ->
  map snd td = map dir_tok dirs -> map snd tds = flag start TDocumentStart ->
  dirs_ok [] false dirs = true ->
  (negb (nonempty dirs) || (closed && start)) = true -> (start || closed) = true ->
  (start = true \/ exists sy y u', u = (sy, y) :: u' /\ is_start y = true) ->
  exists p1, steps p [EDocumentStart start] p1 /\
     view p1 = mkv u (doc_state start) [SDocumentEnd] a n (extend_tags tg (dir_tags dirs)) kp.
Proof.
  intros Hv Hle Hmd Hms Hok Hd Hsc Hu.
  destruct start.
  - (* '---' (after directives) *)
    destruct (dirs_first td tds dirs u Hmd Hms) as (t0 & r0 & E0 & H0).
    assert (Hx0 : snd t0 <> TDocumentEnd) by (destruct H0 as [H0|H0]; [destruct (snd t0); discriminate | rewrite H0; discriminate]).
    unfold token in *. rewrite E0 in Hv.
    pose proof (view_len _ _ _ _ _ _ _ _ Hv) as Hlen. rewrite app_length in Hlen. cbn [length] in Hlen.
    destruct (skip_ends le p t0 r0 (between closed) [] a n tg kp (S (S (length (p_toks p)))) Hv Hle Hx0 ltac:(unfold token in *; lia)) as (p0 & E1 & V1).
    cbn in Hms. apply map_snd_cons in Hms as (spS & t2 & -> & Hms). apply map_snd_nil in Hms as ->.
    set (q := mkp r0 (Some t0) (between closed) [] a n tg kp).
    assert (Eq : document_start p closed = explicit_document_start q).
    { unfold document_start. rewrite E1. vpeek V1. fold q. destruct t0 as [s0 k0]. cbn [snd] in H0.
      destruct H0 as [H0 | ->]; [destruct k0; try discriminate; reflexivity | reflexivity]. }
    assert (Vq : view q = mkv (td ++ (spS, TDocumentStart) :: u) (between closed) [] a n tg kp).
    { unfold q. rewrite view_mkp_some. f_equal. symmetry. exact E0. }
    pose proof (view_len _ _ _ _ _ _ _ _ Vq) as Hlen2. rewrite app_length in Hlen2.
    assert (Hld : length td = length dirs) by (rewrite <- (map_length snd td), Hmd, map_length; reflexivity).
    destruct (proc_dirs dirs q td (spS, TDocumentStart) u (between closed) [] a n tg kp false [] []
                (S (S (length (p_toks q)))) Vq Hmd Hok ltac:(intros h; reflexivity) eq_refl ltac:(unfold token in *; cbn [length] in Hlen2; lia))
      as (q' & E2 & V2).
    cbn [app] in V2.
    eexists. split.
    + econstructor; [|constructor]. rewrite (sm_between closed p _ _ _ _ _ _ Hv), Eq.
      unfold explicit_document_start. rewrite E2. vpeek V2. reflexivity.
    + reflexivity.
  - (* no '---': only after '...' or at the start of the stream, no directives *)
    cbn [orb] in Hsc. subst closed. cbn [andb] in Hd. rewrite orb_false_r in Hd.
    destruct dirs as [|d r]; [|discriminate]. cbn [map] in Hmd. apply map_snd_nil in Hmd as ->.
    cbn in Hms. apply map_snd_nil in Hms as ->. cbn [app] in Hv.
    destruct Hu as [?|(sy & y & u' & -> & Hy)]; [discriminate|].
    assert (Hx0 : snd (sy, y) <> TDocumentEnd) by (cbn; intros ->; discriminate).
    pose proof (view_len _ _ _ _ _ _ _ _ Hv) as Hlen. rewrite app_length in Hlen. cbn [length] in Hlen.
    destruct (skip_ends le p (sy, y) u' (between true) [] a n tg kp (S (S (length (p_toks p)))) Hv Hle Hx0 ltac:(unfold token in *; lia)) as (p0 & E1 & V1).
    eexists. split.
    + econstructor; [|constructor]. rewrite (sm_between true p _ _ _ _ _ _ Hv).
      unfold document_start. rewrite E1. vpeek V1.
      destruct y; try discriminate; reflexivity.
    + reflexivity.
Qed.

Definition is_end (x : tok) : bool := match x with TDocumentEnd => true | _ => false end.

Lemma doc_close_gen p x rest a n tg kp :
  view p = mkv (x :: rest) SDocumentEnd [] a n tg kp ->
  doc_follow (snd x) = true ->
  exists p', steps p [EDocumentEnd] p' /\
    view p' = mkv (if is_end (snd x) then rest else x :: rest) (between (is_end (snd x))) [] [] n (if kp then tg else []) kp.
Proof.
  intros Hv Hx. destruct x as [sx tx]. cbn [snd] in *.
  destruct tx; try discriminate; cbn [is_end between];
    (eexists; split;
     [ econstructor; [rewrite (state_machine_docend p _ _ _ _ _ _ Hv); unfold document_end; vpeek Hv; destruct kp; reflexivity | constructor]
     | destruct kp; reflexivity ]).
Qed.

Lemma ends_of_repeat (te : list token) m : map snd te = repeat TDocumentEnd m -> all_ends te.
Proof.
  revert te. induction m as [|m IH]; intros te H; cbn [repeat] in H.
  - apply map_snd_nil in H as ->. constructor.
  - apply map_snd_cons in H as (sp & t2 & -> & H). constructor; [reflexivity|apply IH, H].
Qed.

Lemma docs_first ds (tdocs : list token) spE :
  docs_wf false ds = true -> map snd tdocs = flat_map doc_toks ds ->
  exists x rest, tdocs ++ [(spE, TStreamEnd)] = x :: rest /\ (snd x = TDocumentStart \/ snd x = TStreamEnd).
Proof.
  destruct ds as [|d r]; cbn [docs_wf flat_map]; intros Hw Hm.
  - apply map_snd_nil in Hm as ->. cbn. eauto.
  - apply andb_prop in Hw as [Hw _]. apply andb_prop in Hw as [Hw _]. apply andb_prop in Hw as [Hw Hs].
    apply andb_prop in Hw as [_ Hd]. cbn [andb] in Hd. rewrite orb_false_r in Hd, Hs.
    unfold doc_toks in Hm. destruct (ld_dirs d); [|discriminate]. rewrite Hs in Hm. cbn in Hm.
    apply map_snd_cons in Hm as (sp & t2 & -> & _). cbn. eauto.
Qed.

Lemma docs_run ds : forall closed p (le tdocs : list token) spE n tg kp prev,
  docs_wf closed ds = true ->
  view p = mkv (le ++ tdocs ++ [(spE, TStreamEnd)]) (between closed) [] [] n tg kp ->
  all_ends le ->
  map snd tdocs = flat_map doc_toks ds ->
  teq tg (if kp then prev else []) ->
  (0 < n)%N ->
  docs_bound kp prev n ds = true ->
  exists p', steps p (docs_events kp prev n ds ++ [EStreamEnd]) p' /\ p_state p' = SEnd.
Proof.
  induction ds as [|d r IH]; intros closed p le tdocs spE n tg kp prev Hw Hv Hle Hm Htg Hn Hb.
  - cbn in Hm. apply map_snd_nil in Hm as ->. cbn [app] in Hv.
    pose proof (view_len _ _ _ _ _ _ _ _ Hv) as Hlen. rewrite app_length in Hlen. cbn [length] in Hlen.
    destruct (skip_ends le p (spE, TStreamEnd) [] (between closed) [] [] n tg kp (S (S (length (p_toks p)))) Hv Hle
                ltac:(discriminate) ltac:(unfold token in *; lia)) as (p0 & E1 & V1).
    eexists. split.
    + cbn [docs_events app]. econstructor; [|constructor].
      rewrite (sm_between closed p _ _ _ _ _ _ Hv). unfold document_start. rewrite E1. vpeek V1. reflexivity.
    + reflexivity.
  - cbn [docs_wf] in Hw. apply andb_prop in Hw as [Hw Hwr]. apply andb_prop in Hw as [Hw Hroot].
    apply andb_prop in Hw as [Hw Hsc]. apply andb_prop in Hw as [Hok Hd].
    cbn [docs_bound] in Hb. apply andb_prop in Hb as [Hbd Hbr].
    cbn [flat_map] in Hm. apply map_snd_app in Hm as (tdoc & tdocs' & -> & Hmd & Hm').
    unfold doc_toks in Hmd.
    apply map_snd_app in Hmd as (td & t2 & -> & Hmdirs & Hmd).
    apply map_snd_app in Hmd as (tds & t3 & -> & Hmds & Hmd).
    apply map_snd_app in Hmd as (tt & te & -> & Hmt & Hme).
    set (T := extend_tags tg (dir_tags (ld_dirs d))).
    set (tgs := doc_tags kp prev d) in *.
    assert (HT : teq T tgs) by (apply (extend_tags_teq (ld_dirs d) [] false tg _ Hok Htg)).
    set (e := doc_env n).
    set (n' := ae_next (env_after e (pre_events (ld_root d)))) in *.
    (* the token behind the root node, and what is left for the next document *)
    assert (Hx : exists x rest,
               te ++ tdocs' ++ [(spE, TStreamEnd)] = x :: rest /\ doc_follow (snd x) = true /\
               exists le', all_ends le' /\
                 (if is_end (snd x) then rest else x :: rest) = le' ++ tdocs' ++ [(spE, TStreamEnd)] /\
                 is_end (snd x) = match ld_ends d with O => false | S _ => true end).
    { destruct (ld_ends d) as [|m]; cbn [repeat] in Hme.
      - apply map_snd_nil in Hme as ->. cbn [app].
        destruct (docs_first r tdocs' spE Hwr Hm') as (x & rest & Ex & Hx).
        exists x, rest. split; [exact Ex|]. destruct x as [sx tx]. cbn [snd] in *.
        destruct Hx as [-> | ->]; (split; [reflexivity|]); exists []; (split; [constructor|]); cbn; auto.
      - apply map_snd_cons in Hme as (sp & te' & -> & Hme). cbn [app].
        do 2 eexists. split; [reflexivity|]. split; [reflexivity|]. exists te'. split; [eapply ends_of_repeat; eauto|].
        cbn. auto. }
    destruct Hx as (x & rest & Ex & Hfx & le' & Hle' & Erest & Eend).
    assert (Hu : ld_start d = true \/ exists sy y u', tt ++ x :: rest = (sy, y) :: u' /\ is_start y = true).
    { destruct (ld_start d); [left; reflexivity|right]. unfold wf_root in Hroot.
      destruct (is_none (ld_root d)) eqn:EN; [discriminate|].
      destruct (first_tok_spanned _ _ _ _ Hroot Hmt) as (sy & y & tt' & -> & [S0 | [? _]]); [|discriminate].
      cbn. eauto. }
    rewrite <- !app_assoc in Hv. unfold token in *. rewrite Ex in Hv.
    destruct (doc_open_gen closed (ld_dirs d) (ld_start d) le td tds (tt ++ x :: rest) p [] n tg kp Hv Hle Hmdirs Hmds Hok Hd Hsc Hu)
      as (p1 & R1 & V1). fold T in V1.
    assert (Hbd' : bound T e (pre_events (ld_root d)) = true) by (rewrite (bound_ext _ _ HT); exact Hbd).
    destruct (doc_content_gen (ld_start d) (ld_root d) p1 tt x rest e T kp Hroot V1 Hmt Hfx Hbd' Hn) as (p2 & R2 & V2).
    destruct (doc_close_gen p2 x rest _ _ T kp V2 Hfx) as (p3 & R3 & V3).
    unfold token in *. rewrite Erest, Eend in V3.
    destruct (IH _ p3 le' tdocs' spE n' (if kp then T else []) kp tgs Hwr V3 Hle' Hm'
                 ltac:(destruct kp; [exact HT | intros k; reflexivity]) (env_after_pos (pre_events (ld_root d)) e Hn) Hbr) as (p4 & R4 & E4).
    exists p4. split; [|exact E4].
    cbn [docs_events]. fold tgs. fold e. fold n'. rewrite <- (number_ext _ _ HT).
    change (EDocumentStart (ld_start d) :: number T e (pre_events (ld_root d)) ++ EDocumentEnd :: docs_events kp tgs n' r)
      with ([EDocumentStart (ld_start d)] ++ number T e (pre_events (ld_root d)) ++ [EDocumentEnd] ++ docs_events kp tgs n' r).
    rewrite <- !app_assoc.
    eapply steps_app; [exact R1|]. eapply steps_app; [exact R2|]. eapply steps_app; [exact R3|exact R4].
Qed.

(* ---------- the whole stream ---------- *)
Lemma stream_steps ds toks keep :
  docs_wf true ds = true -> docs_bound keep [] 1%N ds = true ->
  map snd toks = stream_toks ds ->
  exists p', steps (init_p toks keep) (stream_events keep ds) p' /\ p_state p' = SEnd.
Proof.
  intros Hw Hb Hm. unfold stream_toks in Hm.
  apply map_snd_cons in Hm as (sp0 & t1 & -> & Hm).
  apply map_snd_app in Hm as (tdocs & t2 & -> & Hmd & Hm).
  apply map_snd_cons in Hm as (spE & t3 & -> & Hm). apply map_snd_nil in Hm as ->.
  destruct (docs_run ds true (mkp (tdocs ++ [(spE, TStreamEnd)]) None SImplicitDocumentStart [] [] 1%N [] keep)
              [] tdocs spE 1%N [] keep [] Hw eq_refl ltac:(constructor) Hmd
              ltac:(destruct keep; intros k; reflexivity) ltac:(reflexivity) Hb) as (p' & R & E).
  exists p'. split; [|exact E]. unfold stream_events.
  econstructor; [reflexivity|]. exact R.
Qed.

Require Import SBase SPrim SDir SScalar SFetch Pipe Drivers.

Theorem parse_stream ds toks keep se fuel :
  docs_wf true ds = true -> docs_bound keep [] 1%N ds = true ->
  map snd toks = stream_toks ds ->
  (length (stream_events keep ds) < fuel)%nat ->
  map fst (fst (parse_all fuel (init_p toks keep) se [])) = stream_events keep ds /\
  snd (parse_all fuel (init_p toks keep) se []) = PDone.
Proof.
  intros Hw Hb Hm Hf.
  destruct (stream_steps ds toks keep Hw Hb Hm) as (p3 & R & E3).
  set (evs := stream_events keep ds) in *.
  destruct (steps_parse_all _ _ _ R (fuel - length evs)%nat se []) as (l & El & Ep).
  replace (length evs + (fuel - length evs))%nat with fuel in Ep by lia.
  rewrite Ep. destruct (fuel - length evs)%nat as [|f] eqn:Ef; [lia|].
  cbn [parse_all]. rewrite E3. cbn [fst snd]. split; [|reflexivity].
  rewrite app_nil_r, rev_involutive. exact El.
Qed.

(* ---------- the fuel of parse_tokens (4 * tokens + 40) always suffices ---------- *)
Lemma number_length tg l : forall e, length (number tg e l) = length l.
Proof. induction l as [|x l IH]; intros e; cbn [number length]; [reflexivity|]. rewrite IH. reflexivity. Qed.

Lemma flat_map_le {A} (f : A -> list pev) (g : A -> list tok) l :
  Forall (fun x => (length (f x) <= 4 * length (g x))%nat) l ->
  (length (flat_map f l) <= 4 * length (flat_map g l))%nat.
Proof. induction 1 as [|x l Hx _ IH]; cbn [flat_map length]; [lia|]. rewrite !app_length. lia. Qed.

Lemma fsep_length (l : list (list tok)) : (length (concat l) <= length (fsep l))%nat.
Proof.
  destruct l as [|x r]; cbn [fsep concat length]; [lia|]. rewrite !app_length.
  enough (length (concat r) <= length (flat_map (fun y => TFlowEntry :: y) r))%nat by lia.
  induction r as [|y r IH]; cbn [concat flat_map length]; [lia|]. cbn [app length]. rewrite !app_length. lia.
Qed.
Lemma concat_map_flat {A B} (f : A -> list B) l : concat (map f l) = flat_map f l.
Proof. induction l as [|x l IH]; cbn; [reflexivity|]. rewrite IH. reflexivity. Qed.

Lemma props_toks_some pr : has_some_props pr = true -> (1 <= length (props_toks pr))%nat.
Proof. destruct pr as [[a|] [[h s]|] [|]]; cbn; intros; try discriminate; lia. Qed.

(* an indentless sequence of left-out entries is the densest layout: 3 events for one BlockEntry token; it only occurs as key or
   value of a block mapping, which pays for it *)
Definition Weight (t : ltree) : Prop :=
  forall b i, wf b i t = true -> (length (pre_events t) + (if i then 1 else 2) <= 4 * length (tokens_of t))%nat.

Lemma none_or_weight t b i : Weight t -> is_none t || wf b i t = true ->
  (length (pre_events t) <= 1 + 4 * length (tokens_of t))%nat /\
  (is_none t = false -> length (pre_events t) + (if i then 1 else 2) <= 4 * length (tokens_of t))%nat.
Proof.
  intros HW H. destruct (is_none t) eqn:EN; cbn [orb] in H.
  - destruct t; try discriminate. cbn. split; [lia|discriminate].
  - specialize (HW b i H). split; [destruct i; lia|intros _; exact HW].
Qed.

Lemma weight_all : forall t, Weight t.
Proof.
  apply ltree_ind2; unfold Weight.
  - intros pr st v b i _. cbn [pre_events tokens_of length]. rewrite app_length. cbn. destruct i; lia.
  - intros n b i _. cbn. destruct i; lia.
  - intros b i H. discriminate.
  - intros pr b i H. cbn [wf] in H. apply props_toks_some in H. cbn [pre_events tokens_of length]. destruct i; lia.
  - (* block sequence *)
    intros pr items HF b i H. cbn [wf] in H. apply andb_prop in H as [_ H].
    cbn [pre_events tokens_of length]. rewrite !app_length. cbn [length]. rewrite !app_length. cbn [length].
    enough (length (flat_map pre_events items) <= 4 * length (flat_map (fun x => TBlockEntry :: tokens_of x) items))%nat by (destruct i; lia).
    apply flat_map_le. rewrite Forall_forall in *. intros x Hx. rewrite forallb_forall in H.
    destruct (none_or_weight x true false (HF x Hx) (H x Hx)) as [H1 _]. cbn [length]. lia.
  - (* indentless sequence *)
    intros pr items HF b i H. cbn [wf] in H. apply andb_prop in H as [H Hw]. apply andb_prop in H as [H Hne].
    apply andb_prop in H as [_ ->].
    cbn [pre_events tokens_of length]. rewrite !app_length. cbn [length].
    destruct items as [|x0 items]; [discriminate|]. cbn [forallb] in Hw. apply andb_prop in Hw as [Hw0 Hw].
    inversion HF as [|? ? HF0 HF']; subst.
    assert (length (flat_map pre_events items) <= 4 * length (flat_map (fun x => TBlockEntry :: tokens_of x) items))%nat.
    { apply flat_map_le. rewrite Forall_forall in *. intros x Hx. rewrite forallb_forall in Hw.
      destruct (none_or_weight x true false (HF' x Hx) (Hw x Hx)) as [H1 _]. cbn [length]. lia. }
    destruct (none_or_weight x0 true false HF0 Hw0) as [H1 H2].
    cbn [flat_map length app]. rewrite ?app_length. cbn [length]. rewrite ?app_length.
    destruct (is_none x0) eqn:EN.
    + destruct x0; try discriminate. cbn [pre_events tokens_of length] in *. lia.
    + specialize (H2 eq_refl). lia.
  - (* block mapping *)
    intros pr ents HF b i H. cbn [wf] in H. apply andb_prop in H as [H _]. apply andb_prop in H as [_ H].
    cbn [pre_events tokens_of length]. rewrite !app_length. cbn [length]. rewrite !app_length. cbn [length].
    enough (length (flat_map (ent_pre pre_events) ents) <= 4 * length (flat_map (ent_toks tokens_of) ents))%nat by (destruct i; lia).
    apply flat_map_le. rewrite Forall_forall in *. intros [[kt kn] [vt vn]] Hx. rewrite forallb_forall in H.
    specialize (H _ Hx). specialize (HF _ Hx). cbn [fst snd] in HF. destruct HF as [Wk Wv].
    cbn [ent_wf] in H. apply andb_prop in H as [H Hwv]. apply andb_prop in H as [H Hwk]. apply andb_prop in H as [Hkt Hvt].
    destruct (none_or_weight kn true true Wk Hwk) as [K1 K2]. destruct (none_or_weight vn true true Wv Hwv) as [V1 V2].
    cbn [ent_pre ent_toks]. rewrite !app_length.
    destruct kt, vt; cbn [flag length orb andb] in *.
    + lia.
    + lia.
    + apply andb_prop in Hkt as [Hkn _]. destruct kn; try discriminate. cbn [pre_events tokens_of length] in *. lia.
    + apply andb_prop in Hkt as [_ ?]. discriminate.
  - (* flow sequence *)
    intros pr ents tr HF b i H. cbn [wf] in H. apply andb_prop in H as [H _].
    cbn [pre_events tokens_of length]. rewrite !app_length. cbn [length]. rewrite !app_length. cbn [length].
    pose proof (fsep_length (map (fsent_toks tokens_of) ents)) as Hs. rewrite concat_map_flat in Hs.
    enough (length (flat_map (fsent_pre pre_events) ents) <= 4 * length (flat_map (fsent_toks tokens_of) ents))%nat by (destruct i; lia).
    apply flat_map_le. rewrite Forall_forall in *. intros en Hx. rewrite forallb_forall in H.
    specialize (H _ Hx). specialize (HF _ Hx). destruct en as [nd | [kn [vt vn]]]; cbn [fsent_wf fsent_pre fsent_toks] in *.
    + specialize (HF _ _ H). cbn beta iota in HF. lia.
    + destruct HF as [Wk Wv]. apply andb_prop in H as [H Hwv]. apply andb_prop in H as [Hwk Hvt].
      destruct (none_or_weight kn false false Wk Hwk) as [K1 K2]. destruct (none_or_weight vn false false Wv Hwv) as [V1 V2].
      cbn [length]. rewrite !app_length. cbn [length]. rewrite ?app_length. cbn [length]. destruct vt; cbn [flag length]; lia.
  - (* flow mapping *)
    intros pr ents tr HF b i H. cbn [wf] in H. apply andb_prop in H as [H _].
    cbn [pre_events tokens_of length]. rewrite !app_length. cbn [length]. rewrite !app_length. cbn [length].
    pose proof (fsep_length (map (ent_toks tokens_of) ents)) as Hs. rewrite concat_map_flat in Hs.
    enough (length (flat_map (ent_pre pre_events) ents) <= 4 * length (flat_map (ent_toks tokens_of) ents))%nat by (destruct i; lia).
    apply flat_map_le. rewrite Forall_forall in *. intros [[kt kn] [vt vn]] Hx. rewrite forallb_forall in H.
    specialize (H _ Hx). specialize (HF _ Hx). cbn [fst snd] in HF. destruct HF as [Wk Wv].
    cbn [fment_wf] in H. apply andb_prop in H as [H Hkt]. apply andb_prop in H as [H Hwv]. apply andb_prop in H as [Hvt Hwk].
    destruct (none_or_weight kn false false Wk Hwk) as [K1 K2]. destruct (none_or_weight vn false false Wv Hwv) as [V1 V2].
    cbn [ent_pre ent_toks]. rewrite !app_length.
    destruct kt, vt; cbn [flag length orb andb] in *.
    + lia.
    + lia.
    + destruct kn; try discriminate. cbn [pre_events tokens_of length] in *. lia.
    + destruct (is_none kn); [discriminate|]. specialize (K2 eq_refl). cbn [orb] in Hvt. destruct vn; try discriminate.
      cbn [pre_events tokens_of length] in *. lia.
Qed.

Lemma root_weight es t : wf_root es t = true ->
  (length (pre_events t) + 2 <= 4 * (length (flag es TDocumentStart) + length (tokens_of t)))%nat.
Proof.
  unfold wf_root. destruct (is_none t) eqn:EN.
  - intros ->. destruct t; try discriminate. cbn. lia.
  - intros H. pose proof (weight_all t true false H) as HW. cbn beta iota in HW. lia.
Qed.

Lemma docs_weight ds : forall closed keep prev next, docs_wf closed ds = true ->
  (length (docs_events keep prev next ds) <= 4 * length (flat_map doc_toks ds))%nat.
Proof.
  induction ds as [|d r IH]; intros closed keep prev next Hw; cbn [docs_events flat_map length]; [lia|].
  cbn [docs_wf] in Hw. apply andb_prop in Hw as [Hw Hwr]. apply andb_prop in Hw as [_ Hroot].
  specialize (IH _ keep (doc_tags keep prev d) (ae_next (env_after (doc_env next) (pre_events (ld_root d)))) Hwr).
  pose proof (root_weight _ _ Hroot) as HR.
  rewrite !app_length. cbn [length]. rewrite number_length.
  assert (Hd : (length (flag (ld_start d) TDocumentStart) + length (tokens_of (ld_root d)) <= length (doc_toks d))%nat)
    by (unfold doc_toks; rewrite !app_length; lia).
  lia.
Qed.

Lemma stream_fuel ds (toks : list token) keep : docs_wf true ds = true -> map snd toks = stream_toks ds ->
  (length (stream_events keep ds) < 4 * length toks + 40)%nat.
Proof.
  intros Hw Hm. assert (HL : length toks = length (stream_toks ds)) by (rewrite <- Hm, map_length; reflexivity).
  rewrite HL. unfold stream_events, stream_toks.
  cbn [length]. rewrite !app_length. cbn [length].
  pose proof (docs_weight ds true keep [] 1%N Hw). lia.
Qed.

Lemma wrap_fuel es ee t (toks : list token) : wf_root es t = true -> map snd toks = wrap es ee (tokens_of t) ->
  (length (wrap_events es (events_of t)) < 4 * length toks + 40)%nat.
Proof.
  intros Hw Hm. assert (HL : length toks = length (wrap es ee (tokens_of t))) by (rewrite <- Hm, map_length; reflexivity).
  rewrite HL. unfold wrap_events, wrap, events_of.
  cbn [length]. rewrite !app_length. cbn [length]. rewrite ?app_length, number_length. cbn [length].
  pose proof (root_weight _ _ Hw). lia.
Qed.

Theorem parse_tokens_stream ds toks keep se :
  docs_wf true ds = true -> docs_bound keep [] 1%N ds = true ->
  map snd toks = stream_toks ds ->
  map fst (fst (parse_tokens toks se keep)) = stream_events keep ds /\ snd (parse_tokens toks se keep) = PDone.
Proof.
  intros Hw Hb Hm. exact (parse_stream ds toks keep se _ Hw Hb Hm (stream_fuel ds toks keep Hw Hm)).
Qed.

Theorem parse_tokens_wrap t es ee toks keep se :
  wf_root es t = true -> bound [] env0 (pre_events t) = true ->
  map snd toks = wrap es ee (tokens_of t) ->
  map fst (fst (parse_tokens toks se keep)) = wrap_events es (events_of t) /\ snd (parse_tokens toks se keep) = PDone.
Proof.
  intros Hw Hb Hm. exact (parse_wrap t es ee toks keep se _ Hw Hb Hm (wrap_fuel es ee t toks Hw Hm)).
Qed.
