(* C10 — the byte-level StrInput (Model/StrBytes.v) refines the character-level instance [str_ops] and the generic
   (provided-method) definitions of Model/SPrim.v.

   RB s b : the byte state b holds exactly the UTF-8 encoding of the characters of s (all Unicode scalar values), and
   the lookahead counters agree up to the one difference that the overrides really have: the four consuming overrides
   (skip_ws_to_eol, skip_while_non_breakz, skip_while_blank, fetch_while_is_alpha) never call `lookahead`, whereas the
   provided methods call `look_ch` (= lookahead(1)) in their loops; so after one of them the generic counter is
   max(l, 1) and the byte-level counter is still l.  [look_rel] is the invariant: equal, or (0 at byte level, 1 at
   character level); every later lookahead(n) with n >= 1 makes them equal again. *)
From Coq Require Import List NArith ZArith Bool Lia Arith.
Import ListNotations.
Require Import Parser SBase SPrim TagSpec TagUtf8 StrBytes.
Open Scope N_scope.
Arguments N.add : simpl never.
Arguments N.sub : simpl never.
Arguments N.eqb : simpl never.
Arguments N.ltb : simpl never.
Arguments N.leb : simpl never.
Arguments N.div : simpl never.
Arguments N.modulo : simpl never.
Arguments N.mul : simpl never.

Definition scalars (cs : list chr) : Prop := Forall (fun c => is_scalar_value c = true) cs.
Definition look_rel (lc lb : nat) : Prop := lc = lb \/ (lb = 0%nat /\ lc = 1%nat).
Definition RB (s : strin) (b : bstr) : Prop :=
  sb_bytes b = bytes_of (si_chars s) /\ scalars (si_chars s) /\ look_rel (si_look s) (sb_look b).

(* ========================================================================================== *)
(* 1. The encoding seen from the front                                                          *)
(* ========================================================================================== *)
Lemma bytes_of_cons c cs : bytes_of (c :: cs) = utf8_encode c ++ bytes_of cs.
Proof. reflexivity. Qed.
Lemma bytes_of_app a b : bytes_of (a ++ b) = bytes_of a ++ bytes_of b.
Proof. unfold bytes_of. apply flat_map_app. Qed.
Lemma bytes_of_nil : bytes_of [] = [].
Proof. reflexivity. Qed.

Lemma scalars_cons c cs : scalars (c :: cs) -> is_scalar_value c = true /\ scalars cs.
Proof. intros H. inversion H; subst. split; assumption. Qed.
Lemma scalars_tl cs : scalars cs -> scalars (tl cs).
Proof. destruct cs; [trivial|]. intros H. apply scalars_cons in H. apply H. Qed.
Lemma scalars_skipn n cs : scalars cs -> scalars (skipn n cs).
Proof.
  revert cs. induction n; intros cs H; [exact H|]. destruct cs; [exact H|]. cbn [skipn]. apply IHn.
  apply scalars_cons in H. apply H.
Qed.

(* decoding one character from the front of an encoding gives the character and the encoding of the rest *)
Lemma next_char_enc c rest : is_scalar_value c = true -> next_char (utf8_encode c ++ rest) = Ok (Some (c, rest)).
Proof.
  intros H. pose proof (utf8_round_trip c H) as RT.
  destruct (utf8_encode c) as [|h t] eqn:E. { cbn in RT. discriminate. }
  pose proof (utf8_decode_length _ _ _ RT) as SL.
  change ((h :: t) ++ rest) with (h :: (t ++ rest)). unfold next_char. rewrite SL.
  assert (F : firstn (length t) (t ++ rest) = t).
  { rewrite firstn_app, Nat.sub_diag, firstn_all. cbn [firstn]. apply app_nil_r. }
  assert (K : skipn (length t) (t ++ rest) = rest).
  { rewrite skipn_app, Nat.sub_diag, skipn_all. reflexivity. }
  cbn [firstn skipn].
  rewrite F, RT, K. reflexivity.
Qed.
Lemma next_char_cons c cs : scalars (c :: cs) -> next_char (bytes_of (c :: cs)) = Ok (Some (c, bytes_of cs)).
Proof. intros H. apply scalars_cons in H. rewrite bytes_of_cons. apply next_char_enc. apply H. Qed.
Lemma next_char_nil : next_char (bytes_of []) = Ok None.
Proof. reflexivity. Qed.

(* the view of the first bytes: an ASCII byte IS the first character; a byte >= 0x80 is a leading byte >= 0xC0 of a
   first character >= U+0080, followed by at least one continuation byte *)
Inductive front_view : list chr -> list byte -> Prop :=
| FV_nil : front_view [] []
| FV_ascii c cs : c < 128 -> front_view (c :: cs) (c :: bytes_of cs)
| FV_multi c cs h h2 t : 128 <= c -> 192 <= h -> 128 <= h2 -> h2 < 192 -> utf8_encode c = h :: h2 :: t ->
    front_view (c :: cs) (h :: h2 :: t ++ bytes_of cs).

Lemma front cs : scalars cs -> front_view cs (bytes_of cs).
Proof.
  destruct cs as [|c cs]; intros H; [constructor|].
  apply scalars_cons in H. destruct H as [Hc _]. apply is_scalar_le in Hc.
  rewrite bytes_of_cons. unfold utf8_encode.
  destruct (N.ltb_spec c 128) as [H1|H1]; [apply FV_ascii; exact H1|].
  destruct (N.ltb_spec c 2048) as [H2|H2].
  { apply (FV_multi c cs _ _ []); try lia.
    unfold utf8_encode. rewrite (proj2 (N.ltb_ge c 128)) by lia. rewrite (proj2 (N.ltb_lt c 2048)) by lia. reflexivity. }
  destruct (N.ltb_spec c 65536) as [H3|H3].
  { apply (FV_multi c cs _ _ [_]); try lia.
    unfold utf8_encode. rewrite (proj2 (N.ltb_ge c 128)) by lia. rewrite (proj2 (N.ltb_ge c 2048)) by lia.
    rewrite (proj2 (N.ltb_lt c 65536)) by lia. reflexivity. }
  apply (FV_multi c cs _ _ [_; _]); try lia.
  unfold utf8_encode. rewrite (proj2 (N.ltb_ge c 128)) by lia. rewrite (proj2 (N.ltb_ge c 2048)) by lia.
  rewrite (proj2 (N.ltb_ge c 65536)) by lia. reflexivity.
Qed.

Lemma front_cons c r : scalars (c :: r) ->
  (c < 128 /\ bytes_of (c :: r) = c :: bytes_of r)
  \/ (128 <= c /\ exists h h2 t, 192 <= h /\ bytes_of (c :: r) = h :: h2 :: t ++ bytes_of r).
Proof.
  intros Hs. pose proof (front _ Hs) as F. inversion F as [|c' r' Hc|c' r' h h2 t Hc Hh H2 H2' E]; subst.
  - left. split; [exact Hc|]. rewrite bytes_of_cons. unfold utf8_encode. rewrite (proj2 (N.ltb_lt c 128)) by exact Hc. reflexivity.
  - right. split; [exact Hc|]. exists h, h2, t. split; [exact Hh|]. rewrite bytes_of_cons, E. reflexivity.
Qed.

(* a predicate that only ASCII characters satisfy *)
Definition ascii_only (p : N -> bool) : Prop := forall x, 128 <= x -> p x = false.
Ltac ascii_tac :=
  intros x Hx;
  unfold is_blank_or_breakz, is_breakz, is_blank, is_break, is_z, is_flow, is_digit, is_alpha;
  repeat match goal with
         | |- context [?a =? ?b] => destruct (N.eqb_spec a b); [lia|]
         | |- context [?a <=? ?b] => destruct (N.leb_spec a b); try lia
         end; reflexivity.
Lemma ao_blank : ascii_only is_blank. Proof. ascii_tac. Qed.
Lemma ao_break : ascii_only is_break. Proof. ascii_tac. Qed.
Lemma ao_breakz : ascii_only is_breakz. Proof. ascii_tac. Qed.
Lemma ao_z : ascii_only is_z. Proof. ascii_tac. Qed.
Lemma ao_flow : ascii_only is_flow. Proof. ascii_tac. Qed.
Lemma ao_digit : ascii_only is_digit. Proof. ascii_tac. Qed.
Lemma ao_alpha : ascii_only is_alpha. Proof. ascii_tac. Qed.
Lemma ao_blank_or_breakz : ascii_only is_blank_or_breakz. Proof. ascii_tac. Qed.
Lemma ao_or p q : ascii_only p -> ascii_only q -> ascii_only (fun x => p x || q x).
Proof. intros Hp Hq x Hx. rewrite Hp, Hq by exact Hx. reflexivity. Qed.
Lemma ao_eq k : k < 128 -> ascii_only (fun x => x =? k).
Proof. intros Hk x Hx. apply N.eqb_neq. lia. Qed.

(* ========================================================================================== *)
(* 2. The required methods (the primitives of [InputOps])                                       *)
(* ========================================================================================== *)
Lemma chars_peek_spec cs : scalars cs -> chars_peek (bytes_of cs) = Ok (nth 0 cs 0).
Proof.
  intros H. unfold chars_peek. destruct cs as [|c cs]; [reflexivity|].
  rewrite (next_char_cons _ _ H). reflexivity.
Qed.
Lemma chars_peek_nth_spec n : forall cs, scalars cs -> chars_peek_nth n (bytes_of cs) = Ok (nth n cs 0).
Proof.
  induction n as [|n IH]; intros cs H; [apply chars_peek_spec; exact H|].
  cbn [chars_peek_nth]. destruct cs as [|c cs]; [reflexivity|].
  rewrite (next_char_cons _ _ H). cbn [bindo nth]. apply IH. apply scalars_cons in H. apply H.
Qed.
Lemma chars_advance_spec n : forall cs, scalars cs -> chars_advance n (bytes_of cs) = Ok (bytes_of (skipn n cs)).
Proof.
  induction n as [|n IH]; intros cs H; [reflexivity|].
  cbn [chars_advance]. destruct cs as [|c cs]; [reflexivity|].
  rewrite (next_char_cons _ _ H). cbn [bindo skipn]. apply IH. apply scalars_cons in H. apply H.
Qed.

Lemma look_rel_refl l : look_rel l l. Proof. left. reflexivity. Qed.
Lemma look_rel_max lc lb n : look_rel lc lb -> look_rel (Nat.max lc n) (Nat.max lb n).
Proof. unfold look_rel. intros [->|[-> ->]]; [left; reflexivity|]. destruct n as [|n]; [right; split; reflexivity|left]. cbn [Nat.max]. destruct n; reflexivity. Qed.
Lemma look_rel_max1 lc lb : look_rel lc lb -> look_rel (Nat.max lc 1) lb.
Proof. unfold look_rel. intros [->|[-> ->]]; [|right; split; reflexivity]. destruct lb as [|lb]; [right; split; reflexivity|left]. cbn [Nat.max]. destruct lb; reflexivity. Qed.

Lemma RB_bstr_of s : scalars (si_chars s) -> RB s (bstr_of s).
Proof. intros H. split; [reflexivity|]. split; [exact H|apply look_rel_refl]. Qed.

Lemma rb_lookahead s b n : RB s b ->
  exists s' b', lookahead str_ops n s = Ok s' /\ lookahead bytes_ops n b = Ok b' /\ RB s' b'.
Proof.
  intros (Hb & Hs & Hl). eexists; eexists. split; [reflexivity|]. split; [reflexivity|].
  split; [exact Hb|]. split; [exact Hs|]. apply look_rel_max. exact Hl.
Qed.
Lemma rb_buflen s b : RB s b -> look_rel (buflen str_ops s) (buflen bytes_ops b).
Proof. intros (_ & _ & Hl). exact Hl. Qed.
Lemma rb_buflen_eq s b : RB s b -> (1 <= buflen bytes_ops b)%nat -> buflen bytes_ops b = buflen str_ops s.
Proof. intros (_ & _ & Hl) H1. cbv [buflen bytes_ops str_ops sb_buflen] in *. destruct Hl as [Hl|[Hl _]]; lia. Qed.
Lemma rb_bufmaxlen : bufmaxlen bytes_ops = bufmaxlen str_ops.
Proof. reflexivity. Qed.
Lemma rb_peek_nth s b n : RB s b -> peek_nth bytes_ops n b = peek_nth str_ops n s.
Proof. intros (Hb & Hs & _). cbn [peek_nth bytes_ops str_ops]. unfold sb_peek_nth. rewrite Hb. apply chars_peek_nth_spec. exact Hs. Qed.
Lemma sb_skip_spec s b : RB s b -> exists b', sb_skip b = Ok b' /\ RB (skip1 str_ops s) b'.
Proof.
  intros (Hb & Hs & Hl). unfold sb_skip. rewrite Hb. destruct (si_chars s) as [|c cs] eqn:E.
  - exists b. split; [reflexivity|]. cbn [skip1 str_ops]. rewrite E. split; [exact Hb|]. split; [constructor|exact Hl].
  - rewrite (next_char_cons _ _ Hs). eexists. split; [reflexivity|]. cbn [skip1 str_ops]. rewrite E.
    split; [reflexivity|]. split; [apply scalars_cons in Hs; apply Hs|exact Hl].
Qed.
Lemma rb_skip1 s b : RB s b -> RB (skip1 str_ops s) (skip1 bytes_ops b).
Proof. intros H. destruct (sb_skip_spec _ _ H) as (b' & E & R). cbn [skip1 bytes_ops]. rewrite E. exact R. Qed.
Lemma rb_skip_n s b n : RB s b ->
  exists s' b', skip_n str_ops n s = Ok s' /\ skip_n bytes_ops n b = Ok b' /\ RB s' b'.
Proof.
  intros (Hb & Hs & Hl). eexists; eexists. split; [reflexivity|]. cbn [skip_n bytes_ops]. unfold sb_skip_n.
  rewrite Hb, (chars_advance_spec _ _ Hs). split; [reflexivity|].
  split; [reflexivity|]. split; [apply scalars_skipn; exact Hs|exact Hl].
Qed.
Lemma rb_raw_read_non_breakz s b : RB s b ->
  exists o s' b', raw_read_non_breakz str_ops s = Ok (o, s') /\ raw_read_non_breakz bytes_ops b = Ok (o, b') /\ RB s' b'.
Proof.
  intros (Hb & Hs & Hl). cbn [raw_read_non_breakz bytes_ops str_ops]. unfold sb_raw_read_non_breakz_ch. rewrite Hb.
  destruct (si_chars s) as [|c cs] eqn:E.
  - exists None, s, b. split; [reflexivity|]. split; [reflexivity|]. split; [rewrite E; exact Hb|]. split; [rewrite E; constructor|exact Hl].
  - rewrite (next_char_cons _ _ Hs). cbn [bindo]. destruct (is_breakz c).
    + exists None, s, b. split; [reflexivity|]. split; [reflexivity|]. split; [rewrite E; exact Hb|]. split; [rewrite E; exact Hs|exact Hl].
    + eexists; eexists; eexists. split; [reflexivity|]. split; [reflexivity|]. split; [reflexivity|].
      split; [apply scalars_cons in Hs; apply Hs|exact Hl].
Qed.
(* raw_read_ch is not a primitive of the scanner model (the scanner never calls it on a StrInput); its contract *)
Lemma sb_raw_read_ch_spec s b : RB s b ->
  exists b', sb_raw_read_ch b = Ok (nth 0 (si_chars s) 0, b') /\ RB (skip1 str_ops s) b'.
Proof.
  intros (Hb & Hs & Hl). unfold sb_raw_read_ch. rewrite Hb. destruct (si_chars s) as [|c cs] eqn:E.
  - exists b. split; [reflexivity|]. cbn [skip1 str_ops]. rewrite E. split; [exact Hb|]. split; [constructor|exact Hl].
  - rewrite (next_char_cons _ _ Hs). eexists. split; [reflexivity|]. cbn [skip1 str_ops]. rewrite E.
    split; [reflexivity|]. split; [apply scalars_cons in Hs; apply Hs|exact Hl].
Qed.

Theorem bytes_ops_refines_str_ops : forall s b, RB s b ->
  (forall n, exists s' b', lookahead str_ops n s = Ok s' /\ lookahead bytes_ops n b = Ok b' /\ RB s' b')
  /\ look_rel (buflen str_ops s) (buflen bytes_ops b)
  /\ ((1 <= buflen bytes_ops b)%nat -> buflen bytes_ops b = buflen str_ops s)
  /\ bufmaxlen bytes_ops = bufmaxlen str_ops
  /\ (forall n, peek_nth bytes_ops n b = peek_nth str_ops n s)
  /\ RB (skip1 str_ops s) (skip1 bytes_ops b)
  /\ (forall n, exists s' b', skip_n str_ops n s = Ok s' /\ skip_n bytes_ops n b = Ok b' /\ RB s' b')
  /\ (exists o s' b', raw_read_non_breakz str_ops s = Ok (o, s') /\ raw_read_non_breakz bytes_ops b = Ok (o, b') /\ RB s' b').
Proof.
  intros s b H. split; [intros n; apply rb_lookahead; exact H|]. split; [apply rb_buflen; exact H|].
  split; [apply rb_buflen_eq; exact H|]. split; [apply rb_bufmaxlen|]. split; [intros n; apply rb_peek_nth; exact H|].
  split; [apply rb_skip1; exact H|]. split; [intros n; apply rb_skip_n; exact H|]. apply rb_raw_read_non_breakz; exact H.
Qed.

(* ========================================================================================== *)
(* 3. The overridden provided methods: queries                                                  *)
(* ========================================================================================== *)
(* [g] is the generic definition of Model/SPrim.v run on [str_ops] (a computation of the scanner monad that touches
   the input only), [f] the byte-level override.  q_refines: a query — same answer, no state change, no panic. *)
Definition q_refines {A} (pre : sc strin -> Prop) (g : @M strin A) (f : bstr -> outcome A) : Prop :=
  forall s b, RB (sc_in s) b -> pre s -> exists a, g s = Ok (a, s) /\ f b = Ok a.
(* m_refines: a consuming method — same answer, and the new inputs are related again *)
Definition m_refines {A} (pre : sc strin -> Prop) (g : @M strin A) (f : bstr -> outcome (A * bstr)) : Prop :=
  forall s b, RB (sc_in s) b -> pre s ->
  exists a i' b', g s = Ok (a, set_in i' s) /\ f b = Ok (a, b') /\ RB i' b'.
Definition any (s : sc strin) : Prop := True.
(* the generic next_2_are / next_3_are / next_is_document_* assert buflen() >= n (the overrides do not) *)
Definition looked (n : nat) (s : sc strin) : Prop := (n <= si_look (sc_in s))%nat.
Definition nonempty_in (s : sc strin) : Prop := si_chars (sc_in s) <> [].

Lemma set_in_same (s : sc strin) : set_in (sc_in s) s = s.
Proof. destruct s. reflexivity. Qed.

Lemma assert_buflen_ok n site (s : sc strin) : looked n s -> assert_buflen str_ops n site s = Ok (tt, s).
Proof.
  unfold looked, assert_buflen. intros H. cbn [buflen str_ops].
  destruct (Nat.ltb_spec (si_look (sc_in s)) n); [lia|reflexivity].
Qed.

(* peek / peek_nth / look_ch / next_char_is / nth_char_is *)
Lemma sb_peek_refines : q_refines any (peek str_ops) sb_peek.
Proof.
  intros s b (Hb & Hs & _) _. exists (nth 0 (si_chars (sc_in s)) 0). split; [reflexivity|].
  unfold sb_peek. rewrite Hb. apply chars_peek_spec. exact Hs.
Qed.
Lemma sb_peek_nth_refines n : q_refines any (peekn str_ops n) (sb_peek_nth n).
Proof.
  intros s b (Hb & Hs & _) _. exists (nth n (si_chars (sc_in s)) 0). split; [reflexivity|].
  unfold sb_peek_nth. rewrite Hb. apply chars_peek_nth_spec. exact Hs.
Qed.
Lemma sb_look_ch_refines : m_refines any (look_ch str_ops) sb_look_ch.
Proof.
  intros s b (Hb & Hs & Hl) _.
  exists (nth 0 (si_chars (sc_in s)) 0), {| si_chars := si_chars (sc_in s); si_look := Nat.max (si_look (sc_in s)) 1 |},
         (sb_lookahead 1 b).
  split; [reflexivity|]. split.
  - unfold sb_look_ch, sb_peek. cbn [sb_bytes sb_lookahead]. rewrite Hb, (chars_peek_spec _ Hs). reflexivity.
  - split; [exact Hb|]. split; [exact Hs|]. apply look_rel_max. exact Hl.
Qed.
Lemma sb_next_char_is_refines c : q_refines any (next_char_is str_ops c) (sb_next_char_is c).
Proof.
  intros s b (Hb & Hs & _) _. exists (nth 0 (si_chars (sc_in s)) 0 =? c). split; [reflexivity|].
  unfold sb_next_char_is, sb_peek. rewrite Hb, (chars_peek_spec _ Hs). reflexivity.
Qed.
Lemma sb_nth_char_is_refines n c : q_refines any (nth_char_is str_ops n c) (sb_nth_char_is n c).
Proof.
  intros s b (Hb & Hs & _) _. exists (nth n (si_chars (sc_in s)) 0 =? c). split; [reflexivity|].
  unfold sb_nth_char_is, sb_peek_nth. rewrite Hb, (chars_peek_nth_spec _ _ Hs). reflexivity.
Qed.

(* next_2_are / next_3_are: `chars.next().is_some_and(..)` is false at the end of the buffer, whereas the provided
   method compares the '\0' that peek returns there: the two differ exactly when a NUL is asked for at or after the
   end (next_2_are(x, '\0') on the last character x).  The scanner only asks for non-NUL characters. *)
Lemma next_2_are_str a c (s : sc strin) : looked 2 s ->
  next_2_are str_ops a c s = Ok ((nth 0 (si_chars (sc_in s)) 0 =? a) && (nth 1 (si_chars (sc_in s)) 0 =? c), s).
Proof. intros H. unfold next_2_are, bind. rewrite (assert_buflen_ok _ _ _ H). reflexivity. Qed.
Lemma next_3_are_str a c d (s : sc strin) : looked 3 s ->
  next_3_are str_ops a c d s = Ok ((nth 0 (si_chars (sc_in s)) 0 =? a) && (nth 1 (si_chars (sc_in s)) 0 =? c)
                                    && (nth 2 (si_chars (sc_in s)) 0 =? d), s).
Proof. intros H. unfold next_3_are, bind. rewrite (assert_buflen_ok _ _ _ H). reflexivity. Qed.

Lemma sb_next_2_are_refines a c : a <> 0 -> c <> 0 -> q_refines (looked 2) (next_2_are str_ops a c) (sb_next_2_are a c).
Proof.
  intros Ha Hc s b (Hb & Hs & _) Hl. eexists. split; [apply next_2_are_str; exact Hl|].
  unfold sb_next_2_are. rewrite Hb. destruct (si_chars (sc_in s)) as [|x [|y r]].
  - cbn [next_char bytes_of flat_map bindo nth]. rewrite (proj2 (N.eqb_neq 0 a)) by lia. reflexivity.
  - rewrite (next_char_cons _ _ Hs). cbn [bindo nth]. destruct (x =? a); [|reflexivity].
    cbn [next_char bytes_of flat_map bindo andb]. rewrite (proj2 (N.eqb_neq 0 c)) by lia. reflexivity.
  - rewrite (next_char_cons _ _ Hs). cbn [bindo nth]. destruct (x =? a); [|reflexivity].
    apply scalars_cons in Hs. destruct Hs as [_ Hs]. rewrite (next_char_cons _ _ Hs). reflexivity.
Qed.
Lemma sb_next_3_are_refines a c d : a <> 0 -> c <> 0 -> d <> 0 ->
  q_refines (looked 3) (next_3_are str_ops a c d) (sb_next_3_are a c d).
Proof.
  intros Ha Hc Hd s b (Hb & Hs & _) Hl. eexists. split; [apply next_3_are_str; exact Hl|].
  unfold sb_next_3_are. rewrite Hb. destruct (si_chars (sc_in s)) as [|x [|y [|z r]]].
  - cbn [next_char bytes_of flat_map bindo nth]. rewrite (proj2 (N.eqb_neq 0 a)) by lia. reflexivity.
  - rewrite (next_char_cons _ _ Hs). cbn [bindo nth]. destruct (x =? a); [|reflexivity].
    cbn [next_char bytes_of flat_map bindo andb]. rewrite (proj2 (N.eqb_neq 0 c)) by lia. reflexivity.
  - rewrite (next_char_cons _ _ Hs). cbn [bindo nth]. destruct (x =? a); [|reflexivity].
    apply scalars_cons in Hs. destruct Hs as [_ Hs]. rewrite (next_char_cons _ _ Hs). cbn [bindo andb].
    destruct (y =? c); [|reflexivity].
    cbn [next_char bytes_of flat_map bindo andb]. rewrite (proj2 (N.eqb_neq 0 d)) by lia. reflexivity.
  - rewrite (next_char_cons _ _ Hs). cbn [bindo nth]. destruct (x =? a); [|reflexivity].
    apply scalars_cons in Hs. destruct Hs as [_ Hs]. rewrite (next_char_cons _ _ Hs). cbn [bindo andb].
    destruct (y =? c); [|reflexivity].
    apply scalars_cons in Hs. destruct Hs as [_ Hs]. rewrite (next_char_cons _ _ Hs). reflexivity.
Qed.
(* the difference, as a theorem about the two definitions: on the one-character text "x" with two characters looked
   ahead, next_2_are('x', '\0') is true for the provided method and false for the override *)
Lemma next_2_are_nul_differs :
  exists s b, RB (sc_in s) b /\ looked 2 s /\ next_2_are str_ops 120 0 s = Ok (true, s) /\ sb_next_2_are 120 0 b = Ok false.
Proof.
  exists (init_sc {| si_chars := [120]; si_look := 2 |}), {| sb_bytes := [120]; sb_look := 2 |}.
  split; [split; [reflexivity|split; [repeat constructor|left; reflexivity]]|].
  split; [unfold looked; cbn; lia|]. split; reflexivity.
Qed.

(* the single-character class tests: the first BYTE is tested *)
Lemma first_byte_refines on_empty p : ascii_only p -> p 0 = on_empty ->
  q_refines any (next_is str_ops p) (first_byte_is on_empty p).
Proof.
  intros Hp H0 s b (Hb & Hs & _) _. exists (p (nth 0 (si_chars (sc_in s)) 0)). split; [reflexivity|].
  unfold first_byte_is. rewrite Hb. destruct (front _ Hs) as [|c cs Hc|c cs h h2 t Hc Hh H2 H2' E].
  - cbn [is_empty nth]. rewrite H0. reflexivity.
  - reflexivity.
  - cbn [is_empty byte_at nth_error bindo nth]. rewrite (Hp h), (Hp c) by lia. reflexivity.
Qed.
Lemma sb_next_is_blank_or_break_refines :
  q_refines any (next_is str_ops (fun c => is_blank c || is_break c)) sb_next_is_blank_or_break.
Proof. apply first_byte_refines; [apply ao_or; [apply ao_blank|apply ao_break]|reflexivity]. Qed.
Lemma sb_next_is_blank_or_breakz_refines : q_refines any (next_is str_ops is_blank_or_breakz) sb_next_is_blank_or_breakz.
Proof. apply (first_byte_refines true is_blank_or_breakz); [apply ao_blank_or_breakz|reflexivity]. Qed.
Lemma sb_next_is_blank_refines : q_refines any (next_is str_ops is_blank) sb_next_is_blank.
Proof. apply first_byte_refines; [apply ao_blank|reflexivity]. Qed.
Lemma sb_next_is_break_refines : q_refines any (next_is str_ops is_break) sb_next_is_break.
Proof. apply first_byte_refines; [apply ao_break|reflexivity]. Qed.
Lemma sb_next_is_breakz_refines : q_refines any (next_is str_ops is_breakz) sb_next_is_breakz.
Proof. apply first_byte_refines; [apply ao_breakz|reflexivity]. Qed.
Lemma sb_next_is_z_refines : q_refines any (next_is str_ops is_z) sb_next_is_z.
Proof. apply first_byte_refines; [apply ao_z|reflexivity]. Qed.
Lemma sb_next_is_flow_refines : q_refines any (next_is str_ops is_flow) sb_next_is_flow.
Proof. apply first_byte_refines; [apply ao_flow|reflexivity]. Qed.
Lemma sb_next_is_digit_refines : q_refines any (next_is str_ops is_digit) sb_next_is_digit.
Proof. apply first_byte_refines; [apply ao_digit|reflexivity]. Qed.
Lemma sb_next_is_alpha_refines : q_refines any (next_is str_ops is_alpha) sb_next_is_alpha.
Proof. apply first_byte_refines; [apply ao_alpha|reflexivity]. Qed.

(* ---- next_can_be_plain_scalar: bytes 0 and 1 are tested ---- *)
Definition plain_test (fl : bool) (c nc : N) : bool :=
  if (c =? 58) && (is_blank_or_breakz nc || (fl && is_flow nc)) then false
  else if fl && is_flow c then false else true.
Lemma next_can_be_plain_scalar_str fl (s : sc strin) :
  next_can_be_plain_scalar str_ops fl s
  = Ok (plain_test fl (nth 0 (si_chars (sc_in s)) 0) (nth 1 (si_chars (sc_in s)) 0), s).
Proof.
  unfold next_can_be_plain_scalar, plain_test, bind, peek, peekn, ret. cbn [peek_nth str_ops].
  destruct ((nth 0 (si_chars (sc_in s)) 0 =? 58) && _); [reflexivity|].
  destruct (fl && _); reflexivity.
Qed.
Lemma plain_test_multi fl c nc : 128 <= c -> plain_test fl c nc = true.
Proof.
  intros H. unfold plain_test. rewrite (proj2 (N.eqb_neq c 58)) by lia. cbn [andb].
  rewrite (ao_flow c H). rewrite andb_false_r. reflexivity.
Qed.
Lemma plain_test_nc fl c nc nc' : 128 <= nc -> 128 <= nc' -> plain_test fl c nc = plain_test fl c nc'.
Proof.
  intros H H'. unfold plain_test. rewrite (ao_blank_or_breakz nc H), (ao_blank_or_breakz nc' H'), (ao_flow nc H), (ao_flow nc' H').
  reflexivity.
Qed.
(* on the empty buffer the override panics (`self.buffer.as_bytes()[0]`) where the provided method answers true; the
   scanner guards every call by `!next_is_blank_or_breakz()`, which is true on the empty buffer *)
Lemma sb_next_can_be_plain_scalar_refines fl :
  q_refines nonempty_in (next_can_be_plain_scalar str_ops fl) (sb_next_can_be_plain_scalar fl).
Proof.
  intros s b (Hb & Hs & _) Hne. eexists. split; [apply next_can_be_plain_scalar_str|].
  unfold nonempty_in in Hne. unfold sb_next_can_be_plain_scalar. rewrite Hb.
  destruct (front _ Hs) as [|c cs Hc|c cs h h2 t Hc Hh H2 H2' E]; [congruence| |].
  - apply scalars_cons in Hs. destruct Hs as [_ Hs].
    destruct (front _ Hs) as [|c1 cs1 Hc1|c1 cs1 h1 h12 t1 Hc1 Hh1 H12 H12' E1].
    + cbn [byte_at nth_error bindo length Nat.ltb Nat.leb nth]. unfold plain_test.
      change (is_blank_or_breakz 0) with true. cbn [orb]. rewrite andb_true_r. destruct (c =? 58); [reflexivity|]. destruct (fl && _); reflexivity.
    + cbn [byte_at nth_error bindo length Nat.ltb Nat.leb nth]. unfold plain_test.
      destruct ((c =? 58) && _); [reflexivity|]. destruct (fl && _); reflexivity.
    + cbn [byte_at nth_error bindo length Nat.ltb Nat.leb nth].
      rewrite (plain_test_nc fl c c1 h1) by lia. unfold plain_test.
      destruct ((c =? 58) && _); [reflexivity|]. destruct (fl && _); reflexivity.
  - cbn [byte_at nth_error bindo length Nat.ltb Nat.leb nth]. rewrite (plain_test_multi fl c) by exact Hc.
    rewrite (proj2 (N.eqb_neq h 58)) by lia. cbn [andb]. rewrite (ao_flow h) by lia. rewrite andb_false_r. reflexivity.
Qed.
Lemma sb_next_can_be_plain_scalar_empty fl l : sb_next_can_be_plain_scalar fl {| sb_bytes := []; sb_look := l |} = Panic 300.
Proof. reflexivity. Qed.

(* ---- next_is_document_indicator / start / end: bytes 0..3 and the byte length ---- *)
Definition n3 (cs : list chr) (x : N) : bool := (nth 0 cs 0 =? x) && (nth 1 cs 0 =? x) && (nth 2 cs 0 =? x).
Lemma next_is_document_indicator_str (s : sc strin) : looked 4 s ->
  next_is_document_indicator str_ops s
  = Ok (if is_blank_or_breakz (nth 3 (si_chars (sc_in s)) 0)
        then (if n3 (si_chars (sc_in s)) 46 then true else n3 (si_chars (sc_in s)) 45) else false, s).
Proof.
  intros H. assert (H3 : looked 3 s) by (unfold looked in *; lia).
  unfold next_is_document_indicator, bind. rewrite (assert_buflen_ok _ _ _ H).
  unfold peekn at 1. cbn [peek_nth str_ops].
  destruct (is_blank_or_breakz _); [|reflexivity].
  rewrite (next_3_are_str _ _ _ _ H3). fold (n3 (si_chars (sc_in s)) 46).
  destruct (n3 _ 46); [reflexivity|]. rewrite (next_3_are_str _ _ _ _ H3). reflexivity.
Qed.
Lemma next_is_document_start_str (s : sc strin) : looked 4 s ->
  next_is_document_start str_ops s
  = Ok (if n3 (si_chars (sc_in s)) 45 then is_blank_or_breakz (nth 3 (si_chars (sc_in s)) 0) else false, s).
Proof.
  intros H. assert (H3 : looked 3 s) by (unfold looked in *; lia).
  unfold next_is_document_start, bind. rewrite (assert_buflen_ok _ _ _ H), (next_3_are_str _ _ _ _ H3).
  fold (n3 (si_chars (sc_in s)) 45). destruct (n3 _ 45); reflexivity.
Qed.
Lemma next_is_document_end_str (s : sc strin) : looked 4 s ->
  next_is_document_end str_ops s
  = Ok (if n3 (si_chars (sc_in s)) 46 then is_blank_or_breakz (nth 3 (si_chars (sc_in s)) 0) else false, s).
Proof.
  intros H. assert (H3 : looked 3 s) by (unfold looked in *; lia).
  unfold next_is_document_end, bind. rewrite (assert_buflen_ok _ _ _ H), (next_3_are_str _ _ _ _ H3).
  fold (n3 (si_chars (sc_in s)) 46). destruct (n3 _ 46); reflexivity.
Qed.

Ltac ifs :=
  repeat match goal with
         | |- context [if ?x then _ else _] => destruct x; cbn [bindo]
         end; try reflexivity.
(* what the three byte-level tests compute, by the shape of the byte list *)
Definition ends4 (r : list byte) : bool := match r with [] => true | b3 :: _ => is_blank_or_breakz b3 end.
Lemma sb_doc_indicator_bytes l bs :
  sb_next_is_document_indicator {| sb_bytes := bs; sb_look := l |}
  = Ok (match bs with
        | b0 :: b1 :: b2 :: r => if ends4 r then (if (b0 =? 46) || (b0 =? 45) then (if b0 =? b1 then b1 =? b2 else false) else false) else false
        | _ => false end).
Proof.
  destruct bs as [|b0 [|b1 [|b2 [|b3 r]]]]; try reflexivity;
    unfold sb_next_is_document_indicator, fourth_ends;
    cbn [sb_bytes length Nat.ltb Nat.leb Nat.eqb byte_at nth_error bindo ends4]; ifs.
Qed.
Lemma sb_doc_three_bytes x bs :
  (let bytes := bs in
   if Nat.ltb (length bytes) 3 then Ok false else
   bindo (fourth_ends bytes) (fun t => if t then three_bytes_are x bytes else Ok false))
  = Ok (match bs with
        | b0 :: b1 :: b2 :: r => if ends4 r then (if b0 =? x then (if b1 =? x then b2 =? x else false) else false) else false
        | _ => false end).
Proof.
  destruct bs as [|b0 [|b1 [|b2 [|b3 r]]]]; try reflexivity;
    unfold fourth_ends, three_bytes_are;
    cbn [length Nat.ltb Nat.leb Nat.eqb byte_at nth_error bindo ends4]; ifs.
Qed.

(* the first bytes against the first characters: three ASCII-looking bytes are three characters *)
Ltac eqb_cases :=
  repeat match goal with
         | |- context [?a =? ?b] => destruct (N.eqb_spec a b); try subst; cbn [andb orb]; try lia; try reflexivity
         end.
Ltac kill_blankz :=
  repeat match goal with
         | H : 192 <= ?h |- context [is_blank_or_breakz ?h] => rewrite (ao_blank_or_breakz h) by lia
         | H : 128 <= ?c |- context [is_blank_or_breakz ?c] => rewrite (ao_blank_or_breakz c) by lia
         end.

Ltac solve_doc :=
  cbn [nth ends4]; kill_blankz; try change (is_blank_or_breakz 0) with true; cbv iota;
  repeat match goal with
         | |- context [N.eqb ?a ?b] => destruct (N.eqb_spec a b); try subst; cbn [andb orb]; try lia
         | |- context [if ?x then _ else _] => destruct x
         | |- context [match ?x with [] => _ | _ :: _ => _ end] => destruct x
         end; try reflexivity; try lia.

Lemma sb_next_is_document_indicator_refines :
  q_refines (looked 4) (next_is_document_indicator str_ops) sb_next_is_document_indicator.
Proof.
  intros s b (Hb & Hs & _) Hl. eexists. split; [apply next_is_document_indicator_str; exact Hl|].
  destruct b as [bs l]. cbn [sb_bytes] in Hb. rewrite sb_doc_indicator_bytes. subst bs. f_equal.
  unfold n3.
  destruct (front _ Hs) as [|c0 cs0 Hc0|c0 cs0 h0 h02 t0 Hc0 Hh0 H02 H02' E0]; [reflexivity| |solve_doc].
  apply scalars_cons in Hs. destruct Hs as [_ Hs].
  destruct (front _ Hs) as [|c1 cs1 Hc1|c1 cs1 h1 h12 t1 Hc1 Hh1 H12 H12' E1]; [solve_doc| |solve_doc].
  apply scalars_cons in Hs. destruct Hs as [_ Hs].
  destruct (front _ Hs) as [|c2 cs2 Hc2|c2 cs2 h2 h22 t2 Hc2 Hh2 H22 H22' E2]; [solve_doc| |solve_doc].
  apply scalars_cons in Hs. destruct Hs as [_ Hs].
  destruct (front _ Hs) as [|c3 cs3 Hc3|c3 cs3 h3 h32 t3 Hc3 Hh3 H32 H32' E3]; solve_doc.
Qed.

Lemma three_bytes_refines x cs : 0 < x < 128 -> scalars cs ->
  (if n3 cs x then is_blank_or_breakz (nth 3 cs 0) else false)
  = match bytes_of cs with
    | b0 :: b1 :: b2 :: r => if ends4 r then (if b0 =? x then (if b1 =? x then b2 =? x else false) else false) else false
    | _ => false end.
Proof.
  intros Hx Hs. unfold n3.
  destruct (front _ Hs) as [|c0 cs0 Hc0|c0 cs0 h0 h02 t0 Hc0 Hh0 H02 H02' E0]; [solve_doc| |solve_doc].
  apply scalars_cons in Hs. destruct Hs as [_ Hs].
  destruct (front _ Hs) as [|c1 cs1 Hc1|c1 cs1 h1 h12 t1 Hc1 Hh1 H12 H12' E1]; [solve_doc| |solve_doc].
  apply scalars_cons in Hs. destruct Hs as [_ Hs].
  destruct (front _ Hs) as [|c2 cs2 Hc2|c2 cs2 h2 h22 t2 Hc2 Hh2 H22 H22' E2]; [solve_doc| |solve_doc].
  apply scalars_cons in Hs. destruct Hs as [_ Hs].
  destruct (front _ Hs) as [|c3 cs3 Hc3|c3 cs3 h3 h32 t3 Hc3 Hh3 H32 H32' E3]; solve_doc.
Qed.
Lemma sb_next_is_document_start_refines :
  q_refines (looked 4) (next_is_document_start str_ops) sb_next_is_document_start.
Proof.
  intros s b (Hb & Hs & _) Hl. eexists. split; [apply next_is_document_start_str; exact Hl|].
  unfold sb_next_is_document_start. rewrite sb_doc_three_bytes, Hb. f_equal. symmetry. apply three_bytes_refines; [lia|exact Hs].
Qed.
Lemma sb_next_is_document_end_refines :
  q_refines (looked 4) (next_is_document_end str_ops) sb_next_is_document_end.
Proof.
  intros s b (Hb & Hs & _) Hl. eexists. split; [apply next_is_document_end_str; exact Hl|].
  unfold sb_next_is_document_end. rewrite sb_doc_three_bytes, Hb. f_equal. symmetry. apply three_bytes_refines; [lia|exact Hs].
Qed.

(* ========================================================================================== *)
(* 4. The overridden provided methods: consuming loops                                          *)
(* ========================================================================================== *)
(* the leading run of characters satisfying p, and what follows it *)
Fixpoint lead (p : chr -> bool) (cs : list chr) : list chr :=
  match cs with c :: r => if p c then c :: lead p r else [] | [] => [] end.
Fixpoint rest (p : chr -> bool) (cs : list chr) : list chr :=
  match cs with c :: r => if p c then rest p r else cs | [] => [] end.
Lemma lead_rest p cs : cs = lead p cs ++ rest p cs.
Proof. induction cs as [|c r IH]; [reflexivity|]. cbn [lead rest]. destruct (p c); [cbn [app]; f_equal; exact IH|reflexivity]. Qed.
Lemma lead_all p cs : Forall (fun c => p c = true) (lead p cs).
Proof. induction cs as [|c r IH]; [constructor|]. cbn [lead]. destruct (p c) eqn:E; [constructor; assumption|constructor]. Qed.
Lemma scalars_rest p cs : scalars cs -> scalars (rest p cs).
Proof.
  induction cs as [|c r IH]; intros H; [exact H|]. cbn [rest]. destruct (p c); [|exact H].
  apply IH. apply scalars_cons in H. apply H.
Qed.
Lemma rest_head p cs : match rest p cs with c :: _ => p c = false | [] => True end.
Proof. induction cs as [|c r IH]; [exact I|]. cbn [rest]. destruct (p c) eqn:E; [exact IH|exact E]. Qed.

Lemma ascii_bytes l : Forall (fun c => c < 128) l -> bytes_of l = l.
Proof.
  induction 1 as [|c l Hc _ IH]; [reflexivity|]. rewrite bytes_of_cons, IH. unfold utf8_encode.
  rewrite (proj2 (N.ltb_lt c 128)) by exact Hc. reflexivity.
Qed.
Lemma lead_ascii p cs : ascii_only p -> Forall (fun c => c < 128) (lead p cs).
Proof.
  intros Hp. eapply Forall_impl; [|apply lead_all]. cbn beta. intros c Hc.
  destruct (N.lt_ge_cases c 128) as [H|H]; [exact H|]. rewrite (Hp c H) in Hc. discriminate.
Qed.
Lemma bytes_lead_rest p cs : ascii_only p -> bytes_of cs = lead p cs ++ bytes_of (rest p cs).
Proof. intros Hp. rewrite (lead_rest p cs) at 1. rewrite bytes_of_app, (ascii_bytes _ (lead_ascii p cs Hp)). reflexivity. Qed.
Lemma length_bytes_of cs : (length cs <= length (bytes_of cs))%nat.
Proof.
  induction cs as [|c r IH]; [cbn; lia|]. rewrite bytes_of_cons, app_length. pose proof (utf8_encode_length c). cbn [length]. lia.
Qed.

(* &s[i..] / &s[..i] at the end of an ASCII prefix never panics: the next byte starts a character *)
Lemma boundary_after pre cs : scalars cs -> is_char_boundary (pre ++ bytes_of cs) (length pre) = true.
Proof.
  intros Hs. unfold is_char_boundary. destruct (length pre) as [|k] eqn:E; [reflexivity|]. rewrite <- E. clear k E.
  rewrite nth_error_app2, Nat.sub_diag by lia.
  destruct (front _ Hs) as [|c r Hc|c r h h2 t Hc Hh H2 H2' E].
  - cbn [nth_error]. rewrite app_nil_r. apply Nat.eqb_refl.
  - cbn [nth_error]. rewrite (proj2 (N.ltb_lt c 128)) by exact Hc. reflexivity.
  - cbn [nth_error]. rewrite (proj2 (N.leb_le 192 h)) by exact Hh. apply orb_true_r.
Qed.
Lemma slice_from_after pre cs : scalars cs -> slice_from (pre ++ bytes_of cs) (length pre) = Ok (bytes_of cs).
Proof. intros Hs. unfold slice_from. rewrite (boundary_after _ _ Hs), skipn_app, Nat.sub_diag, skipn_all. reflexivity. Qed.
Lemma slice_to_after pre cs : scalars cs -> slice_to (pre ++ bytes_of cs) (length pre) = Ok pre.
Proof.
  intros Hs. unfold slice_to. rewrite (boundary_after _ _ Hs), firstn_app, Nat.sub_diag, firstn_all. cbn [firstn].
  rewrite app_nil_r. reflexivity.
Qed.

(* ---- the generic loops on str_ops ---- *)
Definition stin (s : sc strin) (cs : list chr) (l : nat) : sc strin := set_in {| si_chars := cs; si_look := l |} s.
Lemma max11 l : Nat.max (Nat.max l 1) 1 = Nat.max l 1.
Proof. destruct l as [|[|l]]; reflexivity. Qed.
Lemma look_ch_str (s : sc strin) cs l : sc_in s = {| si_chars := cs; si_look := l |} ->
  look_ch str_ops s = Ok (nth 0 cs 0, stin s cs (Nat.max l 1)).
Proof. intros E. unfold look_ch, look, peek, peekn, bind. cbn [lookahead str_ops peek_nth sc_in set_in upd]. rewrite E. reflexivity. Qed.
Lemma in_skip_str (s : sc strin) cs l : sc_in s = {| si_chars := cs; si_look := l |} ->
  in_skip str_ops s = Ok (tt, stin s (tl cs) l).
Proof. intros E. unfold in_skip, modify. cbn [skip1 str_ops]. rewrite E. reflexivity. Qed.
Lemma stin_in s cs l : sc_in (stin s cs l) = {| si_chars := cs; si_look := l |}.
Proof. reflexivity. Qed.
Lemma stin_stin s cs l cs' l' : stin (stin s cs l) cs' l' = stin s cs' l'.
Proof. reflexivity. Qed.

Definition while_go (p : chr -> bool) :=
  fix go (f : nat) (k : N) : @M strin N :=
    match f with
    | O => oof
    | S f => bind (look_ch str_ops) (fun c => if p c then bind (in_skip str_ops) (fun _ => go f (k + 1)) else ret k)
    end.
Lemma in_skip_while_go fuel p : in_skip_while str_ops fuel p = while_go p fuel 0.
Proof. reflexivity. Qed.
Lemma while_go_str p : p 0 = false -> forall cs fuel k (s : sc strin) l,
  sc_in s = {| si_chars := cs; si_look := l |} -> (length cs < fuel)%nat ->
  while_go p fuel k s = Ok (k + N.of_nat (length (lead p cs)), stin s (rest p cs) (Nat.max l 1)).
Proof.
  intros H0. induction cs as [|c r IH]; intros fuel k s l E Hf; (destruct fuel as [|f]; [cbn [length] in Hf; lia|]).
  - cbn [while_go]. unfold bind. rewrite (look_ch_str _ _ _ E). cbn [nth]. rewrite H0. cbn [lead rest length].
    rewrite N.add_0_r. reflexivity.
  - cbn [while_go]. unfold bind at 1. rewrite (look_ch_str _ _ _ E). cbn [nth lead rest].
    destruct (p c).
    + unfold bind. rewrite (in_skip_str _ _ _ (stin_in _ _ _)). cbn [tl].
      rewrite (IH f (k + 1) _ _ (stin_in _ _ _)) by (cbn [length] in Hf; lia).
      rewrite stin_stin, stin_stin, max11. cbn [length]. rewrite Nat2N.inj_succ. f_equal. f_equal. lia.
    + cbn [length]. rewrite N.add_0_r. reflexivity.
Qed.

(* ---- skip_while_non_breakz ---- *)
Definition nb (c : chr) : bool := negb (is_breakz c).
Lemma ao_nb_neg c : 128 <= c -> nb c = true.
Proof. intros H. unfold nb. rewrite (ao_breakz c H). reflexivity. Qed.
Lemma non_breakz_run_spec : forall cs fuel k, scalars cs -> (length cs < fuel)%nat ->
  non_breakz_run fuel (bytes_of cs) k = Ok (bytes_of (rest nb cs), k + N.of_nat (length (lead nb cs))).
Proof.
  induction cs as [|c r IH]; intros fuel k Hs Hf; (destruct fuel as [|f]; [cbn [length] in Hf; lia|]).
  - cbn [non_breakz_run next_char bytes_of flat_map bindo lead rest length]. rewrite N.add_0_r. reflexivity.
  - cbn [non_breakz_run]. rewrite (next_char_cons _ _ Hs). cbn [bindo lead rest]. unfold nb at 1 3.
    destruct (is_breakz c); cbn [negb].
    + cbn [length]. rewrite N.add_0_r. reflexivity.
    + apply scalars_cons in Hs. rewrite (IH f (k + 1)) by (try apply Hs; cbn [length] in Hf; lia).
      cbn [length]. rewrite Nat2N.inj_succ. f_equal. f_equal. lia.
Qed.
Lemma sb_skip_while_non_breakz_refines fuel :
  m_refines (fun s => (length (si_chars (sc_in s)) < fuel)%nat) (in_skip_while_non_breakz str_ops fuel) sb_skip_while_non_breakz.
Proof.
  intros s b (Hb & Hs & Hl) Hf. unfold in_skip_while_non_breakz. rewrite in_skip_while_go.
  destruct (sc_in s) as [cs l] eqn:E. cbn [si_chars si_look] in *.
  erewrite while_go_str; [|reflexivity|exact E|exact Hf].
  eexists; eexists; eexists. split; [reflexivity|]. unfold sb_skip_while_non_breakz. rewrite Hb.
  rewrite (non_breakz_run_spec cs _ 0 Hs) by (pose proof (length_bytes_of cs); lia). cbn [bindo fst snd].
  split; [reflexivity|]. split; [reflexivity|]. split; [apply scalars_rest; exact Hs|]. cbn [si_look set_bytes sb_look].
  apply look_rel_max1. exact Hl.
Qed.

(* ---- skip_while_blank: a BYTE index is returned as the number of characters ---- *)
Lemma blank_run_spec : forall cs i, scalars cs -> blank_run (bytes_of cs) i = (i + length (lead is_blank cs))%nat.
Proof.
  induction cs as [|c r IH]; intros i Hs; [cbn; lia|].
  pose proof (scalars_cons _ _ Hs) as [_ Hr].
  destruct (front_cons _ _ Hs) as [[Hc ->]|(Hc & h & h2 & t & Hh & ->)].
  - cbn [blank_run lead]. destruct (is_blank c); [rewrite (IH (S i) Hr); cbn [length]; lia|cbn [length]; lia].
  - cbn [blank_run lead]. rewrite (ao_blank h), (ao_blank c) by lia. cbn [length]. lia.
Qed.
Lemma sb_skip_while_blank_refines fuel :
  m_refines (fun s => (length (si_chars (sc_in s)) < fuel)%nat) (in_skip_while_blank str_ops fuel) sb_skip_while_blank.
Proof.
  intros s b (Hb & Hs & Hl) Hf. unfold in_skip_while_blank. rewrite in_skip_while_go.
  destruct (sc_in s) as [cs l] eqn:E. cbn [si_chars si_look] in *.
  erewrite while_go_str; [|reflexivity|exact E|exact Hf].
  eexists; eexists; eexists. split; [reflexivity|]. unfold sb_skip_while_blank. rewrite Hb.
  rewrite (blank_run_spec cs 0%nat Hs). cbn [Nat.add].
  rewrite (bytes_lead_rest is_blank cs ao_blank) at 1.
  rewrite (slice_from_after _ _ (scalars_rest is_blank cs Hs)). cbn [bindo]. rewrite N.add_0_l.
  split; [reflexivity|]. split; [reflexivity|]. split; [apply scalars_rest; exact Hs|]. cbn [si_look set_bytes sb_look].
  apply look_rel_max1. exact Hl.
Qed.

(* ---- fetch_while_is_alpha: a number of BYTES is returned as the number of characters; the slice start is found by
        stepping back over the non-letter by its UTF-8 length ---- *)
Definition fetch_go :=
  fix go (f : nat) (acc : list chr) (k : N) : @M strin (list chr * N) :=
    match f with
    | O => oof
    | S f => bind (look_ch str_ops) (fun c =>
               if is_alpha c then bind (in_skip str_ops) (fun _ => go f (c :: acc) (k + 1)) else ret (acc, k))
    end.
Lemma in_fetch_while_alpha_go fuel acc : in_fetch_while_alpha str_ops fuel acc = fetch_go fuel acc 0.
Proof. reflexivity. Qed.
Lemma fetch_go_str : forall cs fuel acc k (s : sc strin) l,
  sc_in s = {| si_chars := cs; si_look := l |} -> (length cs < fuel)%nat ->
  fetch_go fuel acc k s = Ok ((rev (lead is_alpha cs) ++ acc, k + N.of_nat (length (lead is_alpha cs))),
                              stin s (rest is_alpha cs) (Nat.max l 1)).
Proof.
  induction cs as [|c r IH]; intros fuel acc k s l E Hf; (destruct fuel as [|f]; [cbn [length] in Hf; lia|]).
  - cbn [fetch_go]. unfold bind. rewrite (look_ch_str _ _ _ E). cbn [nth]. change (is_alpha 0) with false. cbv iota.
    cbn [lead rest length rev app]. rewrite N.add_0_r. reflexivity.
  - cbn [fetch_go]. unfold bind at 1. rewrite (look_ch_str _ _ _ E). cbn [nth lead rest].
    destruct (is_alpha c).
    + unfold bind. rewrite (in_skip_str _ _ _ (stin_in _ _ _)). cbn [tl].
      rewrite (IH f (c :: acc) (k + 1) _ _ (stin_in _ _ _)) by (cbn [length] in Hf; lia).
      rewrite stin_stin, stin_stin, max11. cbn [length rev]. rewrite Nat2N.inj_succ, <- app_assoc. cbn [app].
      f_equal. f_equal. f_equal. lia.
    + cbn [length rev app]. rewrite N.add_0_r. reflexivity.
Qed.
Lemma alpha_scan_spec : forall cs fuel, scalars cs -> (length cs < fuel)%nat ->
  alpha_scan fuel (bytes_of cs)
  = Ok (match rest is_alpha cs with c :: r => (Some c, bytes_of r) | [] => (None, []) end).
Proof.
  induction cs as [|c r IH]; intros fuel Hs Hf; (destruct fuel as [|f]; [cbn [length] in Hf; lia|]).
  - reflexivity.
  - cbn [alpha_scan]. rewrite (next_char_cons _ _ Hs). cbn [bindo rest]. destruct (is_alpha c); [|reflexivity].
    apply scalars_cons in Hs. apply IH; [apply Hs|cbn [length] in Hf; lia].
Qed.
Lemma char_len_utf8_spec c : char_len_utf8 c = length (utf8_encode c).
Proof. unfold char_len_utf8, utf8_encode. destruct (c <? 128); [reflexivity|]. destruct (c <? 2048); [reflexivity|]. destruct (c <? 65536); reflexivity. Qed.

Ltac clia := unfold chr in *; lia.
Theorem sb_fetch_while_is_alpha_refines fuel acc out : forall s b, RB (sc_in s) b -> (length (si_chars (sc_in s)) < fuel)%nat ->
  exists letters i' b',
    in_fetch_while_alpha str_ops fuel acc s = Ok ((rev letters ++ acc, N.of_nat (length letters)), set_in i' s)
    /\ sb_fetch_while_is_alpha out b = Ok ((out ++ bytes_of letters, N.of_nat (length letters)), b')
    /\ RB i' b'.
Proof.
  intros s b (Hb & Hs & Hl) Hf. rewrite in_fetch_while_alpha_go.
  destruct (sc_in s) as [cs l] eqn:E. cbn [si_chars si_look] in *.
  rewrite (fetch_go_str cs fuel acc 0 s l E Hf). rewrite N.add_0_l.
  exists (lead is_alpha cs), {| si_chars := rest is_alpha cs; si_look := Nat.max l 1 |}, (set_bytes b (bytes_of (rest is_alpha cs))).
  split; [reflexivity|].
  pose proof (lead_ascii is_alpha cs ao_alpha) as HA. pose proof (scalars_rest is_alpha cs Hs) as HR.
  pose proof (bytes_lead_rest is_alpha cs ao_alpha) as HB.
  unfold sb_fetch_while_is_alpha. rewrite Hb.
  rewrite (alpha_scan_spec cs _ Hs) by (pose proof (length_bytes_of cs); lia). cbn [bindo].
  rewrite (ascii_bytes _ HA).
  assert (Hfin : forall remaining, remaining = bytes_of (rest is_alpha cs) ->
     bindo (slice_to (bytes_of cs) (length (bytes_of cs) - length remaining))
       (fun pre => Ok (out ++ pre, N.of_nat (length (bytes_of cs) - length remaining), set_bytes b remaining))
     = Ok (out ++ lead is_alpha cs, N.of_nat (length (lead is_alpha cs)), set_bytes b (bytes_of (rest is_alpha cs)))).
  { intros remaining ->.
    assert (HN : (length (bytes_of cs) - length (bytes_of (rest is_alpha cs)) = length (lead is_alpha cs))%nat).
    { rewrite HB, app_length. clia. }
    rewrite HN. rewrite HB at 1. rewrite (slice_to_after _ _ HR). reflexivity. }
  destruct (rest is_alpha cs) as [|c r] eqn:ER.
  - cbn [fst snd bindo]. rewrite (Hfin [] eq_refl). split; [reflexivity|].
    split; [reflexivity|]. split; [constructor|]. cbn [si_look set_bytes sb_look]. apply look_rel_max1. exact Hl.
  - cbn [fst snd]. rewrite char_len_utf8_spec.
    assert (HL : (length (bytes_of cs) - length (bytes_of r) = length (lead is_alpha cs) + length (utf8_encode c))%nat).
    { rewrite HB, bytes_of_cons, !app_length. clia. }
    rewrite HL. destruct (Nat.ltb_spec (length (lead is_alpha cs) + length (utf8_encode c)) (length (utf8_encode c))) as [Hlt|_]; [clia|].
    replace (length (lead is_alpha cs) + length (utf8_encode c) - length (utf8_encode c))%nat with (length (lead is_alpha cs)) by clia.
    rewrite HB at 1. rewrite (slice_from_after _ _ HR). cbn [bindo]. rewrite (Hfin _ eq_refl).
    split; [reflexivity|]. split; [reflexivity|]. split; [exact HR|]. cbn [si_look set_bytes sb_look]. apply look_rel_max1. exact Hl.
Qed.

(* ---- skip_ws_to_eol: a byte-length difference plus per-character increments is returned as the number of
        characters; two flags; an early return that leaves the buffer alone ---- *)
(* what both compute, on characters: ((chars_consumed, flags | None = the error), remaining characters) *)
Fixpoint ws_spec (tabs : bool) (cs : list chr) (tab ws : bool) (n : N) : (N * option (bool * bool)) * list chr :=
  match cs with
  | c :: r => if c =? 32 then ws_spec tabs r tab true (n + 1)
              else if (c =? 9) && tabs then ws_spec tabs r true ws (n + 1)
              else if c =? 35 then
                     if negb tab && negb ws then ((n, None), cs)
                     else ((n + N.of_nat (length (lead nb r)) + 1, Some (tab, ws)), rest nb r)
              else ((n, Some (tab, ws)), cs)
  | [] => ((n, Some (tab, ws)), [])
  end.
Definition tabs_of (st : skiptabs) : bool := match st with SkipYes => true | SkipNo => false end.

Definition comment_go (K : N -> @M strin (N * option (bool * bool))) :=
  fix comment (f : nat) (k : N) : @M strin (N * option (bool * bool)) :=
    match f with
    | O => oof
    | S f => bind (look_ch str_ops) (fun c => if is_breakz c then K (k + 1)
                                              else bind (in_skip str_ops) (fun _ => comment f (k + 1)))
    end.
Lemma ws_unfold fuel st tab ws n :
  in_skip_ws_to_eol str_ops (S fuel) st tab ws n
  = bind (look_ch str_ops) (fun c =>
      if c =? 32 then bind (in_skip str_ops) (fun _ => in_skip_ws_to_eol str_ops fuel st tab true (n + 1))
      else if (c =? 9) && tabs_of st then
        bind (in_skip str_ops) (fun _ => in_skip_ws_to_eol str_ops fuel st true ws (n + 1))
      else if c =? 35 then
        if negb tab && negb ws then ret (n, None)
        else bind (in_skip str_ops) (fun _ => comment_go (in_skip_ws_to_eol str_ops fuel st tab ws) fuel n)
      else ret (n, Some (tab, ws))).
Proof. destruct st; reflexivity. Qed.

Lemma comment_go_str K : forall cs f k (s : sc strin) l,
  sc_in s = {| si_chars := cs; si_look := l |} -> (length cs < f)%nat ->
  comment_go K f k s = K (k + N.of_nat (length (lead nb cs)) + 1) (stin s (rest nb cs) (Nat.max l 1)).
Proof.
  induction cs as [|c r IH]; intros f k s l E Hf; (destruct f as [|f]; [cbn [length] in Hf; lia|]).
  - cbn [comment_go]. unfold bind. rewrite (look_ch_str _ _ _ E). cbn [nth]. change (is_breakz 0) with true. cbv iota.
    cbn [lead rest length]. rewrite N.add_0_r. reflexivity.
  - cbn [comment_go]. unfold bind at 1. rewrite (look_ch_str _ _ _ E). cbn [nth lead rest]. unfold nb at 1 3.
    destruct (is_breakz c); cbn [negb].
    + cbn [length]. rewrite N.add_0_r. reflexivity.
    + unfold bind. rewrite (in_skip_str _ _ _ (stin_in _ _ _)). cbn [tl].
      rewrite (IH f (k + 1) _ _ (stin_in _ _ _)) by (cbn [length] in Hf; lia).
      rewrite stin_stin, stin_stin, max11. cbn [length]. rewrite Nat2N.inj_succ. f_equal. lia.
Qed.
Lemma breakz_not_ws c : is_breakz c = true -> (c =? 32) = false /\ (c =? 9) = false /\ (c =? 35) = false.
Proof.
  unfold is_breakz, is_break, is_z. intros H.
  destruct (N.eqb_spec c 10); [subst; repeat split; reflexivity|].
  destruct (N.eqb_spec c 13); [subst; repeat split; reflexivity|].
  destruct (N.eqb_spec c 0); [subst; repeat split; reflexivity|]. discriminate H.
Qed.
Lemma ws_at_breakz fuel st tab ws n (s : sc strin) cs l :
  sc_in s = {| si_chars := cs; si_look := l |} -> is_breakz (nth 0 cs 0) = true ->
  in_skip_ws_to_eol str_ops (S fuel) st tab ws n s = Ok ((n, Some (tab, ws)), stin s cs (Nat.max l 1)).
Proof.
  intros E H. rewrite ws_unfold. unfold bind. rewrite (look_ch_str _ _ _ E).
  destruct (breakz_not_ws _ H) as (-> & -> & ->). reflexivity.
Qed.
Lemma rest_nb_breakz cs : is_breakz (nth 0 (rest nb cs) 0) = true.
Proof.
  pose proof (rest_head nb cs) as H. destruct (rest nb cs) as [|c r]; [reflexivity|].
  cbn [nth]. unfold nb in H. destruct (is_breakz c); [reflexivity|discriminate H].
Qed.

Lemma ws_str st : forall cs fuel tab ws n (s : sc strin) l,
  sc_in s = {| si_chars := cs; si_look := l |} -> (length cs < fuel)%nat ->
  in_skip_ws_to_eol str_ops fuel st tab ws n s
  = Ok (fst (ws_spec (tabs_of st) cs tab ws n), stin s (snd (ws_spec (tabs_of st) cs tab ws n)) (Nat.max l 1)).
Proof.
  induction cs as [|c r IH]; intros fuel tab ws n s l E Hf; (destruct fuel as [|f]; [cbn [length] in Hf; lia|]).
  - rewrite ws_unfold. unfold bind. rewrite (look_ch_str _ _ _ E). reflexivity.
  - rewrite ws_unfold. unfold bind at 1. rewrite (look_ch_str _ _ _ E). cbn [nth ws_spec].
    destruct (c =? 32).
    { unfold bind. rewrite (in_skip_str _ _ _ (stin_in _ _ _)). cbn [tl].
      rewrite (IH f tab true (n + 1) _ _ (stin_in _ _ _)) by (cbn [length] in Hf; lia).
      rewrite stin_stin, stin_stin, max11. reflexivity. }
    destruct ((c =? 9) && tabs_of st).
    { unfold bind. rewrite (in_skip_str _ _ _ (stin_in _ _ _)). cbn [tl].
      rewrite (IH f true ws (n + 1) _ _ (stin_in _ _ _)) by (cbn [length] in Hf; lia).
      rewrite stin_stin, stin_stin, max11. reflexivity. }
    destruct (c =? 35); [|reflexivity].
    destruct (negb tab && negb ws); [reflexivity|].
    unfold bind. rewrite (in_skip_str _ _ _ (stin_in _ _ _)). cbn [tl].
    rewrite (comment_go_str _ r f n _ _ (stin_in _ _ _)) by (cbn [length] in Hf; lia).
    destruct f as [|f']; [cbn [length] in Hf; lia|].
    rewrite (ws_at_breakz f' st tab ws _ _ _ _ (stin_in _ _ _) (rest_nb_breakz r)).
    rewrite !stin_stin, !max11. reflexivity.
Qed.

(* the byte-level side against the same specification; [pre] = the ASCII blanks already trimmed *)
Lemma set_bytes_same b : set_bytes b (sb_bytes b) = b.
Proof. destruct b. reflexivity. Qed.
Lemma ws_bytes tabs b : forall cs pre tab ws, scalars cs -> sb_bytes b = pre ++ bytes_of cs ->
  (tab = false -> ws = false -> pre = []) ->
  skip_ws_finish b (pre ++ bytes_of cs) (strip_ws tabs (bytes_of cs) tab ws)
  = Ok (fst (ws_spec tabs cs tab ws (N.of_nat (length pre))),
        set_bytes b (bytes_of (snd (ws_spec tabs cs tab ws (N.of_nat (length pre)))))).
Proof.
  induction cs as [|c r IH]; intros pre tab ws Hs Hb Hpre.
  - cbn [bytes_of flat_map strip_ws ws_spec fst snd]. unfold skip_ws_finish. cbn [fst snd is_empty negb length].
    rewrite app_nil_r, Nat.sub_0_r. destruct (Nat.ltb_spec (length pre) 0); [lia|]. reflexivity.
  - pose proof (scalars_cons _ _ Hs) as [_ Hr].
    assert (Hlen : forall X : list N, Nat.ltb (length (pre ++ X)) (length X) = false /\ (length (pre ++ X) - length X = length pre)%nat).
    { intros X. rewrite app_length. split; [apply Nat.ltb_ge; lia|lia]. }
    destruct (front_cons _ _ Hs) as [[Hc EB]|(Hc & h & h2 & t & Hh & EB)].
    + rewrite EB. cbn [strip_ws ws_spec]. destruct (N.eqb_spec c 32) as [->|N32].
      { change (32 :: bytes_of r) with ([32] ++ bytes_of r). rewrite app_assoc.
        rewrite IH; [|exact Hr|rewrite Hb, EB, <- app_assoc; reflexivity|discriminate].
        rewrite app_length. cbn [length]. replace (N.of_nat (length pre + 1)) with (N.of_nat (length pre) + 1) by lia. reflexivity. }
      rewrite (andb_comm (c =? 9) tabs). destruct (tabs && (c =? 9)) eqn:ET.
      { apply andb_true_iff in ET. destruct ET as [_ ET]. apply N.eqb_eq in ET. subst c.
        change (9 :: bytes_of r) with ([9] ++ bytes_of r). rewrite app_assoc.
        rewrite IH; [|exact Hr|rewrite Hb, EB, <- app_assoc; reflexivity|discriminate].
        rewrite app_length. cbn [length]. replace (N.of_nat (length pre + 1)) with (N.of_nat (length pre) + 1) by lia. reflexivity. }
      unfold skip_ws_finish. cbn [fst snd is_empty negb byte_at nth_error bindo].
      destruct (Hlen (c :: bytes_of r)) as [-> ->].
      destruct (c =? 35) eqn:E35.
      * destruct (negb tab && negb ws) eqn:ETW.
        { cbn [fst snd].
          apply andb_true_iff in ETW. destruct ETW as [Ht Hw]. apply negb_true_iff in Ht, Hw.
          rewrite (Hpre Ht Hw) in Hb. cbn [app] in Hb. rewrite <- Hb, set_bytes_same. reflexivity. }
        rewrite <- EB. rewrite (non_breakz_run_spec (c :: r) _ _ Hs) by (pose proof (length_bytes_of (c :: r)); lia).
        cbn [bindo fst snd lead rest]. apply N.eqb_eq in E35. subst c. change (nb 35) with true. cbv iota.
        cbn [length]. rewrite Nat2N.inj_succ. f_equal. f_equal. f_equal. lia.
      * cbn [fst snd]. rewrite <- EB. reflexivity.
    + rewrite EB. cbn [strip_ws ws_spec].
      rewrite (proj2 (N.eqb_neq h 32)), (proj2 (N.eqb_neq h 9)), (proj2 (N.eqb_neq c 32)), (proj2 (N.eqb_neq c 9)),
        (proj2 (N.eqb_neq c 35)) by lia.
      rewrite andb_false_r. cbn [andb].
      unfold skip_ws_finish. cbn [fst snd is_empty negb byte_at nth_error bindo].
      destruct (Hlen (h :: h2 :: t ++ bytes_of r)) as [-> ->].
      rewrite (proj2 (N.eqb_neq h 35)) by lia. rewrite <- EB. reflexivity.
Qed.

Lemma ws_spec_scalars tabs : forall cs tab ws n, scalars cs -> scalars (snd (ws_spec tabs cs tab ws n)).
Proof.
  induction cs as [|c r IH]; intros tab ws n Hs; [constructor|]. cbn [ws_spec].
  pose proof (scalars_cons _ _ Hs) as [_ Hr].
  destruct (c =? 32); [apply IH; exact Hr|]. destruct ((c =? 9) && _); [apply IH; exact Hr|].
  destruct (c =? 35); [|exact Hs]. destruct (negb tab && negb ws); [exact Hs|]. cbn [snd]. apply scalars_rest. exact Hr.
Qed.
Lemma sb_skip_ws_to_eol_refines fuel st :
  m_refines (fun s => (length (si_chars (sc_in s)) < fuel)%nat) (in_skip_ws_to_eol str_ops fuel st false false 0) (sb_skip_ws_to_eol st).
Proof.
  intros s b (Hb & Hs & Hl) Hf. destruct (sc_in s) as [cs l] eqn:E. cbn [si_chars si_look] in *.
  rewrite (ws_str st cs fuel false false 0 s l E Hf).
  eexists; eexists; eexists. split; [reflexivity|].
  unfold sb_skip_ws_to_eol. rewrite Hb. fold (tabs_of st).
  pose proof (ws_bytes (tabs_of st) b cs [] false false Hs Hb (fun _ _ => eq_refl)) as W.
  cbn [app length N.of_nat] in W. rewrite W. split; [reflexivity|].
  split; [reflexivity|]. split; [|cbn [si_look set_bytes sb_look]; apply look_rel_max1; exact Hl].
  cbn [si_chars]. apply ws_spec_scalars. exact Hs.
Qed.

(* ========================================================================================== *)
(* 5. The lookahead counter, and the assembly                                                   *)
(* ========================================================================================== *)
(* buf_is_empty() == (buflen() == 0): same answer whenever the byte-level counter is not 0, or the counters are equal *)
Lemma sb_buf_is_empty_refines : forall s b, RB (sc_in s) b -> ((1 <= sb_look b)%nat \/ si_look (sc_in s) = sb_look b) ->
  exists a, buf_is_empty str_ops s = Ok (a, s) /\ sb_buf_is_empty b = a.
Proof.
  intros s b (_ & _ & Hl) H. eexists. split; [reflexivity|]. unfold sb_buf_is_empty, sb_buflen. cbn [buflen str_ops].
  destruct Hl as [->|[Hb Hc]]; [reflexivity|]. destruct H as [H|H]; [lia|]. rewrite H. reflexivity.
Qed.
(* the one observable difference of the four consuming overrides, on the empty text with nothing looked ahead:
   the provided skip_while_blank leaves buflen() = 1, the override leaves it 0 *)
Lemma consuming_overrides_skip_lookahead :
  let s := init_sc {| si_chars := []; si_look := 0 |} in
  let b := {| sb_bytes := []; sb_look := 0 |} in
  RB (sc_in s) b
  /\ in_skip_while_blank str_ops 1 s = Ok (0, set_in {| si_chars := []; si_look := 1 |} s)
  /\ sb_skip_while_blank b = Ok (0, {| sb_bytes := []; sb_look := 0 |}).
Proof. split; [split; [reflexivity|split; [constructor|left; reflexivity]]|]. split; reflexivity. Qed.

(* Everything at once: every method of `impl Input for StrInput`, at byte level, against the character-level instance
   and the provided-method definitions of the scanner model. *)
Theorem str_bytes_refines_chars :
  (* required methods = the primitives of InputOps *)
  (forall s b, RB s b ->
     (forall n, exists s' b', lookahead str_ops n s = Ok s' /\ lookahead bytes_ops n b = Ok b' /\ RB s' b')
     /\ look_rel (buflen str_ops s) (buflen bytes_ops b)
     /\ ((1 <= buflen bytes_ops b)%nat -> buflen bytes_ops b = buflen str_ops s)
     /\ bufmaxlen bytes_ops = bufmaxlen str_ops
     /\ (forall n, peek_nth bytes_ops n b = peek_nth str_ops n s)
     /\ RB (skip1 str_ops s) (skip1 bytes_ops b)
     /\ (forall n, exists s' b', skip_n str_ops n s = Ok s' /\ skip_n bytes_ops n b = Ok b' /\ RB s' b')
     /\ (exists o s' b', raw_read_non_breakz str_ops s = Ok (o, s') /\ raw_read_non_breakz bytes_ops b = Ok (o, b') /\ RB s' b')
     /\ (exists b', sb_raw_read_ch b = Ok (nth 0 (si_chars s) 0, b') /\ RB (skip1 str_ops s) b'))
  (* overridden provided methods: queries *)
  /\ q_refines any (peek str_ops) sb_peek
  /\ (forall n, q_refines any (peekn str_ops n) (sb_peek_nth n))
  /\ m_refines any (look_ch str_ops) sb_look_ch
  /\ (forall c, q_refines any (next_char_is str_ops c) (sb_next_char_is c))
  /\ (forall n c, q_refines any (nth_char_is str_ops n c) (sb_nth_char_is n c))
  /\ (forall a c, a <> 0 -> c <> 0 -> q_refines (looked 2) (next_2_are str_ops a c) (sb_next_2_are a c))
  /\ (forall a c d, a <> 0 -> c <> 0 -> d <> 0 -> q_refines (looked 3) (next_3_are str_ops a c d) (sb_next_3_are a c d))
  /\ q_refines (looked 4) (next_is_document_indicator str_ops) sb_next_is_document_indicator
  /\ q_refines (looked 4) (next_is_document_start str_ops) sb_next_is_document_start
  /\ q_refines (looked 4) (next_is_document_end str_ops) sb_next_is_document_end
  /\ (forall fl, q_refines nonempty_in (next_can_be_plain_scalar str_ops fl) (sb_next_can_be_plain_scalar fl))
  /\ q_refines any (next_is str_ops (fun c => is_blank c || is_break c)) sb_next_is_blank_or_break
  /\ q_refines any (next_is str_ops is_blank_or_breakz) sb_next_is_blank_or_breakz
  /\ q_refines any (next_is str_ops is_blank) sb_next_is_blank
  /\ q_refines any (next_is str_ops is_break) sb_next_is_break
  /\ q_refines any (next_is str_ops is_breakz) sb_next_is_breakz
  /\ q_refines any (next_is str_ops is_z) sb_next_is_z
  /\ q_refines any (next_is str_ops is_flow) sb_next_is_flow
  /\ q_refines any (next_is str_ops is_digit) sb_next_is_digit
  /\ q_refines any (next_is str_ops is_alpha) sb_next_is_alpha
  (* overridden provided methods: consuming loops (fuel of the generic loop > number of characters left) *)
  /\ (forall fuel st, m_refines (fun s => (length (si_chars (sc_in s)) < fuel)%nat)
                        (in_skip_ws_to_eol str_ops fuel st false false 0) (sb_skip_ws_to_eol st))
  /\ (forall fuel, m_refines (fun s => (length (si_chars (sc_in s)) < fuel)%nat)
                        (in_skip_while_non_breakz str_ops fuel) sb_skip_while_non_breakz)
  /\ (forall fuel, m_refines (fun s => (length (si_chars (sc_in s)) < fuel)%nat)
                        (in_skip_while_blank str_ops fuel) sb_skip_while_blank)
  /\ (forall fuel acc out s b, RB (sc_in s) b -> (length (si_chars (sc_in s)) < fuel)%nat ->
        exists letters i' b',
          in_fetch_while_alpha str_ops fuel acc s = Ok ((rev letters ++ acc, N.of_nat (length letters)), set_in i' s)
          /\ sb_fetch_while_is_alpha out b = Ok ((out ++ bytes_of letters, N.of_nat (length letters)), b')
          /\ RB i' b').
Proof.
  split.
  { intros s b H. destruct (bytes_ops_refines_str_ops s b H) as (A1 & A2 & A3 & A4 & A5 & A6 & A7 & A8).
    repeat (split; [assumption|]). apply sb_raw_read_ch_spec. exact H. }
  split; [exact sb_peek_refines|]. split; [exact sb_peek_nth_refines|]. split; [exact sb_look_ch_refines|].
  split; [exact sb_next_char_is_refines|]. split; [exact sb_nth_char_is_refines|].
  split; [exact sb_next_2_are_refines|]. split; [exact sb_next_3_are_refines|].
  split; [exact sb_next_is_document_indicator_refines|]. split; [exact sb_next_is_document_start_refines|].
  split; [exact sb_next_is_document_end_refines|]. split; [exact sb_next_can_be_plain_scalar_refines|].
  split; [exact sb_next_is_blank_or_break_refines|]. split; [exact sb_next_is_blank_or_breakz_refines|].
  split; [exact sb_next_is_blank_refines|]. split; [exact sb_next_is_break_refines|].
  split; [exact sb_next_is_breakz_refines|]. split; [exact sb_next_is_z_refines|].
  split; [exact sb_next_is_flow_refines|]. split; [exact sb_next_is_digit_refines|].
  split; [exact sb_next_is_alpha_refines|]. split; [exact sb_skip_ws_to_eol_refines|].
  split; [exact sb_skip_while_non_breakz_refines|]. split; [exact sb_skip_while_blank_refines|].
  exact sb_fetch_while_is_alpha_refines.
Qed.

(* RB is satisfiable for every text of Unicode scalar values, and the encoding has only bytes *)
Lemma RB_init cs : scalars cs -> RB {| si_chars := cs; si_look := 0 |} {| sb_bytes := bytes_of cs; sb_look := 0 |}.
Proof. intros H. split; [reflexivity|]. split; [exact H|left; reflexivity]. Qed.
Lemma bytes_of_bytes cs : scalars cs -> Forall (fun b => b < 256) (bytes_of cs).
Proof.
  induction 1 as [|c r Hc _ IH]; [constructor|]. rewrite bytes_of_cons. apply Forall_app. split; [|exact IH].
  apply utf8_encode_bytes. apply is_scalar_le. exact Hc.
Qed.
(* the encoding is injective: related byte states determine the characters *)
Lemma bytes_of_inj : forall a b, scalars a -> scalars b -> bytes_of a = bytes_of b -> a = b.
Proof.
  induction a as [|x a IH]; intros b Ha Hb E.
  - destruct b as [|y b]; [reflexivity|]. rewrite bytes_of_cons in E. pose proof (utf8_encode_length y).
    apply (f_equal (@length N)) in E. rewrite app_length in E. cbn [bytes_of flat_map length] in E. lia.
  - destruct b as [|y b].
    + rewrite bytes_of_cons in E. pose proof (utf8_encode_length x).
      apply (f_equal (@length N)) in E. rewrite app_length in E. cbn [bytes_of flat_map length] in E. lia.
    + pose proof (next_char_cons _ _ Ha) as Na. pose proof (next_char_cons _ _ Hb) as Nb. rewrite E in Na.
      rewrite Na in Nb. inversion Nb; subst. f_equal. apply scalars_cons in Ha, Hb. apply IH; [apply Ha|apply Hb|assumption].
Qed.
Lemma bytes_relation_total : forall cs, scalars cs ->
  RB {| si_chars := cs; si_look := 0 |} {| sb_bytes := bytes_of cs; sb_look := 0 |}
  /\ Forall (fun b => b < 256) (bytes_of cs)
  /\ (forall cs', scalars cs' -> bytes_of cs' = bytes_of cs -> cs' = cs).
Proof.
  intros cs H. split; [apply RB_init; exact H|]. split; [apply bytes_of_bytes; exact H|].
  intros cs' H' E. apply bytes_of_inj; assumption.
Qed.
