(* C11 — aliases and the depth of the LOADED tree.

   An alias inserts a copy of the completed anchored node (YamlLoader::on_event: `Some(v) => v.clone()`), so the tree can be
   deeper than the events nest, and no nesting limit of the scanner bounds it:

   1. the ALIAS-CHAIN family  "- &a0 [a]" / "- &a1 [*a0]" / ... / "- &a(n-1) [*a(n-2)]"  as an event sentence: accepted by
      the grammar, event nesting 2 for every n, and the loader model builds ONE document of depth n + 1 (by induction on
      n): "the depth of the loaded tree is bounded by the nesting of the events (+ c)" is false for every c;
   2. the bound that DOES hold with aliases: every document of an accepted sentence is at most as deep as the sentence has
      collection-start events (each level of a chain in the tree is — a copy of — a node built for a different
      collection-start event, because an alias can only refer to a node completed before it) — linear in the size of the
      input, reached by the family. *)
From Coq Require Import List NArith ZArith Bool Lia PeanoNat.
Import ListNotations.
Require Import Parser Resolver Loader Grammar BuildDocs LoaderProofs Depth DepthProofs DepthTree.
Local Open Scope nat_scope.

(* ------------------------------------------------------------------------------------------------ *)
(* 1. the family                                                                                       *)
(* ------------------------------------------------------------------------------------------------ *)
(* element k: a sequence anchored k+1 holding the leaf (k = 0) or an alias to the previous element's anchor k *)
Definition alias_item (k : nat) : list event :=
  [ESequenceStart (N.of_nat (S k)) None; match k with O => leaf_ev | S _ => EAlias (N.of_nat k) end; ESequenceEnd].
Definition alias_events (n : nat) : list event :=
  EStreamStart :: EDocumentStart false :: ESequenceStart 0%N None
    :: flat_map alias_item (seq 0 n) ++ [ESequenceEnd; EDocumentEnd; EStreamEnd].
Fixpoint alias_anchors (k : nat) : list (N * yaml) :=
  match k with O => [] | S j => (N.of_nat (S j), nest_seq (S j) leaf_val) :: alias_anchors j end.
Definition alias_items (k : nat) : list yaml := map (fun j => nest_seq (S j) leaf_val) (seq 0 k).
Definition alias_state (k : nat) : loader :=
  {| l_docs := []; l_stack := [(YSeq (alias_items k), 0%N)]; l_keys := []; l_anchors := alias_anchors k |}.

Lemma alias_items_S k : alias_items (S k) = alias_items k ++ [nest_seq (S k) leaf_val].
Proof. unfold alias_items. rewrite seq_S, map_app. reflexivity. Qed.

Lemma pos_of_nat_S k : (0 <? N.of_nat (S k))%N = true.
Proof. apply N.ltb_lt. lia. Qed.

Lemma alias_item_step k rest :
  load_events (alias_item k ++ rest) (alias_state k) = load_events rest (alias_state (S k)).
Proof.
  unfold alias_item. cbn [app load_events]. unfold alias_state at 1. cbn [on_event l_docs l_stack l_keys l_anchors].
  assert (E : on_event {| l_docs := []; l_stack := [(YSeq [], N.of_nat (S k)); (YSeq (alias_items k), 0%N)]; l_keys := [];
                          l_anchors := alias_anchors k |} (match k with O => leaf_ev | S _ => EAlias (N.of_nat k) end)
              = LOk {| l_docs := []; l_stack := [(YSeq [nest_seq k leaf_val], N.of_nat (S k)); (YSeq (alias_items k), 0%N)];
                       l_keys := []; l_anchors := alias_anchors k |}).
  { destruct k as [|j].
    - reflexivity.
    - cbn [on_event alias_anchors amap_get l_anchors]. rewrite N.eqb_refl. reflexivity. }
  rewrite E. cbn [on_event l_docs l_stack l_keys l_anchors insert_new_node]. rewrite pos_of_nat_S.
  cbn [load_events]. unfold alias_state. rewrite alias_items_S. reflexivity.
Qed.

Lemma alias_items_run m : forall k rest,
  load_events (flat_map alias_item (seq k m) ++ rest) (alias_state k) = load_events rest (alias_state (k + m)).
Proof.
  induction m as [|m IH]; intros k rest.
  - cbn. rewrite Nat.add_0_r. reflexivity.
  - cbn [seq flat_map]. rewrite <- app_assoc, alias_item_step, IH. f_equal. f_equal. lia.
Qed.

Lemma alias_family_loads n :
  load_events (alias_events n) l0
  = LOk {| l_docs := [YSeq (alias_items n)]; l_stack := []; l_keys := []; l_anchors := alias_anchors n |}.
Proof.
  unfold alias_events. cbn [load_events on_event l0 l_docs l_stack l_keys l_anchors].
  change {| l_docs := []; l_stack := [(YSeq [], 0%N)]; l_keys := []; l_anchors := [] |} with (alias_state 0).
  rewrite alias_items_run. cbn [Nat.add]. reflexivity.
Qed.

(* accepted by the grammar of event sentences *)
Lemma alias_item_grun k rest : grun (GStream [FSeq; FDoc]) (alias_item k ++ rest) = grun (GStream [FSeq; FDoc]) rest.
Proof. unfold alias_item. destruct k; reflexivity. Qed.
Lemma alias_items_grun m : forall k rest,
  grun (GStream [FSeq; FDoc]) (flat_map alias_item (seq k m) ++ rest) = grun (GStream [FSeq; FDoc]) rest.
Proof.
  induction m as [|m IH]; intros k rest; [reflexivity|]. cbn [seq flat_map]. rewrite <- app_assoc, alias_item_grun. apply IH.
Qed.
Lemma alias_family_accepted n : grun GInit (alias_events n) = Some GEnd.
Proof. unfold alias_events. cbn [grun gstep on_stream node_ok]. rewrite alias_items_grun. reflexivity. Qed.

(* the events nest 2 deep, whatever n *)
Lemma alias_item_depth k m tail : depth_run 1 m (alias_item k ++ tail) = depth_run 1 (Nat.max m 2) tail.
Proof.
  unfold alias_item. cbn [app]. rewrite !depth_run_cons.
  destruct k; cbn [depth_step fst snd leaf_ev Nat.pred]; f_equal; lia.
Qed.
Lemma alias_items_depth n : forall k m tail, 2 <= m ->
  depth_run 1 m (flat_map alias_item (seq k n) ++ tail) = depth_run 1 m tail.
Proof.
  induction n as [|n IH]; intros k m tail Hm; [reflexivity|].
  cbn [seq flat_map]. rewrite <- app_assoc, alias_item_depth. replace (Nat.max m 2) with m by lia. apply IH. exact Hm.
Qed.
Lemma alias_family_nesting n : 1 <= n -> max_nesting (alias_events n) = 2.
Proof.
  intros Hn. destruct n as [|n]; [lia|]. unfold max_nesting, alias_events.
  rewrite !depth_run_cons. cbn [depth_step fst snd]. cbn [seq flat_map]. rewrite <- app_assoc, alias_item_depth.
  rewrite alias_items_depth by lia. reflexivity.
Qed.

(* the document is n + 1 deep *)
Lemma alias_items_depths n :
  list_max (map (fun x => S (ydepth x)) (alias_items n)) = match n with O => 0 | S _ => S n end.
Proof.
  induction n as [|n IH]; [reflexivity|]. rewrite alias_items_S, map_app, list_max_app, IH. cbn [map].
  rewrite list_max_cons. destruct (family_tree_depth (S n)) as [E _]. rewrite E. cbn [list_max fold_right]. destruct n; lia.
Qed.
Lemma alias_family_depth n : 1 <= n ->
  ydepth (YSeq (alias_items n)) = n + 1 /\ forall d, ywalk d (YSeq (alias_items n)) = d + (n + 1).
Proof.
  intros Hn. assert (E : ydepth (YSeq (alias_items n)) = n + 1).
  { cbn [ydepth]. rewrite alias_items_depths. destruct n; lia. }
  split; [exact E|]. intros d. rewrite walk_depth_is_tree_depth, E. reflexivity.
Qed.

(* all of it *)
Theorem alias_family n : 1 <= n ->
  grun GInit (alias_events n) = Some GEnd
  /\ max_nesting (alias_events n) = 2
  /\ exists y anchors,
       load_events (alias_events n) l0 = LOk {| l_docs := [y]; l_stack := []; l_keys := []; l_anchors := anchors |}
       /\ ydepth y = n + 1 /\ forall d, ywalk d y = d + (n + 1).
Proof.
  intros Hn. split; [apply alias_family_accepted|]. split; [apply alias_family_nesting; exact Hn|].
  exists (YSeq (alias_items n)), (alias_anchors n). split; [apply alias_family_loads|]. apply alias_family_depth. exact Hn.
Qed.

(* "every document an accepted sentence loads to is at most (nesting of its events) + c deep" *)
Definition tree_depth_bounded_by_nesting (c : nat) : Prop :=
  forall evs ld, grun GInit evs = Some GEnd -> load_events evs l0 = LOk ld ->
    Forall (fun y => ydepth y <= max_nesting evs + c) (l_docs ld).

Theorem tree_depth_not_bounded_by_nesting : forall c, ~ tree_depth_bounded_by_nesting c.
Proof.
  intros c H. assert (Hn : 1 <= c + 2) by lia.
  destruct (alias_family (c + 2) Hn) as (HG & HN & y & an & HL & HD & _).
  specialize (H _ _ HG HL). cbn [l_docs] in H. inversion H as [|? ? Hy _]; subst. rewrite HN, HD in Hy. lia.
Qed.

(* ------------------------------------------------------------------------------------------------ *)
(* 2. what does hold with aliases: depth <= number of collection-start events                          *)
(* ------------------------------------------------------------------------------------------------ *)
Definition is_coll_start (e : event) : bool :=
  match e with ESequenceStart _ _ | EMappingStart _ _ => true | _ => false end.
Definition coll_starts (evs : list event) : nat := length (filter is_coll_start evs).
Definition list_sum' (l : list nat) : nat := fold_right Nat.add 0 l.

Fixpoint ncoll (t : etree) : nat :=
  match t with
  | TScalar _ _ _ _ | TAlias _ => 0
  | TSeq _ _ l => S (list_sum' (map ncoll l))
  | TMap _ _ l => S (list_sum' (map (fun kv => ncoll (fst kv) + ncoll (snd kv)) l))
  end.

Lemma coll_starts_app a b : coll_starts (a ++ b) = coll_starts a + coll_starts b.
Proof. unfold coll_starts. rewrite filter_app, app_length. reflexivity. Qed.

Lemma coll_starts_events_of : forall t, coll_starts (events_of t) = ncoll t.
Proof.
  induction t as [v st a tg|i|a tg l IH|a tg l IH] using etree_ind2; try reflexivity.
  - cbn [events_of ncoll]. change (ESequenceStart a tg :: events_items events_of l ++ [ESequenceEnd])
      with ([ESequenceStart a tg] ++ events_items events_of l ++ [ESequenceEnd]).
    rewrite !coll_starts_app. change (coll_starts [ESequenceStart a tg]) with 1. change (coll_starts [ESequenceEnd]) with 0.
    rewrite Nat.add_0_r. cbn [Nat.add]. f_equal. unfold list_sum'.
    induction IH as [|x r Hx _ IHr]; [reflexivity|]. cbn [events_items map fold_right]. rewrite coll_starts_app, Hx, IHr. reflexivity.
  - cbn [events_of ncoll]. change (EMappingStart a tg :: events_pairs events_of l ++ [EMappingEnd])
      with ([EMappingStart a tg] ++ events_pairs events_of l ++ [EMappingEnd]).
    rewrite !coll_starts_app. change (coll_starts [EMappingStart a tg]) with 1. change (coll_starts [EMappingEnd]) with 0.
    rewrite Nat.add_0_r. cbn [Nat.add]. f_equal. unfold list_sum'.
    induction IH as [|[kx vx] r [Hk Hv] _ IHr]; [reflexivity|]. cbn [fst snd] in Hk, Hv.
    cbn [events_pairs map fold_right fst snd]. rewrite !coll_starts_app, Hk, Hv, IHr. lia.
Qed.

(* the deepest value registered under an anchor *)
Definition amax (m : amap) : nat := list_max (map (fun p => ydepth (snd p)) m).
Lemma amax_reg a y m : amax (reg a y m) <= Nat.max (amax m) (ydepth y).
Proof. unfold reg, amax. destruct (0 <? a)%N; cbn [map snd]; [rewrite list_max_cons|]; lia. Qed.
Lemma amax_deref i m : ydepth (deref i m) <= amax m.
Proof.
  unfold deref, amax. induction m as [|[j y] r IH]; cbn [amap_get]; [cbn; lia|].
  cbn [map snd]. rewrite list_max_cons. destruct (N.eqb j i); [lia|]. etransitivity; [exact IH|]. lia.
Qed.

(* the value of a tree is at most (its collection nodes + the deepest registered value) deep, and so is everything it
   registers *)
Lemma build_depth_alias : forall t m,
  ydepth (fst (build m t)) <= ncoll t + amax m /\ amax (snd (build m t)) <= ncoll t + amax m.
Proof.
  induction t as [v st a tg|i|a tg l IH|a tg l IH] using etree_ind2; intros m.
  - cbn [build fst snd ncoll].
    assert (E : ydepth (value_of v st tg) = 0) by (unfold value_of; destruct (parse_from_cow_and_metadata _ _ _); reflexivity).
    rewrite E. split; [lia|]. pose proof (amax_reg a (value_of v st tg) m). lia.
  - cbn [build fst snd ncoll]. split; [apply amax_deref|lia].
  - cbn [build ncoll]. destruct (build_items build m l) as [ys m'] eqn:E. cbn [fst snd].
    assert (G : list_max (map (fun x => S (ydepth x)) ys) <= S (list_sum' (map ncoll l) + amax m)
                /\ amax m' <= list_sum' (map ncoll l) + amax m).
    { clear a tg. revert m ys m' E. induction IH as [|x r Hx _ IHr]; intros m ys m' E; cbn [build_items] in E.
      - inversion E; subst. cbn. lia.
      - destruct (build m x) as [y m1] eqn:E1. destruct (build_items build m1 r) as [ys2 m2] eqn:E2.
        inversion E; subst. destruct (Hx m) as [H1 H2]. rewrite E1 in H1, H2. cbn [fst snd] in H1, H2.
        destruct (IHr m1 ys2 m' E2) as [H3 H4]. cbn [map list_sum' fold_right]. fold (list_sum' (map ncoll r)).
        rewrite list_max_cons. lia. }
    destruct G as [G1 G2]. cbn [ydepth]. split; [lia|].
    pose proof (amax_reg a (YSeq ys) m'). cbn [ydepth] in H. lia.
  - cbn [build ncoll]. destruct (build_pairs build m l []) as [ps m'] eqn:E. cbn [fst snd].
    set (w := fun kv : etree * etree => ncoll (fst kv) + ncoll (snd kv)).
    assert (G : forall acc m ps m', build_pairs build m l acc = (ps, m') ->
                list_max (map pdepth ps) <= Nat.max (list_max (map pdepth acc)) (S (list_sum' (map w l) + amax m))
                /\ amax m' <= list_sum' (map w l) + amax m).
    { clear E m ps m'. induction IH as [|[kt vt] r [Hk Hv] _ IHr]; intros acc m ps m' E; cbn [build_pairs] in E.
      - inversion E; subst. cbn. lia.
      - cbn [fst snd] in Hk, Hv. destruct (build m kt) as [ky m1] eqn:E1. destruct (build m1 vt) as [vy m2] eqn:E2.
        destruct (Hk m) as [K1 K2]. rewrite E1 in K1, K2. destruct (Hv m1) as [V1 V2]. rewrite E2 in V1, V2.
        cbn [fst snd] in K1, K2, V1, V2. destruct (IHr _ _ _ _ E) as [R1 R2].
        pose proof (map_insert_depth ky vy acc). cbn [map list_sum' fold_right]. fold (list_sum' (map w r)).
        unfold w at 1 3. cbn [fst snd]. lia. }
    destruct (G [] m ps m' E) as [G1 G2]. cbn [map list_max fold_right] in G1.
    change (list_max (map (fun kv : yaml * yaml => Nat.max (S (ydepth (fst kv))) (S (ydepth (snd kv)))) ps))
      with (list_max (map pdepth ps)).
    assert (ED : ydepth (YMap ps) = list_max (map pdepth ps)) by reflexivity.
    split; [rewrite ED; lia|]. pose proof (amax_reg a (YMap ps) m'). rewrite ED in H. lia.
Qed.

Lemma docs_depth_alias ds : forall m,
  Forall (fun y => ydepth y <= coll_starts (events_docs ds) + amax m) (fst (build_docs m ds)).
Proof.
  induction ds as [|[e t] r IH]; intros m; [constructor|].
  cbn [events_docs build_docs]. unfold events_doc. cbn [fst snd].
  destruct (build m t) as [y m1] eqn:E1. destruct (build_docs m1 r) as [ys m2] eqn:E2. cbn [fst].
  change (EDocumentStart e :: events_of t ++ [EDocumentEnd]) with ([EDocumentStart e] ++ events_of t ++ [EDocumentEnd]).
  rewrite !coll_starts_app, coll_starts_events_of. cbn [coll_starts filter is_coll_start length].
  destruct (build_depth_alias t m) as [H1 H2]. rewrite E1 in H1, H2. cbn [fst snd] in H1, H2.
  constructor; [lia|]. specialize (IH m1). rewrite E2 in IH. cbn [fst] in IH.
  eapply Forall_impl; [|exact IH]. cbn beta. intros y' Hy. lia.
Qed.

(* Every event sentence the grammar accepts — aliases or not: the loader model builds its documents (no panic) and none
   of them is deeper than the sentence has collection-start events; so every recursive traversal of a loaded document
   (clone, drop, eq, hash, emit) entered at depth d reaches at most d + that number.  Reached by the alias chain. *)
Theorem loaded_tree_depth_le_collection_starts evs :
  grun GInit evs = Some GEnd ->
  exists ld, load_events evs l0 = LOk ld
             /\ Forall (fun y => ydepth y <= coll_starts evs /\ forall d, ywalk d y <= d + coll_starts evs) (l_docs ld).
Proof.
  intros HG. destruct (accepted_loads_spec evs HG) as (ds & ld & _ & E & HL & HD & _ & _).
  exists ld. split; [exact HL|].
  assert (HF : Forall (fun y => ydepth y <= coll_starts evs) (spec_load ds)).
  { subst evs. unfold spec_load, stream_of.
    change (EStreamStart :: events_docs ds ++ [EStreamEnd]) with ([EStreamStart] ++ events_docs ds ++ [EStreamEnd]).
    rewrite !coll_starts_app. cbn [coll_starts filter is_coll_start length].
    pose proof (docs_depth_alias ds []) as H. eapply Forall_impl; [|exact H]. cbn beta. intros y Hy.
    unfold amax in Hy. cbn in Hy. fold (coll_starts (events_docs ds)) in Hy. lia. }
  rewrite <- HD in HF. apply Forall_rev in HF. rewrite rev_involutive in HF.
  eapply Forall_impl; [|exact HF]. cbn beta. intros y Hy. split; [exact Hy|].
  intros d. rewrite walk_depth_is_tree_depth. lia.
Qed.

(* the family reaches it: n + 1 collection starts, depth n + 1 *)
Lemma alias_family_coll_starts n : coll_starts (alias_events n) = n + 1.
Proof.
  unfold alias_events.
  change (EStreamStart :: EDocumentStart false :: ESequenceStart 0%N None :: flat_map alias_item (seq 0 n) ++ [ESequenceEnd; EDocumentEnd; EStreamEnd])
    with ([EStreamStart; EDocumentStart false; ESequenceStart 0%N None] ++ flat_map alias_item (seq 0 n) ++ [ESequenceEnd; EDocumentEnd; EStreamEnd]).
  rewrite !coll_starts_app.
  assert (E : forall m k, coll_starts (flat_map alias_item (seq k m)) = m).
  { induction m as [|m IH]; intros k; [reflexivity|]. cbn [seq flat_map]. rewrite coll_starts_app, IH.
    unfold alias_item. destruct k; reflexivity. }
  rewrite E. change (coll_starts [EStreamStart; EDocumentStart false; ESequenceStart 0%N None]) with 1.
  change (coll_starts [ESequenceEnd; EDocumentEnd; EStreamEnd]) with 0. lia.
Qed.
