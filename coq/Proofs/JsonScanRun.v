(* C13, scanner half (5): fetch_next_token on every kind of JSON token, runs of fetch_more_tokens, and the induction over
   JSON texts (Spec/Json.v json_text): inside a flow collection the scanner model queues exactly json_tokens v. *)
From Coq Require Import List NArith ZArith Bool Arith Lia.
Import ListNotations.
Require Import Parser SBase SPrim SDir SScalar SFetch Pipe Resolver CoreSchema Json FlowFold FlowScalarProofs PlainScalarProofs QuotedFoldProofs
               JsonScanBase JsonScanTok JsonScanStr JsonScanPlain JsonWords.
Open Scope N_scope.
Open Scope mon_scope.

(* ---------- fetch_next_token on each kind of token ---------- *)
Lemma calm_pos fl sks : 0 < fl -> calm fl sks.
Proof. intros H. left. exact H. Qed.

Lemma tokstart_cons c cs : is_ws c = false -> (c =? 35) = false -> tokstart (c :: cs).
Proof. intros A B. split; assumption. Qed.

Lemma fnt_open F (seq : bool) w w1 rest2 l mk q adj ska hd tls fl tp ta lws ifms :
  wsb w = true -> wsb w1 = true -> tokstart rest2 -> (length w < F)%nat -> (length w1 < F)%nat -> fl < 255 -> calm fl (hd :: tls) ->
  exists l' mk' w1' sp key2,
    fetch_next_token str_ops F (mkst (w ++ open_char seq :: w1 ++ rest2) l mk q adj ska (hd :: tls) fl tp ta lws ifms)
    = Ok (tt, mkst (w1' ++ rest2) l' mk' (q ++ [(sp, open_tok seq)]) adj true (dummy_key :: key2 :: tls) (fl + 1) tp ta false
                (open_ims seq :: ifms))
    /\ wsb w1' = true /\ (length w1' <= length w1)%nat
    /\ (ska = true -> exists m, key2 = skey true (tp + N.of_nat (length q)) m) /\ (0 < fl -> ska = false -> key2 = hd).
Proof.
  intros Hw Hw1 Hts HF HF1 Hfl Hcalm.
  destruct (fnt_prefix F w (open_char seq) (w1 ++ rest2) l mk q adj ska (hd :: tls) fl tp ta lws ifms HF Hw) as (l0 & mk0' & lws0 & ska0 & E0 & A & B & _ & Hl0);
    try assumption; try (destruct seq; repeat split; reflexivity).
  destruct (open_tail F seq w1 rest2 l0 mk0' q adj ska0 hd tls fl tp ta lws0 ifms Hw1 Hts HF1 ltac:(apply N.eqb_neq; lia) Hl0)
    as (l' & mk' & w1' & sp & mkk & E1 & Hw1' & Hlen).
  exists l', mk', w1', sp, (if ska0 then skey true (tp + N.of_nat (length q)) mkk else hd).
  split; [rewrite E0; exact E1|]. split; [exact Hw1'|]. split; [exact Hlen|]. split.
  - intros Hs. rewrite (B Hs). eauto.
  - intros Hp Hs. rewrite (A Hp), Hs. reflexivity.
Qed.

Lemma fnt_close F (seq : bool) w w1 rest2 l mk q adj ska p tn km hd2 tls fl tp ta lws ifr :
  wsb w = true -> wsb w1 = true -> tokstart rest2 -> (length w < F)%nat -> (length w1 < F)%nat ->
  exists l' mk' w1' sp adj',
    fetch_next_token str_ops F (mkst (w ++ close_char seq :: w1 ++ rest2) l mk q adj ska (skey p tn km :: hd2 :: tls) (fl + 1) tp ta lws (open_ims seq :: ifr))
    = Ok (tt, mkst (w1' ++ rest2) l' mk' (q ++ [(sp, close_tok seq)]) adj' false (hd2 :: tls) fl tp ta false ifr)
    /\ wsb w1' = true /\ (length w1' <= length w1)%nat.
Proof.
  intros Hw Hw1 Hts HF HF1.
  destruct (fnt_prefix F w (close_char seq) (w1 ++ rest2) l mk q adj ska (skey p tn km :: hd2 :: tls) (fl + 1) tp ta lws (open_ims seq :: ifr) HF Hw)
    as (l0 & mk0' & lws0 & ska0 & E0 & _ & _ & _ & Hl0);
    try (destruct seq; repeat split; reflexivity). { apply calm_pos. lia. }
  destruct (close_tail F seq w1 rest2 l0 mk0' q adj ska0 p tn km hd2 tls fl tp ta lws0 ifr Hw1 Hts HF1 Hl0)
    as (l' & mk' & w1' & sp & adj' & E1 & Hw1' & Hlen).
  exists l', mk', w1', sp, adj'. split; [rewrite E0; exact E1|]. split; assumption.
Qed.

Lemma fnt_comma F (seq : bool) w w1 rest2 l mk q adj ska p tn km tls fl tp ta lws ifr :
  wsb w = true -> wsb w1 = true -> tokstart rest2 -> (length w < F)%nat -> (length w1 < F)%nat -> 0 < fl ->
  exists l' mk' w1' sp,
    fetch_next_token str_ops F (mkst (w ++ 44 :: w1 ++ rest2) l mk q adj ska (skey p tn km :: tls) fl tp ta lws (open_ims seq :: ifr))
    = Ok (tt, mkst (w1' ++ rest2) l' mk' (q ++ [(sp, TFlowEntry)]) adj true (skey false tn km :: tls) fl tp ta false (open_ims seq :: ifr))
    /\ wsb w1' = true /\ (length w1' <= length w1)%nat.
Proof.
  intros Hw Hw1 Hts HF HF1 Hfl.
  destruct (fnt_prefix F w 44 (w1 ++ rest2) l mk q adj ska (skey p tn km :: tls) fl tp ta lws (open_ims seq :: ifr) HF Hw)
    as (l0 & mk0' & lws0 & ska0 & E0 & _ & _ & _ & Hl0); try (repeat split; reflexivity). { apply calm_pos. exact Hfl. }
  destruct (comma_tail F seq w1 rest2 l0 mk0' q adj ska0 p tn km tls fl tp ta lws0 ifr Hw1 Hts HF1 Hl0)
    as (l' & mk' & w1' & sp & E1 & Hw1' & Hlen).
  exists l', mk', w1', sp. split; [rewrite E0; exact E1|]. split; assumption.
Qed.

Lemma fnt_colon F cs l mk q0 kt ska km tls fl tp ta lws ifr :
  (0 < F)%nat -> 0 < fl ->
  exists l' mk' sp1 sp2,
    fetch_next_token str_ops F (mkst (58 :: cs) l mk (q0 ++ [kt]) (m_index mk) ska (skey true (tp + N.of_nat (length q0)) km :: tls) fl tp ta lws (ImMapping :: ifr))
    = Ok (tt, mkst cs l' mk' ((q0 ++ [(sp1, TKey); kt]) ++ [(sp2, TValue)]) (m_index mk) false
                (skey false (tp + N.of_nat (length q0)) km :: tls) fl tp ta false (ImMapping :: ifr)).
Proof.
  intros HF Hfl.
  destruct (fnt_prefix F [] 58 cs l mk (q0 ++ [kt]) (m_index mk) ska (skey true (tp + N.of_nat (length q0)) km :: tls) fl tp ta lws (ImMapping :: ifr))
    as (l0 & mk0' & lws0 & ska0 & E0 & _ & _ & Hmk & Hl0); try (repeat split; reflexivity). { exact HF. } { apply calm_pos. exact Hfl. }
  rewrite (Hmk eq_refl) in E0. cbn [app] in E0.
  destruct (colon_tail F cs l0 mk q0 kt ska0 km tls fl tp ta lws0 ifr Hfl Hl0) as (sp1 & sp2 & E1).
  exists l0, (adv 1 mk), sp1, sp2. rewrite E0. exact E1.
Qed.

Lemma fnt_string F items w w1 rest2 l mk q adj ska p tn km tls fl tp ta lws ifms :
  forallb item_wf items = true -> wsb w = true -> wsb w1 = true -> tokstart rest2 -> sfollow fl (nth 0 rest2 0) = true ->
  (length w < F)%nat -> (length items + 3 <= F)%nat -> (length w1 < F)%nat -> calm fl (skey p tn km :: tls) ->
  exists l' mk' lws' ska' sp p' tn' km',
    fetch_next_token str_ops F (mkst (w ++ 34 :: flat_map item_src items ++ 34 :: w1 ++ rest2) l mk q adj ska (skey p tn km :: tls) fl tp ta lws ifms)
    = Ok (tt, mkst rest2 l' mk' (q ++ [(sp, TScalar DoubleQuoted (map item_val items))]) (m_index mk') ska'
                (skey p' tn' km' :: tls) fl tp ta lws' ifms)
    /\ (0 < fl -> ska' = false) /\ (ska = true -> p' = true /\ tn' = tp + N.of_nat (length q)).
Proof.
  intros Hwf Hw Hw1 Hts Hfol HF HF1 HF2 Hcalm.
  destruct (fnt_prefix F w 34 (flat_map item_src items ++ 34 :: w1 ++ rest2) l mk q adj ska (skey p tn km :: tls) fl tp ta lws ifms HF Hw)
    as (l0 & mk0' & lws0 & ska0 & E0 & _ & B & _ & Hl0); try (repeat split; reflexivity). { exact Hcalm. }
  destruct (string_tail F items w1 rest2 l0 mk0' q adj ska0 p tn km tls fl tp ta lws0 ifms Hwf Hw1 Hts Hfol HF1 HF2 Hl0)
    as (l' & mk' & lws' & ska' & sp & mks & E1 & Hska).
  destruct ska0 eqn:Es.
  - exists l', mk', lws', ska', sp, true, (tp + N.of_nat (length q)), mks. split; [rewrite E0; exact E1|]. split; [exact Hska|]. auto.
  - exists l', mk', lws', ska', sp, p, tn, km. split; [rewrite E0; exact E1|]. split; [exact Hska|].
    intros Hs. discriminate (B Hs).
Qed.

Lemma fnt_word F c wd w w1 rest2 l mk q adj ska p tn km tls fl tp ta lws ifms :
  jword (c :: wd) = true -> wsb w = true -> wsb w1 = true -> tokstart rest2 -> pfollow fl (nth 0 rest2 0) = true ->
  (length w < F)%nat -> (2 * length (wd ++ w1) + 8 <= F)%nat -> calm fl (skey p tn km :: tls) ->
  exists l' mk' lws' ska' sp p' tn' km',
    fetch_next_token str_ops F (mkst (w ++ c :: wd ++ w1 ++ rest2) l mk q adj ska (skey p tn km :: tls) fl tp ta lws ifms)
    = Ok (tt, mkst rest2 l' mk' (q ++ [(sp, TScalar Plain (c :: wd))]) adj ska' (skey p' tn' km' :: tls) fl tp ta lws' ifms)
    /\ (ska = true -> p' = true /\ tn' = tp + N.of_nat (length q)).
Proof.
  intros Hj Hw Hw1 Hts Hfol HF HF1 Hcalm.
  destruct (jword_head c wd (w1 ++ rest2) Hj) as (Hc & _ & _ & _ & _ & Hnd).
  destruct (wchar_facts c Hc) as (Hb & _ & _ & H35).
  assert (Hcw : is_ws c = false).
  { unfold is_ws, Resolver.ch. rewrite !(wchar_ne c _ Hc) by reflexivity. reflexivity. }
  assert (Hz : is_z c = false) by (unfold is_z; apply wchar_ne; [exact Hc|reflexivity]).
  destruct (fnt_prefix F w c (wd ++ w1 ++ rest2) l mk q adj ska (skey p tn km :: tls) fl tp ta lws ifms HF Hw (conj Hcw H35) Hz Hnd Hcalm)
    as (l0 & mk0' & lws0 & ska0 & E0 & _ & B & _ & Hl0).
  destruct (word_tail F c wd w1 rest2 l0 mk0' q adj ska0 p tn km tls fl tp ta lws0 ifms Hj Hw1 Hts Hfol HF1)
    as (l' & mk' & lws' & ska' & sp & mks & E1).
  destruct ska0 eqn:Es.
  - exists l', mk', lws', ska', sp, true, (tp + N.of_nat (length q)), mks. split; [rewrite E0; exact E1|]. auto.
  - exists l', mk', lws', ska', sp, p, tn, km. split; [rewrite E0; exact E1|].
    intros Hs. discriminate (B Hs).
Qed.

(* ---------- fetch_more_tokens: runs of fetches while a simple key is pending at the head of the queue ---------- *)
Definition need_comp : @M strin bool :=
  s <- get ;;
  match sc_tokens s return @M strin bool with
  | [] => ret true
  | _ => stale_simple_keys ;;;
         s <- get ;;
         ret (existsb (fun k => sk_possible k && (sk_token_number k =? sc_tokens_parsed s)) (sc_sks s))
  end.
Arguments need_comp : simpl never.

Lemma fmt_S F fuel :
  fetch_more_tokens str_ops F (S fuel) =
  (need <- need_comp ;; if need then fetch_next_token str_ops F ;;; fetch_more_tokens str_ops F fuel else modify (set_ta true)).
Proof. reflexivity. Qed.

Definition needy (tp : N) (sks : list simple_key) : Prop :=
  existsb (fun k => sk_possible k && (sk_token_number k =? tp)) sks = true.
Lemma needy_cons tp k sks : needy tp sks -> needy tp (k :: sks).
Proof. unfold needy. cbn [existsb]. intros ->. apply orb_true_r. Qed.
Lemma needy_here tp m sks : needy tp (skey true tp m :: sks).
Proof. unfold needy. cbn [existsb skey sk_possible sk_token_number]. rewrite N.eqb_refl. reflexivity. Qed.

Lemma need_empty cs l mk adj ska sks fl tp ta lws ifms :
  need_comp (mkst cs l mk [] adj ska sks fl tp ta lws ifms) = Ok (true, mkst cs l mk [] adj ska sks fl tp ta lws ifms).
Proof. reflexivity. Qed.

Lemma busy_flow cs l mk q adj ska sks fl tp ta lws ifms : q <> [] -> 0 < fl -> needy tp sks ->
  need_comp (mkst cs l mk q adj ska sks fl tp ta lws ifms) = Ok (true, mkst cs l mk q adj ska sks fl tp ta lws ifms).
Proof.
  intros Hq Hfl Hn. unfold need_comp. destruct q as [|t q]; [congruence|].
  unfold mkst at 1. cbn. fold (mkst cs l mk (t :: q) adj ska sks fl tp ta lws ifms).
  rewrite (stale_calm cs l mk (t :: q) adj ska sks fl tp ta lws ifms (calm_pos _ _ Hfl)). unfold mkst at 1. cbn.
  unfold needy in Hn. rewrite Hn. reflexivity.
Qed.

Inductive fsteps (F : nat) : nat -> sc strin -> sc strin -> Prop :=
| fs_nil s : fsteps F 0 s s
| fs_cons k s s1 s2 :
    need_comp s = Ok (true, s) -> fetch_next_token str_ops F s = Ok (tt, s1) -> fsteps F k s1 s2 -> fsteps F (S k) s s2.

Lemma fsteps_app F a s s1 : fsteps F a s s1 -> forall b s2, fsteps F b s1 s2 -> fsteps F (a + b) s s2.
Proof. induction 1; intros; cbn; [assumption|]. econstructor; eauto. Qed.

Lemma fsteps_fmt F k s s' : fsteps F k s s' ->
  forall fuel, fetch_more_tokens str_ops F (k + fuel) s = fetch_more_tokens str_ops F fuel s'.
Proof.
  induction 1 as [|k s s1 s2 Hn Hf _ IH]; intros fuel; [reflexivity|].
  cbn [plus]. rewrite fmt_S. cbn [bind]. rewrite Hn. cbn [bind]. rewrite Hf. apply IH.
Qed.

(* runs in continuation-passing style: from s, some number of fetches leads to a state in P *)
Definition runs (F : nat) (s : sc strin) (P : nat -> sc strin -> Prop) : Prop := exists k s', fsteps F k s s' /\ P k s'.

Lemma runs_here F s (P : nat -> sc strin -> Prop) : P 0%nat s -> runs F s P.
Proof. intros H. exists 0%nat, s. split; [constructor|exact H]. Qed.
Lemma runs_step F s s1 (P : nat -> sc strin -> Prop) :
  need_comp s = Ok (true, s) -> fetch_next_token str_ops F s = Ok (tt, s1) -> runs F s1 (fun k => P (S k)) -> runs F s P.
Proof. intros Hn Hf (k & s' & R & HP). exists (S k), s'. split; [econstructor; eauto|exact HP]. Qed.
Lemma runs_bind F s (P Q : nat -> sc strin -> Prop) :
  runs F s P -> (forall k s', P k s' -> runs F s' (fun k2 => Q (k + k2)%nat)) -> runs F s Q.
Proof.
  intros (k & s' & R & HP) H. destruct (H k s' HP) as (k2 & s2 & R2 & HQ).
  exists (k + k2)%nat, s2. split; [eapply fsteps_app; eauto|exact HQ].
Qed.
Lemma runs_mono F s (P Q : nat -> sc strin -> Prop) : runs F s P -> (forall k s', P k s' -> Q k s') -> runs F s Q.
Proof. intros (k & s' & R & HP) H. exists k, s'. split; [exact R|apply H; exact HP]. Qed.

(* ---------- a value inside a collection ---------- *)
Definition after_node (ska0 : bool) (tp : N) (rest2 : list N) (q : list token) (exp : list tok) (tls : list simple_key) (fl : N) (ifms : list ims)
   (len0 : nat) (w1 : list N) (k : nat) (s' : sc strin) : Prop :=
  exists w1' l' mk' adj' ska' lws' p' tn' km' toks,
    s' = mkst (w1' ++ rest2) l' mk' (q ++ toks) adj' ska' (skey p' tn' km' :: tls) fl tp false lws' ifms
    /\ wsb w1' = true /\ (length w1' <= length w1)%nat /\ map snd toks = exp
    /\ (1 <= k)%nat /\ (k + length (w1' ++ rest2) <= len0)%nat /\ (length toks <= 3 * k)%nat
    /\ (ska0 = true -> p' = true /\ tn' = tp + N.of_nat (length q)).

Definition follow3 (rest2 : list N) : Prop := nth 0 rest2 0 = 44 \/ nth 0 rest2 0 = 93 \/ nth 0 rest2 0 = 125.

Lemma follow3_facts rest2 fl : follow3 rest2 -> 0 < fl ->
  tokstart rest2 /\ sfollow fl (nth 0 rest2 0) = true /\ pfollow fl (nth 0 rest2 0) = true /\ rest2 <> [].
Proof.
  intros H Hfl. apply N.ltb_lt in Hfl. unfold tokstart, sfollow, pfollow. rewrite Hfl.
  assert (Hne : rest2 <> []) by (intros ->; cbn in H; destruct H as [H|[H|H]]; discriminate H).
  destruct H as [-> | [-> | ->]]; repeat split; auto.
Qed.

Definition NodeScan (v : jvalue) (t : list N) : Prop :=
  forall F w0 w1 rest2 l mk q adj ska p tn km tls fl tp lws ifms,
    wsb w0 = true -> wsb w1 = true -> follow3 rest2 -> 0 < fl -> fl + N.of_nat (json_depth v) <= 255 -> q <> [] -> needy tp tls ->
    (2 * length (w0 ++ t ++ w1 ++ rest2) + 10 <= F)%nat ->
    runs F (mkst (w0 ++ t ++ w1 ++ rest2) l mk q adj ska (skey p tn km :: tls) fl tp false lws ifms)
         (after_node ska tp rest2 q (json_tokens v) tls fl ifms (length (w0 ++ t ++ w1 ++ rest2)) w1).

Ltac len := unfold Resolver.str, Parser.str in *; unfold SBase.chr, Resolver.chr in *; repeat (rewrite ?app_length in *; cbn [length] in *); try lia.

Lemma app_ne {A} (q t : list A) : q <> [] -> q ++ t <> [].
Proof. destruct q; [congruence|discriminate]. Qed.

Lemma node_plain v t : jword t = true -> json_tokens v = [TScalar Plain t] -> NodeScan v t.
Proof.
  intros Hj Htok F w0 w1 rest2 l mk q adj ska p tn km tls fl tp lws ifms Hw0 Hw1 Hfol Hfl _ Hq Hnd HF.
  destruct t as [|c wd]; [discriminate|].
  destruct (follow3_facts rest2 fl Hfol Hfl) as (Hts & _ & Hpf & Hne).
  destruct (fnt_word F c wd w0 w1 rest2 l mk q adj ska p tn km tls fl tp false lws ifms Hj Hw0 Hw1 Hts Hpf) as
    (l' & mk' & lws' & ska' & sp & p' & tn' & km' & E & Hkey); [len|len|apply calm_pos; exact Hfl|].
  eapply runs_step; [apply busy_flow; [exact Hq|exact Hfl|apply needy_cons; exact Hnd]| |].
  - cbn [app]. exact E.
  - apply runs_here. exists [], l', mk', adj, ska', lws', p', tn', km', [(sp, TScalar Plain (c :: wd))].
    cbn [app]. rewrite Htok. repeat split; auto; try (apply Hkey; assumption); len.
Qed.

Lemma node_string s t : str_text s t -> NodeScan (JStr s) (34 :: t ++ [34]).
Proof.
  intros Hst F w0 w1 rest2 l mk q adj ska p tn km tls fl tp lws ifms Hw0 Hw1 Hfol Hfl _ Hq Hnd HF.
  destruct (str_items s t Hst) as (items & Hwf & Hsrc & Hval & Hlen).
  destruct (follow3_facts rest2 fl Hfol Hfl) as (Hts & Hsf & _ & Hne).
  assert (Echars : w0 ++ (34 :: t ++ [34]) ++ w1 ++ rest2 = w0 ++ 34 :: flat_map item_src items ++ 34 :: w1 ++ rest2).
  { rewrite Hsrc. cbn [app]. rewrite <- app_assoc. reflexivity. }
  rewrite Echars in *.
  destruct (fnt_string F items w0 w1 rest2 l mk q adj ska p tn km tls fl tp false lws ifms Hwf Hw0 Hw1 Hts Hsf) as
    (l' & mk' & lws' & ska' & sp & p' & tn' & km' & E & _ & Hkey); [rewrite <- Hsrc in *; len|rewrite <- Hsrc in *; len|len|apply calm_pos; exact Hfl|].
  eapply runs_step; [apply busy_flow; [exact Hq|exact Hfl|apply needy_cons; exact Hnd]|exact E|].
  apply runs_here. exists [], l', mk', (m_index mk'), ska', lws', p', tn', km', [(sp, TScalar DoubleQuoted (map item_val items))].
  cbn [app]. rewrite Hval. repeat split; auto; try (apply Hkey; assumption); len.
Qed.

(* ---------- the shape of JSON texts ---------- *)
Definition tokhead (X : list N) : Prop := exists c cs, X = c :: cs /\ is_ws c = false /\ (c =? 35) = false.

Lemma tokhead_app X R : tokhead X -> tokstart (X ++ R) /\ X ++ R <> [].
Proof. intros (c & cs & -> & A & B). split; [split; assumption|discriminate]. Qed.

Lemma jword_tokhead t : jword t = true -> tokhead t.
Proof.
  destruct t as [|c wd]; [discriminate|]. intros Hj. destruct (jword_head c wd [] Hj) as (Hc & _).
  exists c, wd. split; [reflexivity|]. split.
  - unfold is_ws, Resolver.ch. rewrite !(wchar_ne c _ Hc) by reflexivity. reflexivity.
  - apply wchar_ne; [exact Hc|reflexivity].
Qed.

Lemma json_text_head v t : json_text v t -> tokhead t.
Proof.
  destruct 1.
  - apply jword_tokhead. apply literal_jword.
  - apply jword_tokhead. destruct b; apply literal_jword.
  - apply jword_tokhead. apply json_number_jword. assumption.
  - exists 34; eexists; repeat split.
  - exists 91; eexists; repeat split.
  - exists 91; eexists; repeat split.
  - exists 123; eexists; repeat split.
  - exists 123; eexists; repeat split.
Qed.

Lemma tokhead_app_l X Y : tokhead X -> tokhead (X ++ Y).
Proof. intros (c & cs & -> & A & B). exists c, (cs ++ Y). repeat split; assumption. Qed.

Lemma elems_lead es body : elems_text es body ->
  exists wl X, body = wl ++ X /\ wsb wl = true /\ tokhead X /\ forall wl', wsb wl' = true -> elems_text es (wl' ++ X).
Proof.
  destruct 1 as [v w1 t w2 Hw1 Ht Hw2 | v w1 t w2 r body Hw1 Ht Hw2 Hr].
  - exists w1, (t ++ w2). repeat split; [exact Hw1|apply tokhead_app_l; eapply json_text_head; eauto|].
    intros wl' Hwl'. apply et_one; assumption.
  - exists w1, (t ++ w2 ++ 44 :: body). repeat split; [exact Hw1|apply tokhead_app_l; eapply json_text_head; eauto|].
    intros wl' Hwl'. apply et_cons; assumption.
Qed.

Lemma members_lead ms body : members_text ms body ->
  exists wl X, body = wl ++ X /\ wsb wl = true /\ tokhead X /\ forall wl', wsb wl' = true -> members_text ms (wl' ++ X).
Proof.
  destruct 1 as [k v w1 kt w2 w3 t w4 Hw1 Hk Hw2 Hw3 Ht Hw4 | k v w1 kt w2 w3 t w4 r body Hw1 Hk Hw2 Hw3 Ht Hw4 Hr].
  - exists w1, (34 :: kt ++ 34 :: w2 ++ 58 :: w3 ++ t ++ w4). repeat split; [exact Hw1|exists 34; eexists; repeat split|].
    intros wl' Hwl'. apply mt_one; assumption.
  - exists w1, (34 :: kt ++ 34 :: w2 ++ 58 :: w3 ++ t ++ w4 ++ 44 :: body). repeat split; [exact Hw1|exists 34; eexists; repeat split|].
    intros wl' Hwl'. apply mt_cons; assumption.
Qed.

Lemma elems_nonempty es body : elems_text es body -> es <> [].
Proof. destruct 1; discriminate. Qed.
Lemma members_nonempty ms body : members_text ms body -> ms <> [].
Proof. destruct 1; discriminate. Qed.

(* the tokens of the entries of a collection *)
Definition etoks (es : list jvalue) : list tok :=
  match es with [] => [] | x :: r => json_tokens x ++ flat_map (fun y => TFlowEntry :: json_tokens y) r end.
Definition mtok (kv : Resolver.str * jvalue) : list tok := TKey :: TScalar DoubleQuoted (fst kv) :: TValue :: json_tokens (snd kv).
Definition mtoks (ms : list (Resolver.str * jvalue)) : list tok :=
  match ms with [] => [] | kv :: r => mtok kv ++ flat_map (fun kv => TFlowEntry :: mtok kv) r end.

Lemma etoks_cons v r : r <> [] -> etoks (v :: r) = json_tokens v ++ TFlowEntry :: etoks r.
Proof. destruct r as [|x r']; [congruence|]. reflexivity. Qed.
Lemma mtoks_cons kv r : r <> [] -> mtoks (kv :: r) = mtok kv ++ TFlowEntry :: mtoks r.
Proof. destruct r as [|x r']; [congruence|]. reflexivity. Qed.
Lemma json_tokens_arr es : json_tokens (JArr es) = TFlowSequenceStart :: etoks es ++ [TFlowSequenceEnd].
Proof. reflexivity. Qed.
Lemma json_tokens_obj ms : json_tokens (JObj ms) = TFlowMappingStart :: mtoks ms ++ [TFlowMappingEnd].
Proof. destruct ms; reflexivity. Qed.

(* ---------- the entries of an array ---------- *)
Definition AllScan (v : jvalue) : Prop := forall t, json_text v t -> NodeScan v t.

Lemma elems_scan : forall es, Forall AllScan es -> forall body, elems_text es body ->
  forall F R l mk q adj ska p tn km tls fl tp lws ifr,
    nth 0 R 0 = 93 -> 0 < fl -> Forall (fun v => fl + N.of_nat (json_depth v) <= 255) es -> q <> [] -> needy tp tls ->
    (2 * length (body ++ R) + 10 <= F)%nat ->
    runs F (mkst (body ++ R) l mk q adj ska (skey p tn km :: tls) fl tp false lws (ImPossible :: ifr))
         (after_node false tp R q (etoks es) tls fl (ImPossible :: ifr) (length (body ++ R)) body).
Proof.
  induction es as [|v r IH]; intros Hall body Het F R l mk q adj ska p tn km tls fl tp lws ifr HR Hfl Hdep Hq Hnd HF.
  { inversion Het. }
  inversion Hall as [|? ? Hv Hr]; subst. inversion Hdep as [|? ? Hdv Hdr]; subst.
  inversion Het as [v0 w1 t w2 Hw1 Ht Hw2 | v0 w1 t w2 r0 body' Hw1 Ht Hw2 Hrt]; subst.
  - (* the last element *)
    rewrite <- !app_assoc in *.
    eapply runs_mono; [apply (Hv t Ht F w1 w2 R l mk q adj ska p tn km tls fl tp lws (ImPossible :: ifr)); try assumption; right; left; exact HR|].
    intros k s' (w1' & l' & mk' & adj' & ska' & lws' & p' & tn' & km' & toks & -> & A & B & C & D & E & G & _).
    exists w1', l', mk', adj', ska', lws', p', tn', km', toks. cbn [etoks flat_map]. rewrite app_nil_r.
    repeat split; auto; try (intros; discriminate). len.
  - (* an element, a comma, more elements *)
    assert (Ech : (w1 ++ t ++ w2 ++ 44 :: body') ++ R = w1 ++ t ++ w2 ++ 44 :: body' ++ R) by (rewrite <- !app_assoc; reflexivity).
    rewrite Ech in *.
    eapply runs_bind; [apply (Hv t Ht F w1 w2 (44 :: body' ++ R) l mk q adj ska p tn km tls fl tp lws (ImPossible :: ifr)); try assumption; left; reflexivity|].
    intros k s' (w2' & l' & mk' & adj' & ska' & lws' & p' & tn' & km' & toks & -> & A & B & C & D & E & G & _).
    destruct (elems_lead r body' Hrt) as (wl & X & -> & Hwl & HX & Hre).
    destruct (tokhead_app X R HX) as [HtsX _].
    rewrite <- app_assoc in *.
    destruct (fnt_comma F true w2' wl (X ++ R) l' mk' (q ++ toks) adj' ska' p' tn' km' tls fl tp false lws' ifr A Hwl HtsX) as
      (l2 & mk2 & wl' & sp & E2 & Hwl' & Hlen2); [len|len|exact Hfl|].
    eapply runs_step; [apply busy_flow; [apply app_ne; exact Hq|exact Hfl|apply needy_cons; exact Hnd]|exact E2|].
    rewrite app_assoc.
    eapply runs_mono; [apply (IH Hr (wl' ++ X) (Hre wl' Hwl') F R l2 mk2 ((q ++ toks) ++ [(sp, TFlowEntry)]) adj' true false tn' km' tls fl tp false ifr);
                         try assumption; [apply app_ne, app_ne; exact Hq|len]|].
    intros k2 s2 (w3 & l3 & mk3 & adj3 & ska3 & lws3 & p3 & tn3 & km3 & toks3 & -> & A3 & B3 & C3 & D3 & E3 & G3 & _).
    exists w3, l3, mk3, adj3, ska3, lws3, p3, tn3, km3, (toks ++ (sp, TFlowEntry) :: toks3).
    rewrite (etoks_cons v r (elems_nonempty _ _ Hrt)).
    repeat split; auto; try (intros; discriminate).
    + rewrite <- !app_assoc. reflexivity.
    + len.
    + unfold token in *. rewrite map_app, map_cons, C, C3. reflexivity.
    + len.
    + len.
    + len.
Qed.

(* ---------- the members of an object ---------- *)
(* one member: the name (a simple key is saved: simple keys are allowed after '{' and ','), the ':' directly behind it or behind
   whitespace (sc_adjacent), the value *)
Lemma member_scan k v kt t : AllScan v -> str_text k kt -> json_text v t ->
  forall F w1 w2 w3 w4 rest2 l mk q adj p tn km tls fl tp lws ifr,
    wsb w1 = true -> wsb w2 = true -> wsb w3 = true -> wsb w4 = true -> follow3 rest2 -> 0 < fl ->
    fl + N.of_nat (json_depth v) <= 255 -> q <> [] -> needy tp tls ->
    (2 * length (w1 ++ 34%N :: kt ++ 34%N :: w2 ++ 58%N :: w3 ++ t ++ w4 ++ rest2) + 10 <= F)%nat ->
    runs F (mkst (w1 ++ 34 :: kt ++ 34 :: w2 ++ 58 :: w3 ++ t ++ w4 ++ rest2) l mk q adj true (skey p tn km :: tls) fl tp false lws (ImMapping :: ifr))
         (after_node false tp rest2 q (mtok (k, v)) tls fl (ImMapping :: ifr) (length (w1 ++ 34%N :: kt ++ 34%N :: w2 ++ 58%N :: w3 ++ t ++ w4 ++ rest2)) w4).
Proof.
  intros Hv Hk Ht F w1 w2 w3 w4 rest2 l mk q adj p tn km tls fl tp lws ifr Hw1 Hw2 Hw3 Hw4 Hfol Hfl Hdep Hq Hnd HF.
  destruct (str_items k kt Hk) as (items & Hwf & Hsrc & Hval & Hlen). subst kt.
  assert (Hsf : sfollow fl 58 = true) by (unfold sfollow; replace (0 <? fl) with true by (symmetry; apply N.ltb_lt; exact Hfl); reflexivity).
  destruct (fnt_string F items w1 w2 (58 :: w3 ++ t ++ w4 ++ rest2) l mk q adj true p tn km tls fl tp false lws (ImMapping :: ifr) Hwf Hw1 Hw2) as
    (l1 & mk1 & lws1 & ska1 & sp & p1 & tn1 & km1 & E1 & _ & Hkey); [repeat split; reflexivity|exact Hsf|len|len|len|apply calm_pos; exact Hfl|].
  destruct (Hkey eq_refl) as [-> ->].
  eapply runs_step; [apply busy_flow; [exact Hq|exact Hfl|apply needy_cons; exact Hnd]|exact E1|].
  destruct (fnt_colon F (w3 ++ t ++ w4 ++ rest2) l1 mk1 q (sp, TScalar DoubleQuoted (map item_val items)) ska1 km1 tls fl tp false lws1 ifr) as
    (l2 & mk2 & sp1 & sp2 & E2); [len|exact Hfl|].
  eapply runs_step; [apply busy_flow; [apply app_ne; exact Hq|exact Hfl|apply needy_cons; exact Hnd]|exact E2|].
  eapply runs_mono; [apply (Hv t Ht F w3 w4 rest2 l2 mk2 ((q ++ [(sp1, TKey); (sp, TScalar DoubleQuoted (map item_val items))]) ++ [(sp2, TValue)])
                              (m_index mk1) false false (tp + N.of_nat (length q)) km1 tls fl tp false (ImMapping :: ifr));
                       try assumption; [apply app_ne, app_ne; exact Hq|len]|].
  intros k3 s3 (w4' & l3 & mk3 & adj3 & ska3 & lws3 & p3 & tn3 & km3 & toks3 & -> & A3 & B3 & C3 & D3 & E3 & G3 & _).
  exists w4', l3, mk3, adj3, ska3, lws3, p3, tn3, km3, ((sp1, TKey) :: (sp, TScalar DoubleQuoted (map item_val items)) :: (sp2, TValue) :: toks3).
  repeat split; auto; try (intros; discriminate).
  - rewrite <- !app_assoc. reflexivity.
  - unfold token in *. cbn [map snd mtok fst]. rewrite C3, Hval. reflexivity.
  - len.
  - len.
Qed.

Lemma members_scan : forall ms, Forall (fun kv => AllScan (snd kv)) ms -> forall body, members_text ms body ->
  forall F R l mk q adj p tn km tls fl tp lws ifr,
    nth 0 R 0 = 125 -> 0 < fl -> Forall (fun kv => fl + N.of_nat (json_depth (snd kv)) <= 255) ms -> q <> [] -> needy tp tls ->
    (2 * length (body ++ R) + 10 <= F)%nat ->
    runs F (mkst (body ++ R) l mk q adj true (skey p tn km :: tls) fl tp false lws (ImMapping :: ifr))
         (after_node false tp R q (mtoks ms) tls fl (ImMapping :: ifr) (length (body ++ R)) body).
Proof.
  induction ms as [|[k v] r IH]; intros Hall body Hmt F R l mk q adj p tn km tls fl tp lws ifr HR Hfl Hdep Hq Hnd HF.
  { inversion Hmt. }
  inversion Hall as [|? ? Hv Hr]; subst. inversion Hdep as [|? ? Hdv Hdr]; subst. cbn [snd] in Hv, Hdv.
  inversion Hmt as [k0 v0 w1 kt w2 w3 t w4 Hw1 Hk Hw2 Hw3 Ht Hw4 | k0 v0 w1 kt w2 w3 t w4 r0 body' Hw1 Hk Hw2 Hw3 Ht Hw4 Hrt]; subst.
  - (* the last member *)
    assert (Ech : (w1 ++ 34 :: kt ++ 34 :: w2 ++ 58 :: w3 ++ t ++ w4) ++ R = w1 ++ 34 :: kt ++ 34 :: w2 ++ 58 :: w3 ++ t ++ w4 ++ R).
    { repeat (rewrite <- app_assoc || (progress cbn [app])). reflexivity. }
    rewrite Ech in *.
    eapply runs_mono; [apply (member_scan k v kt t Hv Hk Ht F w1 w2 w3 w4 R l mk q adj p tn km tls fl tp lws ifr); try assumption; right; right; exact HR|].
    intros k1 s' (w1' & l' & mk' & adj' & ska' & lws' & p' & tn' & km' & toks & -> & A & B & C & D & E & G & _).
    exists w1', l', mk', adj', ska', lws', p', tn', km', toks. cbn [mtoks flat_map]. rewrite app_nil_r.
    repeat split; auto; try (intros; discriminate). len.
  - (* a member, a comma, more members *)
    assert (Ech : (w1 ++ 34 :: kt ++ 34 :: w2 ++ 58 :: w3 ++ t ++ w4 ++ 44 :: body') ++ R
                  = w1 ++ 34 :: kt ++ 34 :: w2 ++ 58 :: w3 ++ t ++ w4 ++ 44 :: body' ++ R).
    { repeat (rewrite <- app_assoc || (progress cbn [app])). reflexivity. }
    rewrite Ech in *.
    eapply runs_bind; [apply (member_scan k v kt t Hv Hk Ht F w1 w2 w3 w4 (44 :: body' ++ R) l mk q adj p tn km tls fl tp lws ifr); try assumption; left; reflexivity|].
    intros k1 s' (w4' & l' & mk' & adj' & ska' & lws' & p' & tn' & km' & toks & -> & A & B & C & D & E & G & _).
    destruct (members_lead r body' Hrt) as (wl & X & -> & Hwl & HX & Hre).
    destruct (tokhead_app X R HX) as [HtsX _].
    rewrite <- app_assoc in *.
    destruct (fnt_comma F false w4' wl (X ++ R) l' mk' (q ++ toks) adj' ska' p' tn' km' tls fl tp false lws' ifr A Hwl HtsX) as
      (l2 & mk2 & wl' & sp & E2 & Hwl' & Hlen2); [len|len|exact Hfl|].
    eapply runs_step; [apply busy_flow; [apply app_ne; exact Hq|exact Hfl|apply needy_cons; exact Hnd]|exact E2|].
    rewrite app_assoc.
    eapply runs_mono; [apply (IH Hr (wl' ++ X) (Hre wl' Hwl') F R l2 mk2 ((q ++ toks) ++ [(sp, TFlowEntry)]) adj' false tn' km' tls fl tp false ifr);
                         try assumption; [apply app_ne, app_ne; exact Hq|len]|].
    intros k2 s2 (w5 & l3 & mk3 & adj3 & ska3 & lws3 & p3 & tn3 & km3 & toks3 & -> & A3 & B3 & C3 & D3 & E3 & G3 & _).
    exists w5, l3, mk3, adj3, ska3, lws3, p3, tn3, km3, (toks ++ (sp, TFlowEntry) :: toks3).
    rewrite (mtoks_cons (k, v) r (members_nonempty _ _ Hrt)).
    repeat split; auto; try (intros; discriminate).
    + rewrite <- !app_assoc. reflexivity.
    + len.
    + unfold token in *. rewrite map_app, map_cons, C, C3. reflexivity.
    + len.
    + len.
    + len.
Qed.

(* ---------- collections ---------- *)
Lemma depth_arr_le l v : In v l -> (json_depth v <= fold_right (fun x m => Nat.max (json_depth x) m) 0 l)%nat.
Proof. induction l as [|x l IH]; [contradiction|]. cbn [fold_right In]. intros [->|H]; [lia|]. specialize (IH H). lia. Qed.
Lemma depth_obj_le (l : list (Resolver.str * jvalue)) kv : In kv l ->
  (json_depth (snd kv) <= fold_right (fun kv m => Nat.max (json_depth (snd kv)) m) 0 l)%nat.
Proof. induction l as [|x l IH]; [contradiction|]. cbn [fold_right In]. intros [->|H]; [lia|]. specialize (IH H). lia. Qed.

Lemma app_ne_r {A} (q : list A) t r : q ++ t :: r <> [].
Proof. destruct q; discriminate. Qed.

(* the context of a collection: inside another collection (the enclosing levels hold the pending root key), or at the top of the
   document (the collection's own simple key is the root key) *)
Definition coll_ctx (rest2 : list N) (q : list token) (ska : bool) (p : bool) (tn : N) (km : marker) (tls : list simple_key) (fl tp : N) : Prop :=
  (0 < fl /\ q <> [] /\ needy tp tls /\ follow3 rest2) \/ (fl = 0 /\ q = [] /\ ska = true /\ p = false /\ tls = [] /\ rest2 = []).

Lemma coll_ctx_facts rest2 q ska p tn km tls fl tp l mk adj lws ifms cs :
  coll_ctx rest2 q ska p tn km tls fl tp ->
  need_comp (mkst cs l mk q adj ska (skey p tn km :: tls) fl tp false lws ifms) = Ok (true, mkst cs l mk q adj ska (skey p tn km :: tls) fl tp false lws ifms)
  /\ calm fl (skey p tn km :: tls) /\ tokstart rest2
  /\ (forall key2, (ska = true -> exists m, key2 = skey true (tp + N.of_nat (length q)) m) -> (0 < fl -> ska = false -> key2 = skey p tn km) ->
      (exists p2 tn2 km2, key2 = skey p2 tn2 km2) /\ needy tp (key2 :: tls)).
Proof.
  intros [(Hfl & Hq & Hnd & Hfol) | (-> & -> & -> & -> & -> & ->)].
  - destruct (follow3_facts rest2 fl Hfol Hfl) as (Hts & _).
    split; [apply busy_flow; [exact Hq|exact Hfl|apply needy_cons; exact Hnd]|]. split; [apply calm_pos; exact Hfl|]. split; [exact Hts|].
    intros key2 A B. split; [|destruct ska; [destruct (A eq_refl) as (m & ->)|rewrite (B Hfl eq_refl)]; apply needy_cons; exact Hnd].
    destruct ska; [destruct (A eq_refl) as (m & ->); eauto|rewrite (B Hfl eq_refl); eauto].
  - split; [apply need_empty|]. split; [right; repeat constructor|]. split; [split; reflexivity|].
    intros key2 A _. destruct (A eq_refl) as (m & ->). split; [eauto|]. cbn [length N.of_nat]. rewrite N.add_0_r. apply needy_here.
Qed.

Definition CollScan (v : jvalue) (t : list N) : Prop :=
  forall F w0 w1 rest2 l mk q adj ska p tn km tls fl tp lws ifms,
    wsb w0 = true -> wsb w1 = true -> coll_ctx rest2 q ska p tn km tls fl tp -> fl + N.of_nat (json_depth v) <= 255 ->
    (2 * length (w0 ++ t ++ w1 ++ rest2) + 10 <= F)%nat ->
    runs F (mkst (w0 ++ t ++ w1 ++ rest2) l mk q adj ska (skey p tn km :: tls) fl tp false lws ifms)
         (after_node ska tp rest2 q (json_tokens v) tls fl ifms (length (w0 ++ t ++ w1 ++ rest2)) w1).

Lemma coll_node v t : CollScan v t -> NodeScan v t.
Proof.
  intros H F w0 w1 rest2 l mk q adj ska p tn km tls fl tp lws ifms Hw0 Hw1 Hfol Hfl Hdep Hq Hnd HF.
  apply H; try assumption. left. auto.
Qed.

Lemma coll_arr es : Forall AllScan es -> forall t, json_text (JArr es) t -> CollScan (JArr es) t.
Proof.
  intros Hall t Ht F w0 w1 rest2 l mk q adj ska p tn km tls fl tp lws ifms Hw0 Hw1 Hctx Hdep HF.
  assert (Hfacts := fun cs => coll_ctx_facts rest2 q ska p tn km tls fl tp l mk adj lws ifms cs Hctx).
  destruct (Hfacts []) as (_ & Hcalm & Hts & Hk2).
  cbn [json_depth] in Hdep.
  inversion Ht as [| | | |w Hw|x l0 body Hbody| |]; subst.
  - (* [ ] *)
    assert (Ech : w0 ++ (91 :: w ++ [93]) ++ w1 ++ rest2 = w0 ++ 91 :: w ++ 93 :: w1 ++ rest2).
    { repeat (rewrite <- app_assoc || (progress cbn [app])). reflexivity. }
    rewrite Ech in *.
    destruct (fnt_open F true w0 w (93 :: w1 ++ rest2) l mk q adj ska (skey p tn km) tls fl tp false lws ifms Hw0 Hw) as
      (l1 & mk1 & w' & sp1 & key2 & E1 & Hw' & Hlen' & K1 & K2); [repeat split; reflexivity|len|len|lia|exact Hcalm|].
    destruct (Hk2 key2 K1 K2) as ((p2 & tn2 & km2 & ->) & Hnd2).
    assert (Kinfo : ska = true -> p2 = true /\ tn2 = tp + N.of_nat (length q)) by (intros Hs; destruct (K1 Hs) as (mm & Em); inversion Em; auto).
    eapply runs_step; [exact (proj1 (Hfacts _))|exact E1|].
    destruct (fnt_close F true w' w1 rest2 l1 mk1 (q ++ [(sp1, open_tok true)]) adj true false 0 mk0 (skey p2 tn2 km2) tls fl tp false false ifms Hw' Hw1 Hts) as
      (l2 & mk2 & w1' & sp2 & adj2 & E2 & Hw1' & Hlen1); [len|len|].
    eapply runs_step; [apply busy_flow; [apply app_ne_r|lia|apply needy_cons; exact Hnd2]|exact E2|].
    apply runs_here. exists w1', l2, mk2, adj2, false, false, p2, tn2, km2, [(sp1, open_tok true); (sp2, close_tok true)].
    repeat split; auto; try (apply Kinfo; assumption).
    + rewrite <- app_assoc. reflexivity.
    + len.
    + cbn [length]. lia.
  - (* [ elements ] *)
    destruct (elems_lead _ _ Hbody) as (wl & X & -> & Hwl & HX & Hre).
    assert (Ech : w0 ++ (91 :: (wl ++ X) ++ [93]) ++ w1 ++ rest2 = w0 ++ 91 :: wl ++ X ++ 93 :: w1 ++ rest2).
    { repeat (rewrite <- app_assoc || (progress cbn [app])). reflexivity. }
    rewrite Ech in *.
    destruct (tokhead_app X (93 :: w1 ++ rest2) HX) as [HtsX _].
    destruct (fnt_open F true w0 wl (X ++ 93 :: w1 ++ rest2) l mk q adj ska (skey p tn km) tls fl tp false lws ifms Hw0 Hwl HtsX) as
      (l1 & mk1 & wl' & sp1 & key2 & E1 & Hwl' & Hlen' & K1 & K2); [len|len|lia|exact Hcalm|].
    destruct (Hk2 key2 K1 K2) as ((p2 & tn2 & km2 & ->) & Hnd2).
    assert (Kinfo : ska = true -> p2 = true /\ tn2 = tp + N.of_nat (length q)) by (intros Hs; destruct (K1 Hs) as (mm & Em); inversion Em; auto).
    eapply runs_step; [exact (proj1 (Hfacts _))|exact E1|].
    rewrite app_assoc.
    eapply runs_bind.
    { apply (elems_scan (x :: l0) Hall (wl' ++ X) (Hre wl' Hwl') F (93 :: w1 ++ rest2) l1 mk1 (q ++ [(sp1, open_tok true)]) adj true false 0 mk0
               (skey p2 tn2 km2 :: tls) (fl + 1) tp false ifms); try reflexivity; try lia.
      - apply Forall_forall. intros v Hv. pose proof (depth_arr_le _ _ Hv). lia.
      - apply app_ne_r.
      - exact Hnd2.
      - len. }
    intros k s' (w3 & l3 & mk3 & adj3 & ska3 & lws3 & p3 & tn3 & km3 & toks3 & -> & A3 & B3 & C3 & D3 & E3 & G3 & _).
    destruct (fnt_close F true w3 w1 rest2 l3 mk3 ((q ++ [(sp1, open_tok true)]) ++ toks3) adj3 ska3 p3 tn3 km3 (skey p2 tn2 km2) tls fl tp false lws3 ifms A3 Hw1 Hts) as
      (l4 & mk4 & w1' & sp4 & adj4 & E4 & Hw1' & Hlen1); [len|len|].
    eapply runs_step; [apply busy_flow; [apply app_ne, app_ne_r|lia|apply needy_cons; exact Hnd2]|exact E4|].
    apply runs_here. exists w1', l4, mk4, adj4, false, false, p2, tn2, km2, ((sp1, open_tok true) :: toks3 ++ [(sp4, close_tok true)]).
    repeat split; auto; try (apply Kinfo; assumption).
    + repeat (rewrite <- app_assoc || (progress cbn [app])). reflexivity.
    + unfold token in *. rewrite json_tokens_arr. cbn [map snd open_tok]. rewrite map_app, C3. reflexivity.
    + len.
    + len.
    + len.
Qed.

Lemma coll_obj ms : Forall (fun kv => AllScan (snd kv)) ms -> forall t, json_text (JObj ms) t -> CollScan (JObj ms) t.
Proof.
  intros Hall t Ht F w0 w1 rest2 l mk q adj ska p tn km tls fl tp lws ifms Hw0 Hw1 Hctx Hdep HF.
  assert (Hfacts := fun cs => coll_ctx_facts rest2 q ska p tn km tls fl tp l mk adj lws ifms cs Hctx).
  destruct (Hfacts []) as (_ & Hcalm & Hts & Hk2).
  cbn [json_depth] in Hdep.
  inversion Ht as [| | | | | |w Hw|m l0 body Hbody]; subst.
  - (* { } *)
    assert (Ech : w0 ++ (123 :: w ++ [125]) ++ w1 ++ rest2 = w0 ++ 123 :: w ++ 125 :: w1 ++ rest2).
    { repeat (rewrite <- app_assoc || (progress cbn [app])). reflexivity. }
    rewrite Ech in *.
    destruct (fnt_open F false w0 w (125 :: w1 ++ rest2) l mk q adj ska (skey p tn km) tls fl tp false lws ifms Hw0 Hw) as
      (l1 & mk1 & w' & sp1 & key2 & E1 & Hw' & Hlen' & K1 & K2); [repeat split; reflexivity|len|len|lia|exact Hcalm|].
    destruct (Hk2 key2 K1 K2) as ((p2 & tn2 & km2 & ->) & Hnd2).
    assert (Kinfo : ska = true -> p2 = true /\ tn2 = tp + N.of_nat (length q)) by (intros Hs; destruct (K1 Hs) as (mm & Em); inversion Em; auto).
    eapply runs_step; [exact (proj1 (Hfacts _))|exact E1|].
    destruct (fnt_close F false w' w1 rest2 l1 mk1 (q ++ [(sp1, open_tok false)]) adj true false 0 mk0 (skey p2 tn2 km2) tls fl tp false false ifms Hw' Hw1 Hts) as
      (l2 & mk2 & w1' & sp2 & adj2 & E2 & Hw1' & Hlen1); [len|len|].
    eapply runs_step; [apply busy_flow; [apply app_ne_r|lia|apply needy_cons; exact Hnd2]|exact E2|].
    apply runs_here. exists w1', l2, mk2, adj2, false, false, p2, tn2, km2, [(sp1, open_tok false); (sp2, close_tok false)].
    repeat split; auto; try (apply Kinfo; assumption).
    + rewrite <- app_assoc. reflexivity.
    + len.
    + cbn [length]. lia.
  - (* { members } *)
    destruct (members_lead _ _ Hbody) as (wl & X & -> & Hwl & HX & Hre).
    assert (Ech : w0 ++ (123 :: (wl ++ X) ++ [125]) ++ w1 ++ rest2 = w0 ++ 123 :: wl ++ X ++ 125 :: w1 ++ rest2).
    { repeat (rewrite <- app_assoc || (progress cbn [app])). reflexivity. }
    rewrite Ech in *.
    destruct (tokhead_app X (125 :: w1 ++ rest2) HX) as [HtsX _].
    destruct (fnt_open F false w0 wl (X ++ 125 :: w1 ++ rest2) l mk q adj ska (skey p tn km) tls fl tp false lws ifms Hw0 Hwl HtsX) as
      (l1 & mk1 & wl' & sp1 & key2 & E1 & Hwl' & Hlen' & K1 & K2); [len|len|lia|exact Hcalm|].
    destruct (Hk2 key2 K1 K2) as ((p2 & tn2 & km2 & ->) & Hnd2).
    assert (Kinfo : ska = true -> p2 = true /\ tn2 = tp + N.of_nat (length q)) by (intros Hs; destruct (K1 Hs) as (mm & Em); inversion Em; auto).
    eapply runs_step; [exact (proj1 (Hfacts _))|exact E1|].
    rewrite app_assoc.
    eapply runs_bind.
    { apply (members_scan (m :: l0) Hall (wl' ++ X) (Hre wl' Hwl') F (125 :: w1 ++ rest2) l1 mk1 (q ++ [(sp1, open_tok false)]) adj false 0 mk0
               (skey p2 tn2 km2 :: tls) (fl + 1) tp false ifms); try reflexivity; try lia.
      - apply Forall_forall. intros kv Hkv. pose proof (depth_obj_le _ _ Hkv). lia.
      - apply app_ne_r.
      - exact Hnd2.
      - len. }
    intros k s' (w3 & l3 & mk3 & adj3 & ska3 & lws3 & p3 & tn3 & km3 & toks3 & -> & A3 & B3 & C3 & D3 & E3 & G3 & _).
    destruct (fnt_close F false w3 w1 rest2 l3 mk3 ((q ++ [(sp1, open_tok false)]) ++ toks3) adj3 ska3 p3 tn3 km3 (skey p2 tn2 km2) tls fl tp false lws3 ifms A3 Hw1 Hts) as
      (l4 & mk4 & w1' & sp4 & adj4 & E4 & Hw1' & Hlen1); [len|len|].
    eapply runs_step; [apply busy_flow; [apply app_ne, app_ne_r|lia|apply needy_cons; exact Hnd2]|exact E4|].
    apply runs_here. exists w1', l4, mk4, adj4, false, false, p2, tn2, km2, ((sp1, open_tok false) :: toks3 ++ [(sp4, close_tok false)]).
    repeat split; auto; try (apply Kinfo; assumption).
    + repeat (rewrite <- app_assoc || (progress cbn [app])). reflexivity.
    + unfold token in *. rewrite json_tokens_obj. cbn [map snd open_tok]. rewrite map_app, C3. reflexivity.
    + len.
    + len.
    + len.
Qed.

(* ---------- every JSON value, every serialisation of it ---------- *)
Section jvalue_induction.
  Variable Pr : jvalue -> Prop.
  Hypothesis Hnull : Pr JNull.
  Hypothesis Hbool : forall b, Pr (JBool b).
  Hypothesis Hnum : forall t, Pr (JNum t).
  Hypothesis Hstr : forall s, Pr (JStr s).
  Hypothesis Harr : forall l, Forall Pr l -> Pr (JArr l).
  Hypothesis Hobj : forall l, Forall (fun kv => Pr (snd kv)) l -> Pr (JObj l).
  Fixpoint jvalue_ind3 (v : jvalue) : Pr v :=
    match v with
    | JNull => Hnull
    | JBool b => Hbool b
    | JNum t => Hnum t
    | JStr s => Hstr s
    | JArr l => Harr l ((fix go (l : list jvalue) : Forall Pr l :=
                           match l with [] => Forall_nil _ | x :: r => Forall_cons x (jvalue_ind3 x) (go r) end) l)
    | JObj l => Hobj l ((fix go (l : list (Resolver.str * jvalue)) : Forall (fun kv => Pr (snd kv)) l :=
                           match l with [] => Forall_nil _ | kv :: r => Forall_cons kv (jvalue_ind3 (snd kv)) (go r) end) l)
    end.
End jvalue_induction.

Theorem node_scan : forall v, AllScan v.
Proof.
  induction v using jvalue_ind3.
  - intros t Ht. inversion Ht; subst. apply node_plain; [apply literal_jword|reflexivity].
  - intros t Ht. inversion Ht; subst. apply node_plain; [destruct b; apply literal_jword|reflexivity].
  - intros t0 Ht. inversion Ht; subst. apply node_plain; [apply json_number_jword; assumption|reflexivity].
  - intros t Ht. inversion Ht; subst. apply node_string. assumption.
  - intros t Ht. apply coll_node, coll_arr; assumption.
  - intros t Ht. apply coll_node, coll_obj; assumption.
Qed.
