(* C15 prefix stability of the scanner (see ScanPrefix.v): the PRIMITIVES family - port of ScanShiftPrim.v. *)
From Coq Require Import List NArith ZArith Bool Arith Lia.
Import ListNotations.
Require Import Parser SBase SPrim SDir SScalar SFetch ScanPrefix.
Local Open Scope nat_scope.

(* ---------------- lists ---------------- *)
Lemma tl_skipn {A} n (l : list A) : tl (skipn n l) = skipn (S n) l.
Proof.
  revert l; induction n as [|n IH]; intros l; [destruct l; reflexivity|].
  destruct l as [|a l]; [reflexivity|]. change (skipn (S (S n)) (a :: l)) with (skipn (S n) l).
  change (skipn (S n) (a :: l)) with (skipn n l). apply IH.
Qed.
Lemma skipn_add {A} a b (l : list A) : skipn a (skipn b l) = skipn (b + a) l.
Proof.
  revert l; induction b as [|b IH]; intros l; [reflexivity|].
  destruct l as [|x l]; [destruct a; reflexivity|]. change (skipn (S b) (x :: l)) with (skipn b l).
  change (skipn (S b + a) (x :: l)) with (skipn (b + a) l). apply IH.
Qed.
Lemma F2_existsb {A B} (R : A -> B -> Prop) (f : A -> bool) (g : B -> bool) l1 l2 :
  Forall2 R l1 l2 -> (forall a b, R a b -> f a = g b) -> existsb f l1 = existsb g l2.
Proof. intros H Hfg. induction H as [|a b l1 l2 Hab _ IH]; [reflexivity|]. cbn [existsb]. rewrite (Hfg a b Hab), IH. reflexivity. Qed.
Lemma F2_map {A B A' B'} (R : A -> B -> Prop) (R' : A' -> B' -> Prop) (f : A -> A') (g : B -> B') l1 l2 :
  Forall2 R l1 l2 -> (forall a b, R a b -> R' (f a) (g b)) -> Forall2 R' (map f l1) (map g l2).
Proof. intros H Hfg. induction H; cbn [map]; constructor; auto. Qed.
Lemma F2_tl {A B} (R : A -> B -> Prop) l1 l2 : Forall2 R l1 l2 -> Forall2 R (tl l1) (tl l2).
Proof. intros H. destruct H; [constructor|assumption]. Qed.
Lemma F2_last {A B} (R : A -> B -> Prop) l1 l2 d1 d2 : Forall2 R l1 l2 -> R d1 d2 -> R (last l1 d1) (last l2 d2).
Proof.
  intros H Hd. induction H as [|a b l1 l2 Hab H IH]; [exact Hd|].
  destruct H as [|a' b' l1 l2 Hab' H]; [exact Hab|]. exact IH.
Qed.
Lemma F2_nil_iff {A B} (R : A -> B -> Prop) l1 l2 : Forall2 R l1 l2 ->
  match l1 with [] => false | _ => true end = match l2 with [] => false | _ => true end.
Proof. intros H. destruct H; reflexivity. Qed.
Lemma F2_insert_at {A B} (R : A -> B -> Prop) n x y l1 l2 : Forall2 R l1 l2 -> R x y ->
  match insert_at n x l1, insert_at n y l2 with
  | Some r1, Some r2 => Forall2 R r1 r2
  | None, None => True
  | _, _ => False
  end.
Proof.
  intros H Hxy. revert l1 l2 H. induction n as [|n IH]; intros l1 l2 H.
  - cbn [insert_at]. constructor; assumption.
  - destruct H as [|a b l1 l2 Hab H]; cbn [insert_at]; [exact I|].
    specialize (IH l1 l2 H). destruct (insert_at n x l1), (insert_at n y l2); try tauto. constructor; assumption.
Qed.

(* [bwp_if H]: both sides branch on the same test *)
Ltac bwp_if H :=
  match goal with
  | |- swp _ (if ?c1 then _ else _) (if ?c2 then _ else _) _ _ _ =>
      first [ constr_eq c1 c2 | replace c2 with c1 by (b1_norm; sh_fwd H; reflexivity) ];
      let Eb := fresh "Eb" in destruct c1 eqn:Eb
  end.

Ltac ne_tl :=
  match goal with
  | HS : SH _ ?s _, HN : nbz (rn ?s 0), HR : rm ?t = tl (rm ?s) |- rm ?t <> [] => exact (SH_ne_tl _ _ _ _ HS HN HR)
  | HS : SH _ ?s _, HN : is_breakz (rn ?s 0) = false, HR : rm ?t = tl (rm ?s) |- rm ?t <> [] => exact (SH_ne_tl _ _ _ _ HS HN HR)
  end.

Section Generic.
Variable d : list chr.
Local Notation bwp := (swp d).
Local Notation skel_post Q s1 :=
  (forall t1 t2, SH d t1 t2 -> rm t1 = rm s1 -> Q tt t1 tt t2).

(* calling a contract *)
Lemma bwp_call {A1 A2 B1 B2} (VR : A1 -> A2 -> Prop) (m1 : BM A1) (m2 : BM A2) (f1 : A1 -> BM B1) (f2 : A2 -> BM B2)
  (Q : B1 -> bst -> B2 -> bst -> Prop) s1 s2 :
  bwp m1 m2 (bpost d VR) s1 s2 ->
  (forall a1 a2 t1 t2, VR a1 a2 -> SH d t1 t2 -> bwp (f1 a1) (f2 a2) Q t1 t2) ->
  bwp (bind m1 f1) (bind m2 f2) Q s1 s2.
Proof. intros H HK. apply bwp_bind. eapply bwp_mono; [exact H|]. intros a1 t1 a2 t2 [V HB]. apply HK; assumption. Qed.
Lemma bwp_call_eq {A B1 B2} (m1 m2 : BM A) (f1 : A -> BM B1) (f2 : A -> BM B2) (Q : B1 -> bst -> B2 -> bst -> Prop) s1 s2 :
  bwp m1 m2 (bpost d eq) s1 s2 ->
  (forall a t1 t2, SH d t1 t2 -> bwp (f1 a) (f2 a) Q t1 t2) ->
  bwp (bind m1 f1) (bind m2 f2) Q s1 s2.
Proof. intros H HK. eapply bwp_call; [exact H|]. intros a1 a2 t1 t2 <- HB. apply HK. exact HB. Qed.
Lemma bwp_call_al {A1 A2 B1 B2} (VR : A1 -> A2 -> Prop) (m1 : BM A1) (m2 : BM A2) (f1 : A1 -> BM B1) (f2 : A2 -> BM B2)
  (Q : B1 -> bst -> B2 -> bst -> Prop) s1 s2 :
  bwp m1 m2 (bpost_al d VR) s1 s2 ->
  (forall a1 a2 t1 t2, VR a1 a2 -> SH d t1 t2 -> is_break (rn t1 0) = false -> bwp (f1 a1) (f2 a2) Q t1 t2) ->
  bwp (bind m1 f1) (bind m2 f2) Q s1 s2.
Proof. intros H HK. apply bwp_bind. eapply bwp_mono; [exact H|]. intros a1 t1 a2 t2 (V & HB & HA). apply HK; assumption. Qed.
Lemma bwp_call_al_eq {A B1 B2} (m1 m2 : BM A) (f1 : A -> BM B1) (f2 : A -> BM B2) (Q : B1 -> bst -> B2 -> bst -> Prop) s1 s2 :
  bwp m1 m2 (bpost_al d eq) s1 s2 ->
  (forall a t1 t2, SH d t1 t2 -> is_break (rn t1 0) = false -> bwp (f1 a) (f2 a) Q t1 t2) ->
  bwp (bind m1 f1) (bind m2 f2) Q s1 s2.
Proof. intros H HK. eapply bwp_call_al; [exact H|]. intros a1 a2 t1 t2 <- HB HA. apply HK; assumption. Qed.
Lemma bwp_bpost_al_weaken {A1 A2} (VR : A1 -> A2 -> Prop) (m1 : BM A1) (m2 : BM A2) s1 s2 :
  bwp m1 m2 (bpost_al d VR) s1 s2 -> bwp m1 m2 (bpost d VR) s1 s2.
Proof. intros H. eapply bwp_mono; [exact H|]. intros a1 t1 a2 t2 (V & HB & _). split; assumption. Qed.
Lemma bwp_ret_bpost {A1 A2} (VR : A1 -> A2 -> Prop) a1 a2 s1 s2 : VR a1 a2 -> SH d s1 s2 -> bwp (ret a1) (ret a2) (bpost d VR) s1 s2.
Proof. intros V H. apply bwp_ret. split; assumption. Qed.
Lemma bwp_ret_bpost_al {A1 A2} (VR : A1 -> A2 -> Prop) a1 a2 s1 s2 :
  VR a1 a2 -> SH d s1 s2 -> is_break (rn s1 0) = false -> bwp (ret a1) (ret a2) (bpost_al d VR) s1 s2.
Proof. intros V H HA. apply bwp_ret. split; [exact V|split; [exact H|exact HA]]. Qed.

(* the same skeleton read on both sides (premise: [sh_eq]) *)
Lemma bwp_gets_eq {A} (f1 f2 : bst -> A) (Q : A -> bst -> A -> bst -> Prop) s1 s2 :
  f1 s1 = f2 s2 -> Q (f1 s1) s1 (f1 s1) s2 -> bwp (gets f1) (gets f2) Q s1 s2.
Proof. intros E HQ. apply bwp_gets. rewrite <- E. exact HQ. Qed.
Lemma bwp_modify_br (f1 f2 : bst -> bst) (Q : unit -> bst -> unit -> bst -> Prop) s1 s2 :
  SH d (f1 s1) (f2 s2) -> rm (f1 s1) = rm s1 -> skel_post Q s1 -> bwp (modify f1) (modify f2) Q s1 s2.
Proof. intros HB HR HQ. apply bwp_modify. apply HQ; assumption. Qed.
Lemma bwp_put_br (u1 u2 : bst) (Q : unit -> bst -> unit -> bst -> Prop) s1 s2 :
  SH d u1 u2 -> rm u1 = rm s1 -> skel_post Q s1 -> bwp (put u1) (put u2) Q s1 s2.
Proof. intros HB HR HQ. apply bwp_put. apply HQ; assumption. Qed.

(* errors are reported at the mark: same line and column on both sides *)
Lemma bwp_fail_mark {A1 A2} site (Q : A1 -> bst -> A2 -> bst -> Prop) s1 s2 :
  SH d s1 s2 -> bwp (@fail strin A1 site (sc_mark s1)) (@fail strin A2 site (sc_mark s2)) Q s1 s2.
Proof. intros H. apply bwp_fail. exact (sh_mark H). Qed.
Lemma bwp_mark (Q : marker -> bst -> marker -> bst -> Prop) s1 s2 :
  SH d s1 s2 -> (MS d (sc_mark s1) (sc_mark s2) -> Q (sc_mark s1) s1 (sc_mark s2) s2) -> bwp mark mark Q s1 s2.
Proof. intros H HQ. unfold mark. apply bwp_gets. apply HQ. exact (sh_mark H). Qed.
Lemma bwp_mark_fail {A1 A2} site (Q : A1 -> bst -> A2 -> bst -> Prop) s1 s2 :
  SH d s1 s2 -> bwp (bind mark (fun m => @fail strin A1 site m)) (bind mark (fun m => @fail strin A2 site m)) Q s1 s2.
Proof. intros H. apply bwp_bind. apply bwp_mark; [exact H|]. intros HM. apply bwp_fail. exact HM. Qed.

(* ---------------- token queue / flags ---------------- *)
Lemma bwp_push_tok tk1 tk2 (Q : unit -> bst -> unit -> bst -> Prop) s1 s2 :
  SH d s1 s2 -> TS d tk1 tk2 -> skel_post Q s1 -> bwp (push_tok tk1) (push_tok tk2) Q s1 s2.
Proof. intros H HT HQ. unfold push_tok. apply bwp_modify_br; [apply SH_push; assumption|reflexivity|exact HQ]. Qed.
(* insert_token: the same insertion, or the same out-of-range panic *)
Lemma bwp_insert_token p tk1 tk2 (Q : unit -> bst -> unit -> bst -> Prop) s1 s2 :
  SH d s1 s2 -> TS d tk1 tk2 -> skel_post Q s1 -> bwp (insert_token p tk1) (insert_token p tk2) Q s1 s2.
Proof.
  intros H HT HQ. unfold swp, insert_token.
  pose proof (F2_insert_at (TS d) (N.to_nat p) tk1 tk2 _ _ (sh_tokens H) HT) as HI.
  destruct (insert_at (N.to_nat p) tk1 (sc_tokens s1)) as [l1|]; [|exact I].
  destruct (insert_at (N.to_nat p) tk2 (sc_tokens s2)) as [l2|]; [|destruct HI].
  apply HQ; [apply SH_set_tokens; assumption|reflexivity].
Qed.
Lemma bwp_allow_simple_key (Q : unit -> bst -> unit -> bst -> Prop) s1 s2 :
  SH d s1 s2 -> skel_post Q s1 -> bwp allow_simple_key allow_simple_key Q s1 s2.
Proof. intros H HQ. unfold allow_simple_key. apply bwp_modify_br; [apply SH_set_ska; exact H|reflexivity|exact HQ]. Qed.
Lemma bwp_disallow_simple_key (Q : unit -> bst -> unit -> bst -> Prop) s1 s2 :
  SH d s1 s2 -> skel_post Q s1 -> bwp disallow_simple_key disallow_simple_key Q s1 s2.
Proof. intros H HQ. unfold disallow_simple_key. apply bwp_modify_br; [apply SH_set_ska; exact H|reflexivity|exact HQ]. Qed.

(* flow_level / in_flow / is_within_block / col / col_lt_indent: the same value on both sides *)
Lemma bwp_flow_level (Q : N -> bst -> N -> bst -> Prop) s1 s2 :
  SH d s1 s2 -> Q (sc_flow_level s1) s1 (sc_flow_level s1) s2 -> bwp flow_level flow_level Q s1 s2.
Proof. intros H HQ. unfold flow_level. apply bwp_gets_eq; [exact (SH_flow_level H)|exact HQ]. Qed.
Lemma bwp_in_flow (Q : bool -> bst -> bool -> bst -> Prop) s1 s2 :
  SH d s1 s2 -> Q (0 <? sc_flow_level s1)%N s1 (0 <? sc_flow_level s1)%N s2 -> bwp in_flow in_flow Q s1 s2.
Proof. intros H HQ. unfold in_flow. apply bwp_bind. apply bwp_flow_level; [exact H|]. apply bwp_ret. exact HQ. Qed.
Definition within_block1 (s : bst) : bool := match sc_indents s with [] => false | _ => true end.
Lemma bwp_is_within_block (Q : bool -> bst -> bool -> bst -> Prop) s1 s2 :
  SH d s1 s2 -> Q (within_block1 s1) s1 (within_block1 s1) s2 -> bwp is_within_block is_within_block Q s1 s2.
Proof.
  intros H HQ. unfold is_within_block. apply bwp_gets_eq; [|exact HQ]. rewrite (SH_indents H). reflexivity.
Qed.
Lemma bwp_col (Q : N -> bst -> N -> bst -> Prop) s1 s2 :
  SH d s1 s2 -> Q (m_col (sc_mark s1)) s1 (m_col (sc_mark s1)) s2 -> bwp col col Q s1 s2.
Proof. intros H HQ. unfold col. apply bwp_gets_eq; [exact (SH_col H)|exact HQ]. Qed.
Lemma bwp_col_lt_indent (Q : bool -> bst -> bool -> bst -> Prop) s1 s2 :
  SH d s1 s2 ->
  Q (Z.of_N (m_col (sc_mark s1)) <? sc_indent s1)%Z s1 (Z.of_N (m_col (sc_mark s1)) <? sc_indent s1)%Z s2 ->
  bwp col_lt_indent col_lt_indent Q s1 s2.
Proof. intros H HQ. unfold col_lt_indent. apply bwp_gets_eq; [|exact HQ]. rewrite (SH_col H), (SH_indent H). reflexivity. Qed.

(* ---------------- indentation ---------------- *)
Definition NS (o1 o2 : option N) : Prop :=
  match o1, o2 with Some a, Some b => a = b | None, None => True | _, _ => False end.
Lemma NS_none : NS None None. Proof. exact I. Qed.
Lemma shift_ltb a b k : (a + k <? b + k)%N = (a <? b)%N.
Proof. destruct (N.ltb_spec (a + k) (b + k)); destruct (N.ltb_spec a b); try reflexivity; lia. Qed.
Lemma shift_eqb a b k : (a + k =? b + k)%N = (a =? b)%N.
Proof. destruct (N.eqb_spec (a + k) (b + k)); destruct (N.eqb_spec a b); try reflexivity; lia. Qed.
Lemma shift_sub a b k : (a + k - (b + k))%N = (a - b)%N.
Proof. lia. Qed.
Lemma bwp_roll_indent cl number1 number2 tk mk1 mk2 (Q : unit -> bst -> unit -> bst -> Prop) s1 s2 :
  SH d s1 s2 -> MS d mk1 mk2 -> NS number1 number2 -> skel_post Q s1 ->
  bwp (roll_indent cl number1 tk mk1) (roll_indent cl number2 tk mk2) Q s1 s2.
Proof.
  intros H HM HN HQ. unfold roll_indent. apply bwp_bind. apply bwp_get. cbv beta. sh_sync H.
  destruct (0 <? sc_flow_level s1)%N; [apply bwp_ret; apply HQ; [exact H|reflexivity]|].
  match goal with |- context [let '(ind, inds) := ?X in _] => destruct X as [ind inds] end.
  destruct (ind <? Z.of_N cl)%Z.
  - destruct (BLOCK_NESTING_MAX <=? N.of_nat (length inds))%N; [exact I|].
    apply bwp_bind. apply bwp_put_br; [apply SH_set_indent; exact H|reflexivity|]. intros u1 u2 HU RU.
    destruct number1 as [n|], number2 as [n2|]; try contradiction.
    + cbn [NS] in HN. subst n2.
      destruct (n <? sc_tokens_parsed s1)%N; [apply bwp_panic_l|].
      apply bwp_insert_token; [exact HU|apply TS_empty; exact HM|]. intros t1 t2 HT RT. apply HQ; [exact HT|congruence].
    + apply bwp_push_tok; [exact HU|apply TS_empty; exact HM|]. intros t1 t2 HT RT. apply HQ; [exact HT|congruence].
  - apply bwp_put_br; [apply SH_set_indent; exact H|reflexivity|exact HQ].
Qed.

Lemma bwp_unroll_indent_go F1 F2 cl (Q : unit -> bst -> unit -> bst -> Prop) s1 s2 :
  SH d s1 s2 -> skel_post Q s1 -> bwp (unroll_indent_go F1 cl) (unroll_indent_go F2 cl) Q s1 s2.
Proof.
  revert F2 Q s1 s2. induction F1 as [|F1 IH]; intros F2 Q s1 s2 H HQ; [exact I|].
  destruct F2 as [|F2]; [apply bwp_oof_r|].
  cbn [unroll_indent_go]. apply bwp_bind. apply bwp_get. cbv beta. sh_sync H.
  destruct (cl <? sc_indent s1)%Z; [|apply bwp_ret; apply HQ; [exact H|reflexivity]].
  destruct (sc_indents s1) as [|i r] eqn:EI; [apply bwp_panic_l|].
  apply bwp_bind. apply bwp_put_br; [apply SH_set_indent; exact H|reflexivity|]. intros u1 u2 HU RU.
  apply bwp_bind. destruct (in_needs_block_end i).
  - apply bwp_push_tok; [exact HU|apply TS_refl|]. intros v1 v2 HV RV.
    apply IH; [exact HV|]. intros t1 t2 HT RT. apply HQ; [exact HT|congruence].
  - apply bwp_ret. apply IH; [exact HU|]. intros t1 t2 HT RT. apply HQ; [exact HT|congruence].
Qed.
Lemma bwp_unroll_indent cl (Q : unit -> bst -> unit -> bst -> Prop) s1 s2 :
  SH d s1 s2 -> skel_post Q s1 -> bwp (unroll_indent cl) (unroll_indent cl) Q s1 s2.
Proof.
  intros H HQ. unfold unroll_indent. apply bwp_bind. apply bwp_get. cbv beta. sh_sync H.
  destruct (0 <? sc_flow_level s1)%N; [apply bwp_ret; apply HQ; [exact H|reflexivity]|].
  apply bwp_unroll_indent_go; [exact H|exact HQ].
Qed.
Lemma bwp_roll_one_col_indent (Q : unit -> bst -> unit -> bst -> Prop) s1 s2 :
  SH d s1 s2 -> skel_post Q s1 -> bwp roll_one_col_indent roll_one_col_indent Q s1 s2.
Proof.
  intros H HQ. unfold roll_one_col_indent. apply bwp_bind. apply bwp_get. cbv beta. sh_sync H.
  match goal with |- swp _ (if ?b then _ else _) _ _ _ _ => destruct b end.
  - apply bwp_put_br; [apply SH_set_indent; exact H|reflexivity|exact HQ].
  - apply bwp_ret. apply HQ; [exact H|reflexivity].
Qed.
Lemma bwp_unroll_non_block_indents (Q : unit -> bst -> unit -> bst -> Prop) s1 s2 :
  SH d s1 s2 -> skel_post Q s1 -> bwp unroll_non_block_indents unroll_non_block_indents Q s1 s2.
Proof.
  intros H HQ. unfold unroll_non_block_indents. apply bwp_modify. sh_sync H.
  destruct (unroll_nb (sc_indents s1) (sc_indent s1)) as [ind l]. apply HQ; [apply SH_set_indent; exact H|reflexivity].
Qed.

(* ---------------- simple keys ---------------- *)
Lemma bwp_save_simple_key (Q : unit -> bst -> unit -> bst -> Prop) s1 s2 :
  SH d s1 s2 -> skel_post Q s1 -> bwp save_simple_key save_simple_key Q s1 s2.
Proof.
  intros H HQ. unfold save_simple_key. apply bwp_bind. apply bwp_get. cbv beta. sh_sync H.
  destruct (sc_ska s1); [|apply bwp_ret; apply HQ; [exact H|reflexivity]].
  apply bwp_bind.
  assert (HP : forall l, bwp (put (set_sks l s1)) (put (set_sks l s2)) Q s1 s2).
  { intros l. apply bwp_put_br; [|reflexivity|exact HQ]. apply SH_set_sks; [exact H|apply KSs_refl]. }
  match goal with |- swp _ (if ?b then _ else _) _ _ _ _ => destruct b end.
  - destruct (sc_indents s1) as [|i r]; [apply bwp_panic_l|]. apply bwp_ret. apply HP.
  - apply bwp_ret. apply HP.
Qed.
Lemma bwp_remove_simple_key (Q : unit -> bst -> unit -> bst -> Prop) s1 s2 :
  SH d s1 s2 -> skel_post Q s1 -> bwp remove_simple_key remove_simple_key Q s1 s2.
Proof.
  intros H HQ. unfold remove_simple_key. apply bwp_bind. apply bwp_get. cbv beta. sh_sync H.
  destruct (sc_sks s1) as [|k r]; [apply bwp_panic_l|].
  destruct (sk_possible k && sk_required k); [apply bwp_err_l|].
  apply bwp_put_br; [|reflexivity|exact HQ]. apply SH_set_sks; [exact H|apply KSs_refl].
Qed.
Lemma bwp_stale_simple_keys (Q : unit -> bst -> unit -> bst -> Prop) s1 s2 :
  SH d s1 s2 -> skel_post Q s1 -> bwp stale_simple_keys stale_simple_keys Q s1 s2.
Proof.
  intros H HQ. unfold stale_simple_keys. apply bwp_bind. apply bwp_get. cbv beta zeta. sh_sync H.
  match goal with |- swp _ (if ?b then _ else _) _ _ _ _ => destruct b end; [apply bwp_err_l|].
  apply bwp_put_br; [|reflexivity|exact HQ]. apply SH_set_sks; [exact H|apply KSs_refl].
Qed.

Lemma bwp_end_implicit_mapping mk1 mk2 (Q : unit -> bst -> unit -> bst -> Prop) s1 s2 :
  SH d s1 s2 -> MS d mk1 mk2 -> skel_post Q s1 -> bwp (end_implicit_mapping mk1) (end_implicit_mapping mk2) Q s1 s2.
Proof.
  intros H HM HQ. unfold end_implicit_mapping. apply bwp_bind. apply bwp_get. cbv beta. sh_sync H.
  assert (H0 : bwp (ret tt) (ret tt) Q s1 s2) by (apply bwp_ret; apply HQ; [exact H|reflexivity]).
  destruct (sc_ifms s1) as [|[| | |] r]; try exact H0.
  - apply bwp_bind. apply bwp_put_br; [apply SH_set_ifms; exact H|reflexivity|]. intros u1 u2 HU RU.
    apply bwp_push_tok; [exact HU|apply TS_empty; exact HM|]. intros t1 t2 HT RT. apply HQ; [exact HT|congruence].
  - apply bwp_put_br; [apply SH_set_ifms; exact H|reflexivity|exact HQ].
Qed.
(* the opening of a flow collection as one step (the bracket is neither a break nor NUL) *)
Definition flow_open_st (s : bst) : bst :=
  nb1 (set_ska true (set_fl (sc_flow_level s + 1)
        (set_sks ({| sk_possible := false; sk_required := false; sk_token_number := 0; sk_mark := mk0 |} :: sc_sks s) s))).
Lemma flow_open_eval {B} (k : marker -> BM B) (s : bst) :
  bind increase_flow_level (fun _ => bind allow_simple_key (fun _ => bind mark (fun st => bind (skip_non_blank sops) (fun _ => k st)))) s
  = if (sc_flow_level s =? FLOW_LEVEL_MAX)%N then Err 45%N (sc_mark s) else k (sc_mark s) (flow_open_st s).
Proof.
  unfold increase_flow_level. unfold bind at 1 2. unfold get. cbv zeta.
  destruct (sc_flow_level s =? FLOW_LEVEL_MAX)%N; [reflexivity|]. reflexivity.
Qed.
Lemma bwp_flow_open {B1 B2} (k1 : marker -> BM B1) (k2 : marker -> BM B2) (Q : B1 -> bst -> B2 -> bst -> Prop) s1 s2 :
  SH d s1 s2 -> nbz (rn s1 0) ->
  (forall t1 t2, SH d t1 t2 -> rm t1 = tl (rm s1) -> bwp (k1 (sc_mark s1)) (k2 (sc_mark s2)) Q t1 t2) ->
  bwp (bind increase_flow_level (fun _ => bind allow_simple_key (fun _ => bind mark (fun st => bind (skip_non_blank sops) (fun _ => k1 st)))))
      (bind increase_flow_level (fun _ => bind allow_simple_key (fun _ => bind mark (fun st => bind (skip_non_blank sops) (fun _ => k2 st)))))
      Q s1 s2.
Proof.
  intros H H0 HQ. unfold swp. rewrite !flow_open_eval. rewrite <- (SH_flow_level H).
  destruct (sc_flow_level s1 =? FLOW_LEVEL_MAX)%N; [exact I|].
  apply HQ; [|reflexivity]. unfold flow_open_st. rewrite <- (SH_flow_level H).
  apply SH_nb1; [|exact H0]. apply SH_set_ska. apply SH_set_fl. apply SH_set_sks; [exact H|].
  constructor; [reflexivity|exact (sh_sks H)].
Qed.
Lemma bwp_decrease_flow_level (Q : unit -> bst -> unit -> bst -> Prop) s1 s2 :
  SH d s1 s2 -> skel_post Q s1 -> bwp decrease_flow_level decrease_flow_level Q s1 s2.
Proof.
  intros H HQ. unfold decrease_flow_level. apply bwp_bind. apply bwp_get. cbv beta. sh_sync H.
  destruct (0 <? sc_flow_level s1)%N; [|apply bwp_ret; apply HQ; [exact H|reflexivity]].
  destruct (sc_sks s1) as [|k r]; [apply bwp_panic_l|].
  apply bwp_put_br; [|reflexivity|exact HQ].
  apply SH_set_sks; [apply SH_set_fl; exact H|apply KSs_refl].
Qed.

(* ---------------- the bulk input loops (lockstep; two fuels) ---------------- *)
Lemma skipn_tl {A} j (l : list A) : skipn j (tl l) = skipn (S j) l.
Proof. destruct l; [destruct j; reflexivity|reflexivity]. Qed.

(* a class test on the next character: the same answer when side 1 is inside its text, or when the class holds
   neither of NUL nor of '.' *)
Lemma class_same p s1 s2 : SH d s1 s2 -> (forall c, p c = true -> nbz c) -> (p 46%N = false \/ rm s1 <> []) ->
  p (b1 (rn s1 0)) = p (rn s1 0).
Proof.
  intros H Hp HD. destruct (N.eq_dec (rn s1 0) 0) as [E0|N0]; [|rewrite b1_other by exact N0; reflexivity].
  destruct HD as [P46|HE]; [|exfalso; exact (SH_nz d _ _ H HE E0)].
  rewrite E0, b1_0, P46. destruct (p 0%N) eqn:P0; [|reflexivity]. apply Hp in P0. discriminate P0.
Qed.

Lemma bwp_in_skip_while F1 F2 p (Q : N -> bst -> N -> bst -> Prop) s1 s2 :
  SH d s1 s2 -> (forall c, p c = true -> nbz c) -> (p 46%N = false \/ rm s1 <> []) ->
  (forall k t1 t2, SH d t1 t2 -> p (rn t1 0) = false ->
     rm t1 = skipn (N.to_nat k) (rm s1) -> (forall i, i < N.to_nat k -> p (rn s1 i) = true) ->
     (rm s1 <> [] -> rm t1 <> []) -> Q k t1 k t2) ->
  bwp (in_skip_while sops F1 p) (in_skip_while sops F2 p) Q s1 s2.
Proof.
  intros H Hp HD HQ. unfold in_skip_while.
  match goal with |- swp _ (?L F1 0%N) (?L F2 0%N) _ _ _ =>
    assert (HL : forall f1 f2 k u1 u2, SH d u1 u2 -> rm u1 = skipn (N.to_nat k) (rm s1) ->
                   (forall i, i < N.to_nat k -> p (rn s1 i) = true) ->
                   (p 46%N = false \/ rm u1 <> []) -> (rm s1 <> [] -> rm u1 <> []) -> bwp (L f1 k) (L f2 k) Q u1 u2) end.
  { induction f1 as [|f1 IHf]; intros f2 k u1 u2 HU RU PU DU NU; [exact I|].
    destruct f2 as [|f2]; [apply bwp_oof_r|]. lazy beta iota.
    apply bwp_bind. apply (bwp_look_ch d); [exact HU|]. intros v1 v2 HV RV _ _ _.
    assert (DV : p 46%N = false \/ rm v1 <> []) by (destruct DU as [DU|DU]; [left; exact DU|right; rewrite RV; exact DU]).
    rewrite (class_same p v1 v2 HV Hp DV).
    destruct (p (rn v1 0)) eqn:Ep.
    - assert (N0 : nbz (rn v1 0)) by (apply Hp; exact Ep).
      apply bwp_bind. apply (bwp_in_skip d); [exact HV|exact N0|]. intros w1 w2 HW RW _ _.
      assert (NW : rm w1 <> []) by (ne_tl).
      apply IHf; [exact HW| | |right; exact NW|intros _; exact NW].
      + rewrite RW, RV, RU, tl_skipn. f_equal. lia.
      + intros i Hi. destruct (Nat.eq_dec i (N.to_nat k)) as [->|Hne]; [|apply PU; lia].
        rewrite <- Ep. rewrite (rn_eq v1 u1 0 RV). rewrite (rn_skipn u1 s1 _ 0 RU). rewrite Nat.add_0_r. reflexivity.
    - apply bwp_ret. apply HQ; try assumption; [congruence|]. intros HE. rewrite RV. apply NU. exact HE. }
  apply HL; [exact H|reflexivity| |exact HD|auto]. intros i Hi. cbn in Hi. lia.
Qed.
Lemma bwp_in_skip_while_non_breakz F1 F2 (Q : N -> bst -> N -> bst -> Prop) s1 s2 :
  SH d s1 s2 -> rm s1 <> [] ->
  (forall k t1 t2, SH d t1 t2 -> is_breakz (rn t1 0) = true ->
     rm t1 = skipn (N.to_nat k) (rm s1) -> (forall i, i < N.to_nat k -> is_breakz (rn s1 i) = false) ->
     rm t1 <> [] -> Q k t1 k t2) ->
  bwp (in_skip_while_non_breakz sops F1) (in_skip_while_non_breakz sops F2) Q s1 s2.
Proof.
  intros H HE HQ. unfold in_skip_while_non_breakz. apply bwp_in_skip_while; [exact H| |right; exact HE|].
  - intros c Hc. apply negb_true_iff. exact Hc.
  - intros k t1 t2 HT PT RT AT NT. apply HQ; try assumption.
    + apply negb_false_iff. exact PT.
    + intros i Hi. apply negb_true_iff. apply AT. exact Hi.
    + apply NT. exact HE.
Qed.
Lemma blank_nbz c : is_blank c = true -> nbz c.
Proof. intros E. nbz_by E. Qed.
Lemma bwp_in_skip_while_blank F1 F2 (Q : N -> bst -> N -> bst -> Prop) s1 s2 :
  SH d s1 s2 ->
  (forall k t1 t2, SH d t1 t2 -> is_blank (rn t1 0) = false ->
     rm t1 = skipn (N.to_nat k) (rm s1) -> (forall i, i < N.to_nat k -> is_blank (rn s1 i) = true) ->
     (rm s1 <> [] -> rm t1 <> []) -> Q k t1 k t2) ->
  bwp (in_skip_while_blank sops F1) (in_skip_while_blank sops F2) Q s1 s2.
Proof.
  intros H HQ. unfold in_skip_while_blank. apply bwp_in_skip_while; [exact H|exact blank_nbz|left; reflexivity|exact HQ].
Qed.

Lemma bwp_in_fetch_while_alpha F1 F2 acc (Q : list chr * N -> bst -> list chr * N -> bst -> Prop) s1 s2 :
  SH d s1 s2 ->
  (forall r t1 t2, SH d t1 t2 -> is_alpha (rn t1 0) = false ->
     rm t1 = skipn (N.to_nat (snd r)) (rm s1) ->
     (forall i, i < N.to_nat (snd r) -> is_alpha (rn s1 i) = true) -> (rm s1 <> [] -> rm t1 <> []) -> Q r t1 r t2) ->
  bwp (in_fetch_while_alpha sops F1 acc) (in_fetch_while_alpha sops F2 acc) Q s1 s2.
Proof.
  intros H HQ. unfold in_fetch_while_alpha.
  match goal with |- swp _ (?L F1 acc 0%N) (?L F2 acc 0%N) _ _ _ =>
    assert (HL : forall f1 f2 a k u1 u2, SH d u1 u2 -> rm u1 = skipn (N.to_nat k) (rm s1) ->
                   (forall i, i < N.to_nat k -> is_alpha (rn s1 i) = true) -> (rm s1 <> [] -> rm u1 <> []) ->
                   bwp (L f1 a k) (L f2 a k) Q u1 u2) end.
  { induction f1 as [|f1 IHf]; intros f2 a k u1 u2 HU RU PU NU; [exact I|].
    destruct f2 as [|f2]; [apply bwp_oof_r|]. lazy beta iota.
    apply bwp_bind. apply (bwp_look_ch d); [exact HU|]. intros v1 v2 HV RV _ _ _. rewrite b1_is_alpha.
    destruct (is_alpha (rn v1 0)) eqn:Ep.
    - assert (N0 : nbz (rn v1 0)) by (nbz_by Ep).
      apply bwp_bind. apply (bwp_in_skip d); [exact HV|exact N0|]. intros w1 w2 HW RW _ _.
      rewrite (b1_nbz _ N0).
      assert (NW : rm w1 <> []) by (ne_tl).
      apply IHf; [exact HW| | |intros _; exact NW].
      + rewrite RW, RV, RU, tl_skipn. f_equal. lia.
      + intros i Hi. destruct (Nat.eq_dec i (N.to_nat k)) as [->|Hne]; [|apply PU; lia].
        rewrite <- Ep. rewrite (rn_eq v1 u1 0 RV). rewrite (rn_skipn u1 s1 _ 0 RU). rewrite Nat.add_0_r. reflexivity.
    - apply bwp_ret. apply HQ; cbn [snd]; try assumption; [congruence|]. intros HE. rewrite RV. apply NU. exact HE. }
  apply HL; [exact H|reflexivity| |auto]. intros i Hi. cbn in Hi. lia.
Qed.

(* in_skip_ws_to_eol (with its nested comment loop): j characters consumed - blanks and comment text, never a line
   break -; if any was consumed side 1 is not at its end *)
Lemma bwp_in_skip_ws_to_eol F1 F2 stb tab ws n
  (Q : N * option (bool * bool) -> bst -> N * option (bool * bool) -> bst -> Prop) s1 s2 :
  SH d s1 s2 ->
  (forall r j t1 t2, SH d t1 t2 -> fst r = (n + N.of_nat j)%N -> rm t1 = skipn j (rm s1) -> (j = 0 \/ rm t1 <> []) ->
     Q r t1 r t2) ->
  bwp (in_skip_ws_to_eol sops F1 stb tab ws n) (in_skip_ws_to_eol sops F2 stb tab ws n) Q s1 s2.
Proof.
  revert F2 tab ws n Q s1 s2. induction F1 as [|F1 IHF]; intros F2 tab ws n Q s1 s2 H HQ; [exact I|].
  destruct F2 as [|F2]; [apply bwp_oof_r|].
  cbn [in_skip_ws_to_eol].
  apply bwp_bind. apply (bwp_look_ch d); [exact H|]. intros u1 u2 HU RU _ _ _.
  assert (STEP : forall tab' ws' j0 v1 v2, SH d v1 v2 -> rm v1 = skipn j0 (rm s1) -> rm v1 <> [] ->
            bwp (in_skip_ws_to_eol sops F1 stb tab' ws' (n + N.of_nat j0)%N)
                (in_skip_ws_to_eol sops F2 stb tab' ws' (n + N.of_nat j0)%N) Q v1 v2).
  { intros tab' ws' j0 v1 v2 HV RV NV. apply IHF; [exact HV|]. intros r j t1 t2 HT FR RT NT.
    apply (HQ r (j0 + j)); [exact HT|rewrite FR; lia|rewrite RT, RV; apply skipn_add|].
    right. destruct NT as [->|NT]; [|exact NT]. rewrite RT. exact NV. }
  assert (ONE : forall v1 : bst, rm v1 = tl (rm u1) -> rm v1 = skipn 1 (rm s1)).
  { intros v1 RV. rewrite RV, RU. reflexivity. }
  b1_norm.
  destruct (N.eqb_spec (rn u1 0) 32) as [E32|N32].
  { assert (N0 : nbz (rn u1 0)) by (unfold nbz; rewrite E32; reflexivity).
    apply bwp_bind. apply (bwp_in_skip d); [exact HU|exact N0|]. intros v1 v2 HV RV _ _.
    apply (STEP tab true 1 v1 v2); [exact HV|apply ONE; exact RV|ne_tl]. }
  match goal with |- swp _ (if ?b then _ else _) _ _ _ _ => destruct b eqn:Etab end.
  { assert (N0 : nbz (rn u1 0)).
    { apply andb_true_iff in Etab. destruct Etab as [E9 _]. exact (lit_eq_nbz _ 9%N eq_refl E9). }
    apply bwp_bind. apply (bwp_in_skip d); [exact HU|exact N0|]. intros v1 v2 HV RV _ _.
    apply (STEP true ws 1 v1 v2); [exact HV|apply ONE; exact RV|ne_tl]. }
  assert (HQ0 : forall o, Q (n, o) u1 (n, o) u2).
  { intros o. apply (HQ (n, o) 0); [exact HU|cbn [fst]; lia|exact RU|left; reflexivity]. }
  destruct (N.eqb_spec (rn u1 0) 35) as [E35|N35]; [|apply bwp_ret; apply HQ0].
  destruct (negb tab && negb ws); [apply bwp_ret; apply HQ0|].
  assert (N0 : nbz (rn u1 0)) by (unfold nbz; rewrite E35; reflexivity).
  apply bwp_bind. apply (bwp_in_skip d); [exact HU|exact N0|]. intros v1 v2 HV RV _ _.
  assert (NV : rm v1 <> []) by (ne_tl).
  match goal with |- swp _ (?L1 F1 n) (?L2 F2 n) _ _ _ =>
    assert (HL : forall f1 f2 j w1 w2, SH d w1 w2 -> rm w1 = skipn (S j) (rm s1) -> rm w1 <> [] ->
                   bwp (L1 f1 (n + N.of_nat j)%N) (L2 f2 (n + N.of_nat j)%N) Q w1 w2) end.
  { induction f1 as [|f1 IHf]; intros f2 j w1 w2 HW RW NW; [exact I|].
    destruct f2 as [|f2]; [apply bwp_oof_r|]. lazy beta iota.
    apply bwp_bind. apply (bwp_look_ch d); [exact HW|]. intros x1 x2 HX RX _ _ _.
    assert (NX : rm x1 <> []) by (rewrite RX; exact NW).
    rewrite (SH_b1_in d _ _ HX NX).
    destruct (is_breakz (rn x1 0)) eqn:Ebz.
    - replace (n + N.of_nat j + 1)%N with (n + N.of_nat (S j))%N by lia.
      apply STEP; [exact HX|congruence|exact NX].
    - apply bwp_bind. apply (bwp_in_skip d); [exact HX|exact Ebz|]. intros y1 y2 HY RY _ _.
      replace (n + N.of_nat j + 1)%N with (n + N.of_nat (S j))%N by lia.
      apply IHf; [exact HY|rewrite RY, RX, RW; apply tl_skipn|ne_tl]. }
  specialize (HL F1 F2 0 v1 v2 HV (ONE v1 RV) NV). change (N.of_nat 0) with 0%N in HL. rewrite N.add_0_r in HL. exact HL.
Qed.

(* ---------------- the contracts ---------------- *)
Theorem skip_ws_to_eol_ok : shf_skip_ws_to_eol d.
Proof.
  unfold shf_skip_ws_to_eol. intros F1 F2 stb s1 s2 H. unfold skip_ws_to_eol.
  apply bwp_bind. apply bwp_in_skip_ws_to_eol; [exact H|]. intros r j u1 u2 HU FR RU NU.
  apply bwp_bind. apply (bwp_adv_mark d); [exact HU| |].
  { intros E. destruct NU as [->|NU]; [rewrite FR; reflexivity|contradiction]. }
  intros v1 v2 HV RV.
  destruct (snd r) as [tw|]; [|apply bwp_bind; apply bwp_mark; [exact HV|]; intros _; apply bwp_err_l].
  apply bwp_ret. split; [reflexivity|split; [exact HV|]]. intros HE. rewrite RV.
  destruct NU as [->|NU]; [rewrite RU; exact HE|exact NU].
Qed.
(* calling it *)
Lemma bwp_call_ws {B1 B2} F1 F2 stb (f1 : bool * bool -> BM B1) (f2 : bool * bool -> BM B2)
  (Q : B1 -> bst -> B2 -> bst -> Prop) s1 s2 :
  SH d s1 s2 ->
  (forall a t1 t2, SH d t1 t2 -> (rm s1 <> [] -> rm t1 <> []) -> bwp (f1 a) (f2 a) Q t1 t2) ->
  bwp (bind (skip_ws_to_eol sops F1 stb) f1) (bind (skip_ws_to_eol sops F2 stb) f2) Q s1 s2.
Proof.
  intros H HK. apply bwp_bind. eapply bwp_mono; [apply skip_ws_to_eol_ok; exact H|].
  intros a1 t1 a2 t2 (<- & HT & HNE). apply HK; assumption.
Qed.

Theorem skip_to_next_token_ok : shf_skip_to_next_token d.
Proof.
  unfold shf_skip_to_next_token. induction F1 as [|F1 IHF]; intros F2 s1 s2 H; [exact I|].
  destruct F2 as [|F2]; [apply bwp_oof_r|].
  cbn [skip_to_next_token].
  apply bwp_bind. apply (bwp_look_ch d); [exact H|]. intros u1 u2 HU RU _ _ _.
  apply bwp_bind. apply bwp_get. cbv beta.
  apply bwp_bind. apply bwp_is_within_block; [exact HU|]. cbv beta.
  bwp_if HU.
  { (* a tab in the indentation: skip_ws_to_eol, then a break must follow *)
    assert (N0 : nbz (rn u1 0)).
    { repeat (apply andb_true_iff in Eb; destruct Eb as [Eb _]). exact (lit_eq_nbz _ 9%N eq_refl Eb). }
    apply bwp_call_ws; [exact HU|]. intros tw v1 v2 HV NV.
    apply bwp_bind. apply (bwp_next_is_in d); [exact HV|apply NV; apply nbz_ne; exact N0|]. destruct (is_breakz (rn v1 0)).
    - apply IHF. exact HV.
    - apply bwp_bind. apply bwp_mark; [exact HV|]. intros _. apply bwp_err_l. }
  bwp_if HU.
  { (* tab or space *)
    assert (N0 : nbz (rn u1 0)) by (nbz_by Eb0).
    apply bwp_bind. apply (bwp_skip_blank d); [exact HU|exact N0|]. intros v1 v2 HV _. apply IHF. exact HV. }
  bwp_if HU.
  { (* a line break: the same characters consumed on both sides by skip_linebreak *)
    apply bwp_bind. apply (bwp_look d); [exact HU|]. intros v1 v2 HV RV _ _ _ _.
    apply bwp_bind. apply (bwp_skip_linebreak d); [exact HV|]. intros w1 w2 HW _.
    apply bwp_bind. apply bwp_flow_level; [exact HW|]. cbv beta.
    apply bwp_bind. destruct (sc_flow_level w1 =? 0)%N.
    - apply bwp_allow_simple_key; [exact HW|]. intros x1 x2 HX _. apply IHF. exact HX.
    - apply bwp_ret. apply IHF. exact HW. }
  bwp_if HU.
  { (* a comment *)
    assert (N0 : nbz (rn u1 0)) by (exact (lit_eq_nbz _ 35%N eq_refl Eb2)).
    apply bwp_bind. apply bwp_in_skip_while_non_breakz; [exact HU|apply nbz_ne; exact N0|]. intros k v1 v2 HV _ _ _ NV.
    apply bwp_bind. apply (bwp_adv_mark d); [exact HV|intros E; contradiction|]. intros w1 w2 HW _. apply IHF. exact HW. }
  apply bwp_ret_bpost_al; [reflexivity|exact HU|]. exact Eb1.
Qed.

Theorem skip_yaml_whitespace_ok : shf_skip_yaml_whitespace d.
Proof.
  unfold shf_skip_yaml_whitespace. intros F1 F2 s1 s2 H. unfold skip_yaml_whitespace.
  match goal with |- swp _ (?L1 F1 true) (?L2 F2 true) _ _ _ =>
    assert (HL : forall f1 f2 need u1 u2, SH d u1 u2 -> bwp (L1 f1 need) (L2 f2 need) (bpost_al d eq) u1 u2) end.
  { clear s1 s2 H. induction f1 as [|f1 IHf]; intros f2 need s1 s2 H; [exact I|].
    destruct f2 as [|f2]; [apply bwp_oof_r|]. lazy beta iota.
    apply bwp_bind. apply (bwp_look_ch d); [exact H|]. intros u1 u2 HU RU _ _ _.
    bwp_if HU.
    { assert (N0 : nbz (rn u1 0)) by (exact (lit_eq_nbz _ 32%N eq_refl Eb)).
      apply bwp_bind. apply (bwp_skip_blank d); [exact HU|exact N0|]. intros v1 v2 HV _. apply IHf. exact HV. }
    bwp_if HU.
    { apply bwp_bind. apply (bwp_look d); [exact HU|]. intros v1 v2 HV RV _ _ _ _.
      apply bwp_bind. apply (bwp_skip_linebreak d); [exact HV|]. intros w1 w2 HW _.
      apply bwp_bind. apply bwp_flow_level; [exact HW|]. cbv beta.
      apply bwp_bind. destruct (sc_flow_level w1 =? 0)%N.
      - apply bwp_allow_simple_key; [exact HW|]. intros x1 x2 HX _. apply IHf. exact HX.
      - apply bwp_ret. apply IHf. exact HW. }
    bwp_if HU.
    { assert (N0 : nbz (rn u1 0)) by (exact (lit_eq_nbz _ 35%N eq_refl Eb1)).
      apply bwp_bind. apply bwp_in_skip_while_non_breakz; [exact HU|apply nbz_ne; exact N0|]. intros k v1 v2 HV _ _ _ NV.
      apply bwp_bind. apply (bwp_adv_mark d); [exact HV|intros E; contradiction|]. intros w1 w2 HW _. apply IHf. exact HW. }
    destruct need.
    - apply bwp_bind. apply bwp_mark; [exact HU|]. intros _. apply bwp_err_l.
    - apply bwp_ret_bpost_al; [reflexivity|exact HU|]. exact Eb0. }
  apply HL. exact H.
Qed.

Theorem scan_anchor_ok : shf_scan_anchor d.
Proof.
  unfold shf_scan_anchor. intros F1 F2 alias s1 s2 H N0. unfold scan_anchor.
  apply bwp_bind. apply bwp_mark; [exact H|]. intros HM0.
  apply bwp_bind. apply (bwp_skip_non_blank d); [exact H|exact N0|]. intros u1 u2 HU RU.
  assert (NU : rm u1 <> []) by (ne_tl).
  apply bwp_bind.
  match goal with |- swp _ (?L F1 []) (?L F2 []) ?Q _ _ =>
    assert (HL : forall f1 f2 acc v1 v2, SH d v1 v2 -> rm v1 <> [] -> bwp (L f1 acc) (L f2 acc) (bpost d eq) v1 v2) end.
  { induction f1 as [|f1 IH]; intros f2 acc v1 v2 HV NV; [exact I|]. destruct f2 as [|f2]; [apply bwp_oof_r|].
    lazy beta iota. apply bwp_bind. apply (bwp_look_ch d); [exact HV|]. intros w1 w2 HW RW _ _ _.
    assert (NW : rm w1 <> []) by (rewrite RW; exact NV). rewrite (SH_b1_in d _ _ HW NW).
    destruct (is_anchor_char (rn w1 0)) eqn:Ea.
    - assert (Nw : nbz (rn w1 0)) by (nbz_by Ea).
      apply bwp_bind. apply (bwp_skip_non_blank d); [exact HW|exact Nw|]. intros x1 x2 HX RX.
      apply IH; [exact HX|ne_tl].
    - apply bwp_ret_bpost; [reflexivity|exact HW]. }
  eapply bwp_mono; [apply HL; [exact HU|exact NU]|]. intros r1 v1 r2 v2 [<- HV].
  destruct r1 as [|c r]; [apply bwp_err_l|].
  apply bwp_bind. apply bwp_mark; [exact HV|]. intros HM1.
  apply bwp_ret_bpost; [|exact HV]. apply TS_mk. apply SPS_mk; assumption.
Qed.

End Generic.

Print Assumptions skip_ws_to_eol_ok.
Print Assumptions skip_to_next_token_ok.
Print Assumptions skip_yaml_whitespace_ok.
Print Assumptions scan_anchor_ok.
