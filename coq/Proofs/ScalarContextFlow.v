(* C04 in document context, part 2: see the header comment at the theorems below. *)
From Coq Require Import List NArith ZArith Bool Arith Lia.
Import ListNotations.
Require Import Parser SBase SPrim SDir SScalar SFetch Pipe Drivers TokenGrammar FlowText BlockText ScanFlowProofs ScanBlockProofs ScanFrame TokenGrammarProofs TokenStreamProofs FlowFold FlowScalarProofs PlainScalarProofs QuotedFoldProofs ScalarContext ScalarContextQuoted.
Open Scope N_scope.
Open Scope mon_scope.

#[local] Arguments N.eqb : simpl nomatch.
#[local] Arguments Nat.max : simpl nomatch.
#[local] Arguments Nat.leb : simpl nomatch.
#[local] Arguments Nat.ltb : simpl nomatch.
#[local] Arguments Nat.sub : simpl nomatch.
#[local] Arguments N.add : simpl never.
#[local] Arguments N.sub : simpl never.
#[local] Arguments N.mul : simpl never.
#[local] Arguments N.ltb : simpl nomatch.
#[local] Arguments N.leb : simpl nomatch.
#[local] Arguments Z.of_N : simpl never.
#[local] Arguments Z.ltb : simpl never.
#[local] Arguments Z.leb : simpl never.
#[local] Arguments Z.eqb : simpl never.
#[local] Arguments Z.add : simpl never.
#[local] Arguments bind {I A B} m f s /.
#[local] Arguments ret {I A} a s /.
#[local] Arguments get {I} s /.
#[local] Arguments put {I} s _ /.
#[local] Arguments modify {I} f s /.
#[local] Arguments gets {I A} f s /.
#[local] Arguments fail {I A} site m _ /.
#[local] Arguments upd {I} s i m t /.
#[local] Arguments set_in {I} i s /.
#[local] Arguments set_mark {I} m s /.
#[local] Arguments set_tokens {I} t s /.
#[local] Arguments set_flags {I} s ss se adj ska ta lws /.
#[local] Arguments set_ska {I} b s /.
#[local] Arguments set_lws {I} b s /.
#[local] Arguments set_adj {I} n s /.
#[local] Arguments set_ta {I} b s /.
#[local] Arguments set_ss {I} b s /.
#[local] Arguments set_se {I} b s /.
#[local] Arguments set_struct {I} s sks ind inds fl tp ifms /.
#[local] Arguments set_sks {I} l s /.
#[local] Arguments set_indent {I} z l s /.
#[local] Arguments set_fl {I} n s /.
#[local] Arguments set_tp {I} n s /.
#[local] Arguments set_ifms {I} l s /.
#[local] Arguments skip_to_next_token : simpl never.
#[local] Arguments stale_simple_keys : simpl never.
#[local] Arguments plain_chunk : simpl never.
#[local] Arguments plain_blanks : simpl never.
#[local] Arguments scan_plain_scalar : simpl never.
#[local] Arguments scan_block_scalar : simpl never.
#[local] Arguments scan_flow_scalar : simpl never.
#[local] Arguments fetch_stream_start : simpl never.
#[local] Arguments fetch_stream_end : simpl never.
#[local] Arguments fetch_directive : simpl never.
#[local] Arguments fetch_document_indicator : simpl never.
#[local] Arguments fetch_flow_collection_start : simpl never.
#[local] Arguments fetch_flow_collection_end : simpl never.
#[local] Arguments fetch_flow_entry : simpl never.
#[local] Arguments fetch_block_entry : simpl never.
#[local] Arguments fetch_key : simpl never.
#[local] Arguments fetch_value : simpl never.
#[local] Arguments fetch_flow_value : simpl never.
#[local] Arguments fetch_anchor : simpl never.
#[local] Arguments fetch_tag : simpl never.
#[local] Arguments fetch_block_scalar : simpl never.
#[local] Arguments fetch_flow_scalar : simpl never.
#[local] Arguments fetch_plain_scalar : simpl never.
#[local] Arguments fetch_next_token : simpl never.
#[local] Arguments fetch_more_tokens : simpl never.
#[local] Arguments next_token : simpl never.
#[local] Arguments scan_all : simpl never.
#[local] Arguments fnt_rest : simpl never.
#[local] Arguments skip_ws_to_eol : simpl never.
#[local] Arguments insert_token : simpl never.
#[local] Arguments need_comp : simpl never.
#[local] Arguments unroll_indent : simpl never.
#[local] Arguments roll_indent : simpl never.
#[local] Arguments roll_one_col_indent : simpl never.
#[local] Arguments unroll_non_block_indents : simpl never.
#[local] Arguments save_simple_key : simpl never.
#[local] Arguments popk : simpl never.
#[local] Arguments ntb : simpl never.


(* ---------- the dispatch of fetch_next_token on a quote ---------- *)
Lemma rest_quote F (single : bool) cs l i ln c q adj ska k ind inds tp ta lws :
  (4 <= l)%nat -> (Z.of_N c <? ind)%Z = false ->
  fnt_rest F (mkb (quote_of single :: cs) l (mkm i ln c) q adj ska k ind inds tp ta lws)
  = fetch_flow_scalar str_ops F single (mkb (quote_of single :: cs) l (mkm i ln c) q adj ska k ind inds tp ta lws).
Proof.
  intros Hl Hcol. destruct (leb_look l Hl) as [L3 L2].
  unfold fnt_rest, mkb, mkm. destruct single; cbn; (destruct (c =? 0); cbn;
    [ unfold next_is_document_start, next_is_document_end, next_3_are, assert_buflen; cbn; rewrite L3; cbn; rewrite L2; cbn;
      rewrite ?L3; cbn; rewrite ?L2; cbn; rewrite Hcol; cbn; reflexivity
    | rewrite Hcol; cbn; reflexivity ]).
Qed.

(* ---------- spaces and line feeds up to the end of the input ---------- *)
Lemma skip_ws_eof : forall ws F l mk q adj ska k ind inds tp ta lws,
  ws_only ws = true -> (length ws < F)%nat ->
  exists l' mk' ska' lws',
    skip_to_next_token str_ops F (mkb ws l mk q adj ska k ind inds tp ta lws)
    = Ok (tt, mkb [] l' mk' q adj ska' k ind inds tp ta lws').
Proof.
  induction ws as [|c ws IH]; intros F l mk q adj ska k ind inds tp ta lws Hws HF; (destruct F as [|F]; [cbn in HF; lia|]).
  - eexists; eexists; eexists; eexists. reflexivity.
  - cbn [ws_only forallb] in Hws. apply andb_prop in Hws as [Hc Hws]. fold (ws_only ws) in Hws.
    unfold skip_to_next_token. fold (skip_to_next_token str_ops F).
    apply orb_prop in Hc as [Hc|Hc]; apply N.eqb_eq in Hc; subst c.
    + unfold mkb at 1. cbn. unfold skip_linebreak, next_2_are, assert_buflen. cbn. rewrite ltb_max2. cbn.
      destruct mk as [mi ml mc]. unfold nlm. cbn [m_index m_line m_col].
      destruct (IH F (Nat.max (Nat.max l 1) 2) {| m_index := mi + 1; m_line := ml + 1; m_col := 0 |} q adj true k ind inds tp ta true Hws ltac:(cbn in HF; lia))
        as (l' & mk' & ska' & lws' & E).
      unfold mkb in E. rewrite E. eexists; eexists; eexists; eexists. reflexivity.
    + unfold mkb at 1. cbn. destruct mk as [mi ml mc]. unfold adv. cbn [m_index m_line m_col].
      destruct (IH F (Nat.max l 1) {| m_index := mi + 1; m_line := ml; m_col := mc + 1 |} q adj ska k ind inds tp ta lws Hws ltac:(cbn in HF; lia))
        as (l' & mk' & ska' & lws' & E).
      unfold mkb in E. rewrite E. eexists; eexists; eexists; eexists. reflexivity.
Qed.

(* ---------- fetch_flow_scalar on a presentation of the specification ---------- *)
Definition q_src (single : bool) (first : list dq_item) (more : list (brk_layout * list dq_item)) : list N :=
  if single then sq_render first more else dq_render first more.
Definition q_wf (single : bool) (n : nat) (first : list dq_item) (more : list (brk_layout * list dq_item)) : bool :=
  if single then sq_layout_wf n first more else dq_layout_wf n first more.
(* the text of a quoted scalar and what follows it *)
Definition q_text (single : bool) (first : list dq_item) (more : list (brk_layout * list dq_item)) (rest : list N) : list N :=
  quote_of single :: q_src single first more ++ quote_of single :: rest.

#[local] Arguments q_text : simpl never.
#[local] Arguments dq_text : simpl never.
#[local] Arguments saved : simpl never.

Lemma fetch_quoted_case F single n first more rest l mk q adj ska k ind inds tp lws :
  q_wf single n first more = true -> ws_only rest = true ->
  (ind < Z.of_nat n)%Z -> (ind <= Z.of_N (m_col mk) + 1)%Z ->
  (2 * length (q_text single first more rest) + 10 <= F)%nat ->
  ((ind =? Z.of_N (m_col mk))%Z = true -> inds <> []) ->
  exists l' mk' sp adj' ska' lws' ind' inds',
    fetch_flow_scalar str_ops F single (mkb (q_text single first more rest) l mk q adj ska k ind inds tp false lws)
    = Ok (tt, mkb [] l' mk' (q ++ [(sp, TScalar (style_of single) (dq_text first more))]) adj' ska' (saved ska k ind inds tp q mk) ind' inds' tp false lws')
    /\ nbrel (ind, inds) (ind', inds').
Proof.
  intros Hwf Hws Hn Hcol HF Hreq.
  unfold fetch_flow_scalar. cbn [bind].
  rewrite (save_key_b (q_text single first more rest) l mk q adj ska k ind inds tp false lws Hreq). unfold disallow_simple_key. unfold mkb at 1. cbn.
  set (S1 := {| sc_in := {| si_chars := q_text single first more rest; si_look := l |}; sc_mark := mk; sc_tokens := q; sc_stream_start := true;
                sc_stream_end := false; sc_adjacent := adj; sc_ska := false; sc_sks := [saved ska k ind inds tp q mk];
                sc_indent := ind; sc_indents := inds; sc_flow_level := 0; sc_tokens_parsed := tp; sc_token_available := false;
                sc_lws := lws; sc_ifms := [] |}).
  destruct (scan_flow_scalar_ws F single n first more rest S1 Hwf eq_refl Hws Hn Hcol HF) as (sp & s' & E & _ & Hin).
  pose proof (Fr_scan_flow_scalar str_ops F single S1 _ s' E) as Hfr.
  rewrite E. cbn.
  destruct s' as [[chars look] mk' toks ss se adj' ska' sks' ind' inds' fl tp' ta' lws' ifms'].
  unfold frame in Hfr. cbn in Hfr, Hin.
  destruct Hfr as (A1 & A2 & A3 & A4 & A5 & A6 & A7 & A8 & A9 & A10 & A11). subst.
  assert (Hlen : (length (drop_leading rest) < F)%nat).
  { destruct (split_leading rest) as [Hs _]. apply (f_equal (@length N)) in Hs. rewrite app_length in Hs.
    unfold q_text in HF. cbn [length] in HF. rewrite app_length in HF. cbn [length] in HF. lia. }
  destruct (skip_ws_eof (drop_leading rest) F look mk' q adj ska' (saved ska k ind inds tp q mk) ind' inds' tp false lws'
              (ws_only_drop rest Hws) Hlen) as (l2 & mk2 & ska2 & lws2 & E2).
  unfold mkb in E2. rewrite E2. cbn.
  exists l2, mk2, sp, (m_index mk2), ska2, lws2, ind', inds'. split; [|exact A11].
  unfold push_tok, mkb. cbn. reflexivity.
Qed.

Lemma quote_first single : first_ok (quote_of single) /\ (quote_of single =? 0) = false /\ not_ws (quote_of single)
  /\ is_break (quote_of single) = false /\ is_flow (quote_of single) = false.
Proof. destruct single; repeat split; reflexivity. Qed.

Definition ends_with (F : nat) (s : sc strin) (T : list tok) : Prop :=
  exists toks, map snd toks = T /\
    forall fuel acc, (length toks < fuel)%nat -> scan_all str_ops F fuel s acc = (rev acc ++ toks, SEnded).

Definition q_tok (single : bool) (first : list dq_item) (more : list (brk_layout * list dq_item)) : tok :=
  TScalar (style_of single) (dq_text first more).

(* ---------- a quoted scalar that ends the input, as the node at a token position / behind "key: " ---------- *)
Lemma quoted_end_tok F s single n first more rest c cols :
  at_tok s (q_text single first more rest) c cols -> (fst (stk cols) < Z.of_nat c)%Z -> (fst (stk cols) < Z.of_nat n)%Z ->
  q_wf single n first more = true -> ws_only rest = true ->
  (2 * length (q_text single first more rest) + 10 <= F)%nat ->
  ends_with F s (q_tok single first more :: repeat TBlockEnd (length cols) ++ [TStreamEnd]).
Proof.
  intros Hat Hlt Hn Hwf Hws HF.
  destruct (quote_first single) as (Hfo & Hnz & _).
  assert (Hbase : base_le cols (Z.of_nat c)) by (destruct cols as [|t r]; cbn in *; lia).
  unfold q_text in Hat.
  destruct (arrive_tok F s _ _ c [] cols Hat Hfo Hnz ltac:(constructor) Hbase ltac:(lia))
    as (Hcanon & l' & i & ln & adj & k & tp & lws & Hl' & Hk & Hf).
  cbn [length repeat] in Hf.
  rewrite rest_quote in Hf; [ | exact Hl' | apply col_ge_top, Hbase ].
  fold (q_text single first more rest) in Hf.
  destruct (fetch_quoted_case F single n first more rest l' (mkm i ln (N.of_nat c)) [] adj true k (fst (stk cols)) (snd (stk cols)) tp lws
              Hwf Hws Hn ltac:(cbn [m_col mkm]; lia) HF (stk_req_ne cols (N.of_nat c)))
    as (l2 & mk2 & sp & adj2 & ska2 & lws2 & ind2 & inds2 & E & Hnb).
  rewrite E in Hf. cbn [app] in Hf.
  destruct (grounded_stk cols ltac:(apply Forall_forall; auto)) as [Hg Hnn].
  destruct (nbrel_grounded _ _ _ _ Hg Hnb) as [Hg2 Hn2].
  destruct (end_unit F s l2 mk2 _ adj2 ska2 _ ind2 inds2 tp lws2 ltac:(lia) Hcanon Hf ltac:(discriminate)) as (toks & Hm & Hscan).
  - apply key_free_not_required. unfold saved, req. cbn [newkey sk_required m_col mkm].
    replace (fst (stk cols) =? Z.of_N (N.of_nat c))%Z with false; [reflexivity|]. symmetry. apply Z.eqb_neq. lia.
  - exact Hg2.
  - exists toks. split; [|exact Hscan]. rewrite Hm. cbn [snd]. rewrite Hn2, Hnn. reflexivity.
Qed.

Lemma quoted_end_below F s single n first more rest top rest0 :
  at_below s (32 :: q_text single first more rest) (top :: rest0) -> (Z.of_N top + 1 < Z.of_nat n)%Z ->
  q_wf single n first more = true -> ws_only rest = true ->
  (2 * length (q_text single first more rest) + 10 <= F)%nat ->
  ends_with F s (q_tok single first more :: repeat TBlockEnd (length (top :: rest0)) ++ [TStreamEnd]).
Proof.
  intros Hat Hn Hwf Hws HF.
  destruct (quote_first single) as (Hfo & Hnz & _).
  unfold q_text in Hat.
  destruct (arrive_blank F s _ _ (top :: rest0) Hat Hfo Hnz ltac:(lia))
    as (Hcanon & l' & i & ln & c1 & adj & ska & k & tp & top' & rest' & [= <- <-] & Hc1 & Hl' & Hk & Hf).
  rewrite rest_quote in Hf; [ | exact Hl' | apply Z.ltb_ge; lia ].
  fold (q_text single first more rest) in Hf.
  destruct (fetch_quoted_case F single n first more rest l' (mkm i ln c1) [] adj ska k (Z.of_N top + 1)%Z (nbl (Z.of_N top) :: snd (stk (top :: rest0))) tp false
              Hwf Hws Hn ltac:(cbn [m_col mkm]; lia) HF ltac:(discriminate))
    as (l2 & mk2 & sp & adj2 & ska2 & lws2 & ind2 & inds2 & E & Hnb).
  rewrite E in Hf. cbn [app] in Hf.
  destruct (grounded_below top rest0) as [Hg Hnn].
  destruct (nbrel_grounded _ _ _ _ Hg Hnb) as [Hg2 Hn2].
  destruct (end_unit F s l2 mk2 _ adj2 ska2 _ ind2 inds2 tp lws2 ltac:(lia) Hcanon Hf ltac:(discriminate)) as (toks & Hm & Hscan).
  - unfold saved. destruct ska; [|apply key_free_not_possible, Hk].
    apply key_free_not_required. unfold req. cbn [newkey sk_required nbl in_needs_block_end]. apply andb_false_r.
  - exact Hg2.
  - exists toks. split; [|exact Hscan]. rewrite Hm. cbn [snd]. rewrite Hn2, Hnn. reflexivity.
Qed.

(* ---------- the whole scanner ---------- *)
Definition start_state (txt : list N) : sc strin := mkb txt 1 (mkm 0 1 0) [] 0 true dummy_key (-1)%Z [] 1 false true.
Lemma start_at_tok txt : at_tok (start_state txt) txt 0 [].
Proof. exists 1%nat, 0, 1, 0, dummy_key, 1, true. split; [reflexivity|left; reflexivity]. Qed.

Lemma scan_str_units txt pre s' T :
  delivers (2 * length txt + 10) (start_state txt) pre s' -> ends_with (2 * length txt + 10) s' T ->
  (length pre + length T <= 2 * length txt + 10)%nat ->
  exists toks, scan_str txt = (toks, SEnded) /\ map snd toks = TStreamStart :: map snd pre ++ T.
Proof.
  intros Hd (toks2 & Hm2 & Hscan) Hlen. unfold scan_str. set (F := (2 * length txt + 10)%nat) in *.
  assert (Hl2 : length toks2 = length T) by (rewrite <- Hm2, map_length; reflexivity).
  assert (Etot : exists f2, (4 * F + 20 = S (length pre + f2) /\ length toks2 < f2)%nat).
  { exists (4 * F + 19 - length pre)%nat. unfold token in *. lia. }
  destruct Etot as (f2 & -> & Hf2).
  rewrite scan_all_S, (first_token F txt) by (unfold F; lia). cbv beta iota.
  change (mkst txt 1 (mk1 0) [] 0 true [dummy_key] 0 1 false true []) with (start_state txt).
  rewrite Hd, (Hscan f2 _ Hf2).
  eexists. split; [reflexivity|].
  rewrite rev_app_distr, rev_involutive. cbn [rev app]. cbn [map snd]. f_equal. rewrite map_app. f_equal. exact Hm2.
Qed.

(* T-top: the document is one quoted scalar (any continuation indentation n) *)
Theorem scan_quoted_top single n first more rest :
  q_wf single n first more = true -> ws_only rest = true ->
  exists toks, scan_str (q_text single first more rest) = (toks, SEnded) /\
               map snd toks = wrap false false [q_tok single first more].
Proof.
  intros Hwf Hws. set (txt := q_text single first more rest).
  pose proof (quoted_end_tok (2 * length txt + 10) (start_state txt) single n first more rest 0 [] (start_at_tok txt)
                ltac:(cbn; lia) ltac:(cbn; lia) Hwf Hws ltac:(fold txt; lia)) as He.
  destruct (scan_str_units txt [] (start_state txt) _ (delivers_nil _ _) He ltac:(cbn [length repeat app]; lia)) as (toks & Es & Hm).
  exists toks. split; [exact Es|]. rewrite Hm. reflexivity.
Qed.

(* T-entry: "- " in front, continuation lines indented by n >= 1 *)
Theorem scan_quoted_entry single n first more rest :
  q_wf single n first more = true -> ws_only rest = true -> (1 <= n)%nat ->
  exists toks, scan_str (45 :: 32 :: q_text single first more rest) = (toks, SEnded) /\
               map snd toks = wrap false false [TBlockSequenceStart; TBlockEntry; q_tok single first more; TBlockEnd].
Proof.
  intros Hwf Hws Hn. set (txt := 45 :: 32 :: q_text single first more rest). set (F := (2 * length txt + 10)%nat).
  destruct (quote_first single) as (_ & _ & Hnw & Hbr & Hfl).
  pose proof (start_at_tok txt) as Hat. unfold txt in Hat at 2. unfold q_text in Hat.
  destruct (dash_sp F (start_state txt) _ _ 0 [] [] true (or_introl Hat) ltac:(constructor) ltac:(split; cbn; lia) Hnw Hbr Hfl ltac:(unfold F; lia))
    as (pre & s' & Hd & Hmp & Hat').
  fold (q_text single first more rest) in Hat'. cbn [joined Nat.add] in Hat'.
  pose proof (quoted_end_tok F s' single n first more rest 2 [N.of_nat 0] Hat' ltac:(cbn; lia) ltac:(cbn; lia) Hwf Hws
                ltac:(unfold F, txt; cbn [length]; lia)) as He.
  assert (Hlp : length pre = 2%nat) by (pose proof (f_equal (@length _) Hmp) as Hl; rewrite map_length in Hl; exact Hl).
  destruct (scan_str_units txt pre s' _ Hd He ltac:(rewrite Hlp; cbn [length repeat app]; lia)) as (toks & Es & Hm).
  exists toks. split; [exact Es|]. rewrite Hm, Hmp. reflexivity.
Qed.

(* T-value: "key: " in front, continuation lines indented by n >= 2 (C04_quoted_full compares n with the indentation that
   roll_one_col_indent has raised to 1) *)
Theorem scan_quoted_value kw single n first more rest :
  key_ok kw = true -> q_wf single n first more = true -> ws_only rest = true -> (2 <= n)%nat ->
  exists toks, scan_str (kw ++ 58 :: 32 :: q_text single first more rest) = (toks, SEnded) /\
               map snd toks = wrap false false [TBlockMappingStart; TKey; TScalar Plain kw; TValue; q_tok single first more; TBlockEnd].
Proof.
  intros Hkw Hwf Hws Hn.
  destruct (key_ok_word kw Hkw) as (c0 & w & Ekw & Hw & Hlen). subst kw.
  set (txt := (c0 :: w) ++ 58 :: 32 :: q_text single first more rest). set (F := (2 * length txt + 10)%nat).
  assert (Hlt : (length w + 3 + length (q_text single first more rest) = length txt)%nat).
  { unfold txt. cbn [length app]. rewrite app_length. cbn [length]. lia. }
  pose proof (start_at_tok txt) as Hat. unfold txt in Hat at 2. cbn [app] in Hat.
  destruct (key_at_tok F (start_state txt) c0 w 32 (q_text single first more rest) 0 [] [] true Hat Hw Hlen (or_introl eq_refl) ltac:(constructor)
              ltac:(split; cbn; lia) ltac:(unfold F; lia))
    as (pre & s' & Hd & Hmp & Hat').
  cbn [joined length repeat app] in Hat', Hmp.
  pose proof (quoted_end_below F s' single n first more rest (N.of_nat 0) [] Hat' ltac:(cbn; lia) Hwf Hws ltac:(unfold F; lia)) as He.
  assert (Hlp : length pre = 4%nat) by (pose proof (f_equal (@length _) Hmp) as Hl; rewrite map_length in Hl; exact Hl).
  destruct (scan_str_units txt pre s' _ Hd He ltac:(rewrite Hlp; cbn [length repeat app]; lia)) as (toks & Es & Hm).
  exists toks. split; [exact Es|]. rewrite Hm, Hmp. reflexivity.
Qed.

(* ---------- text -> events ---------- *)
Lemma run_of_scan txt t toks :
  scan_str txt = (toks, SEnded) -> map snd toks = wrap false false (tokens_of t) ->
  wf_root false t = true -> forallb plain_pev (pre_events t) = true -> (length (pre_events t) <= 8)%nat ->
  map fst (fst (run_str txt)) = wrap_events false (events_of t) /\ snd (run_str txt) = PDone.
Proof.
  intros Es Hm Hwf Hpl Hlen. destruct (run_str_scan txt) as (fuel & Hfuel & ->). rewrite Es.
  apply (parse_wrap t false false toks false SEnded fuel); [exact Hwf | apply bound_plain, Hpl | exact Hm |].
  unfold wrap_events, events_of. cbn [length]. rewrite app_length, number_length. cbn [length]. lia.
Qed.

Definition q_node (single : bool) (first : list dq_item) (more : list (brk_layout * list dq_item)) : ltree :=
  LScalar no_props (style_of single) (dq_text first more).

Theorem run_quoted_top single n first more rest :
  q_wf single n first more = true -> ws_only rest = true ->
  map fst (fst (run_str (q_text single first more rest)))
  = [EStreamStart; EDocumentStart false; EScalar (dq_text first more) (style_of single) 0 None; EDocumentEnd; EStreamEnd]
  /\ snd (run_str (q_text single first more rest)) = PDone.
Proof.
  intros Hwf Hws. destruct (scan_quoted_top single n first more rest Hwf Hws) as (toks & Es & Hm).
  exact (run_of_scan _ (q_node single first more) toks Es Hm eq_refl eq_refl ltac:(cbn; lia)).
Qed.

Theorem run_quoted_entry single n first more rest :
  q_wf single n first more = true -> ws_only rest = true -> (1 <= n)%nat ->
  map fst (fst (run_str (45 :: 32 :: q_text single first more rest)))
  = [EStreamStart; EDocumentStart false; ESequenceStart 0 None; EScalar (dq_text first more) (style_of single) 0 None; ESequenceEnd;
     EDocumentEnd; EStreamEnd]
  /\ snd (run_str (45 :: 32 :: q_text single first more rest)) = PDone.
Proof.
  intros Hwf Hws Hn. destruct (scan_quoted_entry single n first more rest Hwf Hws Hn) as (toks & Es & Hm).
  exact (run_of_scan _ (LBSeq no_props [q_node single first more]) toks Es Hm eq_refl eq_refl ltac:(cbn; lia)).
Qed.

Theorem run_quoted_value kw single n first more rest :
  key_ok kw = true -> q_wf single n first more = true -> ws_only rest = true -> (2 <= n)%nat ->
  map fst (fst (run_str (kw ++ 58 :: 32 :: q_text single first more rest)))
  = [EStreamStart; EDocumentStart false; EMappingStart 0 None; EScalar kw Plain 0 None;
     EScalar (dq_text first more) (style_of single) 0 None; EMappingEnd; EDocumentEnd; EStreamEnd]
  /\ snd (run_str (kw ++ 58 :: 32 :: q_text single first more rest)) = PDone.
Proof.
  intros Hkw Hwf Hws Hn. destruct (scan_quoted_value kw single n first more rest Hkw Hwf Hws Hn) as (toks & Es & Hm).
  exact (run_of_scan _ (LBMap no_props [(true, lword kw, (true, q_node single first more))]) toks Es Hm eq_refl eq_refl ltac:(cbn; lia)).
Qed.
