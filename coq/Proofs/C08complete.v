(* C08: completeness of the resolver model and the combined oracle theorem. *)
From Coq Require Import List NArith ZArith Bool Lia.
Import ListNotations.
Require Import Resolver CoreSchema CoreNumber ResolverProofs.
Open Scope Z_scope.
Arguments N.eqb : simpl never.

Lemma str_eqb_refl a : str_eqb a a = true.
Proof. unfold str_eqb. destruct (list_eq_dec N.eq_dec a a); congruence. Qed.

Lemma from_str_radix_range s r v : from_str_radix s r = Some v -> in_i64 v = true.
Proof.
  unfold in_i64. destruct s as [|c s]; [cbn; intros H; discriminate H|].
  unfold from_str_radix.
  assert (G : forall (neg : bool) (ds : str),
     match ds with
     | [] => None
     | _ :: _ => match digits_val r ds 0 with
                 | Some v0 => if (i64_min <=? (if neg then - v0 else v0)) && ((if neg then - v0 else v0) <=? i64_max)
                              then Some (if neg then - v0 else v0) else None
                 | None => None
                 end
     end = Some v -> (i64_min <=? v) && (v <=? i64_max) = true).
  { intros neg ds. destruct ds; [intros H; discriminate H|]. destruct (digits_val r _ 0); [|intros H; discriminate H].
    match goal with |- (if ?b then _ else _) = _ -> _ => destruct b eqn:E; [|intros H; discriminate H] end.
    intros H; inversion H; subst. exact E. }
  destruct (ch c 43); [exact (G false s)|]. destruct (ch c 45); [exact (G true s)|exact (G false (c :: s))].
Qed.

(* unsigned digit strings parse to their value *)
Lemma from_str_radix_unsigned d r v :
  nonempty d = true -> starts_signed d = false -> digits_val r d 0 = Some v -> in_i64 v = true ->
  from_str_radix_ns d r = Some v.
Proof.
  intros Hn Hs Hd Hr. unfold from_str_radix_ns. rewrite Hs. unfold from_str_radix.
  destruct d as [|c d]; [discriminate|]. cbn [starts_signed] in Hs. apply orb_false_iff in Hs as [S1 S2].
  rewrite S1, S2. rewrite Hd. unfold in_i64 in Hr. rewrite Hr. reflexivity.
Qed.

Lemma class_not_signed (p : chr -> bool) d :
  (forall c, p c = true -> ch c 43 = false /\ ch c 45 = false) ->
  nonempty d = true -> forallb p d = true -> starts_signed d = false.
Proof.
  intros Hp Hn Hf. destruct d as [|c d]; [discriminate|]. cbn in Hf. apply andb_true_iff in Hf as [Hc _].
  cbn. destruct (Hp c Hc) as [-> ->]. reflexivity.
Qed.

Lemma hexd_not_sign c : is_hexd c = true -> ch c 43 = false /\ ch c 45 = false.
Proof.
  unfold is_hexd, is_dig, ch. intros H. split; apply N.eqb_neq; intros ->; vm_compute in H; discriminate.
Qed.
Lemma oct_not_sign c : is_oct c = true -> ch c 43 = false /\ ch c 45 = false.
Proof. unfold is_oct, ch. intros H. split; apply N.eqb_neq; intros ->; vm_compute in H; discriminate. Qed.
Lemma dig_not_sign c : is_dig c = true -> ch c 43 = false /\ ch c 45 = false.
Proof. unfold is_dig, ch. intros H. split; apply N.eqb_neq; intros ->; vm_compute in H; discriminate. Qed.

(* a string whose first character is a digit, a sign or a dot is none of the literal words *)
Definition numeric_head (s : str) : bool :=
  match s with c :: _ => is_dig c || ch c 43 || ch c 45 || ch c 46 | [] => false end.
Lemma numeric_head_words s : numeric_head s = true ->
  inl s [s_tilde; s_null; s_NULL] = false /\ inl s [s_true] = false /\ inl s [s_false] = false.
Proof.
  intros H. repeat split;
    (match goal with |- inl s ?l = false => destruct (inl s l) eqn:E; [|reflexivity] end;
     apply inl_in in E; cbn in E;
     repeat (destruct E as [<-|E]; [vm_compute in H; discriminate|]); destruct E).
Qed.

Lemma strip_prefix_head p s n : strip_prefix p s = Some n -> forall c, hd_error p = Some c -> hd_error s = Some c.
Proof.
  destruct p as [|a p]; [discriminate 2|]. destruct s as [|b s]; [discriminate|].
  cbn. destruct (N.eqb a b) eqn:E; [|discriminate]. apply N.eqb_eq in E. subst. intros _ c H; exact H.
Qed.

(* ---------------- integers ---------------- *)
Lemma parse_from_cow_unfold v :
  parse_from_cow v =
  match strip_prefix [48;120]%N v with
  | Some number => match from_str_radix_ns number 16 with Some i => SInt i | None => parse_tail v end
  | None =>
    match strip_prefix [48;111]%N v with
    | Some number => match from_str_radix_ns number 8 with Some i => SInt i | None => parse_tail v end
    | None =>
      match strip_prefix [43]%N v with
      | Some number => match from_str_radix_ns number 10 with Some i => SInt i | None => parse_tail v end
      | None => parse_tail v
      end
    end
  end.
Proof. unfold parse_from_cow. rewrite tbl_prefixes. reflexivity. Qed.

Lemma parse_tail_int v z : numeric_head v = true -> parse_i64 v = Some z -> parse_tail v = SInt z.
Proof.
  intros Hh Hp. unfold parse_tail. rewrite tbl_null, tbl_true, tbl_false.
  destruct (numeric_head_words v Hh) as (-> & -> & ->). rewrite Hp. reflexivity.
Qed.

Theorem int_complete s z : core_int s = Some z -> in_i64 z = true -> parse_from_cow s = SInt z.
Proof.
  intros Hc Hr. rewrite parse_from_cow_unfold. unfold core_int in Hc.
  destruct (strip_prefix [48;120]%N s) as [d|] eqn:P1.
  { destruct (nonempty d && all_in is_hexd d) eqn:E; [|discriminate]. apply andb_true_iff in E as [En Ea].
    rewrite (from_str_radix_unsigned d 16 z En (class_not_signed _ _ hexd_not_sign En Ea) Hc Hr). reflexivity. }
  destruct (strip_prefix [48;111]%N s) as [d|] eqn:P2.
  { destruct (nonempty d && all_in is_oct d) eqn:E; [|discriminate]. apply andb_true_iff in E as [En Ea].
    rewrite (from_str_radix_unsigned d 8 z En (class_not_signed _ _ oct_not_sign En Ea) Hc Hr). reflexivity. }
  unfold sign_split in Hc. destruct s as [|c r]; [discriminate|].
  destruct (ch c 43) eqn:Cp.
  { (* "+digits" *)
    apply N.eqb_eq in Cp. subst c. cbn [strip_prefix]. change (N.eqb 43 43) with true. cbv iota.
    destruct (nonempty r && all_in is_dig r) eqn:E; [|discriminate]. apply andb_true_iff in E as [En Ea].
    destruct (digits_val 10 r 0) as [v|] eqn:D; [|discriminate]. inversion Hc; subst z.
    rewrite (from_str_radix_unsigned r 10 v En (class_not_signed _ _ dig_not_sign En Ea) D Hr). reflexivity. }
  assert (P3 : strip_prefix [43]%N (c :: r) = None).
  { cbn [strip_prefix]. unfold ch in Cp. rewrite N.eqb_sym in Cp. rewrite Cp. reflexivity. }
  rewrite P3.
  destruct (ch c 45) eqn:Cm.
  { (* "-digits" *)
    destruct (nonempty r && all_in is_dig r) eqn:E; [|discriminate]. apply andb_true_iff in E as [En Ea].
    destruct (digits_val 10 r 0) as [v|] eqn:D; [|discriminate]. inversion Hc; subst z.
    apply parse_tail_int.
    - cbn. rewrite Cm. rewrite !orb_true_r. reflexivity.
    - unfold parse_i64, from_str_radix. rewrite Cp, Cm. destruct r; [discriminate|]. rewrite D.
      unfold in_i64 in Hr. rewrite Hr. reflexivity. }
  (* "digits" *)
  destruct (nonempty (c :: r) && all_in is_dig (c :: r)) eqn:E; [|discriminate]. apply andb_true_iff in E as [En Ea].
  destruct (digits_val 10 (c :: r) 0) as [v|] eqn:D; [|discriminate]. inversion Hc; subst z.
  apply parse_tail_int.
  - unfold all_in in Ea. cbn in Ea. apply andb_true_iff in Ea as [Ec _]. cbn. rewrite Ec. reflexivity.
  - unfold parse_i64, from_str_radix. rewrite Cp, Cm. rewrite D. unfold in_i64 in Hr. rewrite Hr. reflexivity.
Qed.

(* ---------------- floats ---------------- *)
Lemma dig_float_char c : is_dig c = true -> float_char c = true.
Proof. intros H. rewrite float_char_eq, H. reflexivity. Qed.
Lemma digs_float_char l : forallb is_dig l = true -> forallb float_char l = true.
Proof.
  induction l as [|c l IH]; [reflexivity|]. cbn [forallb]. intros H. apply andb_true_iff in H as [A B].
  rewrite (dig_float_char _ A), (IH B). reflexivity.
Qed.
Lemma ch_float_char c k : In k [43; 45; 46; 101; 69]%N -> ch c k = true -> float_char c = true.
Proof.
  intros Hin H. apply N.eqb_eq in H. subst c. rewrite float_char_eq.
  cbn in Hin. repeat (destruct Hin as [<-|Hin]; [reflexivity|]). destruct Hin.
Qed.

Lemma exp_part_chars m e0 r x : exp_part m e0 r = Some x -> forallb float_char r = true.
Proof.
  unfold exp_part. destruct r as [|c r]; [reflexivity|].
  destruct (ch c 101 || ch c 69) eqn:E; [|discriminate].
  assert (Hc : float_char c = true).
  { apply orb_true_iff in E as [E|E]; [apply (ch_float_char c 101)|apply (ch_float_char c 69)]; cbn; auto 10. }
  unfold sign_split. destruct r as [|y r'].
  - cbn. discriminate.
  - destruct (ch y 43) eqn:Y1; [|destruct (ch y 45) eqn:Y2].
    + destruct (nonempty r' && all_in is_dig r') eqn:D; [|discriminate]. apply andb_true_iff in D as [_ D].
      intros _. cbn [forallb]. rewrite Hc, (ch_float_char y 43), (digs_float_char _ D); cbn; auto 10.
    + destruct (nonempty r' && all_in is_dig r') eqn:D; [|discriminate]. apply andb_true_iff in D as [_ D].
      intros _. cbn [forallb]. rewrite Hc, (ch_float_char y 45), (digs_float_char _ D); cbn; auto 10.
    + destruct (nonempty (y :: r') && all_in is_dig (y :: r')) eqn:D; [|discriminate]. apply andb_true_iff in D as [_ D].
      intros _. cbn [forallb]. rewrite Hc. exact (digs_float_char _ D).
Qed.

Lemma forallb_app' {A} (p : A -> bool) a b : forallb p a = true -> forallb p b = true -> forallb p (a ++ b) = true.
Proof. intros H1 H2. rewrite forallb_app, H1, H2. reflexivity. Qed.

Lemma core_number_chars b x : core_number b = Some x ->
  forallb float_char b = true /\ numeric_head b = true.
Proof.
  unfold core_number. destruct (span_digits b) as [ip r1] eqn:S.
  destruct (span_digits_spec _ _ _ S) as [-> Hip].
  destruct r1 as [|c r].
  - destruct ip as [|i ip]; [discriminate|]. intros _. rewrite app_nil_r. split; [exact (digs_float_char _ Hip)|].
    cbn in Hip |- *. apply andb_true_iff in Hip as [-> _]. reflexivity.
  - destruct (ch c 46) eqn:Ed.
    + destruct (span_digits r) as [fp r2] eqn:S2. destruct (span_digits_spec _ _ _ S2) as [-> Hfp].
      destruct (nonempty ip || nonempty fp) eqn:En; [|discriminate]. intros H.
      pose proof (exp_part_chars _ _ _ _ H) as Hr2.
      split.
      * apply forallb_app'; [exact (digs_float_char _ Hip)|]. cbn [forallb].
        rewrite (ch_float_char c 46) by (cbn; auto 10).
        apply forallb_app'; [exact (digs_float_char _ Hfp)|exact Hr2].
      * destruct ip as [|i ip]; cbn.
        -- rewrite Ed. rewrite !orb_true_r. reflexivity.
        -- cbn in Hip. apply andb_true_iff in Hip as [-> _]. reflexivity.
    + destruct ip as [|i ip]; [discriminate|]. cbn [nonempty]. intros H.
      pose proof (exp_part_chars _ _ _ _ H) as Hr2. split.
      * apply forallb_app'; [exact (digs_float_char _ Hip)|exact Hr2].
      * cbn in Hip |- *. apply andb_true_iff in Hip as [-> _]. reflexivity.
Qed.

Lemma ieq_false_float body w c0 :
  forallb float_char body = true -> hd_error w = Some c0 -> (c0 = 105%N \/ c0 = 110%N) -> ieq body w = false.
Proof. exact (ieq_float_char body w c0). Qed.

(* a number in the spec's float language is read by the Rust f64 grammar model with the same value *)
Lemma rust_parse_number s neg b m e :
  sign_split s = (neg, b) -> core_number b = Some (m, e) -> rust_parse_f64 s = Some (FDec neg m e).
Proof.
  intros Hs Hn. destruct (core_number_chars _ _ Hn) as [Hb Hh].
  assert (G : (if ieq b w_inf || ieq b w_infinity then Some (FInf neg)
               else if ieq b w_nan then Some FNan
               else match rust_number b with Some (m, e) => Some (FDec neg m e) | None => None end)
              = Some (FDec neg m e)).
  { rewrite (ieq_float_char b w_inf 105%N Hb eq_refl (or_introl eq_refl)).
    rewrite (ieq_float_char b w_infinity 105%N Hb eq_refl (or_introl eq_refl)).
    rewrite (ieq_float_char b w_nan 110%N Hb eq_refl (or_intror eq_refl)).
    cbn [orb]. rewrite rust_number_core, Hn. reflexivity. }
  unfold rust_parse_f64. destruct s as [|c r].
  { cbn in Hs. inversion Hs; subst. discriminate. }
  unfold sign_split in Hs.
  destruct (ch c 43); [|destruct (ch c 45)]; inversion Hs; subst; exact G.
Qed.

Lemma sign_split_chars s neg b : sign_split s = (neg, b) -> forallb float_char b = true -> b <> [] -> forallb float_char s = true.
Proof.
  unfold sign_split. destruct s as [|c r]; [intros H; inversion H; congruence|].
  destruct (ch c 43) eqn:C1; [|destruct (ch c 45) eqn:C2]; intros H; inversion H; subst; intros Hb _.
  - cbn [forallb]. rewrite (ch_float_char c 43), Hb; cbn; auto 10.
  - cbn [forallb]. rewrite (ch_float_char c 45), Hb; cbn; auto 10.
  - exact Hb.
Qed.

Lemma numeric_head_sign s neg b : sign_split s = (neg, b) -> numeric_head b = true -> numeric_head s = true.
Proof.
  unfold sign_split. destruct s as [|c r]; [intros H; inversion H; subst; auto|].
  destruct (ch c 43) eqn:C1; [|destruct (ch c 45) eqn:C2]; intros H; inversion H; subst; intros Hb.
  - cbn. rewrite C1. rewrite !orb_true_r. reflexivity.
  - cbn. rewrite C2. rewrite !orb_true_r. reflexivity.
  - exact Hb.
Qed.

(* parse_f64 reads every core-schema float with its value *)
Theorem parse_f64_complete s f : core_float s = Some f -> parse_f64 s = Some f /\ numeric_head s = true.
Proof.
  unfold core_float.
  destruct (inl s [s_dnan; s_dNaN; s_dNAN]) eqn:E1.
  { intros H; inversion H; subst. apply inl_in in E1. cbn in E1.
    destruct E1 as [<-|[<-|[<-|[]]]]; split; reflexivity. }
  destruct (sign_split s) as [neg b] eqn:Hs.
  destruct (inl b [s_dinf; s_dInf; s_dINF]) eqn:E2.
  { intros H; inversion H; subst. apply inl_in in E2. cbn in E2.
    unfold sign_split in Hs. destruct s as [|c r]; [inversion Hs; subst; destruct E2 as [E|[E|[E|[]]]]; discriminate E|].
    destruct (ch c 43) eqn:C1; [|destruct (ch c 45) eqn:C2]; inversion Hs; subst;
      try (apply N.eqb_eq in C1; subst c); try (apply N.eqb_eq in C2; subst c);
      destruct E2 as [<-|[<-|[<-|[]]]]; split; reflexivity. }
  destruct (core_number b) as [[m e]|] eqn:Hn; [|discriminate].
  intros H; inversion H; subst.
  destruct (core_number_chars _ _ Hn) as [Hb Hh].
  assert (Hne : b <> []) by (intros ->; discriminate).
  pose proof (sign_split_chars _ _ _ Hs Hb Hne) as Hfs.
  split; [|exact (numeric_head_sign _ _ _ Hs Hh)].
  unfold parse_f64. rewrite tbl_pos_inf, tbl_neg_inf, tbl_nan, tbl_guarded.
  assert (L1 : inl s [s_dinf; s_dInf; s_dINF; 43%N :: s_dinf; 43%N :: s_dInf; 43%N :: s_dINF] = false).
  { match goal with |- ?X = false => destruct X eqn:E; [|reflexivity] end. apply inl_in in E. cbn in E.
    repeat (destruct E as [<-|E]; [vm_compute in Hfs; discriminate|]). destruct E. }
  assert (L2 : inl s [45%N :: s_dinf; 45%N :: s_dInf; 45%N :: s_dINF] = false).
  { match goal with |- ?X = false => destruct X eqn:E; [|reflexivity] end. apply inl_in in E. cbn in E.
    repeat (destruct E as [<-|E]; [vm_compute in Hfs; discriminate|]). destruct E. }
  rewrite L1, L2, E1, Hfs. exact (rust_parse_number _ _ _ _ _ Hs Hn).
Qed.

(* prefix attempts that succeed yield a core integer in range (the first half of soundness, reused) *)
Lemma prefix_success_int s :
  (forall z, core_int s = Some z -> in_i64 z = false) -> parse_from_cow s = parse_tail s.
Proof.
  intros Hno. pose proof (C08_soundness_fixed s) as HS. rewrite parse_from_cow_unfold in *.
  assert (G : forall number radix, from_str_radix_ns number radix = None \/
                                   exists i, from_str_radix_ns number radix = Some i /\ in_i64 i = true).
  { intros number radix. destruct (from_str_radix_ns number radix) as [i|] eqn:E; [right|left; reflexivity].
    exists i. split; [reflexivity|]. unfold from_str_radix_ns in E. destruct (starts_signed number); [discriminate|].
    exact (from_str_radix_range _ _ _ E). }
  destruct (strip_prefix [48;120]%N s) as [n|].
  { destruct (G n 16%N) as [->|[i [E R]]]; [reflexivity|]. rewrite E in HS |- *. cbn in HS. rewrite (Hno i HS) in R. discriminate. }
  destruct (strip_prefix [48;111]%N s) as [n|].
  { destruct (G n 8%N) as [->|[i [E R]]]; [reflexivity|]. rewrite E in HS |- *. cbn in HS. rewrite (Hno i HS) in R. discriminate. }
  destruct (strip_prefix [43]%N s) as [n|]; [|reflexivity].
  destruct (G n 10%N) as [->|[i [E R]]]; [reflexivity|]. rewrite E in HS |- *. cbn in HS. rewrite (Hno i HS) in R. discriminate.
Qed.

Theorem float_complete s f :
  core_float s = Some f -> (forall z, core_int s = Some z -> in_i64 z = false) -> parse_from_cow s = SFloat f.
Proof.
  intros Hf Hno. rewrite (prefix_success_int s Hno).
  destruct (parse_f64_complete s f Hf) as [Hp Hh].
  unfold parse_tail. rewrite tbl_null, tbl_true, tbl_false.
  destruct (numeric_head_words s Hh) as (-> & -> & ->).
  destruct (parse_i64 s) as [i|] eqn:Ei.
  - pose proof (parse_i64_sound _ _ Ei) as Hc. pose proof (from_str_radix_range _ _ _ Ei) as Hr.
    rewrite (Hno i Hc) in Hr. discriminate.
  - rewrite Hp. reflexivity.
Qed.

(* ---------------- the oracle holds of the model, for every text ---------------- *)
Lemma sound_sound_b s r : sound s r -> sound_b s r = true.
Proof.
  destruct r; cbn; intros H.
  - exact H.
  - rewrite H. cbn. apply Bool.eqb_reflx.
  - rewrite H. cbn. apply Z.eqb_refl.
  - rewrite H. cbn. destruct f; cbn; [reflexivity|apply Bool.eqb_reflx|].
    rewrite Bool.eqb_reflx, !Z.eqb_refl. reflexivity.
  - subst. apply str_eqb_refl.
Qed.

Lemma scalar_eqb_refl r : scalar_eqb r r = true.
Proof.
  destruct r; cbn; [reflexivity|apply Bool.eqb_reflx|apply Z.eqb_refl| |apply str_eqb_refl].
  destruct f; cbn; [reflexivity|apply Bool.eqb_reflx|]. rewrite Bool.eqb_reflx, !Z.eqb_refl. reflexivity.
Qed.

Theorem c08_untagged_model_ok s : c08_untagged_ok s (parse_from_cow s) = true.
Proof.
  unfold c08_untagged_ok. rewrite (sound_sound_b _ _ (C08_soundness_fixed s)). cbn [andb].
  unfold required.
  destruct (inl s [s_null; s_tilde]) eqn:E1.
  { apply inl_in in E1. cbn in E1. destruct E1 as [<-|[<-|[]]]; reflexivity. }
  destruct (str_eqb s s_true) eqn:E2; [apply str_eqb_eq in E2; subst; reflexivity|].
  destruct (str_eqb s s_false) eqn:E3; [apply str_eqb_eq in E3; subst; reflexivity|].
  destruct (core_int s) as [z|] eqn:Ci.
  - destruct (in_i64 z) eqn:R.
    + rewrite (int_complete s z Ci R). apply scalar_eqb_refl.
    + destruct (core_float s) as [f|] eqn:Cf; [|reflexivity].
      rewrite (float_complete s f Cf); [apply scalar_eqb_refl|].
      intros z' Hz'. rewrite Ci in Hz'. inversion Hz'; subst. exact R.
  - destruct (core_float s) as [f|] eqn:Cf; [|reflexivity].
    rewrite (float_complete s f Cf); [apply scalar_eqb_refl|]. intros z' Hz'. rewrite Ci in Hz'. discriminate.
Qed.
Print Assumptions c08_untagged_model_ok.

(* ---------------- tagged plain scalars ---------------- *)
Lemma parse_i64_untagged s i : parse_i64 s = Some i -> parse_from_cow s = SInt i.
Proof.
  intros H. apply int_complete; [exact (parse_i64_sound _ _ H)|exact (from_str_radix_range _ _ _ H)].
Qed.

Lemma dec_int_core s z : dec_int s = Some z -> core_int s = Some z.
Proof.
  unfold dec_int, core_int. destruct (sign_split s) as [neg d] eqn:Hs.
  destruct (nonempty d && all_in is_dig d) eqn:E; [|discriminate].
  apply andb_true_iff in E as [En Ea].
  (* no 0x / 0o prefix: the second character would have to be a digit *)
  assert (P : forall x, (x = 120%N \/ x = 111%N) -> strip_prefix [48%N; x] s = None).
  { intros x Hx. unfold sign_split in Hs. destruct s as [|c r]; [reflexivity|].
    cbn [strip_prefix]. destruct (N.eqb 48 c) eqn:E0; [|reflexivity]. apply N.eqb_eq in E0. subst c.
    change (ch 48%N 43%N) with false in Hs. change (ch 48%N 45%N) with false in Hs. inversion Hs; subst.
    destruct r as [|y r]; [reflexivity|]. destruct (N.eqb x y) eqn:E1; [|reflexivity]. apply N.eqb_eq in E1. subst y.
    unfold all_in in Ea. cbn [forallb] in Ea. apply andb_true_iff in Ea as [_ Ea]. apply andb_true_iff in Ea as [Ea _].
    destruct Hx; subst x; vm_compute in Ea; discriminate. }
  rewrite (P 120%N), (P 111%N) by auto. tauto.
Qed.

Lemma parse_i64_complete s z : dec_int s = Some z -> in_i64 z = true -> parse_i64 s = Some z.
Proof.
  intros Hd Hr. pose proof (int_complete s z (dec_int_core _ _ Hd) Hr) as Hp.
  (* read it back off parse_from_cow: a decimal literal is numeric-headed, so the tail is reached or the
     '+' prefix succeeded; either way parse_i64 agrees *)
  unfold dec_int in Hd. unfold sign_split in Hd. destruct s as [|c r]; [discriminate|].
  unfold parse_i64, from_str_radix.
  destruct (ch c 43) eqn:Cp; [|destruct (ch c 45) eqn:Cm];
    (destruct (nonempty _ && all_in is_dig _) eqn:E in Hd; [|discriminate]; apply andb_true_iff in E as [En Ea];
     destruct (digits_val 10 _ 0) as [v|] eqn:D in Hd; [|discriminate]; inversion Hd; subst z).
  - destruct r; [discriminate|]. rewrite D. unfold in_i64 in Hr. rewrite Hr. reflexivity.
  - destruct r; [discriminate|]. rewrite D. unfold in_i64 in Hr. rewrite Hr. reflexivity.
  - rewrite D. unfold in_i64 in Hr. rewrite Hr. reflexivity.
Qed.

Lemma prefixed_not_float s x d : (x = 120%N \/ x = 111%N) -> strip_prefix [48%N; x] s = Some d -> core_float s = None.
Proof.
  intros Hx P. apply strip_prefix_app in P. subst s. cbn [app].
  unfold core_float.
  match goal with |- (if ?X then _ else _) = _ => destruct X eqn:E1 end.
  { apply inl_in in E1. cbn in E1. repeat (destruct E1 as [E1|E1]; [discriminate E1|]). destruct E1. }
  unfold sign_split. change (ch 48%N 43%N) with false. change (ch 48%N 45%N) with false. cbv iota.
  match goal with |- (if ?X then _ else _) = _ => destruct X eqn:E2 end.
  { apply inl_in in E2. cbn in E2. repeat (destruct E2 as [E2|E2]; [discriminate E2|]). destruct E2. }
  unfold core_number. cbn [span_digits]. change (is_dig 48%N) with true. cbv iota.
  assert (Dx : is_dig x = false) by (destruct Hx; subst x; reflexivity).
  rewrite Dx. assert (Cx : ch x 46%N = false) by (destruct Hx; subst x; reflexivity).
  rewrite Cx. cbn [nonempty]. unfold exp_part.
  assert (Ex : ch x 101%N || ch x 69%N = false) by (destruct Hx; subst x; reflexivity).
  rewrite Ex. reflexivity.
Qed.

Lemma digits_dval d v : digits_val 10 d 0 = Some v -> dval d = v.
Proof. unfold dval. intros ->. reflexivity. Qed.

(* a text that is both a core integer and a core float denotes the same number *)
Lemma int_float_agree s z f : core_int s = Some z -> core_float s = Some f -> fval_is_int f z = true.
Proof.
  unfold core_int. intros Hi Hf.
  destruct (strip_prefix [48;120]%N s) as [d|] eqn:P1.
  { rewrite (prefixed_not_float s 120%N d (or_introl eq_refl) P1) in Hf. discriminate. }
  destruct (strip_prefix [48;111]%N s) as [d|] eqn:P2.
  { rewrite (prefixed_not_float s 111%N d (or_intror eq_refl) P2) in Hf. discriminate. }
  unfold core_float in Hf. destruct (inl s [s_dnan; s_dNaN; s_dNAN]) eqn:E1.
  { apply inl_in in E1. cbn in E1. destruct E1 as [<-|[<-|[<-|[]]]]; vm_compute in Hi; discriminate. }
  destruct (sign_split s) as [neg d] eqn:Hs.
  destruct (nonempty d && all_in is_dig d) eqn:E; [|discriminate]. pose proof E as E'. apply andb_true_iff in E as [En Ea].
  destruct (digits_val 10 d 0) as [v|] eqn:D; [|discriminate]. inversion Hi; subst z.
  destruct (inl d [s_dinf; s_dInf; s_dINF]) eqn:E2.
  { apply inl_in in E2. cbn in E2. destruct E2 as [<-|[<-|[<-|[]]]]; vm_compute in Ea; discriminate. }
  unfold core_number in Hf. rewrite (span_digits_all d E') in Hf. rewrite En in Hf.
  inversion Hf; subst f. cbn [fval_is_int]. rewrite (digits_dval _ _ D). rewrite Z.eqb_refl. cbn [andb]. apply Z.eqb_refl.
Qed.

Lemma fval_eqb_refl f : fval_eqb f f = true.
Proof. destruct f; cbn; [reflexivity|apply Bool.eqb_reflx|]. rewrite Bool.eqb_reflx, !Z.eqb_refl. reflexivity. Qed.

Lemma parse_f64_untagged s f : parse_f64 s = Some f ->
  match parse_from_cow s with
  | SFloat g => fval_eqb f g = true
  | SInt z => fval_is_int f z = true
  | _ => False
  end.
Proof.
  intros H. pose proof (parse_f64_sound _ _ H) as Hf.
  destruct (core_int s) as [z|] eqn:Ci.
  - destruct (in_i64 z) eqn:R.
    + rewrite (int_complete s z Ci R). exact (int_float_agree _ _ _ Ci Hf).
    + rewrite (float_complete s f Hf); [apply fval_eqb_refl|]. intros z' Hz'. rewrite Ci in Hz'. inversion Hz'; subst. exact R.
  - rewrite (float_complete s f Hf); [apply fval_eqb_refl|]. intros z' Hz'. rewrite Ci in Hz'. discriminate.
Qed.

Lemma tbl_tagged_null : tagged_null_words = [s_tilde; s_null].
Proof. reflexivity. Qed.

Theorem c08_tagged_model_ok suffix s :
  c08_tagged_ok suffix s (parse_from_cow s) (parse_from_cow_and_metadata s true (Some (core_tag_prefix, suffix))) = true.
Proof.
  unfold parse_from_cow_and_metadata, c08_tagged_ok. cbn [negb]. rewrite str_eqb_refl.
  destruct (str_eqb suffix w_int) eqn:S1.
  { apply str_eqb_eq in S1. subst suffix. change (str_eqb w_int w_bool) with false. cbv iota.
    destruct (parse_i64 s) as [i|] eqn:E; cbn [option_map].
    - rewrite (parse_i64_untagged _ _ E). apply scalar_eqb_refl.
    - destruct (dec_int s) as [z|] eqn:D; [|reflexivity]. destruct (in_i64 z) eqn:R; [|reflexivity].
      rewrite (parse_i64_complete _ _ D R) in E. discriminate. }
  destruct (str_eqb suffix w_float) eqn:S2.
  { apply str_eqb_eq in S2. subst suffix. change (str_eqb w_float w_bool) with false. cbv iota.
    destruct (parse_f64 s) as [f|] eqn:E; cbn [option_map].
    - pose proof (parse_f64_untagged _ _ E) as HU. destruct (parse_from_cow s); try contradiction; exact HU.
    - destruct (core_float s) as [f|] eqn:Cf; [|reflexivity].
      destruct (parse_f64_complete _ _ Cf) as [Hp _]. rewrite Hp in E. discriminate. }
  destruct (str_eqb suffix w_bool) eqn:S3.
  { unfold parse_bool. destruct (str_eqb s s_true) eqn:T; [apply str_eqb_eq in T; subst; reflexivity|].
    destruct (str_eqb s s_false) eqn:F; [apply str_eqb_eq in F; subst; reflexivity|]. reflexivity. }
  destruct (str_eqb suffix w_null) eqn:S4.
  { rewrite tbl_tagged_null.
    destruct (inl s [s_tilde; s_null]) eqn:E.
    - apply inl_in in E. cbn in E. destruct E as [<-|[<-|[]]]; reflexivity.
    - assert (E' : inl s [s_null; s_tilde] = false).
      { destruct (inl s [s_null; s_tilde]) eqn:X; [|reflexivity]. apply inl_in in X. cbn in X.
        destruct X as [<-|[<-|[]]]; vm_compute in E; discriminate. }
      rewrite E'. reflexivity. }
  apply str_eqb_refl.
Qed.
Print Assumptions c08_tagged_model_ok.

(* non-plain styles and non-core tags: always a string with identical content *)
Theorem c08_nonplain_string s tg : parse_from_cow_and_metadata s false tg = Some (SStr s).
Proof. reflexivity. Qed.
Theorem c08_foreign_tag_string s h sfx :
  str_eqb h core_tag_prefix = false -> parse_from_cow_and_metadata s true (Some (h, sfx)) = Some (SStr s).
Proof. intros H. unfold parse_from_cow_and_metadata. cbn [negb]. rewrite H. reflexivity. Qed.
