(* Joint proof "the scanner's loops end before their (linear) fuel does" (see SCANFUEL.md): the QUOTED (flow) SCALAR
   family of Model/SScalar.v - read_hex, resolve_escape, consume_nonws, flow_blanks, the main loop of
   scan_flow_scalar and scan_flow_scalar itself.
   - consume_nonws: every iteration that goes round again has consumed at least one character that is really there
     (the character just peeked is not blank/break/NUL): '' (2), an escape sequence (>= 2), an ordinary character (1);
   - flow_blanks: every iteration consumes a blank (1) or a line break (1 or 2) that has just been peeked;
   - the main loop: an iteration is entered only on a non-NUL character (error 71 otherwise); if consume_nonws
     consumed nothing the character in front is a blank, a break or the closing quote: the quote ends the loop, a
     blank/break is consumed by flow_blanks.  So every iteration that goes round again has consumed a character. *)
From Coq Require Import List NArith ZArith Bool Arith Lia.
Import ListNotations.
Require Import Parser SBase SPrim SDir SScalar SFetch ScanFuel.
Local Open Scope nat_scope.

Arguments Nat.ltb : simpl never.
Arguments Nat.leb : simpl never.
Arguments Nat.eqb : simpl never.
Arguments Nat.sub : simpl never.
Arguments Nat.max : simpl never.

(* the main loop of scan_flow_scalar (a local [fix] in the model) restated as a top-level Fixpoint; the equation
   [fscan_flow_scalar_unfold] is proved by reflexivity, so this is the model's loop verbatim *)
Section Loop.
Context {I : Type} (ops : InputOps I).
Local Open Scope N_scope.
Local Open Scope mon_scope.
Section Go.
Variables (F : nat) (single : bool) (start : marker).
Fixpoint fflow_go (f : nat) (acc : list chr) (lb : bool) (tb : N)
  (ws : list chr) : @M I (list chr) :=
  match f with
  | O => oof
  | S f =>
    look ops 4 ;;;
    s <- get ;;
    di <- (if m_col (sc_mark s) =? 0 then next_is_document_indicator ops else ret false) ;;
    if di then fail 70 start else
    z <- next_is ops is_z ;;
    if z then fail 71 start else
    lt <- col_lt_indent ;;
    if lt then fail 72 start else
    r <- consume_nonws ops F single acc start ;;
    let '(acc, lbl) := r in
    c <- look_ch ops ;;
    if (single && (c =? 39)) || (negb single && (c =? 34)) then ret acc
    else
      r <- flow_blanks ops F lbl lb tb ws ;;
      let '(lbl, lb, tb, ws) := r in
      if lbl then
        if negb lb then fflow_go f (nls tb acc) false 0 ws
        else if tb =? 0 then fflow_go f (32 :: acc) false 0 ws
        else fflow_go f (nls tb acc) false 0 ws
      else fflow_go f (ws ++ acc) lb tb []
  end.
End Go.

Lemma fscan_flow_scalar_unfold F single :
  scan_flow_scalar ops F single =
  (start <- mark ;;
   skip_non_blank ops ;;;
   str <- fflow_go F single start F [] false 0 [] ;;
   skip_non_blank ops ;;;
   skip_ws_to_eol ops F SkipYes ;;;
   c <- SPrim.peek ops ;; s <- get ;;
   let fl := 0 <? sc_flow_level s in
   if (((c =? 44) || (c =? 125) || (c =? 93)) && fl) || is_breakz c
      || ((c =? 58) && negb fl && (m_line start =? m_line (sc_mark s))) || ((c =? 58) && fl)
   then ret ({| sp_start := start; sp_end := sc_mark s |},
             TScalar (if single then SingleQuoted else DoubleQuoted) (rev str))
   else fail 74 (sc_mark s)).
Proof. reflexivity. Qed.
End Loop.

Ltac case_if E := match goal with |- fwp (if ?b then _ else _) _ _ => destruct b eqn:E end.

(* ---------------- the measure ---------------- *)
Lemma rl_eq s s' : frem s' = frem s -> rl s' = rl s.
Proof. unfold rl. intros ->. reflexivity. Qed.
Lemma fnth_eq s s' i : frem s' = frem s -> fnth s' i = fnth s i.
Proof. unfold fnth. intros ->. reflexivity. Qed.
Lemma rl_tl_lt s s' : frem s' = tl (frem s) -> fnth s 0 <> 0%N -> rl s' < rl s.
Proof. intros H Hz. pose proof (fnth0_nonzero_rl s Hz). rewrite (rl_tl s s' H); lia. Qed.
Lemma rl_skipn_lt n s s' : frem s' = skipn n (frem s) -> 1 <= n -> fnth s 0 <> 0%N -> rl s' < rl s.
Proof. intros H Hn Hz. pose proof (fnth0_nonzero_rl s Hz) as H0. unfold rl in *. rewrite H, skipn_length. lia. Qed.

(* the character classes that lead to a skip do not contain NUL *)
Lemma blank_nz c : is_blank c = true -> c <> 0%N.
Proof. intros H E. subst c. vm_compute in H. discriminate H. Qed.
Lemma break_nz c : is_break c = true -> c <> 0%N.
Proof. intros H E. subst c. vm_compute in H. discriminate H. Qed.
Lemma nbbz_nz c : is_blank_or_breakz c = false -> c <> 0%N.
Proof. intros H E. subst c. vm_compute in H. discriminate H. Qed.
Lemma bbz_cases c : is_blank_or_breakz c = true -> is_z c = false -> is_blank c || is_break c = true.
Proof.
  unfold is_blank_or_breakz, is_breakz. intros H Z. rewrite Z in H. rewrite orb_false_r in H. exact H.
Qed.

(* ---------------- mark primitives: what they do to the input ---------------- *)
Lemma fwp_skip_non_blank (Q : unit -> fst_ -> Prop) s :
  (forall s', frem s' = tl (frem s) -> lk s' = lk s -> Q tt s') -> fwp (skip_non_blank str_ops) Q s.
Proof.
  intros HQ. unfold skip_non_blank. apply fwp_bind. apply fwp_in_skip. intros s1 R1 L1 _.
  apply fwp_bind. unfold adv_mark. apply fwp_modify. apply fwp_modify. apply HQ; [exact R1|exact L1].
Qed.
Lemma fwp_skip_blank (Q : unit -> fst_ -> Prop) s :
  (forall s', frem s' = tl (frem s) -> lk s' = lk s -> Q tt s') -> fwp (skip_blank str_ops) Q s.
Proof.
  intros HQ. unfold skip_blank. apply fwp_bind. apply fwp_in_skip. intros s1 R1 L1 _.
  unfold adv_mark. apply fwp_modify. apply HQ; [exact R1|exact L1].
Qed.
Lemma fwp_skip_nl (Q : unit -> fst_ -> Prop) s :
  (forall s', frem s' = tl (frem s) -> lk s' = lk s -> Q tt s') -> fwp (skip_nl str_ops) Q s.
Proof.
  intros HQ. unfold skip_nl. apply fwp_bind. apply fwp_in_skip. intros s1 R1 L1 _.
  apply fwp_modify. apply HQ; [exact R1|exact L1].
Qed.
Lemma fwp_skip_n_non_blank n (Q : unit -> fst_ -> Prop) s :
  (forall s', frem s' = skipn n (frem s) -> lk s' = lk s -> Q tt s') -> fwp (skip_n_non_blank str_ops n) Q s.
Proof.
  intros HQ. unfold skip_n_non_blank. apply fwp_bind. apply fwp_in_skip_n. intros s1 R1 L1 _.
  apply fwp_bind. unfold adv_mark. apply fwp_modify. apply fwp_modify. apply HQ; [exact R1|exact L1].
Qed.

(* skip_break on a character that is really there consumes it (and the LF of a CR LF) *)
Lemma fwp_skip_break (Q : unit -> fst_ -> Prop) s :
  fnth s 0 <> 0%N -> (forall s', rl s' < rl s -> lk s' = lk s -> Q tt s') -> fwp (skip_break str_ops) Q s.
Proof.
  intros Hz HQ. unfold skip_break. apply fwp_bind. apply fwp_peek. apply fwp_bind. apply fwp_peekn. cbv beta.
  apply fwp_bind. case_if Eb; [apply fwp_ret|apply fwp_panic].
  apply fwp_bind. case_if Ecr.
  - apply fwp_skip_blank. intros s1 R1 L1. apply fwp_skip_nl. intros s2 R2 L2. apply HQ; [|congruence].
    pose proof (rl_tl_lt s s1 R1 Hz). pose proof (rl_tl_le s1 s2 R2). lia.
  - apply fwp_ret. apply fwp_skip_nl. intros s2 R2 L2. apply HQ; [apply rl_tl_lt; assumption|exact L2].
Qed.

Lemma fwp_skip_linebreak (Q : unit -> fst_ -> Prop) s :
  (forall s', rl s' <= rl s -> lk s' = lk s -> Q tt s') -> fwp (skip_linebreak str_ops) Q s.
Proof.
  intros HQ. unfold skip_linebreak. apply fwp_bind. unfold next_2_are. apply fwp_bind. apply fwp_assert_buflen.
  apply fwp_bind. apply fwp_peek. apply fwp_bind. apply fwp_peekn. apply fwp_ret. cbv beta.
  case_if E.
  - apply fwp_bind. apply fwp_skip_blank. intros s1 R1 L1. apply fwp_skip_nl. intros s2 R2 L2. apply HQ; [|congruence].
    pose proof (rl_tl_le s s1 R1). pose proof (rl_tl_le s1 s2 R2). lia.
  - apply fwp_bind. apply fwp_peek. cbv beta. case_if E2.
    + apply fwp_skip_nl. intros s2 R2 L2. apply HQ; [exact (rl_tl_le s s2 R2)|exact L2].
    + apply fwp_ret. apply HQ; [lia|reflexivity].
Qed.

(* state-preserving input tests *)
Lemma fwp_next_3_are a b c (Q : bool -> fst_ -> Prop) s : (forall r, Q r s) -> fwp (next_3_are str_ops a b c) Q s.
Proof.
  intros HQ. unfold next_3_are. apply fwp_bind. apply fwp_assert_buflen. apply fwp_bind. apply fwp_peek.
  apply fwp_bind. apply fwp_peekn. apply fwp_bind. apply fwp_peekn. apply fwp_ret. apply HQ.
Qed.
Lemma fwp_next_is_document_indicator (Q : bool -> fst_ -> Prop) s :
  (forall r, Q r s) -> fwp (next_is_document_indicator str_ops) Q s.
Proof.
  intros HQ. unfold next_is_document_indicator. apply fwp_bind. apply fwp_assert_buflen. apply fwp_bind. apply fwp_peekn.
  cbv beta. case_if E; [|apply fwp_ret; apply HQ].
  apply fwp_bind. apply fwp_next_3_are. intros [|]; [apply fwp_ret; apply HQ|apply fwp_next_3_are; exact HQ].
Qed.

(* ---------------- escapes ---------------- *)
(* read_hex is structurally recursive on the digit count: no fuel; it does not touch the state *)
Lemma fwp_read_hex start n : forall i acc (Q : N -> fst_ -> Prop) s,
  (forall v, Q v s) -> fwp (read_hex str_ops n i acc start) Q s.
Proof.
  induction n as [|n IH]; intros i acc Q s HQ; cbn [read_hex].
  - apply fwp_ret. apply HQ.
  - apply fwp_bind. apply fwp_peekn. cbv beta. case_if E; [apply IH; exact HQ|apply fwp_fail].
Qed.

(* resolve_escape is called with a backslash at offset 0 (all that matters: a character that is really there) *)
Lemma fwp_resolve_escape start (Q : chr -> fst_ -> Prop) s :
  fnth s 0 <> 0%N -> (forall r s', rl s' < rl s -> lk s <= lk s' -> Q r s') -> fwp (resolve_escape str_ops start) Q s.
Proof.
  intros Hz HQ. unfold resolve_escape. apply fwp_bind. apply fwp_peekn. cbv beta.
  destruct (assocc (fnth s 1) escape_table) as [r|].
  - apply fwp_bind. apply fwp_skip_n_non_blank. intros s1 R1 L1. apply fwp_ret.
    apply HQ; [apply (rl_skipn_lt 2 s s1 R1); [lia|exact Hz]|lia].
  - cbv zeta. case_if En; [apply fwp_fail|].
    apply fwp_bind. apply fwp_skip_n_non_blank. intros s1 R1 L1.
    apply fwp_bind. apply fwp_look. intros s2 R2 L2 _.
    apply fwp_bind. apply fwp_read_hex. intros v.
    case_if Ev; [|apply fwp_fail].
    apply fwp_bind. apply fwp_skip_n_non_blank. intros s3 R3 L3. apply fwp_ret.
    pose proof (rl_skipn_lt 2 s s1 R1 ltac:(lia) Hz). pose proof (rl_eq s1 s2 R2). pose proof (rl_skipn_le _ s2 s3 R3).
    apply HQ; lia.
Qed.

(* ---------------- consume_flow_scalar_non_whitespace_chars ---------------- *)
Definition quote (single : bool) (c : chr) : bool := (single && (c =? 39)%N) || (negb single && (c =? 34)%N).

(* what consume_nonws leaves behind: either it consumed something, or the input is untouched and the character in
   front is a blank, a break, NUL or the closing quote *)
Definition cn_rel (single : bool) (s s' : fst_) : Prop :=
  rl s' < rl s \/ (frem s' = frem s /\ (is_blank_or_breakz (fnth s 0) = true \/ quote single (fnth s 0) = true)).

Lemma cn_rel_le single s s' : cn_rel single s s' -> rl s' <= rl s.
Proof. intros [H|[H _]]; [lia|rewrite (rl_eq s s' H); lia]. Qed.

Lemma fwp_consume_nonws start fuel : forall single acc (Q : list chr * bool -> fst_ -> Prop) s,
  rl s < fuel ->
  (forall r s', lk s <= lk s' -> cn_rel single s s' -> Q r s') ->
  fwp (consume_nonws str_ops fuel single acc start) Q s.
Proof.
  induction fuel as [|fuel IH]; intros single acc Q s Hf HQ; cbn [consume_nonws]; [lia|].
  apply fwp_bind. apply fwp_look. intros s1 R1 L1 _.
  pose proof (rl_eq s s1 R1) as RL1.
  apply fwp_bind. apply fwp_peek. cbv beta.
  rewrite (fnth_eq s s1 0 R1).
  destruct (is_blank_or_breakz (fnth s 0)) eqn:Ebb.
  { apply fwp_ret. apply HQ; [lia|]. right. split; [exact R1|left; exact Ebb]. }
  assert (Hz : fnth s 0 <> 0%N) by (apply nbbz_nz; exact Ebb).
  assert (Hz1 : fnth s1 0 <> 0%N) by (rewrite (fnth_eq s s1 0 R1); exact Hz).
  apply fwp_bind. apply fwp_peekn. cbv beta.
  case_if E1.
  { (* '' *)
    apply fwp_bind. apply fwp_skip_n_non_blank. intros s2 R2 L2.
    pose proof (rl_skipn_lt 2 s1 s2 R2 ltac:(lia) Hz1) as H2.
    apply IH; [lia|]. intros r s' Lk' C'. pose proof (cn_rel_le _ _ _ C').
    apply HQ; [lia|left; lia]. }
  case_if E2.
  { apply fwp_ret. apply HQ; [lia|]. right. split; [exact R1|right].
    apply andb_true_iff in E2 as [A B]. subst single. unfold quote. cbn [andb orb negb]. rewrite A. reflexivity. }
  case_if E3.
  { apply fwp_ret. apply HQ; [lia|]. right. split; [exact R1|right].
    apply andb_true_iff in E3 as [A B]. destruct single; [discriminate B|]. unfold quote. cbn [andb orb negb]. exact A. }
  case_if E4.
  { (* escaped line break *)
    apply fwp_bind. apply fwp_look. intros s2 R2 L2 _.
    assert (Hz2 : fnth s2 0 <> 0%N) by (rewrite (fnth_eq s1 s2 0 R2); exact Hz1).
    apply fwp_bind. apply fwp_skip_non_blank. intros s3 R3 L3.
    apply fwp_bind. apply fwp_skip_linebreak. intros s4 R4 L4. apply fwp_ret.
    pose proof (rl_eq s1 s2 R2). pose proof (rl_tl_lt s2 s3 R3 Hz2).
    apply HQ; [lia|left; lia]. }
  case_if E5.
  { (* escape sequence *)
    apply fwp_bind. apply fwp_resolve_escape; [exact Hz1|]. intros r s2 R2 L2.
    apply IH; [lia|]. intros r' s' Lk' C'. pose proof (cn_rel_le _ _ _ C').
    apply HQ; [lia|left; lia]. }
  (* ordinary character *)
  apply fwp_bind. apply fwp_skip_non_blank. intros s2 R2 L2.
  pose proof (rl_tl_lt s1 s2 R2 Hz1).
  apply IH; [lia|]. intros r s' Lk' C'. pose proof (cn_rel_le _ _ _ C').
  apply HQ; [lia|left; lia].
Qed.

(* ---------------- the blank-consuming loop ---------------- *)
Lemma fwp_flow_blanks fuel : forall lbl lb tb ws (Q : bool * bool * N * list chr -> fst_ -> Prop) s,
  rl s < fuel ->
  (forall r s', lk s <= lk s' -> rl s' <= rl s ->
     (is_blank (fnth s 0) || is_break (fnth s 0) = true -> rl s' < rl s) -> Q r s') ->
  fwp (flow_blanks str_ops fuel lbl lb tb ws) Q s.
Proof.
  induction fuel as [|fuel IH]; intros lbl lb tb ws Q s Hf HQ; cbn [flow_blanks]; [lia|].
  apply fwp_bind. apply fwp_peek. cbv beta.
  destruct (is_blank (fnth s 0)) eqn:Ebl.
  - assert (Hz : fnth s 0 <> 0%N) by (apply blank_nz; exact Ebl).
    assert (K : forall lbl lb tb ws s1, frem s1 = tl (frem s) -> lk s1 = lk s ->
              fwp (bind (look str_ops 1) (fun _ => flow_blanks str_ops fuel lbl lb tb ws)) Q s1).
    { intros lbl' lb' tb' ws' s1 R1 L1. pose proof (rl_tl_lt s s1 R1 Hz).
      apply fwp_bind. apply fwp_look. intros s2 R2 L2 _. pose proof (rl_eq s1 s2 R2).
      apply IH; [lia|]. intros r s' Lk' Le' _. apply HQ; [lia|lia|intros _; lia]. }
    destruct lbl.
    + apply fwp_bind. unfold col_lt_indent. apply fwp_gets. cbv beta.
      case_if Et.
      { apply fwp_bind. unfold mark. apply fwp_gets. apply fwp_fail. }
      apply fwp_bind. apply fwp_skip_blank. intros s1 R1 L1. apply K; assumption.
    + apply fwp_bind. apply fwp_skip_blank. intros s1 R1 L1. apply K; assumption.
  - destruct (is_break (fnth s 0)) eqn:Eb.
    2:{ apply fwp_ret. apply HQ; [lia|lia|]. cbn [orb]. intros H; discriminate H. }
    assert (Hz : fnth s 0 <> 0%N) by (apply break_nz; exact Eb).
    apply fwp_bind. apply fwp_look. intros s1 R1 L1 _.
    assert (Hz1 : fnth s1 0 <> 0%N) by (rewrite (fnth_eq s s1 0 R1); exact Hz).
    pose proof (rl_eq s s1 R1) as RL1.
    assert (K : forall lbl lb tb ws s2, rl s2 < rl s1 -> lk s2 = lk s1 ->
              fwp (bind (look str_ops 1) (fun _ => flow_blanks str_ops fuel lbl lb tb ws)) Q s2).
    { intros lbl' lb' tb' ws' s2 R2 L2.
      apply fwp_bind. apply fwp_look. intros s3 R3 L3 _. pose proof (rl_eq s2 s3 R3).
      apply IH; [lia|]. intros r s' Lk' Le' _. apply HQ; [lia|lia|intros _; lia]. }
    destruct lbl.
    + apply fwp_bind. apply fwp_skip_break; [exact Hz1|]. intros s2 R2 L2. apply K; assumption.
    + apply fwp_bind. apply fwp_skip_break; [exact Hz1|]. intros s2 R2 L2. apply K; assumption.
Qed.

(* ---------------- the main loop ---------------- *)
Lemma fwp_flow_go F single start f : forall acc lb tb ws (Q : list chr -> fst_ -> Prop) s,
  rl s < f -> rl s < F ->
  (forall r s', lk s <= lk s' -> rl s' <= rl s -> Q r s') ->
  fwp (fflow_go str_ops F single start f acc lb tb ws) Q s.
Proof.
  induction f as [|f IH]; intros acc lb tb ws Q s Hf HF HQ; cbn [fflow_go]; [lia|].
  apply fwp_bind. apply fwp_look. intros s1 R1 L1 _. pose proof (rl_eq s s1 R1) as RL1.
  apply fwp_bind. apply fwp_get.
  apply fwp_bind.
  apply fwp_mono with (Q := fun (_ : bool) s' => s' = s1).
  { case_if Ec; [apply fwp_next_is_document_indicator; reflexivity|apply fwp_ret; reflexivity]. }
  intros di s1' ->.
  destruct di; [apply fwp_fail|].
  apply fwp_bind. unfold next_is. apply fwp_bind. apply fwp_peek. apply fwp_ret.
  destruct (is_z (fnth s1 0)) eqn:Ez; [apply fwp_fail|].
  apply fwp_bind. unfold col_lt_indent. apply fwp_gets. cbv beta.
  case_if Elt; [apply fwp_fail|].
  apply fwp_bind. apply fwp_consume_nonws; [lia|].
  intros [acc' lbl] s2 L2 C2. cbv beta iota.
  apply fwp_bind. apply fwp_look_ch. intros s3 R3 L3 _. pose proof (rl_eq s2 s3 R3) as RL3.
  case_if Equ.
  { apply fwp_ret. pose proof (cn_rel_le _ _ _ C2). apply HQ; lia. }
  apply fwp_bind. apply fwp_flow_blanks; [pose proof (cn_rel_le _ _ _ C2); lia|].
  intros [[[lbl' lb'] tb'] ws'] s4 L4 Le4 Lt4. cbv beta iota.
  (* this iteration has consumed at least one character *)
  assert (Hlt : rl s4 < rl s).
  { destruct C2 as [C2|[C2 [Hb|Hq]]].
    - lia.
    - rewrite <- RL1, <- (rl_eq s1 s2 C2), <- RL3. apply Lt4.
      rewrite (fnth_eq s2 s3 0 R3), (fnth_eq s1 s2 0 C2). apply bbz_cases; assumption.
    - exfalso. rewrite (fnth_eq s2 s3 0 R3), (fnth_eq s1 s2 0 C2) in Equ. unfold quote in Hq.
      rewrite Hq in Equ. discriminate Equ. }
  assert (K : forall acc lb tb ws, fwp (fflow_go str_ops F single start f acc lb tb ws) Q s4).
  { intros acc0 lb0 tb0 ws0. apply IH; [lia|lia|]. intros r s' Lk' Le'. apply HQ; lia. }
  destruct lbl'; [|apply K].
  case_if E1; [apply K|]. case_if E2; apply K.
Qed.

(* ---------------- scan_flow_scalar ---------------- *)
Section FuelFlow.
Hypothesis skip_ws_to_eol_ok : fuel_skip_ws_to_eol.

Theorem scan_flow_scalar_ok : fuel_scan_flow_scalar.
Proof.
  intros F single s HF Hz. rewrite fscan_flow_scalar_unfold. unfold fuel_ok in HF.
  apply fwp_bind. unfold mark. apply fwp_gets.
  (* the opening quote *)
  apply fwp_bind. apply fwp_skip_non_blank. intros s1 R1 L1. pose proof (rl_tl_lt s s1 R1 Hz) as H1.
  apply fwp_bind. apply fwp_flow_go; [lia|lia|]. intros str s2 L2 Le2.
  (* the closing quote *)
  apply fwp_bind. apply fwp_skip_non_blank. intros s3 R3 L3. pose proof (rl_tl_le s2 s3 R3) as H3.
  apply fwp_bind. eapply fwp_mono; [apply skip_ws_to_eol_ok; unfold fuel_ok; lia|].
  intros tw s4 [Le4 L4].
  apply fwp_bind. apply fwp_peek. apply fwp_bind. apply fwp_get. cbv zeta beta.
  case_if E; [|apply fwp_fail].
  apply fwp_ret. unfold lt_post. split; lia.
Qed.

End FuelFlow.

Print Assumptions scan_flow_scalar_ok.
