(* C13 — the two halves composed: scanner model (Proofs/JsonScan*.v: text -> tokens) and parser + loader + resolver models
   (Proofs/JsonProofs.v: tokens -> document).  Every JSON text loads with its JSON meaning, over the whole model pipeline. *)
From Coq Require Import List NArith ZArith Bool Arith Lia.
Import ListNotations.
Require Import Parser SBase SFetch Pipe Resolver CoreSchema Loader PipeL Json C02run JsonProofs JsonScanBase JsonScanRun JsonScanTop.

(* a JSON text denotes a well-formed value (its numbers are RFC 8259 numbers) *)
Lemma elems_each es body : elems_text es body -> forall v, In v es -> exists t, json_text v t.
Proof.
  revert body. induction es as [|x r IH]; intros body H v Hin; [contradiction|].
  inversion H; subst.
  - destruct Hin as [<-|[]]. eauto.
  - destruct Hin as [<-|Hin]; [eauto|]. eapply IH; eauto.
Qed.
Lemma members_each ms body : members_text ms body -> forall kv, In kv ms -> exists t, json_text (snd kv) t.
Proof.
  revert body. induction ms as [|x r IH]; intros body H kv Hin; [contradiction|].
  inversion H; subst.
  - destruct Hin as [<-|[]]. cbn [snd]. eauto.
  - destruct Hin as [<-|Hin]; [cbn [snd]; eauto|]. eapply IH; eauto.
Qed.

Lemma json_text_wf : forall v t, json_text v t -> json_wf v = true.
Proof.
  induction v using jvalue_ind3; intros t0 Ht; try reflexivity.
  - inversion Ht; subst. assumption.
  - cbn [json_wf]. apply forallb_forall. intros x Hx. inversion Ht; subst; [contradiction|].
    rewrite Forall_forall in H. match goal with He : elems_text _ _ |- _ => destruct (elems_each _ _ He x Hx) as (tx & Htx) end.
    exact (H x Hx tx Htx).
  - cbn [json_wf]. apply forallb_forall. intros x Hx. inversion Ht; subst; [contradiction|].
    rewrite Forall_forall in H. match goal with He : members_text _ _ |- _ => destruct (members_each _ _ He x Hx) as (tx & Htx) end.
    exact (H x Hx tx Htx).
Qed.

(* the scanner half in the form the token-level theorem consumes *)
Theorem text_tokens v s : json_doc_text v s -> (json_depth v < 256)%nat ->
  forall F, (2 * length s + 10 <= F)%nat ->
  let '(toks, se) := scan_all str_ops F (4 * F + 20) (init_sc {| si_chars := s; si_look := 0 |}) [] in
  map snd toks = wrap (json_tokens v) /\ se = SEnded /\ (length toks + 2 < 4 * F + 20)%nat.
Proof.
  intros Hd Hdep F HF. destruct (scan_json_doc v s Hd Hdep F HF) as (toks & -> & Hm & Hl). auto.
Qed.

Lemma run_load_scan s :
  run_load s = (let F := (2 * length s + 10)%nat in
                let '(toks, se) := scan_all str_ops F (4 * F + 20) (init_sc {| si_chars := s; si_look := 0 |}) [] in
                load_tokens (4 * F + 20) toks se).
Proof. reflexivity. Qed.

(* C13 over the whole model pipeline *)
Theorem text_load v s : json_doc_text v s -> (json_depth v < 256)%nat -> run_load s = LDocs [yaml_of_json v].
Proof.
  intros Hd Hdep. rewrite run_load_scan. cbv zeta.
  pose proof (text_tokens v s Hd Hdep (2 * length s + 10)%nat (le_n _)) as H.
  destruct (scan_all _ _ _ _ _) as [toks se]. destruct H as (Hm & _ & Hl).
  destruct Hd as (w1 & t & w2 & _ & Ht & _ & _).
  exact (tokens_load v toks se _ (json_text_wf v t Ht) Hm Hl).
Qed.

(* ---------------- the compact serialiser is a serialiser ---------------- *)
Ltac ua := unfold Resolver.str, Parser.str in *; unfold SBase.chr, Resolver.chr in *.
Lemma hex_low : forallb (fun c => match hex4 48 48 (hexdig (c / 16)) (hexdig (c mod 16)) with Some x => (x =? c)%N | None => false end)
                        (map N.of_nat (seq 0 32)) = true.
Proof. vm_compute. reflexivity. Qed.

Lemma below32 c : (c < 32)%N -> In c (map N.of_nat (seq 0 32)).
Proof.
  intros H. apply in_map_iff. exists (N.to_nat c). split; [apply N2Nat.id|]. apply in_seq. lia.
Qed.

Lemma esc_char_text c s t : scalar_char c = true -> str_text s t -> str_text (c :: s) (esc_char c ++ t).
Proof.
  intros Hc Hst. unfold scalar_char in Hc. apply andb_prop in Hc as [Hmax Hsur]. apply negb_true_iff in Hsur.
  unfold esc_char, Resolver.ch. destruct (N.eqb_spec c 34) as [->|H34].
  - apply (st_esc 34%N 34%N); [cbn; tauto|exact Hst].
  - destruct (N.eqb_spec c 92) as [->|H92].
    + apply (st_esc 92%N 92%N); [cbn; tauto|exact Hst].
    + destruct (c <? 32)%N eqn:E32.
      * apply N.ltb_lt in E32. pose proof hex_low as Hh. rewrite forallb_forall in Hh. specialize (Hh c (below32 c E32)).
        destruct (hex4 48 48 (hexdig (c / 16)) (hexdig (c mod 16))) as [x|] eqn:Ex; [|discriminate]. apply N.eqb_eq in Hh. subst x.
        cbn [app]. apply (st_u 48 48 (hexdig (c / 16)) (hexdig (c mod 16)) c)%N; assumption.
      * cbn [app]. apply st_raw; try assumption.
        -- apply N.ltb_ge in E32. apply N.leb_le. exact E32.
        -- unfold Resolver.ch. apply N.eqb_neq. exact H34.
        -- unfold Resolver.ch. apply N.eqb_neq. exact H92.
Qed.

Lemma json_string_text s : forallb scalar_char s = true -> str_text s (flat_map esc_char s).
Proof.
  induction s as [|c s IH]; intros H; [constructor|]. cbn [forallb] in H. apply andb_prop in H as [Hc Hs].
  cbn [flat_map]. apply esc_char_text; [exact Hc|apply IH; exact Hs].
Qed.

Lemma ws_nil : ws [].
Proof. reflexivity. Qed.

Lemma elems_compact x r :
  Forall (fun v => json_text v (json_compact v)) (x :: r) ->
  elems_text (x :: r) (json_compact x ++ flat_map (fun y => 44%N :: json_compact y) r).
Proof.
  revert x. induction r as [|y r IH]; intros x H; inversion H as [|? ? Hx Hr]; subst.
  - cbn [flat_map]. pose proof (et_one x [] (json_compact x) [] ws_nil Hx ws_nil) as E. cbn [app] in E. exact E.
  - cbn [flat_map]. pose proof (et_cons x [] (json_compact x) [] (y :: r) _ ws_nil Hx ws_nil (IH y Hr)) as E. cbn [app] in E. exact E.
Qed.

Lemma members_compact kv r :
  Forall (fun kv => forallb scalar_char (fst kv) = true /\ json_text (snd kv) (json_compact (snd kv))) (kv :: r) ->
  members_text (kv :: r) ((json_string (fst kv) ++ 58%N :: json_compact (snd kv))
                          ++ flat_map (fun kv => 44%N :: json_string (fst kv) ++ 58%N :: json_compact (snd kv)) r).
Proof.
  revert kv. induction r as [|kv2 r IH]; intros [k v] H; inversion H as [|? ? [Hk Hv] Hr]; subst; cbn [fst snd] in *.
  - cbn [flat_map]. rewrite app_nil_r.
    pose proof (mt_one k v [] (flat_map esc_char k) [] [] (json_compact v) [] ws_nil (json_string_text k Hk) ws_nil ws_nil Hv ws_nil) as E.
    cbn [app] in E. rewrite app_nil_r in E. unfold json_string. cbn [app]. ua. rewrite <- app_assoc. cbn [app]. exact E.
  - cbn [flat_map].
    pose proof (mt_cons k v [] (flat_map esc_char k) [] [] (json_compact v) [] (kv2 :: r) _ ws_nil (json_string_text k Hk) ws_nil ws_nil Hv ws_nil (IH kv2 Hr)) as E.
    cbn [app] in E. unfold json_string at 1. cbn [app]. ua. repeat (rewrite <- app_assoc || (progress cbn [app])). repeat (rewrite <- app_assoc in E || (progress cbn [app] in E)). exact E.
Qed.

Theorem json_compact_text : forall v, json_wf v = true -> json_chars_ok v = true -> json_text v (json_compact v).
Proof.
  induction v using jvalue_ind3; intros Hwf Hok.
  - constructor.
  - constructor.
  - constructor. exact Hwf.
  - cbn [json_compact]. unfold json_string. constructor. apply json_string_text. exact Hok.
  - cbn [json_wf json_chars_ok] in *. destruct l as [|x r].
    + apply (jt_arr0 []). reflexivity.
    + cbn [json_compact]. apply jt_arr. apply elems_compact.
      rewrite Forall_forall in *. rewrite forallb_forall in Hwf, Hok. intros v Hv. apply H; auto.
  - cbn [json_wf json_chars_ok] in *. destruct l as [|kv r].
    + apply (jt_obj0 []). reflexivity.
    + cbn [json_compact]. apply jt_obj. apply members_compact.
      rewrite Forall_forall in *. rewrite forallb_forall in Hwf, Hok. intros kv' Hkv.
      specialize (Hok kv' Hkv). apply andb_prop in Hok as [A B]. split; [exact A|]. apply H; auto.
Qed.

Theorem compact_load v : json_wf v = true -> json_chars_ok v = true -> (json_depth v < 256)%nat ->
  run_load (json_compact v) = LDocs [yaml_of_json v].
Proof.
  intros Hwf Hok Hd. apply text_load; [|exact Hd].
  exists [], (json_compact v), []. repeat split; try reflexivity; [apply json_compact_text; assumption|rewrite app_nil_r; reflexivity].
Qed.

(* ---------------- corollaries ---------------- *)
(* member names pairwise distinct at every level: mappings in source order *)
Theorem text_load_ordered v s : json_doc_text v s -> (json_depth v < 256)%nat -> json_distinct v = true ->
  run_load s = LDocs [yaml_of_json_ordered v].
Proof. intros Hd Hdep Hdis. rewrite <- (yaml_of_json_distinct v Hdis). exact (text_load v s Hd Hdep). Qed.

(* the event API (Parser::next_event loop, Pipe.run_str): the events of the text are those of the value, the run is complete *)
Lemma run_str_scan s :
  run_str s = (let F := (2 * length s + 10)%nat in
               let '(toks, se) := scan_all str_ops F (4 * F + 20) (init_sc {| si_chars := s; si_look := 0 |}) [] in
               parse_all (4 * (4 * F + 20) + 40) (init_parser toks false) se []).
Proof. reflexivity. Qed.

Theorem text_events v s : json_doc_text v s -> (json_depth v < 256)%nat ->
  snd (run_str s) = PDone /\ evs_of (fst (run_str s)) = json_doc_events v.
Proof.
  intros Hd Hdep. rewrite run_str_scan. cbv zeta.
  pose proof (text_tokens v s Hd Hdep (2 * length s + 10)%nat (le_n _)) as H.
  destruct (scan_all _ _ _ _ _) as [toks se]. destruct H as (Hm & _ & Hl).
  apply (tokens_parse_all v toks false se _ Hm). unfold token in *. ua. lia.
Qed.
