(* C16 — the other direction at TEXT level: a tag (or %TAG prefix) whose characters are all tag/uri characters
   but whose percent-escapes have NO decoding (invalid escape, incorrect leading or trailing byte, surrogate,
   above U+10FFFF, NON-SHORTEST FORM) is a scanner error (sites 50..53) at the beginning of the tag / directive —
   for every such text; composed with the parser: the run ends with that scanner error and no node event. *)
From Coq Require Import List NArith ZArith Bool Lia.
Import ListNotations.
Require Import Parser TagSpec SBase SPrim SDir SScalar SFetch Pipe Drivers TagRun TagUtf8 TagScanText TagProofs TagPipeline.
Open Scope N_scope.
Open Scope mon_scope.

(* ========================================================================================== *)
(* 1. Escapes do not reach into what follows the text                                            *)
(* ========================================================================================== *)
(* a character that can neither begin nor continue an escape *)
Definition stops_escape (c : N) : Prop := c <> 37 /\ hex_value c = None.

Lemma take_escape_app_inv : forall l rest b r',
  stops_escape (hd 0 rest) -> take_escape (l ++ rest) = Some (b, r') ->
  exists r, take_escape l = Some (b, r) /\ r' = r ++ rest.
Proof.
  intros l rest b r' [H37 Hhex] H.
  destruct l as [|a [|x [|y l']]].
  - cbn [app] in H. destruct (take_escape_inv _ _ _ H) as [x [y [hi [lo [E _]]]]].
    destruct rest as [|r0 rest']; [discriminate|]. cbn [hd] in H37. inversion E; subst. contradiction.
  - cbn [app] in H. destruct (take_escape_inv _ _ _ H) as [x [y [hi [lo [E [Hx _]]]]]].
    destruct rest as [|r0 rest']; [discriminate|]. cbn [hd] in Hhex. inversion E; subst. congruence.
  - cbn [app] in H. destruct (take_escape_inv _ _ _ H) as [x' [y [hi [lo [E [_ [Hy _]]]]]]].
    destruct rest as [|r0 rest']; [discriminate|]. cbn [hd] in Hhex. inversion E; subst. congruence.
  - cbn [app] in H. unfold take_escape in *. destruct (a =? percent); [|discriminate].
    destruct (hex_value x); [|discriminate]. destruct (hex_value y); [|discriminate].
    inversion H; subst. eexists. split; reflexivity.
Qed.

Lemma take_escapes_app_inv : forall n l rest bs r',
  stops_escape (hd 0 rest) -> take_escapes n (l ++ rest) = Some (bs, r') ->
  exists r, take_escapes n l = Some (bs, r) /\ r' = r ++ rest.
Proof.
  induction n as [|n IH]; intros l rest bs r' HS H; cbn [take_escapes] in *.
  - inversion H; subst. exists l. split; reflexivity.
  - destruct (take_escape (l ++ rest)) as [[b r1]|] eqn:E1; [|discriminate].
    destruct (take_escape_app_inv _ _ _ _ HS E1) as [r [E1' ->]]. rewrite E1'.
    destruct (take_escapes n (r ++ rest)) as [[bs1 r2]|] eqn:E2; [|discriminate].
    destruct (IH _ _ _ _ HS E2) as [r3 [E2' ->]]. rewrite E2'. inversion H; subst.
    eexists. split; reflexivity.
Qed.

Lemma take_escaped_char_app_inv : forall l rest d r',
  stops_escape (hd 0 rest) -> take_escaped_char (l ++ rest) = Some (d, r') ->
  exists r, take_escaped_char l = Some (d, r) /\ r' = r ++ rest.
Proof.
  intros l rest d r' HS H. unfold take_escaped_char in *.
  destruct (take_escape (l ++ rest)) as [[b r1]|] eqn:E1; [|discriminate].
  destruct (take_escape_app_inv _ _ _ _ HS E1) as [r [E1' ->]]. rewrite E1'.
  destruct (sequence_length b) as [[|n]|]; try discriminate.
  destruct (take_escapes n (r ++ rest)) as [[bs r2]|] eqn:E2; [|discriminate].
  destruct (take_escapes_app_inv _ _ _ _ _ HS E2) as [r3 [E2' ->]]. rewrite E2'.
  destruct (utf8_decode (b :: bs)); [|discriminate]. inversion H; subst. eexists. split; reflexivity.
Qed.

Lemma take_escaped_char_none_app : forall l rest,
  stops_escape (hd 0 rest) -> take_escaped_char l = None -> take_escaped_char (l ++ rest) = None.
Proof.
  intros l rest HS H. destruct (take_escaped_char (l ++ rest)) as [[d r']|] eqn:E; [|reflexivity].
  destruct (take_escaped_char_app_inv _ _ _ _ HS E) as [r [E' _]]. congruence.
Qed.

(* ========================================================================================== *)
(* 2. The uri loop on a text without decoding                                                    *)
(* ========================================================================================== *)
Definition scan_error {A} (o : outcome (A * sc strin)) (mk : marker) : Prop :=
  exists site, o = SBase.Err site mk /\ 50 <= site <= 53.

Lemma bind_error : forall {A B} (m : @M strin A) (f : A -> @M strin B) s mk,
  scan_error (m s) mk -> scan_error (bind m f s) mk.
Proof. intros A B m f s mk [site [E H]]. exists site. unfold bind. rewrite E. auto. Qed.

Lemma bind_eq_error : forall {A B} (m : @M strin A) (f : A -> @M strin B) s a s1 mk,
  m s = SBase.Ok (a, s1) -> scan_error (f a s1) mk -> scan_error (bind m f s) mk.
Proof. intros A B m f s a s1 mk E H. unfold bind. rewrite E. exact H. Qed.

Definition undecodable (l : list N) : Prop := percent_decode l = None.

Lemma undecodable_not : forall l t, undecodable l -> ~ decodes l t.
Proof. intros l t H HD. apply percent_decode_decodes in HD. unfold undecodable in H. congruence. Qed.

Lemma undecodable_tail : forall c l, c <> 37 -> undecodable (c :: l) -> undecodable l.
Proof.
  intros c l Hc H. unfold undecodable in *. destruct (percent_decode l) as [t|] eqn:E; [|reflexivity].
  exfalso. apply percent_decode_decodes in E. apply (undecodable_not _ (c :: t) H). apply dec_char; assumption.
Qed.

Lemma undecodable_after : forall l d r, take_escaped_char l = Some (d, r) -> undecodable l -> undecodable r.
Proof.
  intros l d r HE H. unfold undecodable in *. destruct (percent_decode r) as [t|] eqn:E; [|reflexivity].
  exfalso. apply percent_decode_decodes in E. apply (undecodable_not _ (d :: t) H). eapply dec_esc; eassumption.
Qed.

Lemma scan_uri_escapes_error : forall mk l lk m w s,
  take_escaped_char l = None -> scan_error (scan_uri_escapes str_ops mk (st l lk m w s)) mk.
Proof.
  intros mk l lk m w s H. pose proof (scan_uri_escapes_exact mk (st l lk m w s)) as X.
  unfold exact_post in X. cbv zeta in X. rewrite st_chars in X. rewrite H in X. exact X.
Qed.

Lemma ul_go_reject : forall p mk n0 l, (length l <= n0)%nat -> undecodable l -> Forall (fun c => p c = true) l ->
  forall f acc n rest lk m w s, stops_escape (hd 0 rest) -> (length l < f)%nat ->
  scan_error (ul_go p mk f acc n (st (l ++ rest) lk m w s)) mk.
Proof.
  intros p mk n0. induction n0 as [|n0 IH]; intros l Hn HU HF f acc n rest lk m w s HS HL.
  - destruct l; [|cbn in Hn; lia]. discriminate HU.
  - destruct l as [|c l]; [discriminate HU|]. cbn [length] in Hn, HL.
    destruct f as [|f]; [lia|]. inversion HF as [|? ? Hpc HF']; subst.
    cbn [ul_go app]. eapply bind_eq_error; [apply look_ch_st|]. cbn [nth]. rewrite Hpc.
    destruct (N.eqb_spec c 37) as [->|Hc].
    + (* an escape *)
      destruct (take_escaped_char (37 :: l)) as [[d r]|] eqn:E.
      * pose proof (undecodable_after _ _ _ E HU) as HUr.
        destruct (proj1 (take_escaped_char_spells _ _ _) E) as [es [bs [EL [HSp HUd]]]].
        assert (Hbs : (0 < length bs)%nat) by (destruct bs; [discriminate|cbn; lia]).
        assert (HFr : Forall (fun c => p c = true) r) by (rewrite EL in HF; apply Forall_app in HF; apply HF).
        assert (HLr : (length r <= n0)%nat /\ (length r < f)%nat).
        { pose proof (take_escaped_char_shorter _ _ _ E) as HX. cbn [length] in HX. lia. }
        eapply bind_eq_error.
        { apply (scan_uri_escapes_decodes bs d es (r ++ rest)); [exact HUd|exact HSp|].
          rewrite st_chars. change (37 :: l ++ rest) with ((37 :: l) ++ rest). rewrite EL, <- app_assoc. reflexivity. }
        rewrite eats_st by exact Hbs.
        change (37 :: l ++ rest) with ((37 :: l) ++ rest). rewrite EL, <- app_assoc, (skipn_spells_app _ _ _ HSp).
        apply IH; [lia|exact HUr|exact HFr|exact HS|lia].
      * apply bind_error. apply scan_uri_escapes_error.
        change (37 :: l ++ rest) with ((37 :: l) ++ rest). apply take_escaped_char_none_app; assumption.
    + (* an ordinary character *)
      eapply bind_eq_error; [apply skip_non_blank_st|]. cbn [tl].
      apply IH; [lia|apply (undecodable_tail c l Hc HU)|exact HF'|exact HS|lia].
Qed.

(* ========================================================================================== *)
(* 3. scan_tag and scan_directive on texts without decoding                                      *)
(* ========================================================================================== *)
Lemma bbz_stops : forall c, is_blank_or_breakz c = true -> stops_escape c.
Proof. intros c H. apply bbz_cases in H. destruct H as [->|[->|[->|[->| ->]]]]; split; try discriminate; reflexivity. Qed.

Lemma tag_end_stops : forall fl c, tag_end fl c = true -> stops_escape c.
Proof.
  intros fl c H. unfold tag_end in H. apply orb_true_iff in H. destruct H as [H|H]; [apply bbz_stops; exact H|].
  apply andb_true_iff in H. destruct H as [_ H]. apply flow_cases in H.
  destruct H as [->|[->|[->|[->| ->]]]]; split; try discriminate; reflexivity.
Qed.

Lemma undecodable_app_plain : forall wd l, Forall (fun c => is_alpha c = true) wd -> undecodable (wd ++ l) -> undecodable l.
Proof.
  induction wd as [|c wd IH]; intros l HF H; [exact H|]. inversion HF as [|? ? Hc HF']; subst.
  apply IH; [exact HF'|]. apply (undecodable_tail c); [apply (alpha_not c Hc)|exact H].
Qed.

Inductive bad_tag_spelling : list N -> Prop :=
| bt_verbatim : forall l, Forall (fun c => is_uri_char c = true) l -> undecodable l -> bad_tag_spelling (verbatim_text l)
| bt_named : forall name l, Forall (fun c => is_alpha c = true) name -> Forall (fun c => is_tag_char c = true) l ->
    undecodable l -> bad_tag_spelling (named_text name l)
| bt_local : forall l, Forall (fun c => is_tag_char c = true) l -> undecodable l -> bad_tag_spelling (local_text l).

Theorem scan_tag_reject : forall F ttext rest lk m w s,
  bad_tag_spelling ttext -> (length ttext < F)%nat -> tag_end (sc_flow_level s) (hd 0 rest) = true ->
  scan_error (scan_tag str_ops F (st (ttext ++ rest) lk m w s)) m.
Proof.
  intros F ttext rest lk m w s HB HL HE. pose proof (tag_end_stops _ _ HE) as HS.
  unfold scan_tag. inversion HB as [l HF HU|name l HN HF HU|l HF HU]; subst.
  - (* verbatim *)
    unfold verbatim_text in *. cbn [app length] in *. rewrite app_length in HL. cbn [length] in HL.
    rewrite <- app_assoc. cbn [app].
    eapply bind_eq_error; [apply mark_st|]. eapply bind_eq_error; [apply look_st|].
    eapply bind_eq_error; [apply nth_char_is_st|]. cbn [nth]. change (60 =? 60) with true. cbv iota.
    apply bind_error. apply bind_error. unfold scan_verbatim_tag.
    eapply bind_eq_error; [apply skip_non_blank_st|]. eapply bind_eq_error; [apply skip_non_blank_st|]. cbn [tl].
    apply bind_error. rewrite uri_loop_go.
    apply (ul_go_reject _ m (length l) l ltac:(lia) HU HF F [] 0 (62 :: rest)); [split; [discriminate|reflexivity]|lia].
  - (* named *)
    unfold named_text, named_handle in *. cbn [app length] in *. rewrite !app_length in HL. cbn [length] in HL.
    rewrite <- !app_assoc. cbn [app].
    eapply bind_eq_error; [apply mark_st|]. eapply bind_eq_error; [apply look_st|].
    eapply bind_eq_error; [apply nth_char_is_st|]. cbn [nth]. rewrite (alpha_head_not_60 _ _ HN). cbv iota.
    apply bind_error. eapply bind_eq_error; [apply scan_tag_handle_named; [exact HN|lia]|].
    rewrite named_cond. apply bind_error. unfold scan_tag_shorthand_suffix. cbv zeta. apply bind_error.
    rewrite uri_loop_go. apply (ul_go_reject _ m (length l) l ltac:(lia) HU HF); [exact HS|lia].
  - (* local *)
    unfold local_text in *. cbn [app length] in *.
    destruct (tag_end_facts _ _ HE) as [HT [HA [H33 H60]]].
    destruct (alpha_split_spec l) as [Hl [Hwd Hl2]].
    set (wd := fst (alpha_split l)) in *. set (l2 := snd (alpha_split l)) in *. clearbody wd l2.
    assert (HF2 : Forall (fun c => is_tag_char c = true) l2) by (rewrite Hl in HF; apply Forall_app in HF; apply HF).
    assert (HU2 : undecodable l2) by (rewrite Hl in HU; apply (undecodable_app_plain wd l2 Hwd HU)).
    assert (Hl2ne : l2 <> []) by (intros ->; discriminate HU2).
    assert (HLl : (length l = length wd + length l2)%nat) by (rewrite Hl at 1; apply app_length).
    destruct l2 as [|c2 l2']; [contradiction|]. pose proof (Forall_inv HF2) as Hc2. cbv beta in Hc2.
    eapply bind_eq_error; [apply mark_st|]. eapply bind_eq_error; [apply look_st|].
    eapply bind_eq_error; [apply nth_char_is_st|]. cbn [nth].
    assert (H1 : (@nth N 0 (l ++ rest) 0 =? 60) = false).
    { rewrite nth0_hd. apply N.eqb_neq. rewrite Hl, <- app_assoc.
      destruct wd as [|c wd']; [cbn [app hd]; apply (tag_char_not c2 Hc2)|].
      cbn [app hd]. inversion Hwd as [|? ? Hc _]; subst. apply (alpha_not c Hc). }
    rewrite H1. cbv iota. apply bind_error.
    replace (33 :: l ++ rest) with (33 :: wd ++ (c2 :: l2') ++ rest) by (rewrite Hl, <- app_assoc; reflexivity).
    eapply bind_eq_error.
    { apply scan_tag_handle_primary; [exact Hwd|lia|cbn [app hd]; apply Hl2; discriminate
                                     |cbn [app hd]; apply (tag_char_not c2 Hc2)|discriminate]. }
    match goal with |- context [if ?c then _ else _] => destruct c end.
    + apply bind_error. unfold scan_tag_shorthand_suffix. cbv zeta. apply bind_error. rewrite uri_loop_go.
      apply (ul_go_reject _ m (length (c2 :: l2')) (c2 :: l2') ltac:(lia) HU2 HF2); [exact HS|lia].
    + apply bind_error. unfold scan_tag_shorthand_suffix. cbv zeta. apply bind_error. rewrite uri_loop_go.
      apply (ul_go_reject _ m (length (c2 :: l2')) (c2 :: l2') ltac:(lia) HU2 HF2); [exact HS|lia].
Qed.

(* the prefix of a %TAG directive *)
Lemma scan_tag_prefix_reject : forall F mk l rest lk m w s,
  undecodable l -> prefix_text l -> stops_escape (hd 0 rest) -> (length l < F)%nat ->
  scan_error (scan_tag_prefix str_ops F mk (st (l ++ rest) lk m w s)) mk.
Proof.
  intros F mk l rest lk m w s HU [Hne [Hhd HF]] HS HL. unfold scan_tag_prefix.
  destruct l as [|c l1]; [contradiction|]. cbn [hd] in Hhd. cbn [length] in HL.
  inversion HF as [|? ? Hu HF1]; subst. cbn [app].
  eapply bind_eq_error; [apply look_ch_st|]. cbn [nth].
  destruct (N.eqb_spec c 37) as [->|Hc].
  - (* an escape first *)
    change (37 =? 33) with false. change (negb (is_tag_char 37)) with false. change (37 =? 37) with true. cbv iota.
    destruct (take_escaped_char (37 :: l1)) as [[d r]|] eqn:E.
    + pose proof (undecodable_after _ _ _ E HU) as HUr.
      destruct (proj1 (take_escaped_char_spells _ _ _) E) as [es [bs [EL [HSp HUd]]]].
      assert (Hbs : (0 < length bs)%nat) by (destruct bs; [discriminate|cbn; lia]).
      assert (HFr : Forall (fun c => is_uri_char c = true) r) by (rewrite EL in HF; apply Forall_app in HF; apply HF).
      pose proof (take_escaped_char_shorter _ _ _ E) as HX. cbn [length] in HX.
      rewrite bind_bind. eapply bind_eq_error.
      { apply (scan_uri_escapes_decodes bs d es (r ++ rest)); [exact HUd|exact HSp|].
        rewrite st_chars. change (37 :: l1 ++ rest) with ((37 :: l1) ++ rest). rewrite EL, <- app_assoc. reflexivity. }
      eapply bind_eq_error; [apply ret_st|]. rewrite eats_st by exact Hbs.
      change (37 :: l1 ++ rest) with ((37 :: l1) ++ rest). rewrite EL, <- app_assoc, (skipn_spells_app _ _ _ HSp).
      apply bind_error. rewrite uri_loop_go.
      apply (ul_go_reject _ mk (length r) r ltac:(lia) HUr HFr); [exact HS|lia].
    + apply bind_error. apply bind_error. apply scan_uri_escapes_error.
      change (37 :: l1 ++ rest) with ((37 :: l1) ++ rest). apply take_escaped_char_none_app; assumption.
  - pose proof (undecodable_tail c l1 Hc HU) as HU1.
    assert (HG : forall acc lk0 w0 m0, scan_error
              ((r <- uri_loop str_ops F is_uri_char mk acc ;; ret (rev (fst r))) (st (l1 ++ rest) lk0 m0 w0 s)) mk).
    { intros acc lk0 w0 m0. apply bind_error. rewrite uri_loop_go.
      apply (ul_go_reject _ mk (length l1) l1 ltac:(lia) HU1 HF1); [exact HS|lia]. }
    destruct (N.eqb_spec c 33) as [->|H33].
    + rewrite bind_bind. eapply bind_eq_error; [apply skip_non_blank_st|]. cbn [tl].
      eapply bind_eq_error; [apply ret_st|]. apply HG.
    + destruct Hhd as [Hhd|Hhd]; [contradiction|]. rewrite Hhd. cbn [negb].
      rewrite bind_bind.
      eapply bind_eq_error; [apply skip_non_blank_st|]. cbn [tl]. eapply bind_eq_error; [apply ret_st|]. apply HG.
Qed.

(* `%TAG blanks handle blanks <prefix without decoding>` followed by a blank, a break or the end of input *)
Theorem scan_directive_reject : forall F bl1 h bl2 l rest lk m w s,
  bl1 <> [] -> Forall (fun c => is_blank c = true) bl1 -> dir_handle h ->
  bl2 <> [] -> Forall (fun c => is_blank c = true) bl2 ->
  undecodable l -> prefix_text l -> is_blank_or_breakz (hd 0 rest) = true ->
  (4 + length bl1 + length h + length bl2 + length l < F)%nat ->
  scan_error (scan_directive str_ops F (st (s_tag_line ++ bl1 ++ h ++ bl2 ++ l ++ rest) lk m w s)) m.
Proof.
  intros F bl1 h bl2 l rest lk m w s Hne1 HB1 HH Hne2 HB2 HU HP HR HL. unfold scan_directive, s_tag_line.
  cbn [app]. eapply bind_eq_error; [apply mark_st|]. eapply bind_eq_error; [apply skip_non_blank_st|]. cbn [tl].
  unfold scan_directive_name. rewrite bind_bind. eapply bind_eq_error; [apply mark_st|].
  rewrite in_fetch_while_alpha_go.
  assert (Hb1 : is_alpha (hd 0 (bl1 ++ h ++ bl2 ++ l ++ rest)) = false
                /\ is_blank_or_breakz (hd 0 (bl1 ++ h ++ bl2 ++ l ++ rest)) = true).
  { destruct bl1 as [|b bl1']; [contradiction|]. inversion HB1 as [|? ? Hb _]; subst. cbn [app hd].
    assert (Hz : is_blank_or_breakz b = true) by (unfold is_blank_or_breakz; rewrite Hb; reflexivity).
    split; [apply (bbz_not_alpha b Hz)|exact Hz]. }
  rewrite bind_bind.
  eapply bind_eq_error;
    [apply (fa_go_text [84; 65; 71] ltac:(repeat constructor) F [] 0 _ _ _ _ _ (proj1 Hb1) ltac:(cbn [length]; lia))|].
  cbn [fst snd rev app length]. rewrite bind_bind. eapply bind_eq_error; [apply adv_mark_st|].
  rewrite bind_bind. eapply bind_eq_error; [apply peek_st|]. rewrite nth0_hd, (proj2 Hb1).
  eapply bind_eq_error; [apply ret_st|].
  change (str_eqb [84; 65; 71] s_YAML) with false. change (str_eqb [84; 65; 71] s_TAG) with true. cbv iota.
  apply bind_error. unfold scan_tag_directive_value.
  assert (Hh : is_blank (hd 0 (h ++ bl2 ++ l ++ rest)) = false) by (inversion HH; reflexivity).
  rewrite (skip_blanks_text F bl1 _ _ _ _ s _ _ HB1 Hh ltac:(lia)).
  eapply bind_eq_error; [apply scan_tag_handle_directive; [exact HH|exact Hne2|exact HB2|lia]|].
  assert (Hl : is_blank (hd 0 (l ++ rest)) = false).
  { destruct l as [|c l']; [destruct HP as [HP _]; contradiction|]. exact (blank_not_prefix_head _ HP). }
  rewrite (skip_blanks_text F bl2 _ _ _ _ s _ _ HB2 Hl ltac:(lia)).
  apply bind_error. apply scan_tag_prefix_reject; [exact HU|exact HP|apply bbz_stops; exact HR|lia].
Qed.

(* ========================================================================================== *)
(* 4. The whole pipeline on such texts                                                           *)
(* ========================================================================================== *)
Lemma fetch_tag_reduce : forall F ttext rest lk m w tp, (2 <= F)%nat ->
  fetch_next_token str_ops F (top (32 :: 33 :: ttext ++ rest) lk m w [] false tp false)
  = (t <- scan_tag str_ops F ;; push_tok t)
      (top (33 :: ttext ++ rest) (Nat.max (Nat.max (Nat.max lk 1) 1) 4) (adv 1 m) w [] false tp false).
Proof.
  intros F ttext rest lk m w tp HF.
  unfold fetch_next_token. unfold top.
  tstep. tstep. fld. cbn [negb].
  erewrite bind_eq; [|apply skip_to_next_token_space; [lia|discriminate..]]. unfold top.
  tstep. tstep. tstep. tstep. tstep. cbn [nth]. change (is_z 33) with false. cbv iota.
  tstep. tstep. cbn [nth]. fld. rewrite col_adv1. cbn [andb]. cbv iota. tstep. tstep. cbv iota.
  rewrite z_of_col_lt. tstep. tstep. cbn [nth]. chain. cbv iota.
  unfold fetch_tag. tstep. tstep. reflexivity.
Qed.

Lemma next_token_error : forall F l lk m w ska tp mk,
  (1 <= F)%nat -> scan_error (fetch_next_token str_ops F (top l lk m w [] ska tp false)) mk ->
  scan_error (next_token str_ops F (top l lk m w [] ska tp false)) mk.
Proof.
  intros F l lk m w ska tp mk HF H. destruct F as [|F]; [lia|].
  unfold next_token. eapply bind_eq_error; [apply get_any|]. fld. cbv iota.
  apply bind_error. cbn [fetch_more_tokens]. eapply bind_eq_error; [apply get_any|]. fld.
  eapply bind_eq_error; [apply ret_st|]. cbv iota. apply bind_error. exact H.
Qed.

Lemma scan_all_error : forall F fuel s acc site mk,
  next_token str_ops F s = SBase.Err site mk -> scan_all str_ops F (S fuel) s acc = (rev acc, SError site mk).
Proof. intros F fuel s acc site mk H. cbn [scan_all]. rewrite H. reflexivity. Qed.

(* the document line with a bad tag, from a top-level state at column 0 *)
Lemma scan_all_doc_line_reject : forall F fuel ttext lk i ln w ska tp acc,
  bad_tag_spelling (33 :: ttext) -> (S (length ttext) < F)%nat -> (2 <= F)%nat -> (2 <= fuel)%nat ->
  let m := {| m_index := i; m_line := ln; m_col := 0 |} in
  exists site, 50 <= site <= 53 /\
    scan_all str_ops F fuel (top (doc_line (33 :: ttext)) lk m w [] ska tp false) acc
    = (rev acc ++ [(spn m (adv 3 m), TDocumentStart)], SError site (mk_tag m)).
Proof.
  intros F fuel ttext lk i ln w ska tp acc HB HL HF Hfuel m. unfold doc_line. cbn [app].
  destruct fuel as [|[|fuel]]; try lia.
  destruct (fetch_document_start F 32 (33 :: ttext ++ [32; 120]) lk i ln w ska tp ltac:(lia) eq_refl) as [lk2 [_ E2]].
  cbv zeta in E2. fold m in E2.
  assert (HE : scan_error (next_token str_ops F (top (32 :: 33 :: ttext ++ [32; 120]) lk2 (adv 3 m) false [] false (tp + 1) false))
                 (mk_tag m)).
  { apply next_token_error; [lia|]. rewrite fetch_tag_reduce by lia. apply bind_error.
    change (33 :: ttext ++ [32; 120]) with ((33 :: ttext) ++ [32; 120]).
    apply scan_tag_reject; [exact HB|exact HL|reflexivity]. }
  destruct HE as [site [HE Hs]]. exists site. split; [exact Hs|].
  cbn [scan_all]. rewrite (next_token_top F _ _ _ _ _ _ _ _ _ _ _ _ ltac:(lia) E2 ltac:(discriminate)).
  rewrite HE. reflexivity.
Qed.

(* parser side: the token stream ends with a scanner error before any node *)
Lemma parse_scan_error_plain : forall keep sp1 sp3 site mk,
  let r := parse_tokens [(sp1, TStreamStart); (sp3, TDocumentStart)] (SError site mk) keep in
  (node_tags (fst r), snd r) = ([], PScanErr site mk).
Proof. reflexivity. Qed.
Lemma parse_scan_error_dir : forall keep sp1 sp2 sp3 h p site mk, h <> [] ->
  let r := parse_tokens [(sp1, TStreamStart); (sp2, TTagDirective h p); (sp3, TDocumentStart)] (SError site mk) keep in
  (node_tags (fst r), snd r) = ([], PScanErr site mk).
Proof. intros keep sp1 sp2 sp3 h p site mk Hh. destruct h; [contradiction|]. reflexivity. Qed.
Lemma parse_scan_error_start : forall keep sp1 site mk,
  let r := parse_tokens [(sp1, TStreamStart)] (SError site mk) keep in
  (node_tags (fst r), snd r) = ([], PScanErr site mk).
Proof. reflexivity. Qed.

(* (i) `--- <bad tag> x` *)
Theorem tags_of_plain_doc_reject : forall keep ttext,
  bad_tag_spelling ttext ->
  exists site, 50 <= site <= 53 /\ tags_of_run keep (doc_line ttext) = ([], PScanErr site (tag_mark [])).
Proof.
  intros keep ttext HB.
  assert (exists t', ttext = 33 :: t') as [t' ->] by (inversion HB; eexists; reflexivity).
  pose proof (doc_line_length (33 :: t')) as HLd. cbn [length] in HLd.
  destruct (scan_all_doc_line_reject (2 * length (doc_line (33 :: t')) + 10)
              (4 * (2 * length (doc_line (33 :: t')) + 10) + 19) t' 1 0 1 true true 1 [(span_empty m1, TStreamStart)]
              HB ltac:(lia) ltac:(lia) ltac:(lia)) as [site [Hs E]].
  exists site. split; [exact Hs|]. unfold tags_of_run, run_str_keep, scan_str.
  replace (4 * (2 * length (doc_line (33%N :: t')) + 10) + 20)%nat
    with (S (4 * (2 * length (doc_line (33%N :: t')) + 10) + 19)) by lia.
  cbn [scan_all]. rewrite next_token_init by lia. fold m1 in E. unfold token in *. rewrite E.
  cbn [rev app]. rewrite <- mk_tag_plain. apply parse_scan_error_plain.
Qed.

(* (ii) a good %TAG line, then `--- <bad tag> x` *)
Theorem tags_of_dir_doc_reject : forall keep bl1 dh bl2 ptext p ttext,
  dir_line_ok bl1 dh bl2 ptext p -> bad_tag_spelling ttext ->
  exists site, 50 <= site <= 53 /\
    tags_of_run keep (dir_line bl1 dh bl2 ptext ++ doc_line ttext)
    = ([], PScanErr site (tag_mark (dir_line bl1 dh bl2 ptext))).
Proof.
  intros keep bl1 dh bl2 ptext p ttext [[Hn1 HB1] HH [Hn2 HB2] [HP HDp]] HB.
  assert (exists t', ttext = 33 :: t') as [t' ->] by (inversion HB; eexists; reflexivity).
  pose proof (doc_line_length (33 :: t')) as HLd. cbn [length] in HLd. pose proof (dir_line_length bl1 dh bl2 ptext) as HLl.
  set (F := (2 * length (dir_line bl1 dh bl2 ptext ++ doc_line (33%N :: t')) + 10)%nat).
  assert (HF : (length (dir_line bl1 dh bl2 ptext) + length (doc_line (33%N :: t')) < F)%nat)
    by (unfold F; rewrite app_length; lia).
  unfold tags_of_run, run_str_keep, scan_str. fold F.
  replace (4 * F + 20)%nat with (S (S (4 * F + 18))) by lia.
  cbn [scan_all]. rewrite next_token_init by lia.
  replace (dir_line bl1 dh bl2 ptext ++ doc_line (33 :: t'))
    with (s_tag_line ++ bl1 ++ dh ++ bl2 ++ ptext ++ 10 :: doc_line (33 :: t'))
    by (unfold dir_line; rewrite <- !app_assoc; reflexivity).
  destruct (fetch_tag_directive F bl1 dh bl2 ptext p (doc_line (33 :: t')) 1 0 1 true true 1
              Hn1 HB1 HH Hn2 HB2 HDp HP ltac:(lia)) as [lk1 [_ E1]].
  cbv zeta in E1. fold m1 in E1.
  rewrite (next_token_top F _ _ _ _ _ _ _ _ _ _ _ _ ltac:(lia) E1 ltac:(discriminate)).
  assert (HX : exists site, 50 <= site <= 53 /\
            scan_all str_ops F (4 * F + 18)
              (top (doc_line (33 :: t')) lk1 (mk_doc bl1 dh bl2 ptext) true [] false (1 + 1) false)
              [(mkspan m1 (adv (n_dir bl1 dh bl2 ptext) m1), TTagDirective dh p); (span_empty m1, TStreamStart)]
            = (rev [(mkspan m1 (adv (n_dir bl1 dh bl2 ptext) m1), TTagDirective dh p); (span_empty m1, TStreamStart)]
               ++ [(spn (mk_doc bl1 dh bl2 ptext) (adv 3 (mk_doc bl1 dh bl2 ptext)), TDocumentStart)],
               SError site (mk_tag (mk_doc bl1 dh bl2 ptext)))).
  { exact (scan_all_doc_line_reject F (4 * F + 18) t' lk1 _ _ true false (1 + 1)
             [(mkspan m1 (adv (n_dir bl1 dh bl2 ptext) m1), TTagDirective dh p); (span_empty m1, TStreamStart)]
             HB ltac:(lia) ltac:(lia) ltac:(lia)). }
  destruct HX as [site [Hs E]].
  exists site. split; [exact Hs|]. unfold mk_doc, n_dir in E. unfold token in *. rewrite E. fold (n_dir bl1 dh bl2 ptext). fold (mk_doc bl1 dh bl2 ptext).
  cbn [rev app]. rewrite <- mk_tag_dir.
  assert (Hdh : dh <> []) by (inversion HH; discriminate).
  apply (parse_scan_error_dir keep _ _ _ dh p site _ Hdh).
Qed.

(* (iii) a %TAG line whose prefix has no decoding: whatever follows the line *)
Theorem tags_of_bad_directive : forall keep bl1 dh bl2 ptext rest,
  bl1 <> [] -> Forall (fun c => is_blank c = true) bl1 -> dir_handle dh ->
  bl2 <> [] -> Forall (fun c => is_blank c = true) bl2 ->
  undecodable ptext -> prefix_text ptext -> is_blank_or_breakz (hd 0 rest) = true ->
  exists site, 50 <= site <= 53 /\
    tags_of_run keep (s_tag_line ++ bl1 ++ dh ++ bl2 ++ ptext ++ rest) = ([], PScanErr site m1).
Proof.
  intros keep bl1 dh bl2 ptext rest Hn1 HB1 HH Hn2 HB2 HU HP HR.
  set (text := s_tag_line ++ bl1 ++ dh ++ bl2 ++ ptext ++ rest).
  set (F := (2 * length text + 10)%nat).
  assert (HF : (4 + length bl1 + length dh + length bl2 + length ptext < F)%nat).
  { unfold F, text, s_tag_line. repeat (rewrite app_length || cbn [length]). lia. }
  assert (HE : scan_error (next_token str_ops F (top text 1 m1 true [] true 1 false)) m1).
  { apply next_token_error; [lia|].
    unfold fetch_next_token, text, s_tag_line. cbn [app]. unfold top.
    eapply bind_eq_error; [apply look_st|]. eapply bind_eq_error; [apply get_any|]. fld. cbn [negb].
    eapply bind_eq_error; [apply skip_to_next_token_none; [lia|discriminate..]|]. unfold top.
    eapply bind_eq_error; [apply stale_top|]. eapply bind_eq_error; [apply mark_st|].
    eapply bind_eq_error; [apply unroll_top_col|]. eapply bind_eq_error; [apply look_st|].
    eapply bind_eq_error; [apply next_is_st|]. cbn [nth]. change (is_z 37) with false. cbv iota.
    eapply bind_eq_error; [apply get_any|]. eapply bind_eq_error; [apply peek_st|]. cbn [nth]. fld.
    unfold m1. cbn [m_col]. change (0 =? 0) with true. change (37 =? 37) with true. cbn [andb negb]. cbv iota.
    eapply bind_eq_error; [apply ret_st|]. eapply bind_eq_error; [apply ret_st|]. cbv iota.
    unfold fetch_directive. eapply bind_eq_error; [apply unroll_top; reflexivity|].
    eapply bind_eq_error; [apply remove_sk_top|]. eapply bind_eq_error; [apply disallow_top|].
    apply bind_error. fold m1.
    exact (scan_directive_reject F bl1 dh bl2 ptext rest _ m1 true (base [] false 1 false)
             Hn1 HB1 HH Hn2 HB2 HU HP HR HF). }
  destruct HE as [site [HE Hs]]. exists site. split; [exact Hs|].
  unfold tags_of_run, run_str_keep, scan_str. fold text. fold F.
  replace (4 * F + 20)%nat with (S (S (4 * F + 18))) by lia.
  cbn [scan_all]. rewrite next_token_init by lia. rewrite HE. cbn [rev]. apply parse_scan_error_start.
Qed.

(* ========================================================================================== *)
(* 5. In the words of the specification                                                          *)
(* ========================================================================================== *)
Lemma bad_tag_text_spelling : forall ttext, bad_tag_text ttext -> bad_tag_spelling ttext.
Proof.
  intros ttext H. inversion H as [uri HU HD|name suffix HN HT HD|suffix HT HD]; subst.
  - apply bt_verbatim; [apply (all_Forall _ _ _ uri_char_is_ns_uri_char HU)|exact HD].
  - apply bt_named; [apply (all_Forall _ _ _ alpha_is_handle_name_char HN)
                    |apply (all_Forall _ _ _ tag_char_is_ns_tag_char HT)|exact HD].
  - apply bt_local; [apply (all_Forall _ _ _ tag_char_is_ns_tag_char HT)|exact HD].
Qed.

Definition scanner_rejects (r : list (option (list N * list N)) * pend) (m : marker) : Prop :=
  exists site, 50 <= site <= 53 /\ r = ([], PScanErr site m).

Theorem scan_tag_text_rejects : forall F ttext rest lk m w s,
  bad_tag_text ttext -> (length ttext < F)%nat -> tag_end (sc_flow_level s) (hd 0 rest) = true ->
  exists site, scan_tag str_ops F (st (ttext ++ rest) lk m w s) = SBase.Err site m /\ 50 <= site <= 53.
Proof. intros F ttext rest lk m w s HB HL HE. apply scan_tag_reject; [apply bad_tag_text_spelling; exact HB|exact HL|exact HE]. Qed.

Theorem text_plain_document_rejects : forall keep ttext,
  bad_tag_text ttext -> scanner_rejects (tags_of_run keep (doc_line ttext)) (tag_mark []).
Proof. intros keep ttext HB. apply tags_of_plain_doc_reject. apply bad_tag_text_spelling. exact HB. Qed.

Theorem text_directive_document_rejects : forall keep line dh p ttext,
  tag_directive_text line dh p -> bad_tag_text ttext ->
  scanner_rejects (tags_of_run keep (line ++ doc_line ttext)) (tag_mark line).
Proof.
  intros keep line dh p ttext HD HB.
  destruct (tag_directive_text_ok _ _ _ HD) as [bl1 [bl2 [ptext [-> HOK]]]].
  apply (tags_of_dir_doc_reject keep bl1 dh bl2 ptext p ttext HOK). apply bad_tag_text_spelling. exact HB.
Qed.

Theorem text_bad_directive_rejects : forall keep text,
  bad_tag_directive_text text -> scanner_rejects (tags_of_run keep text) m1.
Proof.
  intros keep text H. inversion H as [ws1 handle ws2 prefix rest Hn1 HW1 Hn2 HW2 HH HP0 HPU HD HR]; subst.
  apply tags_of_bad_directive.
  - apply nonempty_ne; exact Hn1.
  - apply (all_Forall _ _ _ blank_is_s_white HW1).
  - destruct HH as [->|[name [-> HN]]]; [constructor|].
    apply dh_named. apply (all_Forall _ _ _ alpha_is_handle_name_char HN).
  - apply nonempty_ne; exact Hn2.
  - apply (all_Forall _ _ _ blank_is_s_white HW2).
  - exact HD.
  - destruct prefix as [|c0 pr]; [discriminate|]. split; [discriminate|]. split.
    + cbn [hd]. apply orb_true_iff in HP0. destruct HP0 as [HP0|HP0].
      * left. apply N.eqb_eq in HP0. exact HP0.
      * right. rewrite tag_char_is_ns_tag_char. exact HP0.
    + apply (all_Forall _ _ _ uri_char_is_ns_uri_char HPU).
  - destruct rest as [|c r]; [reflexivity|]. cbn [hd].
    unfold is_blank_or_breakz, is_breakz, is_break. rewrite blank_is_s_white.
    apply orb_true_iff in HR. destruct HR as [HR|HR].
    + apply orb_true_iff in HR. destruct HR as [HR|HR]; rewrite HR; [reflexivity|].
      rewrite orb_true_r. reflexivity.
    + rewrite HR. rewrite !orb_true_r. reflexivity.
Qed.
