(* C19 — proofs about the node types and loading modes of Model/Nodes.v. *)
From Coq Require Import List NArith ZArith Bool Lia.
Import ListNotations.
Require Import Parser Resolver Loader LinkedMap Nodes InsertTheory.

(* ---------------------------------------------------------------------------------------------- *)
(* induction principles for the rose trees                                                        *)
(* ---------------------------------------------------------------------------------------------- *)
Section ryaml_induction.
  Variable P : ryaml -> Prop.
  Hypothesis Hrep : forall v st tg, P (RRep v st tg).
  Hypothesis Hval : forall s, P (RVal s).
  Hypothesis Hseq : forall l, Forall P l -> P (RSeq l).
  Hypothesis Hmap : forall l, Forall (fun kv => P (fst kv) /\ P (snd kv)) l -> P (RMap l).
  Hypothesis Hbad : P RBad.
  Fixpoint ryaml_ind2 (t : ryaml) : P t :=
    match t with
    | RRep v st tg => Hrep v st tg
    | RVal s => Hval s
    | RSeq l => Hseq l ((fix go (l : list ryaml) : Forall P l :=
                           match l with [] => Forall_nil _ | x :: r => Forall_cons x (ryaml_ind2 x) (go r) end) l)
    | RMap l => Hmap l ((fix go (l : list (ryaml * ryaml)) : Forall (fun kv => P (fst kv) /\ P (snd kv)) l :=
                           match l with
                           | [] => Forall_nil _
                           | (k, v) :: r => Forall_cons (k, v) (conj (ryaml_ind2 k) (ryaml_ind2 v)) (go r)
                           end) l)
    | RBad => Hbad
    end.
End ryaml_induction.

Section myaml_induction.
  Variable P : myaml -> Prop.
  Hypothesis Hrep : forall sp v st tg, P (MRep sp v st tg).
  Hypothesis Hval : forall sp s, P (MVal sp s).
  Hypothesis Hseq : forall sp l, Forall P l -> P (MSeq sp l).
  Hypothesis Hmap : forall sp l, Forall (fun kv => P (fst kv) /\ P (snd kv)) l -> P (MMap sp l).
  Hypothesis Hbad : forall sp, P (MBad sp).
  Fixpoint myaml_ind2 (t : myaml) : P t :=
    match t with
    | MRep sp v st tg => Hrep sp v st tg
    | MVal sp s => Hval sp s
    | MSeq sp l => Hseq sp l ((fix go (l : list myaml) : Forall P l :=
                           match l with [] => Forall_nil _ | x :: r => Forall_cons x (myaml_ind2 x) (go r) end) l)
    | MMap sp l => Hmap sp l ((fix go (l : list (myaml * myaml)) : Forall (fun kv => P (fst kv) /\ P (snd kv)) l :=
                           match l with
                           | [] => Forall_nil _
                           | (k, v) :: r => Forall_cons (k, v) (conj (myaml_ind2 k) (myaml_ind2 v)) (go r)
                           end) l)
    | MBad sp => Hbad sp
    end.
End myaml_induction.

Section yaml_induction.
  Variable P : yaml -> Prop.
  Hypothesis Hval : forall s, P (YVal s).
  Hypothesis Hseq : forall l, Forall P l -> P (YSeq l).
  Hypothesis Hmap : forall l, Forall (fun kv => P (fst kv) /\ P (snd kv)) l -> P (YMap l).
  Hypothesis Hbad : P YBad.
  Fixpoint yaml_ind2 (t : yaml) : P t :=
    match t with
    | YVal s => Hval s
    | YSeq l => Hseq l ((fix go (l : list yaml) : Forall P l :=
                           match l with [] => Forall_nil _ | x :: r => Forall_cons x (yaml_ind2 x) (go r) end) l)
    | YMap l => Hmap l ((fix go (l : list (yaml * yaml)) : Forall (fun kv => P (fst kv) /\ P (snd kv)) l :=
                           match l with
                           | [] => Forall_nil _
                           | (k, v) :: r => Forall_cons (k, v) (conj (yaml_ind2 k) (yaml_ind2 v)) (go r)
                           end) l)
    | YBad => Hbad
    end.
End yaml_induction.

(* the list helpers hidden in the nested fixpoints, with names *)
Definition erase_pairs : list (myaml * myaml) -> list (ryaml * ryaml) :=
  fix go l := match l with [] => [] | (k, v) :: r => (erase k, erase v) :: go r end.
Definition embed_pairs : list (yaml * yaml) -> list (ryaml * ryaml) :=
  fix go l := match l with [] => [] | (k, v) :: r => (embed k, embed v) :: go r end.
Definition r_eqb_list : list ryaml -> list ryaml -> bool :=
  fix go l l' := match l, l' with [], [] => true | x :: r, y :: r' => r_eqb x y && go r r' | _, _ => false end.
Definition r_eqb_pairs : list (ryaml * ryaml) -> list (ryaml * ryaml) -> bool :=
  fix go l l' := match l, l' with
                 | [], [] => true
                 | (k, v) :: r, (k', v') :: r' => r_eqb k k' && r_eqb v v' && go r r'
                 | _, _ => false end.
Definition m_eqb_list : list myaml -> list myaml -> bool :=
  fix go l l' := match l, l' with [], [] => true | x :: r, y :: r' => m_eqb x y && go r r' | _, _ => false end.
Definition m_eqb_pairs : list (myaml * myaml) -> list (myaml * myaml) -> bool :=
  fix go l l' := match l, l' with
                 | [], [] => true
                 | (k, v) :: r, (k', v') :: r' => m_eqb k k' && m_eqb v v' && go r r'
                 | _, _ => false end.
Definition resolve_pairs : list (ryaml * ryaml) -> list (ryaml * ryaml) :=
  fix go l := match l with [] => [] | (k, v) :: r => (r_resolve k, r_resolve v) :: go r end.
Definition m_resolve_pairs : list (myaml * myaml) -> list (myaml * myaml) :=
  fix go l := match l with [] => [] | (k, v) :: r => (m_resolve k, m_resolve v) :: go r end.

Lemma erase_map sp l : erase (MMap sp l) = RMap (erase_pairs l). Proof. reflexivity. Qed.
Lemma embed_map l : embed (YMap l) = RMap (embed_pairs l). Proof. reflexivity. Qed.
Lemma r_eqb_seq l l' : r_eqb (RSeq l) (RSeq l') = r_eqb_list l l'. Proof. reflexivity. Qed.
Lemma r_eqb_map l l' : r_eqb (RMap l) (RMap l') = r_eqb_pairs l l'. Proof. reflexivity. Qed.
Lemma m_eqb_seq s s' l l' : m_eqb (MSeq s l) (MSeq s' l') = m_eqb_list l l'. Proof. reflexivity. Qed.
Lemma m_eqb_map s s' l l' : m_eqb (MMap s l) (MMap s' l') = m_eqb_pairs l l'. Proof. reflexivity. Qed.
Lemma r_resolve_map l : r_resolve (RMap l) = RMap (lm_collect r_eqb (resolve_pairs l)). Proof. reflexivity. Qed.
Lemma m_resolve_map sp l : m_resolve (MMap sp l) = MMap sp (lm_collect m_eqb (m_resolve_pairs l)). Proof. reflexivity. Qed.
Lemma resolve_pairs_map l : resolve_pairs l = map (fp ryaml r_resolve) l.
Proof. induction l as [|[k v] r IH]; [reflexivity|]. cbn [resolve_pairs map fp fst snd]. f_equal. exact IH. Qed.

(* ---------------------------------------------------------------------------------------------- *)
(* equality is an equivalence: it is Leibniz equality of normal forms (floats through OrderedFloat) *)
(* ---------------------------------------------------------------------------------------------- *)
Lemma pstr_eqb_eq a b : Parser.str_eqb a b = true <-> a = b.
Proof. unfold Parser.str_eqb. destruct (list_eq_dec N.eq_dec a b); split; congruence. Qed.
Lemma rstr_eqb_eq a b : Resolver.str_eqb a b = true <-> a = b.
Proof. unfold Resolver.str_eqb. destruct (list_eq_dec N.eq_dec a b); split; congruence. Qed.
Lemma style_eqb_eq a b : style_eqb a b = true <-> a = b.
Proof. destruct a, b; cbn; split; congruence. Qed.
Lemma otag_eqb_eq a b : otag_eqb a b = true <-> a = b.
Proof.
  destruct a as [[h s]|], b as [[h' s']|]; cbn [otag_eqb]; try (split; congruence).
  unfold tag_eqb. cbn [tg_handle tg_suffix]. rewrite andb_true_iff, !pstr_eqb_eq. split.
  - intros [A B]; subst; reflexivity.
  - intros H; inversion H; auto.
Qed.

Lemma feqb_spec a b : feqb a b = true <-> fnorm a = fnorm b.
Proof.
  unfold feqb. destruct (fnorm a) as [|x|n m e], (fnorm b) as [|y|n' m' e']; try (split; congruence).
  - rewrite Bool.eqb_true_iff. split; congruence.
  - rewrite !andb_true_iff, Bool.eqb_true_iff, !Z.eqb_eq. split.
    + intros [[A B] C]; subst; reflexivity.
    + intros H; inversion H; auto.
Qed.

Definition snorm (s : scalar) : scalar := match s with SFloat f => SFloat (fnorm f) | _ => s end.
Lemma scalar_eqb_spec a b : scalar_eqb a b = true <-> snorm a = snorm b.
Proof.
  destruct a, b; cbn [scalar_eqb snorm]; try (split; congruence).
  - rewrite Bool.eqb_true_iff. split; congruence.
  - rewrite Z.eqb_eq. split; congruence.
  - rewrite feqb_spec. split; congruence.
  - rewrite rstr_eqb_eq. split; congruence.
Qed.

Definition rnorm_pairs (f : ryaml -> ryaml) : list (ryaml * ryaml) -> list (ryaml * ryaml) :=
  fix go l := match l with [] => [] | (k, v) :: r => (f k, f v) :: go r end.
Fixpoint rnorm (n : ryaml) : ryaml :=
  match n with
  | RVal s => RVal (snorm s)
  | RSeq l => RSeq (map rnorm l)
  | RMap l => RMap (rnorm_pairs rnorm l)
  | other => other
  end.

Lemma r_eqb_spec : forall a b, r_eqb a b = true <-> rnorm a = rnorm b.
Proof.
  induction a as [v st tg|s|l IH|l IH|] using ryaml_ind2; intros b.
  - destruct b; cbn [r_eqb rnorm]; try (split; congruence).
    rewrite !andb_true_iff, pstr_eqb_eq, style_eqb_eq, otag_eqb_eq. split.
    + intros [[A B] C]; subst; reflexivity.
    + intros H; inversion H; auto.
  - destruct b; cbn [r_eqb rnorm]; try (split; congruence).
    rewrite scalar_eqb_spec. split; congruence.
  - destruct b as [| |l'| |]; try (cbn [r_eqb rnorm]; split; congruence).
    rewrite r_eqb_seq. cbn [rnorm].
    assert (H : r_eqb_list l l' = true <-> map rnorm l = map rnorm l').
    { revert l'. induction IH as [|x r Hx _ IHr]; intros [|y r']; cbn [r_eqb_list map]; try (split; congruence).
      rewrite andb_true_iff, Hx, IHr. split.
      - intros [A B]; congruence.
      - intros H; inversion H; auto. }
    rewrite H. split; congruence.
  - destruct b as [| | |l'|]; try (cbn [r_eqb rnorm]; split; congruence).
    rewrite r_eqb_map. cbn [rnorm].
    assert (H : r_eqb_pairs l l' = true <-> rnorm_pairs rnorm l = rnorm_pairs rnorm l').
    { revert l'. induction IH as [|[k v] r [Hk Hv] _ IHr]; intros [|[k' v'] r']; cbn [r_eqb_pairs rnorm_pairs];
        try (split; congruence).
      cbn [fst snd] in Hk, Hv. rewrite !andb_true_iff, Hk, Hv, IHr. split.
      - intros [[A B] C]; congruence.
      - intros H; inversion H; auto. }
    rewrite H. split; congruence.
  - destruct b; cbn [r_eqb rnorm]; split; congruence.
Qed.

Lemma r_eqb_refl a : r_eqb a a = true.
Proof. apply r_eqb_spec. reflexivity. Qed.
Lemma r_eqb_sym a b : r_eqb a b = r_eqb b a.
Proof.
  destruct (r_eqb a b) eqn:E1, (r_eqb b a) eqn:E2; try reflexivity.
  - apply r_eqb_spec in E1. symmetry in E1. apply r_eqb_spec in E1. congruence.
  - apply r_eqb_spec in E2. symmetry in E2. apply r_eqb_spec in E2. congruence.
Qed.
Lemma r_eqb_trans a b c : r_eqb a b = true -> r_eqb b c = true -> r_eqb a c = true.
Proof. rewrite !r_eqb_spec. congruence. Qed.

(* equality of maps is pointwise equality of the entries, in iteration order *)
Lemma r_eqb_pairs_leq l l' : r_eqb_pairs l l' = true <-> leq ryaml r_eqb l l'.
Proof.
  revert l'. induction l as [|[k v] r IH]; intros [|[k' v'] r']; cbn [r_eqb_pairs].
  - split; [constructor|reflexivity].
  - split; [discriminate|intros H; inversion H].
  - split; [discriminate|intros H; inversion H].
  - rewrite !andb_true_iff, IH. split.
    + intros [[A B] C]. constructor; [split; assumption|exact C].
    + intros H; inversion H as [|? ? ? ? [A B] C]; subst. auto.
Qed.
Lemma r_eqb_list_forall2 l l' : r_eqb_list l l' = true <-> Forall2 (fun a b => r_eqb a b = true) l l'.
Proof.
  revert l'. induction l as [|x r IH]; intros [|y r']; cbn [r_eqb_list].
  - split; [constructor|reflexivity].
  - split; [discriminate|intros H; inversion H].
  - split; [discriminate|intros H; inversion H].
  - rewrite andb_true_iff, IH. split.
    + intros [A B]. constructor; assumption.
    + intros H; inversion H; subst. auto.
Qed.

(* ---------------------------------------------------------------------------------------------- *)
(* marked nodes: equality, hashing and resolution ignore the spans                                *)
(* ---------------------------------------------------------------------------------------------- *)
Theorem m_eqb_erase : forall a b, m_eqb a b = r_eqb (erase a) (erase b).
Proof.
  induction a as [sp v st tg|sp s|sp l IH|sp l IH|sp] using myaml_ind2; intros b; destruct b as [sp' v' st' tg'|sp' s'|sp' l'|sp' l'|sp'];
    try reflexivity.
  - rewrite m_eqb_seq. cbn [erase]. rewrite r_eqb_seq.
    revert l'. induction IH as [|x r Hx _ IHr]; intros [|y r']; cbn [m_eqb_list map r_eqb_list]; try reflexivity.
    rewrite Hx, IHr. reflexivity.
  - rewrite m_eqb_map, !erase_map, r_eqb_map.
    revert l'. induction IH as [|[k v] r [Hk Hv] _ IHr]; intros [|[k' v'] r']; cbn [m_eqb_pairs erase_pairs r_eqb_pairs];
      try reflexivity.
    cbn [fst snd] in Hk, Hv. rewrite Hk, Hv, IHr. reflexivity.
Qed.

Theorem m_hash_erase : forall a, m_hash a = r_hash (erase a).
Proof.
  induction a as [sp v st tg|sp s|sp l IH|sp l IH|sp] using myaml_ind2; try reflexivity.
  - cbn [m_hash erase r_hash]. rewrite map_length. do 2 f_equal.
    induction IH as [|x r Hx _ IHr]; [reflexivity|]. cbn [flat_map map]. rewrite Hx, IHr. reflexivity.
  - rewrite erase_map. cbn [m_hash r_hash]. f_equal.
    induction IH as [|[k v] r [Hk Hv] _ IHr]; [reflexivity|]. cbn [fst snd] in Hk, Hv.
    cbn [erase_pairs]. rewrite Hk, Hv, IHr. reflexivity.
Qed.

(* equal nodes hash alike (Hash/Eq consistency, which the hash map relies on) *)
Lemma scalar_hash_eqb a b : scalar_eqb a b = true -> scalar_hash a = scalar_hash b.
Proof.
  intros H. apply scalar_eqb_spec in H. destruct a, b; cbn [snorm] in H; try congruence.
  cbn [scalar_hash]. inversion H. reflexivity.
Qed.

Theorem r_hash_eqb : forall a b, r_eqb a b = true -> r_hash a = r_hash b.
Proof.
  induction a as [v st tg|s|l IH|l IH|] using ryaml_ind2; intros b H; destruct b as [v' st' tg'|s'|l'|l'|]; try discriminate H.
  - cbn [r_eqb] in H. rewrite !andb_true_iff, pstr_eqb_eq, style_eqb_eq, otag_eqb_eq in H.
    destruct H as [[A B] C]; subst. reflexivity.
  - cbn [r_eqb] in H. cbn [r_hash]. f_equal. apply scalar_hash_eqb; exact H.
  - rewrite r_eqb_seq in H. cbn [r_hash].
    assert (E : length l = length l' /\ flat_map r_hash l = flat_map r_hash l').
    { revert l' H. induction IH as [|x r Hx _ IHr]; intros [|y r'] H; cbn [r_eqb_list] in H; try discriminate H.
      - split; reflexivity.
      - apply andb_true_iff in H. destruct H as [A B]. destruct (IHr r' B) as [L Fm].
        cbn [length flat_map]. rewrite L, Fm, (Hx y A). split; reflexivity. }
    destruct E as [L Fm]. rewrite L, Fm. reflexivity.
  - rewrite r_eqb_map in H. cbn [r_hash]. f_equal.
    revert l' H. induction IH as [|[k v] r [Hk Hv] _ IHr]; intros [|[k' v'] r'] H; cbn [r_eqb_pairs] in H; try discriminate H.
    + reflexivity.
    + cbn [fst snd] in Hk, Hv. rewrite !andb_true_iff in H. destruct H as [[A B] C].
      rewrite (Hk k' A), (Hv v' B), (IHr r' C). reflexivity.
  - reflexivity.
Qed.

(* ---------------------------------------------------------------------------------------------- *)
(* one simulation theorem for the generic loader: two node algebras related operation by operation *)
(* stay related through every run (same panic site, related documents / stacks / anchors)          *)
(* ---------------------------------------------------------------------------------------------- *)
Section Simulation.
  Variables A B : Type.
  Variable OA : ops A.
  Variable OB : ops B.
  Variable Q : A -> B -> Prop.
  Hypothesis Q_scalar : forall v st tg sp, Q (o_scalar OA v st tg sp) (o_scalar OB v st tg sp).
  Hypothesis Q_seq : forall sp, Q (o_seq OA sp) (o_seq OB sp).
  Hypothesis Q_map : forall sp, Q (o_map OA sp) (o_map OB sp).
  Hypothesis Q_bad : forall sp, Q (o_bad OA sp) (o_bad OB sp).
  Hypothesis Q_respan : forall a b sp, Q a b -> Q (o_respan OA a sp) (o_respan OB b sp).
  Hypothesis Q_kind : forall a b, Q a b -> o_kind OA a = o_kind OB b.
  Hypothesis Q_push : forall a b x y, Q a b -> Q x y -> o_kind OA a = KSeq -> Q (o_push OA a x) (o_push OB b y).
  Hypothesis Q_insert : forall a b k k' v v', Q a b -> Q k k' -> Q v v' -> o_kind OA a = KMap ->
                                              Q (o_insert OA a k v) (o_insert OB b k' v').

  Definition Qf (x : A * N) (y : B * N) : Prop := Q (fst x) (fst y) /\ snd x = snd y.
  Definition Qa (x : N * A) (y : N * B) : Prop := fst x = fst y /\ Q (snd x) (snd y).
  Definition Qo (x : option A) (y : option B) : Prop :=
    match x, y with None, None => True | Some a, Some b => Q a b | _, _ => False end.
  Definition SR (sa : gl A) (sb : gl B) : Prop :=
    Forall2 Q (g_docs sa) (g_docs sb) /\ Forall2 Qf (g_stack sa) (g_stack sb) /\
    Forall2 Qo (g_keys sa) (g_keys sb) /\ Forall2 Qa (g_anchors sa) (g_anchors sb).
  Definition RR (ra : gres A) (rb : gres B) : Prop :=
    match ra, rb with GOk a, GOk b => SR a b | GPanic n, GPanic m => n = m | _, _ => False end.

  Lemma sim_get id la lb : Forall2 Qa la lb -> Qo (g_get id la) (g_get id lb).
  Proof.
    induction 1 as [|[i a] [j b] la lb [E H] _ IH]; [exact I|].
    cbn [fst snd] in E, H. subst j. cbn [g_get]. destruct (N.eqb i id); [exact H|exact IH].
  Qed.

  Lemma sim_insert da sa ka aa db sb kb ab x y aid :
    SR (Build_gl da sa ka aa) (Build_gl db sb kb ab) -> Q x y ->
    RR (g_insert_new_node OA (Build_gl da sa ka aa) x aid) (g_insert_new_node OB (Build_gl db sb kb ab) y aid).
  Proof.
    intros [Hd [Hs [Hk Ha]]] Hxy. cbn [g_docs g_stack g_keys g_anchors] in Hd, Hs, Hk, Ha.
    unfold g_insert_new_node. cbn [g_docs g_stack g_keys g_anchors].
    assert (Han : Forall2 Qa (if (0 <? aid)%N then (aid, x) :: aa else aa) (if (0 <? aid)%N then (aid, y) :: ab else ab)).
    { destruct (0 <? aid)%N; [constructor; [split; [reflexivity|exact Hxy]|exact Ha]|exact Ha]. }
    inversion Hs as [|fa fb ra rb Hf Hr]; subst; try destruct fa as [pa ia], fb as [pb ib], Hf as [Hp Hi].
    - cbn. repeat split; try assumption. constructor; [split; [exact Hxy|reflexivity]|constructor].
    - cbn [fst snd] in Hp, Hi. subst ib. rewrite <- (Q_kind pa pb Hp).
      destruct (o_kind OA pa) eqn:Ek.
      + cbn. repeat split; try assumption. constructor; [|exact Hr]. split; [|reflexivity].
        cbn [fst]. apply Q_push; assumption.
      + inversion Hk as [|oa ob ka' kb' Ho Hk']; subst; [reflexivity|].
        destruct oa as [keya|], ob as [keyb|]; cbn [Qo] in Ho; try contradiction.
        * cbn. repeat split; try assumption.
          -- constructor; [|exact Hr]. split; [|reflexivity]. cbn [fst]. apply Q_insert; assumption.
          -- constructor; [exact I|exact Hk'].
        * cbn. repeat split; try assumption. constructor; [exact Hxy|exact Hk'].
      + cbn. repeat split; assumption.
  Qed.

  Lemma sim_event sa sb e : SR sa sb -> RR (g_on_event OA sa e) (g_on_event OB sb e).
  Proof.
    destruct sa as [da sa ka aa], sb as [db sb kb ab]. intros H. pose proof H as [Hd [Hs [Hk Ha]]].
    cbn [g_docs g_stack g_keys g_anchors] in Hd, Hs, Hk, Ha.
    destruct e as [ev sp]. destruct ev; cbn [g_on_event g_docs g_stack g_keys g_anchors]; try exact H.
    - (* DocumentEnd *)
      inversion Hs as [|fa fb ra rb Hf Hr]; subst; try destruct fa as [pa ia], fb as [pb ib], Hf as [Hp Hi].
      + cbn. repeat split; try assumption. constructor; [apply Q_bad|exact Hd].
      + inversion Hr; subst; [|reflexivity].
        cbn. repeat split; try assumption. constructor; [exact Hp|exact Hd].
    - (* Alias *)
      apply sim_insert; [exact H|].
      pose proof (sim_get id aa ab Ha) as Hg.
      destruct (g_get id aa), (g_get id ab); cbn [Qo] in Hg; try contradiction; [apply Q_respan; exact Hg|apply Q_bad].
    - (* Scalar *) apply sim_insert; [exact H|apply Q_scalar].
    - (* SequenceStart *)
      cbn. repeat split; try assumption. constructor; [split; [apply Q_seq|reflexivity]|exact Hs].
    - (* SequenceEnd *)
      inversion Hs as [|fa fb ra rb Hf Hr]; subst; try destruct fa as [pa ia], fb as [pb ib], Hf as [Hp Hi]; [reflexivity|].
      cbn [fst snd] in Hp, Hi. subst ib. apply sim_insert; [|exact Hp].
      repeat split; assumption.
    - (* MappingStart *)
      cbn. repeat split; try assumption.
      + constructor; [split; [apply Q_map|reflexivity]|exact Hs].
      + constructor; [exact I|exact Hk].
    - (* MappingEnd *)
      inversion Hk as [|oa ob ka' kb' Ho Hk']; subst; [reflexivity|].
      inversion Hs as [|fa fb ra rb Hf Hr]; subst; try destruct fa as [pa ia], fb as [pb ib], Hf as [Hp Hi]; [reflexivity|].
      cbn [fst snd] in Hp, Hi. subst ib. apply sim_insert; [|exact Hp].
      repeat split; assumption.
  Qed.

  Theorem sim_load evs : forall sa sb, SR sa sb -> RR (g_load OA evs sa) (g_load OB evs sb).
  Proof.
    induction evs as [|e r IH]; intros sa sb H; cbn [g_load]; [exact H|].
    pose proof (sim_event sa sb e H) as He.
    destruct (g_on_event OA sa e) as [sa'|n], (g_on_event OB sb e) as [sb'|m]; cbn [RR] in He; try contradiction.
    - apply IH; exact He.
    - exact He.
  Qed.

  Lemma SR_g0 : SR g0 g0.
  Proof. repeat split; constructor. Qed.
End Simulation.

(* ---------------------------------------------------------------------------------------------- *)
(* the map theory at ryaml                                                                        *)
(* ---------------------------------------------------------------------------------------------- *)
Ltac req := first [exact r_eqb_refl | exact r_eqb_sym | exact r_eqb_trans].
Notation rleq := (leq ryaml r_eqb).

Lemma R_ins_congr k k' v v' l l' :
  r_eqb k k' = true -> r_eqb v v' = true -> rleq l l' -> rleq (lm_insert r_eqb k v l) (lm_insert r_eqb k' v' l').
Proof. intros. apply ins_congr; try req; assumption. Qed.
Lemma R_F_congr l l' : rleq l l' -> rleq (lm_collect r_eqb l) (lm_collect r_eqb l').
Proof. intros. apply F_congr; try req; assumption. Qed.
Lemma R_leq_trans a b c : rleq a b -> rleq b c -> rleq a c.
Proof. intros. eapply leq_trans; try req; eassumption. Qed.
Lemma R_leq_refl a : rleq a a.
Proof. apply leq_refl; req. Qed.

(* ---------------------------------------------------------------------------------------------- *)
(* results as plain data                                                                          *)
(* ---------------------------------------------------------------------------------------------- *)
Definition gl_map {A B : Type} (f : A -> B) (s : gl A) : gl B :=
  Build_gl (map f (g_docs s)) (map (fun x => (f (fst x), snd x)) (g_stack s))
           (map (option_map f) (g_keys s)) (map (fun x => (fst x, f (snd x))) (g_anchors s)).
Definition gres_map {A B : Type} (f : A -> B) (r : gres A) : gres B :=
  match r with GOk s => GOk (gl_map f s) | GPanic n => GPanic n end.

Lemma Forall2_impl {A B : Type} (P Q : A -> B -> Prop) :
  (forall a b, P a b -> Q a b) -> forall l l', Forall2 P l l' -> Forall2 Q l l'.
Proof. intros H l l'. induction 1; constructor; auto. Qed.

Lemma Forall2_map_eq {A B : Type} (f : A -> B) l l' : Forall2 (fun a b => f a = b) l l' -> map f l = l'.
Proof. induction 1 as [|a b l l' H _ IH]; [reflexivity|]. cbn [map]. rewrite H, IH. reflexivity. Qed.

Lemma SR_functional {A B : Type} (f : A -> B) sa sb : SR A B (fun a b => f a = b) sa sb -> gl_map f sa = sb.
Proof.
  destruct sa as [da sa ka aa], sb as [db sb kb ab]. intros [Hd [Hs [Hk Ha]]].
  cbn [g_docs g_stack g_keys g_anchors] in Hd, Hs, Hk, Ha. unfold gl_map. cbn [g_docs g_stack g_keys g_anchors].
  f_equal.
  - apply Forall2_map_eq; exact Hd.
  - apply Forall2_map_eq. refine (Forall2_impl _ _ _ _ _ Hs). intros [a i] [b j] [H1 H2]. cbn [fst snd] in *. congruence.
  - apply Forall2_map_eq. refine (Forall2_impl _ _ _ _ _ Hk). intros [a|] [b|] H; cbn in *; congruence || contradiction.
  - apply Forall2_map_eq. refine (Forall2_impl _ _ _ _ _ Ha). intros [i a] [j b] [H1 H2]. cbn [fst snd] in *. congruence.
Qed.

Lemma RR_functional {A B : Type} (f : A -> B) ra rb : RR A B (fun a b => f a = b) ra rb -> gres_map f ra = rb.
Proof.
  destruct ra as [sa|n], rb as [sb|m]; cbn [RR gres_map]; try contradiction.
  - intros H. f_equal. apply SR_functional; exact H.
  - congruence.
Qed.

(* ---------------------------------------------------------------------------------------------- *)
(* (i) marked = plain + spans                                                                     *)
(* ---------------------------------------------------------------------------------------------- *)
Lemma erase_pairs_app a b : erase_pairs (a ++ b) = erase_pairs a ++ erase_pairs b.
Proof. induction a as [|[k v] a IH]; [reflexivity|]. cbn [app erase_pairs]. rewrite IH. reflexivity. Qed.

Lemma erase_remove k l :
  lm_remove r_eqb (erase k) (erase_pairs l) =
  (option_map erase (fst (lm_remove m_eqb k l)), erase_pairs (snd (lm_remove m_eqb k l))).
Proof.
  induction l as [|[k' v'] r IH]; [reflexivity|].
  cbn [erase_pairs lm_remove]. rewrite <- m_eqb_erase. destruct (m_eqb k k'); [reflexivity|].
  rewrite IH. destruct (lm_remove m_eqb k r) as [o r']. reflexivity.
Qed.

Lemma erase_insert k v l :
  erase_pairs (lm_insert m_eqb k v l) = lm_insert r_eqb (erase k) (erase v) (erase_pairs l).
Proof.
  unfold lm_insert. rewrite erase_remove. destruct (lm_remove m_eqb k l) as [[k0|] r]; cbn [fst snd option_map];
    rewrite erase_pairs_app; reflexivity.
Qed.

Theorem marked_is_plain_with_spans early evs :
  gres_map erase (load_m early evs) = load_r early evs.
Proof.
  apply RR_functional. unfold load_m, load_r. apply sim_load; [| | | | | | | |apply SR_g0].
  - intros v st tg sp. cbn [m_ops r_ops o_scalar]. destruct early; [|reflexivity]. destruct (scalar_value v st tg); reflexivity.
  - reflexivity.
  - reflexivity.
  - reflexivity.
  - intros a b sp H. subst b. destruct a; reflexivity.
  - intros a b H. subst b. destruct a; reflexivity.
  - intros a b x y Ha Hx Hk. subst b y. destruct a; try discriminate Hk. cbn [m_ops r_ops o_push erase].
    rewrite map_app. reflexivity.
  - intros a b k k' v v' Ha Hk Hv Hkind. subst b k' v'. destruct a; try discriminate Hkind.
    cbn [m_ops r_ops o_insert]. rewrite !erase_map, erase_insert. reflexivity.
Qed.

(* resolution commutes with forgetting the spans *)
Lemma erase_collect l : erase_pairs (lm_collect m_eqb l) = lm_collect r_eqb (erase_pairs l).
Proof.
  induction l as [|[k v] l IH] using rev_ind; [reflexivity|].
  rewrite erase_pairs_app. cbn [erase_pairs]. rewrite !F_snoc. unfold lm_ins. cbn [fst snd].
  rewrite erase_insert, IH. reflexivity.
Qed.

Theorem erase_resolve : forall n, erase (m_resolve n) = r_resolve (erase n).
Proof.
  induction n as [sp v st tg|sp s|sp l IH|sp l IH|sp] using myaml_ind2; try reflexivity.
  - cbn [m_resolve erase r_resolve]. destruct (scalar_value v st tg); reflexivity.
  - cbn [m_resolve erase r_resolve]. f_equal. rewrite !map_map.
    induction IH as [|x r Hx _ IHr]; [reflexivity|]. cbn [map]. rewrite Hx, IHr. reflexivity.
  - rewrite m_resolve_map, !erase_map, r_resolve_map, erase_collect. do 2 f_equal.
    induction IH as [|[k v] r [Hk Hv] _ IHr]; [reflexivity|]. cbn [fst snd] in Hk, Hv.
    cbn [m_resolve_pairs erase_pairs resolve_pairs]. rewrite Hk, Hv, IHr. reflexivity.
Qed.

(* with_span only touches the root *)
Lemma erase_with_span n sp : erase (with_span n sp) = erase n.
Proof. destruct n; reflexivity. Qed.
Lemma span_with_span n sp : span_of (with_span n sp) = sp.
Proof. destruct n; reflexivity. Qed.

(* ---------------------------------------------------------------------------------------------- *)
(* the tie to the C07 loader model: Loader.load_events is the generic loader at `yaml`, and the    *)
(* eager plain loader is its image under `embed`                                                  *)
(* ---------------------------------------------------------------------------------------------- *)
Definition to_gl (ld : loader) : gl yaml := Build_gl (l_docs ld) (l_stack ld) (l_keys ld) (l_anchors ld).
Definition to_gres (r : lres) : gres yaml := match r with LOk ld => GOk (to_gl ld) | LPanic n => GPanic n end.

Lemma g_get_amap id l : g_get id l = amap_get id l.
Proof. induction l as [|[i y] r IH]; [reflexivity|]. cbn [g_get amap_get]. rewrite IH. reflexivity. Qed.

Lemma y_insert_new_node ld n aid :
  g_insert_new_node y_ops (to_gl ld) n aid = to_gres (insert_new_node ld n aid).
Proof.
  destruct ld as [d s ks m]. unfold g_insert_new_node, insert_new_node, to_gl.
  cbn [g_docs g_stack g_keys g_anchors l_docs l_stack l_keys l_anchors].
  destruct s as [|[[sc|items|pairs|] pa] rest]; try reflexivity.
  cbn [y_ops o_kind y_kind]. destruct ks as [|[k|] ks']; reflexivity.
Qed.

Lemma y_on_event ld e sp : g_on_event y_ops (to_gl ld) (e, sp) = to_gres (on_event ld e).
Proof.
  destruct e; cbn [g_on_event on_event]; try reflexivity.
  - destruct ld as [d s ks m]. cbn [to_gl g_stack l_stack]. destruct s as [|[n a] [|x r]]; reflexivity.
  - rewrite <- y_insert_new_node. destruct ld as [d s ks m]. cbn [to_gl g_anchors l_anchors].
    rewrite g_get_amap. destruct (amap_get id m); reflexivity.
  - rewrite <- y_insert_new_node. reflexivity.
  - destruct ld as [d s ks m]. cbn [to_gl g_stack l_stack g_docs g_keys g_anchors l_docs l_keys l_anchors].
    destruct s as [|[n a] r]; [reflexivity|]. rewrite <- y_insert_new_node. reflexivity.
  - destruct ld as [d s ks m]. cbn [to_gl g_stack l_stack g_docs g_keys g_anchors l_docs l_keys l_anchors].
    destruct ks as [|k ks']; [destruct s as [|[n a] r]; reflexivity|].
    destruct s as [|[n a] r]; [reflexivity|]. rewrite <- y_insert_new_node. reflexivity.
Qed.

Theorem loader_is_generic evs : forall ld,
  g_load y_ops evs (to_gl ld) = to_gres (load_events (map fst evs) ld).
Proof.
  induction evs as [|[e sp] r IH]; intros ld; [reflexivity|].
  cbn [g_load map fst load_events]. rewrite y_on_event. destruct (on_event ld e); cbn [to_gres]; [apply IH|reflexivity].
Qed.

Theorem yaml_eqb_embed : forall a b, yaml_eqb a b = r_eqb (embed a) (embed b).
Proof.
  induction a as [s|l IH|l IH|] using yaml_ind2; intros b; destruct b as [s'|l'|l'|]; try reflexivity.
  - cbn [embed]. rewrite r_eqb_seq. cbn [yaml_eqb].
    revert l'. induction IH as [|x r Hx _ IHr]; intros [|y r']; cbn [map r_eqb_list]; try reflexivity.
    rewrite Hx, IHr. reflexivity.
  - rewrite !embed_map, r_eqb_map. cbn [yaml_eqb].
    revert l'. induction IH as [|[k v] r [Hk Hv] _ IHr]; intros [|[k' v'] r']; cbn [embed_pairs r_eqb_pairs]; try reflexivity.
    cbn [fst snd] in Hk, Hv. rewrite Hk, Hv, IHr. reflexivity.
Qed.

Lemma embed_pairs_app a b : embed_pairs (a ++ b) = embed_pairs a ++ embed_pairs b.
Proof. induction a as [|[k v] a IH]; [reflexivity|]. cbn [app embed_pairs]. rewrite IH. reflexivity. Qed.

Lemma embed_remove k l :
  lm_remove r_eqb (embed k) (embed_pairs l) =
  (option_map embed (fst (remove_key k l)), embed_pairs (snd (remove_key k l))).
Proof.
  induction l as [|[k' v'] r IH]; [reflexivity|].
  cbn [embed_pairs lm_remove remove_key]. rewrite <- yaml_eqb_embed. destruct (yaml_eqb k k'); [reflexivity|].
  rewrite IH. destruct (remove_key k r) as [o r']. reflexivity.
Qed.

Lemma embed_insert k v l :
  embed_pairs (map_insert k v l) = lm_insert r_eqb (embed k) (embed v) (embed_pairs l).
Proof.
  unfold lm_insert, map_insert. rewrite embed_remove. destruct (remove_key k l) as [[k0|] r]; cbn [fst snd option_map];
    rewrite embed_pairs_app; reflexivity.
Qed.

Theorem eager_plain_is_loader_model evs :
  load_r true evs = gres_map embed (to_gres (load_events (map fst evs) l0)).
Proof.
  rewrite <- loader_is_generic. symmetry. apply RR_functional. unfold load_r.
  change (to_gl l0) with (@g0 yaml).
  apply sim_load; [| | | | | | | |apply SR_g0].
  - intros v st tg sp. cbn [y_ops r_ops o_scalar]. unfold value_of, scalar_value.
    destruct (parse_from_cow_and_metadata v (is_plain st) (option_map (fun t => (tg_handle t, tg_suffix t)) tg)); reflexivity.
  - reflexivity.
  - reflexivity.
  - reflexivity.
  - intros a b sp H. exact H.
  - intros a b H. subst b. destruct a; reflexivity.
  - intros a b x y Ha Hx Hk. subst b y. destruct a; try discriminate Hk. cbn [y_ops r_ops o_push embed].
    rewrite map_app. reflexivity.
  - intros a b k k' v v' Ha Hk Hv Hkind. subst b k' v'. destruct a; try discriminate Hkind.
    cbn [y_ops r_ops o_insert]. rewrite !embed_map, embed_insert. reflexivity.
Qed.

(* ---------------------------------------------------------------------------------------------- *)
(* (ii) deferred loading, then resolving the whole tree = eager loading                           *)
(* ---------------------------------------------------------------------------------------------- *)
Lemma resolve_pairs_congr l : Forall (fun kv => (forall b, r_eqb (fst kv) b = true -> r_eqb (r_resolve (fst kv)) (r_resolve b) = true) /\
                                               (forall b, r_eqb (snd kv) b = true -> r_eqb (r_resolve (snd kv)) (r_resolve b) = true)) l ->
  forall l', rleq l l' -> rleq (resolve_pairs l) (resolve_pairs l').
Proof.
  induction 1 as [|[k v] r [Hk Hv] _ IH]; intros l' H; inversion H as [|p q l1 l2 [A B] C]; subst; [constructor|].
  destruct q as [k' v']. cbn [fst snd] in *. cbn [resolve_pairs]. constructor; [split; cbn [fst snd]; auto|apply IH; exact C].
Qed.

Theorem r_resolve_congr : forall a b, r_eqb a b = true -> r_eqb (r_resolve a) (r_resolve b) = true.
Proof.
  induction a as [v st tg|s|l IH|l IH|] using ryaml_ind2; intros b H; destruct b as [v' st' tg'|s'|l'|l'|]; try discriminate H.
  - cbn [r_eqb] in H. rewrite !andb_true_iff, pstr_eqb_eq, style_eqb_eq, otag_eqb_eq in H.
    destruct H as [[A B] C]; subst. apply r_eqb_refl.
  - exact H.
  - rewrite r_eqb_seq in H. cbn [r_resolve]. rewrite r_eqb_seq.
    revert l' H. induction IH as [|x r Hx _ IHr]; intros [|y r'] H; cbn [r_eqb_list] in H; try discriminate H; [reflexivity|].
    apply andb_true_iff in H. destruct H as [A B]. cbn [map r_eqb_list]. rewrite (Hx y A), (IHr r' B). reflexivity.
  - rewrite r_eqb_map in H. rewrite !r_resolve_map, r_eqb_map. apply r_eqb_pairs_leq.
    apply R_F_congr. apply resolve_pairs_congr; [exact IH|]. apply r_eqb_pairs_leq; exact H.
  - reflexivity.
Qed.

(* the relation between the deferred and the eager run *)
Definition resolves_to (d e : ryaml) : Prop := r_eqb (r_resolve d) e = true.

Theorem deferred_simulates_eager evs :
  RR ryaml ryaml resolves_to (load_r false evs) (load_r true evs).
Proof.
  unfold load_r. apply sim_load; [| | | | | | | |apply SR_g0]; unfold resolves_to.
  - intros v st tg sp. cbn [r_ops o_scalar r_resolve]. apply r_eqb_refl.
  - reflexivity.
  - reflexivity.
  - reflexivity.
  - intros a b sp H. exact H.
  - intros a b H. destruct a as [v st tg|s|l|l|]; cbn [r_resolve] in H;
      [destruct (scalar_value v st tg)| | | |]; destruct b; try discriminate H; reflexivity.
  - intros a b x y Ha Hx Hk. destruct a as [| |l| |]; try discriminate Hk.
    cbn [r_resolve] in Ha. destruct b as [| |l'| |]; try discriminate Ha.
    cbn [r_ops o_push r_resolve]. rewrite r_eqb_seq in *. rewrite map_app. cbn [map].
    apply r_eqb_list_forall2. apply Forall2_app; [apply r_eqb_list_forall2; exact Ha|].
    constructor; [exact Hx|constructor].
  - intros a b k k' v v' Ha Hk Hv Hkind. destruct a as [| | |l|]; try discriminate Hkind.
    rewrite r_resolve_map in Ha. destruct b as [| | |l'|]; try discriminate Ha.
    cbn [r_ops o_insert]. rewrite r_resolve_map, r_eqb_map in *. apply r_eqb_pairs_leq. apply r_eqb_pairs_leq in Ha.
    rewrite resolve_pairs_map in *.
    eapply R_leq_trans.
    + apply (recollect_insert ryaml r_eqb r_eqb_refl r_eqb_sym r_eqb_trans r_resolve r_resolve_congr).
    + apply R_ins_congr; assumption.
Qed.

Lemma Forall2_rev' {A B : Type} (P : A -> B -> Prop) l l' : Forall2 P l l' -> Forall2 P (rev l) (rev l').
Proof. induction 1; cbn [rev]; [constructor|]. apply Forall2_app; [assumption|constructor; [assumption|constructor]]. Qed.

Corollary deferred_then_resolved_is_eager evs :
  match load_r false evs, load_r true evs with
  | GOk d, GOk e => Forall2 resolves_to (rev (g_docs d)) (rev (g_docs e))
  | GPanic n, GPanic m => n = m
  | _, _ => False
  end.
Proof.
  pose proof (deferred_simulates_eager evs) as H.
  destruct (load_r false evs) as [d|n], (load_r true evs) as [e|m]; cbn [RR] in H; try contradiction; [|exact H].
  destruct H as [Hd _]. apply Forall2_rev'. exact Hd.
Qed.

(* the same for marked nodes, spans included in the trees, compared through erase *)
Corollary marked_deferred_then_resolved_is_eager evs :
  match load_m false evs, load_m true evs with
  | GOk d, GOk e => Forall2 (fun x y => m_eqb (m_resolve x) y = true) (rev (g_docs d)) (rev (g_docs e))
  | GPanic n, GPanic m => n = m
  | _, _ => False
  end.
Proof.
  pose proof (deferred_then_resolved_is_eager evs) as H.
  rewrite <- !marked_is_plain_with_spans in H.
  destruct (load_m false evs) as [d|n], (load_m true evs) as [e|m]; cbn [gres_map] in H; try contradiction; [|exact H].
  cbn [gl_map g_docs] in H. rewrite <- !map_rev in H.
  revert H. generalize (rev (g_docs d)) (rev (g_docs e)). intros l l' H.
  remember (map erase l) as a eqn:Ea. remember (map erase l') as b eqn:Eb.
  revert l l' Ea Eb. induction H as [|x y a b Hxy _ IH]; intros [|p l] [|q l'] Ea Eb; try discriminate; [constructor|].
  cbn [map] in Ea, Eb. inversion Ea; inversion Eb; subst. constructor; [|apply IH; reflexivity].
  unfold resolves_to in Hxy. rewrite m_eqb_erase, erase_resolve. exact Hxy.
Qed.

(* ---------------------------------------------------------------------------------------------- *)
(* (iii) resolution: results are resolved and well-formed; resolved well-formed trees are fixpoints *)
(* ---------------------------------------------------------------------------------------------- *)
Definition pairs_all (f : ryaml -> bool) : list (ryaml * ryaml) -> bool :=
  fix go l := match l with [] => true | (k, v) :: r => f k && f v && go r end.
Lemma r_wf_map l : r_wf (RMap l) = lm_nodupb r_eqb l && pairs_all r_wf l. Proof. reflexivity. Qed.
Lemma r_resolved_map l : r_resolved (RMap l) = pairs_all r_resolved l. Proof. reflexivity. Qed.
Lemma r_deferred_map l : r_deferred (RMap l) = pairs_all r_deferred l. Proof. reflexivity. Qed.

Lemma pairs_all_allP f l : pairs_all f l = true <-> allP ryaml (fun n => f n = true) l.
Proof.
  induction l as [|[k v] r IH]; cbn [pairs_all].
  - split; [constructor|reflexivity].
  - rewrite !andb_true_iff, IH. split.
    + intros [[A B] C]. constructor; [split; assumption|exact C].
    + intros H; inversion H as [|? ? [A B] C]; subst. auto.
Qed.

Lemma pairs_all_insert f k v l :
  pairs_all f l = true -> f k = true -> f v = true -> pairs_all f (lm_insert r_eqb k v l) = true.
Proof. rewrite !pairs_all_allP. intros. apply allP_ins; assumption. Qed.
Lemma pairs_all_collect f l : pairs_all f l = true -> pairs_all f (lm_collect r_eqb l) = true.
Proof. rewrite !pairs_all_allP. intros. apply allP_F; assumption. Qed.

Theorem r_resolve_wf : forall n, r_wf (r_resolve n) = true.
Proof.
  induction n as [v st tg|s|l IH|l IH|] using ryaml_ind2; try reflexivity.
  - cbn [r_resolve]. destruct (scalar_value v st tg); reflexivity.
  - cbn [r_resolve r_wf]. induction IH as [|x r Hx _ IHr]; [reflexivity|]. cbn [map forallb]. rewrite Hx, IHr. reflexivity.
  - rewrite r_resolve_map, r_wf_map. apply andb_true_iff. split.
    + apply nodupb_F; req.
    + apply pairs_all_collect. induction IH as [|[k v] r [Hk Hv] _ IHr]; [reflexivity|].
      cbn [fst snd] in Hk, Hv. cbn [resolve_pairs pairs_all]. rewrite Hk, Hv, IHr. reflexivity.
Qed.

Theorem r_resolve_resolved : forall n, r_resolved (r_resolve n) = true.
Proof.
  induction n as [v st tg|s|l IH|l IH|] using ryaml_ind2; try reflexivity.
  - cbn [r_resolve]. destruct (scalar_value v st tg); reflexivity.
  - cbn [r_resolve r_resolved]. induction IH as [|x r Hx _ IHr]; [reflexivity|]. cbn [map forallb]. rewrite Hx, IHr. reflexivity.
  - rewrite r_resolve_map, r_resolved_map. apply pairs_all_collect.
    induction IH as [|[k v] r [Hk Hv] _ IHr]; [reflexivity|].
    cbn [fst snd] in Hk, Hv. cbn [resolve_pairs pairs_all]. rewrite Hk, Hv, IHr. reflexivity.
Qed.

Theorem r_resolve_id : forall n, r_resolved n = true -> r_wf n = true -> r_resolve n = n.
Proof.
  induction n as [v st tg|s|l IH|l IH|] using ryaml_ind2; intros Hr Hw; try reflexivity.
  - discriminate Hr.
  - cbn [r_resolve]. f_equal. cbn [r_resolved r_wf] in Hr, Hw.
    induction IH as [|x r Hx _ IHr]; [reflexivity|]. cbn [forallb] in Hr, Hw.
    apply andb_true_iff in Hr. apply andb_true_iff in Hw. destruct Hr as [R1 R2], Hw as [W1 W2].
    cbn [map]. rewrite (Hx R1 W1), (IHr R2 W2). reflexivity.
  - rewrite r_resolve_map. f_equal. rewrite r_resolved_map in Hr. rewrite r_wf_map in Hw.
    apply andb_true_iff in Hw. destruct Hw as [Hn Hw].
    assert (E : resolve_pairs l = l).
    { clear Hn. induction IH as [|[k v] r [Hk Hv] _ IHr]; [reflexivity|]. cbn [fst snd] in Hk, Hv.
      cbn [pairs_all] in Hr, Hw. rewrite !andb_true_iff in Hr, Hw. destruct Hr as [[R1 R2] R3], Hw as [[W1 W2] W3].
      cbn [resolve_pairs]. rewrite (Hk R1 W1), (Hv R2 W2), (IHr R3 W3). reflexivity. }
    rewrite E. apply F_nodup_id; try req. exact Hn.
Qed.

Corollary r_resolve_idempotent n : r_resolve (r_resolve n) = r_resolve n.
Proof. apply r_resolve_id; [apply r_resolve_resolved|apply r_resolve_wf]. Qed.

(* every node a load produces is well-formed (no two equal keys in any mapping) and, depending on the mode,
   fully resolved or fully unresolved; hence resolving an eagerly loaded tree leaves it untouched *)
Definition good (early : bool) (n : ryaml) : Prop :=
  r_wf n = true /\ (if early then r_resolved n = true else r_deferred n = true).

Lemma forallb_snoc {A : Type} (f : A -> bool) l x : forallb f l = true -> f x = true -> forallb f (l ++ [x]) = true.
Proof. intros H1 H2. rewrite forallb_app, H1. cbn. rewrite H2. reflexivity. Qed.

Theorem loaded_nodes_good early evs :
  match load_r early evs with GOk s => Forall (good early) (g_docs s) | GPanic _ => True end.
Proof.
  assert (H : RR ryaml ryaml (fun a b => a = b /\ good early a) (load_r early evs) (load_r early evs)).
  { unfold load_r. apply sim_load; [| | | | | | | |apply SR_g0]; unfold good.
    - intros v st tg sp. split; [reflexivity|]. cbn [r_ops o_scalar]. destruct early; [|split; reflexivity].
      destruct (scalar_value v st tg); split; reflexivity.
    - intros sp. split; [reflexivity|]. destruct early; split; reflexivity.
    - intros sp. split; [reflexivity|]. destruct early; split; reflexivity.
    - intros sp. split; [reflexivity|]. destruct early; split; reflexivity.
    - intros a b sp H. exact H.
    - intros a b [H _]. subst b. reflexivity.
    - intros a b x y [Ha [Wa Ga]] [Hx [Wx Gx]] Hk. subst b y. split; [reflexivity|].
      destruct a as [| |l| |]; try discriminate Hk. cbn [r_ops o_push]. cbn [r_wf] in Wa. split.
      + cbn [r_wf]. apply forallb_snoc; assumption.
      + destruct early; [cbn [r_resolved] in *|cbn [r_deferred] in *]; apply forallb_snoc; assumption.
    - intros a b k k' v v' [Ha [Wa Ga]] [Hk [Wk Gk]] [Hv [Wv Gv]] Hkind. subst b k' v'. split; [reflexivity|].
      destruct a as [| | |l|]; try discriminate Hkind. cbn [r_ops o_insert].
      rewrite r_wf_map in Wa. apply andb_true_iff in Wa. destruct Wa as [Wn Wp]. split.
      + rewrite r_wf_map. apply andb_true_iff. split; [apply nodupb_ins; try req; exact Wn|].
        apply pairs_all_insert; assumption.
      + destruct early; [rewrite r_resolved_map in *|rewrite r_deferred_map in *]; apply pairs_all_insert; assumption. }
  destruct (load_r early evs) as [s|n]; [|exact I]. destruct H as [Hd _].
  revert Hd. generalize (g_docs s). intros l Hd.
  remember l as l' eqn:E in Hd at 2. clear E.
  induction Hd as [|a b l l' [_ G] _ IH]; constructor; assumption.
Qed.

Corollary resolve_leaves_eager_untouched evs :
  match load_r true evs with GOk s => map r_resolve (g_docs s) = g_docs s | GPanic _ => True end.
Proof.
  pose proof (loaded_nodes_good true evs) as H. destruct (load_r true evs) as [s|n]; [|exact I].
  induction H as [|x l [W R] _ IH]; [reflexivity|]. cbn [map]. rewrite IH, (r_resolve_id x R W). reflexivity.
Qed.

(* ---------------------------------------------------------------------------------------------- *)
(* the sharper statement with Leibniz equality is FALSE: when resolution identifies keys, the key  *)
(* object kept can differ (0.0 / -0.0 / 0.0 as keys: eager keeps +0.0, deferred+resolved -0.0);    *)
(* it holds whenever resolution is injective on the keys of every mapping                          *)
(* ---------------------------------------------------------------------------------------------- *)
Definition sp0 : span := span_empty {| m_index := 0; m_line := 0; m_col := 0 |}.
Definition plain (s : str) : event * span := (EScalar s Plain 0 None, sp0).
Definition zero_keys : list (event * span) :=
  [(EStreamStart, sp0); (EDocumentStart false, sp0); (EMappingStart 0 None, sp0);
   plain [48;46;48]%N; plain [97]%N; plain [45;48;46;48]%N; plain [98]%N; plain [48;46;48]%N; plain [99]%N;
   (EMappingEnd, sp0); (EDocumentEnd, sp0); (EStreamEnd, sp0)].

Definition deferred_resolved_equals_eager_leibniz : Prop :=
  forall evs, option_map (map r_resolve) (docs_of (load_r false evs)) = docs_of (load_r true evs).

Theorem deferred_resolved_equals_eager_leibniz_refuted : ~ deferred_resolved_equals_eager_leibniz.
Proof. intros H. specialize (H zero_keys). vm_compute in H. discriminate H. Qed.
