(* C19 — proofs about the node types and loading modes of Model/Nodes.v. *)
From Coq Require Import List NArith ZArith Bool Lia.
Import ListNotations.
Require Import Parser Resolver Loader LinkedMap Nodes InsertTheory.

(* ---------------------------------------------------------------------------------------------- *)
(* induction principles for the rose trees                                                        *)
(* ---------------------------------------------------------------------------------------------- *)
Section ryaml_induction.
  Variable P : ryaml -> Prop.
  Hypothesis Hrep : forall v st tg, P (RRep v st tg).
  Hypothesis Hval : forall s, P (RVal s).
  Hypothesis Hseq : forall l, Forall P l -> P (RSeq l).
  Hypothesis Hmap : forall l, Forall (fun kv => P (fst kv) /\ P (snd kv)) l -> P (RMap l).
  Hypothesis Hbad : P RBad.
  Fixpoint ryaml_ind2 (t : ryaml) : P t :=
    match t with
    | RRep v st tg => Hrep v st tg
    | RVal s => Hval s
    | RSeq l => Hseq l ((fix go (l : list ryaml) : Forall P l :=
                           match l with [] => Forall_nil _ | x :: r => Forall_cons x (ryaml_ind2 x) (go r) end) l)
    | RMap l => Hmap l ((fix go (l : list (ryaml * ryaml)) : Forall (fun kv => P (fst kv) /\ P (snd kv)) l :=
                           match l with
                           | [] => Forall_nil _
                           | (k, v) :: r => Forall_cons (k, v) (conj (ryaml_ind2 k) (ryaml_ind2 v)) (go r)
                           end) l)
    | RBad => Hbad
    end.
End ryaml_induction.

Section myaml_induction.
  Variable P : myaml -> Prop.
  Hypothesis Hrep : forall sp v st tg, P (MRep sp v st tg).
  Hypothesis Hval : forall sp s, P (MVal sp s).
  Hypothesis Hseq : forall sp l, Forall P l -> P (MSeq sp l).
  Hypothesis Hmap : forall sp l, Forall (fun kv => P (fst kv) /\ P (snd kv)) l -> P (MMap sp l).
  Hypothesis Hbad : forall sp, P (MBad sp).
  Fixpoint myaml_ind2 (t : myaml) : P t :=
    match t with
    | MRep sp v st tg => Hrep sp v st tg
    | MVal sp s => Hval sp s
    | MSeq sp l => Hseq sp l ((fix go (l : list myaml) : Forall P l :=
                           match l with [] => Forall_nil _ | x :: r => Forall_cons x (myaml_ind2 x) (go r) end) l)
    | MMap sp l => Hmap sp l ((fix go (l : list (myaml * myaml)) : Forall (fun kv => P (fst kv) /\ P (snd kv)) l :=
                           match l with
                           | [] => Forall_nil _
                           | (k, v) :: r => Forall_cons (k, v) (conj (myaml_ind2 k) (myaml_ind2 v)) (go r)
                           end) l)
    | MBad sp => Hbad sp
    end.
End myaml_induction.

Section yaml_induction.
  Variable P : yaml -> Prop.
  Hypothesis Hval : forall s, P (YVal s).
  Hypothesis Hseq : forall l, Forall P l -> P (YSeq l).
  Hypothesis Hmap : forall l, Forall (fun kv => P (fst kv) /\ P (snd kv)) l -> P (YMap l).
  Hypothesis Hbad : P YBad.
  Fixpoint yaml_ind2 (t : yaml) : P t :=
    match t with
    | YVal s => Hval s
    | YSeq l => Hseq l ((fix go (l : list yaml) : Forall P l :=
                           match l with [] => Forall_nil _ | x :: r => Forall_cons x (yaml_ind2 x) (go r) end) l)
    | YMap l => Hmap l ((fix go (l : list (yaml * yaml)) : Forall (fun kv => P (fst kv) /\ P (snd kv)) l :=
                           match l with
                           | [] => Forall_nil _
                           | (k, v) :: r => Forall_cons (k, v) (conj (yaml_ind2 k) (yaml_ind2 v)) (go r)
                           end) l)
    | YBad => Hbad
    end.
End yaml_induction.

(* the list helpers hidden in the nested fixpoints, with names *)
Definition erase_pairs : list (myaml * myaml) -> list (ryaml * ryaml) :=
  fix go l := match l with [] => [] | (k, v) :: r => (erase k, erase v) :: go r end.
Definition embed_pairs : list (yaml * yaml) -> list (ryaml * ryaml) :=
  fix go l := match l with [] => [] | (k, v) :: r => (embed k, embed v) :: go r end.
Definition r_eqb_list : list ryaml -> list ryaml -> bool :=
  fix go l l' := match l, l' with [], [] => true | x :: r, y :: r' => r_eqb x y && go r r' | _, _ => false end.
Definition r_eqb_pairs : list (ryaml * ryaml) -> list (ryaml * ryaml) -> bool :=
  fix go l l' := match l, l' with
                 | [], [] => true
                 | (k, v) :: r, (k', v') :: r' => r_eqb k k' && r_eqb v v' && go r r'
                 | _, _ => false end.
Definition m_eqb_list : list myaml -> list myaml -> bool :=
  fix go l l' := match l, l' with [], [] => true | x :: r, y :: r' => m_eqb x y && go r r' | _, _ => false end.
Definition m_eqb_pairs : list (myaml * myaml) -> list (myaml * myaml) -> bool :=
  fix go l l' := match l, l' with
                 | [], [] => true
                 | (k, v) :: r, (k', v') :: r' => m_eqb k k' && m_eqb v v' && go r r'
                 | _, _ => false end.
Definition resolve_pairs : list (ryaml * ryaml) -> list (ryaml * ryaml) :=
  fix go l := match l with [] => [] | (k, v) :: r => (r_resolve k, r_resolve v) :: go r end.
Definition m_resolve_pairs : list (myaml * myaml) -> list (myaml * myaml) :=
  fix go l := match l with [] => [] | (k, v) :: r => (m_resolve k, m_resolve v) :: go r end.

Lemma erase_map sp l : erase (MMap sp l) = RMap (erase_pairs l). Proof. reflexivity. Qed.
Lemma embed_map l : embed (YMap l) = RMap (embed_pairs l). Proof. reflexivity. Qed.
Lemma r_eqb_seq l l' : r_eqb (RSeq l) (RSeq l') = r_eqb_list l l'. Proof. reflexivity. Qed.
Lemma r_eqb_map l l' : r_eqb (RMap l) (RMap l') = r_eqb_pairs l l'. Proof. reflexivity. Qed.
Lemma m_eqb_seq s s' l l' : m_eqb (MSeq s l) (MSeq s' l') = m_eqb_list l l'. Proof. reflexivity. Qed.
Lemma m_eqb_map s s' l l' : m_eqb (MMap s l) (MMap s' l') = m_eqb_pairs l l'. Proof. reflexivity. Qed.
Lemma r_resolve_map l : r_resolve (RMap l) = RMap (lm_collect r_eqb (resolve_pairs l)). Proof. reflexivity. Qed.
Lemma m_resolve_map sp l : m_resolve (MMap sp l) = MMap sp (lm_collect m_eqb (m_resolve_pairs l)). Proof. reflexivity. Qed.
Lemma resolve_pairs_map l : resolve_pairs l = map (fp ryaml r_resolve) l.
Proof. induction l as [|[k v] r IH]; [reflexivity|]. cbn [resolve_pairs map fp fst snd]. f_equal. exact IH. Qed.

(* ---------------------------------------------------------------------------------------------- *)
(* equality is an equivalence: it is Leibniz equality of normal forms (floats through OrderedFloat) *)
(* ---------------------------------------------------------------------------------------------- *)
Lemma pstr_eqb_eq a b : Parser.str_eqb a b = true <-> a = b.
Proof. unfold Parser.str_eqb. destruct (list_eq_dec N.eq_dec a b); split; congruence. Qed.
Lemma rstr_eqb_eq a b : Resolver.str_eqb a b = true <-> a = b.
Proof. unfold Resolver.str_eqb. destruct (list_eq_dec N.eq_dec a b); split; congruence. Qed.
Lemma style_eqb_eq a b : style_eqb a b = true <-> a = b.
Proof. destruct a, b; cbn; split; congruence. Qed.
Lemma otag_eqb_eq a b : otag_eqb a b = true <-> a = b.
Proof.
  destruct a as [[h s]|], b as [[h' s']|]; cbn [otag_eqb]; try (split; congruence).
  unfold tag_eqb. cbn [tg_handle tg_suffix]. rewrite andb_true_iff, !pstr_eqb_eq. split.
  - intros [A B]; subst; reflexivity.
  - intros H; inversion H; auto.
Qed.

Lemma feqb_spec a b : feqb a b = true <-> fnorm a = fnorm b.
Proof.
  unfold feqb. destruct (fnorm a) as [|x|n m e], (fnorm b) as [|y|n' m' e']; try (split; congruence).
  - rewrite Bool.eqb_true_iff. split; congruence.
  - rewrite !andb_true_iff, Bool.eqb_true_iff, !Z.eqb_eq. split.
    + intros [[A B] C]; subst; reflexivity.
    + intros H; inversion H; auto.
Qed.

Definition snorm (s : scalar) : scalar := match s with SFloat f => SFloat (fnorm f) | _ => s end.
Lemma scalar_eqb_spec a b : scalar_eqb a b = true <-> snorm a = snorm b.
Proof.
  destruct a, b; cbn [scalar_eqb snorm]; try (split; congruence).
  - rewrite Bool.eqb_true_iff. split; congruence.
  - rewrite Z.eqb_eq. split; congruence.
  - rewrite feqb_spec. split; congruence.
  - rewrite rstr_eqb_eq. split; congruence.
Qed.

Definition rnorm_pairs (f : ryaml -> ryaml) : list (ryaml * ryaml) -> list (ryaml * ryaml) :=
  fix go l := match l with [] => [] | (k, v) :: r => (f k, f v) :: go r end.
Fixpoint rnorm (n : ryaml) : ryaml :=
  match n with
  | RVal s => RVal (snorm s)
  | RSeq l => RSeq (map rnorm l)
  | RMap l => RMap (rnorm_pairs rnorm l)
  | other => other
  end.

Lemma r_eqb_spec : forall a b, r_eqb a b = true <-> rnorm a = rnorm b.
Proof.
  induction a as [v st tg|s|l IH|l IH|] using ryaml_ind2; intros b.
  - destruct b; cbn [r_eqb rnorm]; try (split; congruence).
    rewrite !andb_true_iff, pstr_eqb_eq, style_eqb_eq, otag_eqb_eq. split.
    + intros [[A B] C]; subst; reflexivity.
    + intros H; inversion H; auto.
  - destruct b; cbn [r_eqb rnorm]; try (split; congruence).
    rewrite scalar_eqb_spec. split; congruence.
  - destruct b as [| |l'| |]; try (cbn [r_eqb rnorm]; split; congruence).
    rewrite r_eqb_seq. cbn [rnorm].
    assert (H : r_eqb_list l l' = true <-> map rnorm l = map rnorm l').
    { revert l'. induction IH as [|x r Hx _ IHr]; intros [|y r']; cbn [r_eqb_list map]; try (split; congruence).
      rewrite andb_true_iff, Hx, IHr. split.
      - intros [A B]; congruence.
      - intros H; inversion H; auto. }
    rewrite H. split; congruence.
  - destruct b as [| | |l'|]; try (cbn [r_eqb rnorm]; split; congruence).
    rewrite r_eqb_map. cbn [rnorm].
    assert (H : r_eqb_pairs l l' = true <-> rnorm_pairs rnorm l = rnorm_pairs rnorm l').
    { revert l'. induction IH as [|[k v] r [Hk Hv] _ IHr]; intros [|[k' v'] r']; cbn [r_eqb_pairs rnorm_pairs];
        try (split; congruence).
      cbn [fst snd] in Hk, Hv. rewrite !andb_true_iff, Hk, Hv, IHr. split.
      - intros [[A B] C]; congruence.
      - intros H; inversion H; auto. }
    rewrite H. split; congruence.
  - destruct b; cbn [r_eqb rnorm]; split; congruence.
Qed.

Lemma r_eqb_refl a : r_eqb a a = true.
Proof. apply r_eqb_spec. reflexivity. Qed.
Lemma r_eqb_sym a b : r_eqb a b = r_eqb b a.
Proof.
  destruct (r_eqb a b) eqn:E1, (r_eqb b a) eqn:E2; try reflexivity.
  - apply r_eqb_spec in E1. symmetry in E1. apply r_eqb_spec in E1. congruence.
  - apply r_eqb_spec in E2. symmetry in E2. apply r_eqb_spec in E2. congruence.
Qed.
Lemma r_eqb_trans a b c : r_eqb a b = true -> r_eqb b c = true -> r_eqb a c = true.
Proof. rewrite !r_eqb_spec. congruence. Qed.

(* equality of maps is pointwise equality of the entries, in iteration order *)
Lemma r_eqb_pairs_leq l l' : r_eqb_pairs l l' = true <-> leq ryaml r_eqb l l'.
Proof.
  revert l'. induction l as [|[k v] r IH]; intros [|[k' v'] r']; cbn [r_eqb_pairs].
  - split; [constructor|reflexivity].
  - split; [discriminate|intros H; inversion H].
  - split; [discriminate|intros H; inversion H].
  - rewrite !andb_true_iff, IH. split.
    + intros [[A B] C]. constructor; [split; assumption|exact C].
    + intros H; inversion H as [|? ? ? ? [A B] C]; subst. auto.
Qed.
Lemma r_eqb_list_forall2 l l' : r_eqb_list l l' = true <-> Forall2 (fun a b => r_eqb a b = true) l l'.
Proof.
  revert l'. induction l as [|x r IH]; intros [|y r']; cbn [r_eqb_list].
  - split; [constructor|reflexivity].
  - split; [discriminate|intros H; inversion H].
  - split; [discriminate|intros H; inversion H].
  - rewrite andb_true_iff, IH. split.
    + intros [A B]. constructor; assumption.
    + intros H; inversion H; subst. auto.
Qed.

(* ---------------------------------------------------------------------------------------------- *)
(* marked nodes: equality, hashing and resolution ignore the spans                                *)
(* ---------------------------------------------------------------------------------------------- *)
Theorem m_eqb_erase : forall a b, m_eqb a b = r_eqb (erase a) (erase b).
Proof.
  induction a as [sp v st tg|sp s|sp l IH|sp l IH|sp] using myaml_ind2; intros b; destruct b as [sp' v' st' tg'|sp' s'|sp' l'|sp' l'|sp'];
    try reflexivity.
  - rewrite m_eqb_seq. cbn [erase]. rewrite r_eqb_seq.
    revert l'. induction IH as [|x r Hx _ IHr]; intros [|y r']; cbn [m_eqb_list map r_eqb_list]; try reflexivity.
    rewrite Hx, IHr. reflexivity.
  - rewrite m_eqb_map, !erase_map, r_eqb_map.
    revert l'. induction IH as [|[k v] r [Hk Hv] _ IHr]; intros [|[k' v'] r']; cbn [m_eqb_pairs erase_pairs r_eqb_pairs];
      try reflexivity.
    cbn [fst snd] in Hk, Hv. rewrite Hk, Hv, IHr. reflexivity.
Qed.

Theorem m_hash_erase : forall a, m_hash a = r_hash (erase a).
Proof.
  induction a as [sp v st tg|sp s|sp l IH|sp l IH|sp] using myaml_ind2; try reflexivity.
  - cbn [m_hash erase r_hash]. rewrite map_length. do 2 f_equal.
    induction IH as [|x r Hx _ IHr]; [reflexivity|]. cbn [flat_map map]. rewrite Hx, IHr. reflexivity.
  - rewrite erase_map. cbn [m_hash r_hash]. f_equal.
    induction IH as [|[k v] r [Hk Hv] _ IHr]; [reflexivity|]. cbn [fst snd] in Hk, Hv.
    cbn [erase_pairs]. rewrite Hk, Hv, IHr. reflexivity.
Qed.

(* equal nodes hash alike (Hash/Eq consistency, which the hash map relies on) *)
Lemma scalar_hash_eqb a b : scalar_eqb a b = true -> scalar_hash a = scalar_hash b.
Proof.
  intros H. apply scalar_eqb_spec in H. destruct a, b; cbn [snorm] in H; try congruence.
  cbn [scalar_hash]. inversion H. reflexivity.
Qed.

Theorem r_hash_eqb : forall a b, r_eqb a b = true -> r_hash a = r_hash b.
Proof.
  induction a as [v st tg|s|l IH|l IH|] using ryaml_ind2; intros b H; destruct b as [v' st' tg'|s'|l'|l'|]; try discriminate H.
  - cbn [r_eqb] in H. rewrite !andb_true_iff, pstr_eqb_eq, style_eqb_eq, otag_eqb_eq in H.
    destruct H as [[A B] C]; subst. reflexivity.
  - cbn [r_eqb] in H. cbn [r_hash]. f_equal. apply scalar_hash_eqb; exact H.
  - rewrite r_eqb_seq in H. cbn [r_hash].
    assert (E : length l = length l' /\ flat_map r_hash l = flat_map r_hash l').
    { revert l' H. induction IH as [|x r Hx _ IHr]; intros [|y r'] H; cbn [r_eqb_list] in H; try discriminate H.
      - split; reflexivity.
      - apply andb_true_iff in H. destruct H as [A B]. destruct (IHr r' B) as [L Fm].
        cbn [length flat_map]. rewrite L, Fm, (Hx y A). split; reflexivity. }
    destruct E as [L Fm]. rewrite L, Fm. reflexivity.
  - rewrite r_eqb_map in H. cbn [r_hash]. f_equal.
    revert l' H. induction IH as [|[k v] r [Hk Hv] _ IHr]; intros [|[k' v'] r'] H; cbn [r_eqb_pairs] in H; try discriminate H.
    + reflexivity.
    + cbn [fst snd] in Hk, Hv. rewrite !andb_true_iff in H. destruct H as [[A B] C].
      rewrite (Hk k' A), (Hv v' B), (IHr r' C). reflexivity.
  - reflexivity.
Qed.

(* ---------------------------------------------------------------------------------------------- *)
(* one simulation theorem for the generic loader: two node algebras related operation by operation *)
(* stay related through every run (same panic site, related documents / stacks / anchors)          *)
(* ---------------------------------------------------------------------------------------------- *)
Section Simulation.
  Variables A B : Type.
  Variable OA : ops A.
  Variable OB : ops B.
  Variable Q : A -> B -> Prop.
  Hypothesis Q_scalar : forall v st tg sp, Q (o_scalar OA v st tg sp) (o_scalar OB v st tg sp).
  Hypothesis Q_seq : forall sp, Q (o_seq OA sp) (o_seq OB sp).
  Hypothesis Q_map : forall sp, Q (o_map OA sp) (o_map OB sp).
  Hypothesis Q_bad : forall sp, Q (o_bad OA sp) (o_bad OB sp).
  Hypothesis Q_respan : forall a b sp, Q a b -> Q (o_respan OA a sp) (o_respan OB b sp).
  Hypothesis Q_kind : forall a b, Q a b -> o_kind OA a = o_kind OB b.
  Hypothesis Q_push : forall a b x y, Q a b -> Q x y -> o_kind OA a = KSeq -> Q (o_push OA a x) (o_push OB b y).
  Hypothesis Q_insert : forall a b k k' v v', Q a b -> Q k k' -> Q v v' -> o_kind OA a = KMap ->
                                              Q (o_insert OA a k v) (o_insert OB b k' v').

  Definition Qf (x : A * N) (y : B * N) : Prop := Q (fst x) (fst y) /\ snd x = snd y.
  Definition Qa (x : N * A) (y : N * B) : Prop := fst x = fst y /\ Q (snd x) (snd y).
  Definition Qo (x : option A) (y : option B) : Prop :=
    match x, y with None, None => True | Some a, Some b => Q a b | _, _ => False end.
  Definition SR (sa : gl A) (sb : gl B) : Prop :=
    Forall2 Q (g_docs sa) (g_docs sb) /\ Forall2 Qf (g_stack sa) (g_stack sb) /\
    Forall2 Qo (g_keys sa) (g_keys sb) /\ Forall2 Qa (g_anchors sa) (g_anchors sb).
  Definition RR (ra : gres A) (rb : gres B) : Prop :=
    match ra, rb with GOk a, GOk b => SR a b | GPanic n, GPanic m => n = m | _, _ => False end.

  Lemma sim_get id la lb : Forall2 Qa la lb -> Qo (g_get id la) (g_get id lb).
  Proof.
    induction 1 as [|[i a] [j b] la lb [E H] _ IH]; [exact I|].
    cbn [fst snd] in E, H. subst j. cbn [g_get]. destruct (N.eqb i id); [exact H|exact IH].
  Qed.

  Lemma sim_insert da sa ka aa db sb kb ab x y aid :
    SR (Build_gl da sa ka aa) (Build_gl db sb kb ab) -> Q x y ->
    RR (g_insert_new_node OA (Build_gl da sa ka aa) x aid) (g_insert_new_node OB (Build_gl db sb kb ab) y aid).
  Proof.
    intros [Hd [Hs [Hk Ha]]] Hxy. cbn [g_docs g_stack g_keys g_anchors] in Hd, Hs, Hk, Ha.
    unfold g_insert_new_node. cbn [g_docs g_stack g_keys g_anchors].
    assert (Han : Forall2 Qa (if (0 <? aid)%N then (aid, x) :: aa else aa) (if (0 <? aid)%N then (aid, y) :: ab else ab)).
    { destruct (0 <? aid)%N; [constructor; [split; [reflexivity|exact Hxy]|exact Ha]|exact Ha]. }
    inversion Hs as [|[pa ia] [pb ib] ra rb [Hp Hi] Hr]; subst.
    - cbn. repeat split; try assumption. constructor; [split; [exact Hxy|reflexivity]|constructor].
    - cbn [fst snd] in Hp, Hi. subst ib. rewrite <- (Q_kind pa pb Hp).
      destruct (o_kind OA pa) eqn:Ek.
      + cbn. repeat split; try assumption. constructor; [|exact Hr]. split; [|reflexivity].
        cbn [fst]. apply Q_push; assumption.
      + inversion Hk as [|oa ob ka' kb' Ho Hk']; subst; [reflexivity|].
        destruct oa as [keya|], ob as [keyb|]; cbn [Qo] in Ho; try contradiction.
        * cbn. repeat split; try assumption.
          -- constructor; [|exact Hr]. split; [|reflexivity]. cbn [fst]. apply Q_insert; assumption.
          -- constructor; [exact I|exact Hk'].
        * cbn. repeat split; try assumption.
          -- constructor; [split; [exact Hp|reflexivity]|exact Hr].
          -- constructor; [exact Hxy|exact Hk'].
      + cbn. repeat split; try assumption. constructor; [split; [exact Hp|reflexivity]|exact Hr].
  Qed.

  Lemma sim_event sa sb e : SR sa sb -> RR (g_on_event OA sa e) (g_on_event OB sb e).
  Proof.
    destruct sa as [da sa ka aa], sb as [db sb kb ab]. intros H. pose proof H as [Hd [Hs [Hk Ha]]].
    cbn [g_docs g_stack g_keys g_anchors] in Hd, Hs, Hk, Ha.
    destruct e as [ev sp]. destruct ev; cbn [g_on_event g_docs g_stack g_keys g_anchors]; try exact H.
    - (* DocumentEnd *)
      inversion Hs as [|[pa ia] [pb ib] ra rb [Hp Hi] Hr]; subst.
      + cbn. repeat split; try assumption. constructor; [apply Q_bad|exact Hd].
      + inversion Hr; subst; [|reflexivity].
        cbn. repeat split; try assumption. constructor; [exact Hp|exact Hd].
    - (* Alias *)
      apply sim_insert; [exact H|].
      pose proof (sim_get id aa ab Ha) as Hg.
      destruct (g_get id aa), (g_get id ab); cbn [Qo] in Hg; try contradiction; [apply Q_respan; exact Hg|apply Q_bad].
    - (* Scalar *) apply sim_insert; [exact H|apply Q_scalar].
    - (* SequenceStart *)
      cbn. repeat split; try assumption. constructor; [split; [apply Q_seq|reflexivity]|exact Hs].
    - (* SequenceEnd *)
      inversion Hs as [|[pa ia] [pb ib] ra rb [Hp Hi] Hr]; subst; [reflexivity|].
      cbn [fst snd] in Hp, Hi. subst ib. apply sim_insert; [|exact Hp].
      repeat split; assumption.
    - (* MappingStart *)
      cbn. repeat split; try assumption.
      + constructor; [split; [apply Q_map|reflexivity]|exact Hs].
      + constructor; [exact I|exact Hk].
    - (* MappingEnd *)
      inversion Hk as [|oa ob ka' kb' Ho Hk']; subst; [reflexivity|].
      inversion Hs as [|[pa ia] [pb ib] ra rb [Hp Hi] Hr]; subst; [reflexivity|].
      cbn [fst snd] in Hp, Hi. subst ib. apply sim_insert; [|exact Hp].
      repeat split; assumption.
  Qed.

  Theorem sim_load evs : forall sa sb, SR sa sb -> RR (g_load OA evs sa) (g_load OB evs sb).
  Proof.
    induction evs as [|e r IH]; intros sa sb H; cbn [g_load]; [exact H|].
    pose proof (sim_event sa sb e H) as He.
    destruct (g_on_event OA sa e) as [sa'|n], (g_on_event OB sb e) as [sb'|m]; cbn [RR] in He; try contradiction.
    - apply IH; exact He.
    - exact He.
  Qed.

  Lemma SR_g0 : SR g0 g0.
  Proof. repeat split; constructor. Qed.
End Simulation.
