(* C05 in document context: see the header comment at the theorems below. *)
From Coq Require Import List NArith ZArith Bool Arith Lia.
Import ListNotations.
Require Import Parser SBase SPrim SDir SScalar SFetch Pipe Drivers TokenGrammar FlowText BlockText ScanFlowProofs ScanBlockProofs ScanFrame TokenGrammarProofs TokenStreamProofs BlockScalar BlockScalarProofs BlockScalarCase ScalarContext.
Open Scope N_scope.
Open Scope mon_scope.

#[local] Arguments N.add : simpl never.
#[local] Arguments N.sub : simpl never.
#[local] Arguments N.mul : simpl never.
#[local] Arguments N.ltb : simpl nomatch.
#[local] Arguments N.leb : simpl nomatch.
#[local] Arguments Z.of_N : simpl never.
#[local] Arguments Z.ltb : simpl never.
#[local] Arguments Z.leb : simpl never.
#[local] Arguments Z.eqb : simpl never.
#[local] Arguments Z.add : simpl never.
#[local] Arguments bind {I A B} m f s /.
#[local] Arguments ret {I A} a s /.
#[local] Arguments get {I} s /.
#[local] Arguments put {I} s _ /.
#[local] Arguments modify {I} f s /.
#[local] Arguments gets {I A} f s /.
#[local] Arguments fail {I A} site m _ /.
#[local] Arguments upd {I} s i m t /.
#[local] Arguments set_in {I} i s /.
#[local] Arguments set_mark {I} m s /.
#[local] Arguments set_tokens {I} t s /.
#[local] Arguments set_flags {I} s ss se adj ska ta lws /.
#[local] Arguments set_ska {I} b s /.
#[local] Arguments set_lws {I} b s /.
#[local] Arguments set_adj {I} n s /.
#[local] Arguments set_ta {I} b s /.
#[local] Arguments set_ss {I} b s /.
#[local] Arguments set_se {I} b s /.
#[local] Arguments set_struct {I} s sks ind inds fl tp ifms /.
#[local] Arguments set_sks {I} l s /.
#[local] Arguments set_indent {I} z l s /.
#[local] Arguments set_fl {I} n s /.
#[local] Arguments set_tp {I} n s /.
#[local] Arguments set_ifms {I} l s /.
#[local] Arguments skip_to_next_token : simpl never.
#[local] Arguments stale_simple_keys : simpl never.
#[local] Arguments plain_chunk : simpl never.
#[local] Arguments plain_blanks : simpl never.
#[local] Arguments scan_plain_scalar : simpl never.
#[local] Arguments scan_block_scalar : simpl never.
#[local] Arguments scan_flow_scalar : simpl never.
#[local] Arguments fetch_stream_start : simpl never.
#[local] Arguments fetch_stream_end : simpl never.
#[local] Arguments fetch_directive : simpl never.
#[local] Arguments fetch_document_indicator : simpl never.
#[local] Arguments fetch_flow_collection_start : simpl never.
#[local] Arguments fetch_flow_collection_end : simpl never.
#[local] Arguments fetch_flow_entry : simpl never.
#[local] Arguments fetch_block_entry : simpl never.
#[local] Arguments fetch_key : simpl never.
#[local] Arguments fetch_value : simpl never.
#[local] Arguments fetch_flow_value : simpl never.
#[local] Arguments fetch_anchor : simpl never.
#[local] Arguments fetch_tag : simpl never.
#[local] Arguments fetch_block_scalar : simpl never.
#[local] Arguments fetch_flow_scalar : simpl never.
#[local] Arguments fetch_plain_scalar : simpl never.
#[local] Arguments fetch_next_token : simpl never.
#[local] Arguments fetch_more_tokens : simpl never.
#[local] Arguments next_token : simpl never.
#[local] Arguments scan_all : simpl never.
#[local] Arguments fnt_rest : simpl never.
#[local] Arguments skip_ws_to_eol : simpl never.
#[local] Arguments insert_token : simpl never.
#[local] Arguments need_comp : simpl never.
#[local] Arguments unroll_indent : simpl never.
#[local] Arguments roll_indent : simpl never.
#[local] Arguments roll_one_col_indent : simpl never.
#[local] Arguments unroll_non_block_indents : simpl never.
#[local] Arguments save_simple_key : simpl never.
#[local] Arguments popk : simpl never.
#[local] Arguments ntb : simpl never.


(* ---------- the dispatch of fetch_next_token on a block-scalar indicator ---------- *)
Definition ind_char (literal : bool) : N := if literal then 124 else 62.

Lemma rest_block F (lit : bool) cs l i ln c q adj ska k ind inds tp ta lws :
  (4 <= l)%nat -> (Z.of_N c <? ind)%Z = false ->
  fnt_rest F (mkb (ind_char lit :: cs) l (mkm i ln c) q adj ska k ind inds tp ta lws)
  = fetch_block_scalar str_ops F lit (mkb (ind_char lit :: cs) l (mkm i ln c) q adj ska k ind inds tp ta lws).
Proof.
  intros Hl Hcol. destruct (leb_look l Hl) as [L3 L2].
  unfold fnt_rest, mkb, mkm. destruct lit; cbn; (destruct (c =? 0); cbn;
    [ unfold next_is_document_start, next_is_document_end, next_3_are, assert_buflen; cbn; rewrite L3; cbn; rewrite L2; cbn;
      rewrite ?L3; cbn; rewrite ?L2; cbn; rewrite Hcol; cbn; reflexivity
    | rewrite Hcol; cbn; reflexivity ]).
Qed.

#[local] Arguments case_block : simpl never.
#[local] Arguments case_rest : simpl never.
#[local] Arguments case_value : simpl never.
#[local] Arguments saved : simpl never.

(* ---------- fetch_block_scalar on a case of the specification ---------- *)
Definition bstyle (b : bcase) : style := if bc_literal b then Literal else Folded.

(* From a state in normal form that stands at the indicator of the case, with a stack whose non-block entries unroll to the
   parent indentation of the case: C05_case_partial gives the token and the rest of the input, the frame theorem of
   Proofs/ScanFrame.v everything else but the mark, the look-ahead and two flags. *)
Lemma fetch_block_case F b l mk q adj ska k ind inds tp lws inds1 :
  case_ok b = true -> leading_tab_b b = false ->
  unroll_nb inds ind = (parent_z (bc_parent b), inds1) -> (case_fuel b < F)%nat ->
  ((ind =? Z.of_N (m_col mk))%Z = true -> inds <> []) ->
  exists l' mk' sp ska' lws' ind' inds',
    fetch_block_scalar str_ops F (bc_literal b) (mkb (case_block b) l mk q adj ska k ind inds tp false lws)
    = Ok (tt, mkb (case_rest b) l' mk' (q ++ [(sp, TScalar (bstyle b) (case_value b))]) adj ska' (saved ska k ind inds tp q mk) ind' inds' tp false lws')
    /\ nbrel (ind, inds) (ind', inds').
Proof.
  intros Hok Htab Hun HF Hreq.
  unfold fetch_block_scalar. cbn [bind].
  rewrite (save_key_b (case_block b) l mk q adj ska k ind inds tp false lws Hreq). unfold allow_simple_key. unfold mkb at 1. cbn.
  set (S1 := {| sc_in := {| si_chars := case_block b; si_look := l |}; sc_mark := mk; sc_tokens := q; sc_stream_start := true;
                sc_stream_end := false; sc_adjacent := adj; sc_ska := true; sc_sks := [saved ska k ind inds tp q mk];
                sc_indent := ind; sc_indents := inds; sc_flow_level := 0; sc_tokens_parsed := tp; sc_token_available := false;
                sc_lws := lws; sc_ifms := [] |}).
  destruct (block_scalar_case b S1 F inds1 Hok Htab eq_refl Hun HF) as (sp & s' & E & Hrest).
  pose proof (Fr_scan_block_scalar str_ops F (bc_literal b) S1 _ s' E) as Hfr.
  rewrite E. cbn.
  destruct s' as [[chars look] mk' toks ss se adj' ska' sks' ind' inds' fl tp' ta' lws' ifms'].
  unfold frame in Hfr. cbn in Hfr, Hrest.
  destruct Hfr as (A1 & A2 & A3 & A4 & A5 & A6 & A7 & A8 & A9 & A10 & A11). subst.
  exists look, mk', sp, ska', lws', ind', inds'. split; [|exact A11].
  unfold push_tok, mkb, bstyle. cbn. reflexivity.
Qed.

Lemma case_block_head b : exists cs, case_block b = ind_char (bc_literal b) :: cs.
Proof.
  unfold case_block, render_block, header, with_breaks, ind_char. destruct (bc_literal b); cbn [app flat_map]; eexists; reflexivity.
Qed.

Lemma ind_char_first lit : first_ok (ind_char lit) /\ (ind_char lit =? 0) = false.
Proof. destruct lit; repeat split; reflexivity. Qed.

(* ---------- a block scalar that ends the input, as the node at a token position / behind "key: " ---------- *)
Definition ends_with (F : nat) (s : sc strin) (T : list tok) : Prop :=
  exists toks, map snd toks = T /\
    forall fuel acc, (length toks < fuel)%nat -> scan_all str_ops F fuel s acc = (rev acc ++ toks, SEnded).

Lemma block_end_tok F s b c cols :
  at_tok s (case_block b) c cols -> (fst (stk cols) < Z.of_nat c)%Z -> fst (stk cols) = parent_z (bc_parent b) ->
  case_ok b = true -> leading_tab_b b = false -> case_rest b = [] -> (case_fuel b < F)%nat -> (3 <= F)%nat ->
  ends_with F s (TScalar (bstyle b) (case_value b) :: repeat TBlockEnd (length cols) ++ [TStreamEnd]).
Proof.
  intros Hat Hlt Hpar Hok Htab Hrest HF HF3.
  destruct (case_block_head b) as (cs & Ecb). destruct (ind_char_first (bc_literal b)) as [Hfo Hnz].
  assert (Hbase : base_le cols (Z.of_nat c)) by (destruct cols as [|t r]; cbn in *; lia).
  rewrite Ecb in Hat.
  destruct (arrive_tok F s _ cs c [] cols Hat Hfo Hnz ltac:(constructor) Hbase ltac:(lia))
    as (Hcanon & l' & i & ln & adj & k & tp & lws & Hl' & Hk & Hf).
  cbn [length repeat] in Hf.
  rewrite rest_block in Hf; [ | exact Hl' | apply col_ge_top, Hbase ].
  rewrite <- Ecb in Hf.
  destruct (fetch_block_case F b l' (mkm i ln (N.of_nat c)) [] adj true k (fst (stk cols)) (snd (stk cols)) tp lws (snd (stk cols))
              Hok Htab ltac:(rewrite unroll_nb_stk, <- Hpar; destruct (stk cols); reflexivity) HF (stk_req_ne cols (N.of_nat c)))
    as (l2 & mk2 & sp & ska2 & lws2 & ind2 & inds2 & E & Hnb).
  rewrite E, Hrest in Hf. cbn [app] in Hf.
  destruct (grounded_stk cols ltac:(apply Forall_forall; auto)) as [Hg Hn].
  destruct (nbrel_grounded _ _ _ _ Hg Hnb) as [Hg2 Hn2].
  destruct (end_unit F s l2 mk2 _ adj ska2 _ ind2 inds2 tp lws2 HF3 Hcanon Hf ltac:(discriminate)) as (toks & Hm & Hscan).
  - apply key_free_not_required. unfold saved, req. cbn [newkey sk_required m_col mkm].
    replace (fst (stk cols) =? Z.of_N (N.of_nat c))%Z with false; [reflexivity|]. symmetry. apply Z.eqb_neq. lia.
  - exact Hg2.
  - exists toks. split; [|exact Hscan]. rewrite Hm. cbn [snd]. rewrite Hn2, Hn. reflexivity.
Qed.

Lemma block_end_below F s b top rest :
  at_below s (32 :: case_block b) (top :: rest) -> bc_parent b = Some (N.to_nat top) ->
  case_ok b = true -> leading_tab_b b = false -> case_rest b = [] -> (case_fuel b < F)%nat -> (3 <= F)%nat ->
  ends_with F s (TScalar (bstyle b) (case_value b) :: repeat TBlockEnd (length (top :: rest)) ++ [TStreamEnd]).
Proof.
  intros Hat Hpar Hok Htab Hrest HF HF3.
  destruct (case_block_head b) as (cs & Ecb). destruct (ind_char_first (bc_literal b)) as [Hfo Hnz].
  rewrite Ecb in Hat.
  destruct (arrive_blank F s _ cs (top :: rest) Hat Hfo Hnz ltac:(lia))
    as (Hcanon & l' & i & ln & c1 & adj & ska & k & tp & top' & rest' & [= <- <-] & Hc1 & Hl' & Hk & Hf).
  rewrite rest_block in Hf; [ | exact Hl' | apply Z.ltb_ge; lia ].
  rewrite <- Ecb in Hf.
  destruct (fetch_block_case F b l' (mkm i ln c1) [] adj ska k (Z.of_N top + 1)%Z (nbl (Z.of_N top) :: snd (stk (top :: rest))) tp false
              (snd (stk (top :: rest))) Hok Htab
              ltac:(rewrite unroll_nb_below, Hpar; cbn [parent_z stk fst snd]; rewrite N_nat_Z; reflexivity) HF ltac:(discriminate))
    as (l2 & mk2 & sp & ska2 & lws2 & ind2 & inds2 & E & Hnb).
  rewrite E, Hrest in Hf. cbn [app] in Hf.
  destruct (grounded_below top rest) as [Hg Hn].
  destruct (nbrel_grounded _ _ _ _ Hg Hnb) as [Hg2 Hn2].
  destruct (end_unit F s l2 mk2 _ adj ska2 _ ind2 inds2 tp lws2 HF3 Hcanon Hf ltac:(discriminate)) as (toks & Hm & Hscan).
  - unfold saved. destruct ska; [|apply key_free_not_possible, Hk].
    apply key_free_not_required. unfold req. cbn [newkey sk_required nbl in_needs_block_end]. apply andb_false_r.
  - exact Hg2.
  - exists toks. split; [|exact Hscan]. rewrite Hm. cbn [snd]. rewrite Hn2, Hn. reflexivity.
Qed.

(* ---------- the fuel of the pipeline covers the fuel of a case ---------- *)
Definition fmax (raw : list rline) (z : nat) : nat := fold_right (fun (l : rline) m => Nat.max (fst l + length (snd l)) m) z raw.

Lemma fmax_base raw z : fmax raw z = Nat.max z (fmax raw O).
Proof. induction raw as [|l r IH]; cbn [fmax fold_right]; [lia|]. fold (fmax r z). fold (fmax r O). lia. Qed.

Lemma with_breaks_len brk t : (length t <= length (with_breaks brk t))%nat.
Proof.
  unfold with_breaks. induction t as [|c t IH]; [cbn; lia|]. cbn [flat_map]. rewrite app_length. cbn [length].
  destruct (c =? 10); [destruct (brk =? 1); [cbn; lia|destruct (brk =? 2); cbn; lia]|cbn; lia].
Qed.

Lemma line_len n (l : rline) : (fst l + length (snd l) <= length (render_line n (classify n l)))%nat.
Proof.
  destruct l as [k s]. unfold classify. cbn [fst snd]. destruct s as [|c r].
  - destruct (Nat.leb_spec k n); cbn [render_line]; unfold spaces; rewrite ?app_length, repeat_length; cbn [length]; lia.
  - cbn [render_line]. unfold spaces. rewrite app_length, repeat_length. cbn [length]. lia.
Qed.

Lemma lines_len n raw :
  (length raw + fmax raw O <= length (flat_map (fun l => LF :: render_line n l) (map (classify n) raw)))%nat.
Proof.
  induction raw as [|l r IH]; [cbn; lia|]. cbn [map flat_map length fmax fold_right]. fold (fmax r O).
  rewrite app_length. pose proof (line_len n l). cbn [length]. lia.
Qed.

Lemma first_indent_le raw k : first_text_indent raw = Some k -> (k <= fmax raw O)%nat.
Proof.
  induction raw as [|[j s] r IH]; [discriminate|]. cbn [first_text_indent fmax fold_right fst snd]. fold (fmax r O).
  destruct s as [|c s']; [intros H; specialize (IH H); lia|]. intros [= ->]. lia.
Qed.
Lemma longest_le raw : (longest raw <= fmax raw O)%nat.
Proof. induction raw as [|[j s] r IH]; [cbn; lia|]. unfold longest in *. cbn [fold_right fmax fst snd]. fold (fmax r O). lia. Qed.

Lemma case_fuel_block b : case_ok b = true -> (bc_parent b = None \/ bc_parent b = Some O) ->
  (case_fuel b < 2 * length (case_block b) + 10)%nat.
Proof.
  intros Hok Hpar.
  pose proof (case_ok_facts b (S (case_fuel b)) Hok ltac:(lia)) as Hf. destruct Hf as [_ _ _ _ _ _ _ Hexp _ _].
  unfold case_fuel. fold (fmax (bc_raw b) (case_indent b)). rewrite fmax_base.
  pose proof (with_breaks_len (bc_brk b) (render_block (case_indent b) (bc_literal b) (bc_chomp b) (bc_explicit b) (bc_digit_first b)
                                            (bc_hc b) (case_lines b) (bc_eof b))) as HL.
  fold (case_block b) in HL. unfold render_block in HL. rewrite !app_length in HL.
  pose proof (lines_len (case_indent b) (bc_raw b)) as HLL. fold (case_lines b) in HLL.
  assert (Hh : (1 <= length (header (bc_literal b) (bc_chomp b) (bc_explicit b) (bc_digit_first b)))%nat /\
               ((case_indent b <= Nat.max (fmax (bc_raw b) O) 1)%nat \/
                ((case_indent b <= 9)%nat /\ (2 <= length (header (bc_literal b) (bc_chomp b) (bc_explicit b) (bc_digit_first b)))%nat))).
  { unfold header. split; [cbn [length]; lia|].
    destruct (bc_explicit b) as [d|] eqn:Ee.
    - right. destruct (Hexp d eq_refl) as [Hd _]. split.
      + unfold case_indent, content_indent. rewrite Ee. destruct Hpar as [-> | ->]; lia.
      + cbn [length]. destruct (bc_digit_first b); rewrite app_length; cbn [length]; lia.
    - left. unfold case_indent, content_indent. rewrite Ee.
      destruct (first_text_indent (bc_raw b)) as [k|] eqn:Ef.
      + pose proof (first_indent_le _ _ Ef). lia.
      + pose proof (longest_le (bc_raw b)). destruct Hpar as [-> | ->]; cbn [parent_min]; lia. }
  destruct Hh as [Hh1 Hh2]. lia.
Qed.

Lemma case_text_len b : (length (case_block b) <= length (case_text b))%nat.
Proof. rewrite case_text_split, app_length. lia. Qed.

Lemma with_breaks_nolf brk t : forallb (fun c => negb (c =? 10)) t = true -> with_breaks brk t = t.
Proof.
  unfold with_breaks. induction t as [|c t IH]; [reflexivity|]. cbn [forallb flat_map]. intros H. apply andb_prop in H as [Hc Ht].
  apply negb_true_iff in Hc. rewrite Hc, (IH Ht). reflexivity.
Qed.

Lemma word_nolf w : forallb wch w = true -> forallb (fun c => negb (c =? 10)) w = true.
Proof.
  intros H. apply forallb_forall. intros c Hc. rewrite forallb_forall in H. specialize (H c Hc).
  destruct (wch_facts c H) as (Hb & _). destruct (blankz_facts c Hb) as (_ & _ & H10 & _). rewrite H10. reflexivity.
Qed.

(* ---------- the whole scanner ---------- *)
Definition start_state (txt : list N) : sc strin := mkb txt 1 (mkm 0 1 0) [] 0 true dummy_key (-1)%Z [] 1 false true.
Lemma start_at_tok txt : at_tok (start_state txt) txt 0 [].
Proof. exists 1%nat, 0, 1, 0, dummy_key, 1, true. split; [reflexivity|left; reflexivity]. Qed.

(* the stream start, a prefix of units handed out ([delivers]), then a state from which the scanner ends with T *)
Lemma scan_str_units txt pre s' T :
  delivers (2 * length txt + 10) (start_state txt) pre s' -> ends_with (2 * length txt + 10) s' T ->
  (length pre + length T <= 2 * length txt + 10)%nat ->
  exists toks, scan_str txt = (toks, SEnded) /\ map snd toks = TStreamStart :: map snd pre ++ T.
Proof.
  intros Hd (toks2 & Hm2 & Hscan) Hlen. unfold scan_str. set (F := (2 * length txt + 10)%nat) in *.
  assert (Hl2 : length toks2 = length T) by (rewrite <- Hm2, map_length; reflexivity).
  assert (Etot : exists f2, (4 * F + 20 = S (length pre + f2) /\ length toks2 < f2)%nat).
  { exists (4 * F + 19 - length pre)%nat. unfold token in *. lia. }
  destruct Etot as (f2 & -> & Hf2).
  rewrite scan_all_S, (first_token F txt) by (unfold F; lia). cbv beta iota.
  change (mkst txt 1 (mk1 0) [] 0 true [dummy_key] 0 1 false true []) with (start_state txt).
  rewrite Hd, (Hscan f2 _ Hf2).
  eexists. split; [reflexivity|].
  rewrite rev_app_distr, rev_involutive. cbn [rev app]. cbn [map snd]. f_equal. rewrite map_app. f_equal. exact Hm2.
Qed.

(* T-top: the document IS one block scalar *)
Theorem scan_block_top b :
  case_ok b = true -> leading_tab_b b = false -> bc_parent b = None -> bc_prefix b = [] -> case_rest b = [] ->
  exists toks, scan_str (case_text b) = (toks, SEnded) /\
               map snd toks = wrap false false [TScalar (bstyle b) (case_value b)].
Proof.
  intros Hok Htab Hpar Hpre Hrest.
  assert (Et : case_text b = case_block b) by (rewrite case_text_split, Hpre; reflexivity).
  set (txt := case_text b) in *. set (F := (2 * length txt + 10)%nat).
  assert (HF : (case_fuel b < F)%nat).
  { pose proof (case_fuel_block b Hok (or_introl Hpar)). unfold F. rewrite Et. lia. }
  pose proof (start_at_tok txt) as Hat. rewrite Et in Hat at 2.
  pose proof (block_end_tok F (start_state txt) b 0 [] Hat ltac:(cbn; lia) ltac:(rewrite Hpar; reflexivity) Hok Htab Hrest HF ltac:(unfold F; lia)) as He.
  destruct (scan_str_units txt [] (start_state txt) _ (delivers_nil _ _) He ltac:(cbn [length repeat app]; lia)) as (toks & Es & Hm).
  exists toks. split; [exact Es|]. rewrite Hm. reflexivity.
Qed.

(* T-entry: the only entry of a top-level block sequence *)
Theorem scan_block_entry b :
  case_ok b = true -> leading_tab_b b = false -> bc_parent b = Some O -> bc_prefix b = [45; 32] -> case_rest b = [] ->
  exists toks, scan_str (case_text b) = (toks, SEnded) /\
               map snd toks = wrap false false [TBlockSequenceStart; TBlockEntry; TScalar (bstyle b) (case_value b); TBlockEnd].
Proof.
  intros Hok Htab Hpar Hpre Hrest.
  assert (Et : case_text b = 45 :: 32 :: case_block b).
  { rewrite case_text_split, Hpre. rewrite with_breaks_nolf by reflexivity. reflexivity. }
  set (txt := case_text b) in *. set (F := (2 * length txt + 10)%nat).
  assert (HF : (case_fuel b < F)%nat).
  { pose proof (case_fuel_block b Hok (or_intror Hpar)). unfold F. rewrite Et. cbn [length]. lia. }
  destruct (case_block_head b) as (cs & Ecb). destruct (ind_char_first (bc_literal b)) as [Hfo Hnz].
  pose proof (start_at_tok txt) as Hat. rewrite Et in Hat at 2. rewrite Ecb in Hat.
  destruct (dash_sp F (start_state txt) _ cs 0 [] [] true (or_introl Hat) ltac:(constructor) ltac:(split; cbn; lia)
              (first_ok_not_ws _ Hfo) ltac:(destruct (bc_literal b); reflexivity) ltac:(destruct (bc_literal b); reflexivity) ltac:(unfold F; lia))
    as (pre & s' & Hd & Hmp & Hat').
  rewrite <- Ecb in Hat'. cbn [joined Nat.add] in Hat'.
  pose proof (block_end_tok F s' b 2 [N.of_nat 0] Hat' ltac:(cbn; lia) ltac:(rewrite Hpar; reflexivity) Hok Htab Hrest HF ltac:(unfold F; lia)) as He.
  assert (Hlp : length pre = 2%nat) by (pose proof (f_equal (@length _) Hmp) as Hl; rewrite map_length in Hl; exact Hl).
  destruct (scan_str_units txt pre s' _ Hd He ltac:(rewrite Hlp; cbn [length repeat app]; lia)) as (toks & Es & Hm).
  exists toks. split; [exact Es|]. rewrite Hm, Hmp. reflexivity.
Qed.

(* T-value: the value of the only pair of a top-level block mapping with a one-word plain key *)
Theorem scan_block_value b kw :
  case_ok b = true -> leading_tab_b b = false -> bc_parent b = Some O -> key_ok kw = true -> bc_prefix b = kw ++ [58; 32] ->
  case_rest b = [] ->
  exists toks, scan_str (case_text b) = (toks, SEnded) /\
               map snd toks = wrap false false [TBlockMappingStart; TKey; TScalar Plain kw; TValue; TScalar (bstyle b) (case_value b); TBlockEnd].
Proof.
  intros Hok Htab Hpar Hkw Hpre Hrest.
  destruct (key_ok_word kw Hkw) as (c0 & w & Ekw & Hw & Hlen).
  assert (Et : case_text b = c0 :: w ++ 58 :: 32 :: case_block b).
  { rewrite case_text_split, Hpre. rewrite with_breaks_nolf.
    - rewrite Ekw, <- app_assoc. reflexivity.
    - rewrite forallb_app. rewrite Ekw, (word_nolf _ Hw). reflexivity. }
  set (txt := case_text b) in *. set (F := (2 * length txt + 10)%nat).
  assert (Hlt : (length w + 3 + length (case_block b) = length txt)%nat).
  { rewrite Et. cbn [length]. rewrite app_length. cbn [length]. lia. }
  assert (HF : (case_fuel b < F)%nat).
  { pose proof (case_fuel_block b Hok (or_intror Hpar)). unfold F. lia. }
  pose proof (start_at_tok txt) as Hat. rewrite Et in Hat at 2.
  destruct (key_at_tok F (start_state txt) c0 w 32 (case_block b) 0 [] [] true Hat Hw Hlen (or_introl eq_refl) ltac:(constructor)
              ltac:(split; cbn; lia) ltac:(unfold F; lia))
    as (pre & s' & Hd & Hmp & Hat').
  cbn [joined length repeat app] in Hat', Hmp.
  pose proof (block_end_below F s' b (N.of_nat 0) [] Hat' ltac:(rewrite Hpar; reflexivity) Hok Htab Hrest HF ltac:(unfold F; lia)) as He.
  assert (Hlp : length pre = 4%nat) by (pose proof (f_equal (@length _) Hmp) as Hl; rewrite map_length in Hl; exact Hl).
  destruct (scan_str_units txt pre s' _ Hd He ltac:(rewrite Hlp; cbn [length repeat app]; lia)) as (toks & Es & Hm).
  exists toks. split; [exact Es|]. rewrite Hm, Hmp, Ekw. reflexivity.
Qed.

(* ---------- text -> events: the scanner theorems composed with the parser theorem ---------- *)
(* the scalar ends the input: a final line break or none (Spec/BlockScalar.v: EofNewline / EofNone) *)
Definition ends_input (b : bcase) : bool := match bc_eof b with EofRest _ => false | _ => true end.
Lemma ends_input_rest b : ends_input b = true -> case_rest b = [].
Proof. unfold ends_input, case_rest. destruct (bc_eof b); [reflexivity|reflexivity|discriminate]. Qed.

Lemma run_of_scan txt t toks :
  scan_str txt = (toks, SEnded) -> map snd toks = wrap false false (tokens_of t) ->
  wf_root false t = true -> forallb plain_pev (pre_events t) = true -> (length (pre_events t) <= 8)%nat ->
  map fst (fst (run_str txt)) = wrap_events false (events_of t) /\ snd (run_str txt) = PDone.
Proof.
  intros Es Hm Hwf Hpl Hlen. destruct (run_str_scan txt) as (fuel & Hfuel & ->). rewrite Es.
  apply (parse_wrap t false false toks false SEnded fuel); [exact Hwf | apply bound_plain, Hpl | exact Hm |].
  unfold wrap_events, events_of. cbn [length]. rewrite app_length, number_length. cbn [length]. lia.
Qed.

Definition scalar_node (b : bcase) : ltree := LScalar no_props (bstyle b) (case_value b).

Theorem run_block_top b :
  case_ok b = true -> leading_tab_b b = false -> bc_parent b = None -> bc_prefix b = [] -> ends_input b = true ->
  map fst (fst (run_str (case_text b)))
  = [EStreamStart; EDocumentStart false; EScalar (case_value b) (bstyle b) 0 None; EDocumentEnd; EStreamEnd]
  /\ snd (run_str (case_text b)) = PDone.
Proof.
  intros Hok Htab Hpar Hpre Hend.
  destruct (scan_block_top b Hok Htab Hpar Hpre (ends_input_rest b Hend)) as (toks & Es & Hm).
  exact (run_of_scan (case_text b) (scalar_node b) toks Es Hm eq_refl eq_refl ltac:(cbn; lia)).
Qed.

Theorem run_block_entry b :
  case_ok b = true -> leading_tab_b b = false -> bc_parent b = Some O -> bc_prefix b = [45; 32] -> ends_input b = true ->
  map fst (fst (run_str (case_text b)))
  = [EStreamStart; EDocumentStart false; ESequenceStart 0 None; EScalar (case_value b) (bstyle b) 0 None; ESequenceEnd;
     EDocumentEnd; EStreamEnd]
  /\ snd (run_str (case_text b)) = PDone.
Proof.
  intros Hok Htab Hpar Hpre Hend.
  destruct (scan_block_entry b Hok Htab Hpar Hpre (ends_input_rest b Hend)) as (toks & Es & Hm).
  exact (run_of_scan (case_text b) (LBSeq no_props [scalar_node b]) toks Es Hm eq_refl eq_refl ltac:(cbn; lia)).
Qed.

Theorem run_block_value b kw :
  case_ok b = true -> leading_tab_b b = false -> bc_parent b = Some O -> key_ok kw = true -> bc_prefix b = kw ++ [58; 32] ->
  ends_input b = true ->
  map fst (fst (run_str (case_text b)))
  = [EStreamStart; EDocumentStart false; EMappingStart 0 None; EScalar kw Plain 0 None; EScalar (case_value b) (bstyle b) 0 None;
     EMappingEnd; EDocumentEnd; EStreamEnd]
  /\ snd (run_str (case_text b)) = PDone.
Proof.
  intros Hok Htab Hpar Hkw Hpre Hend.
  destruct (scan_block_value b kw Hok Htab Hpar Hkw Hpre (ends_input_rest b Hend)) as (toks & Es & Hm).
  exact (run_of_scan (case_text b) (LBMap no_props [(true, lword kw, (true, scalar_node b))]) toks Es Hm eq_refl eq_refl ltac:(cbn; lia)).
Qed.
